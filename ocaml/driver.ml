(* Reads one case per line (space separated non-negative ints), prints Model.run's answer.
   Tail-recursive throughout so that long cases do not overflow the OCaml stack. *)
open Model
let rec pos_of_int n =
  if n = 1 then XH else if n land 1 = 0 then XO (pos_of_int (n lsr 1)) else XI (pos_of_int (n lsr 1))
let n_of_int n = if n = 0 then N0 else Npos (pos_of_int n)
let rec int_of_pos = function XH -> 1 | XO p -> 2 * int_of_pos p | XI p -> 2 * int_of_pos p + 1
let int_of_n = function N0 -> 0 | Npos p -> int_of_pos p
let () =
  let buf = Buffer.create 65536 in
  (try
     while true do
       let line = input_line stdin in
       let toks = String.split_on_char ' ' line in
       let inp = List.rev (List.fold_left (fun acc s -> if s = "" then acc else n_of_int (int_of_string s) :: acc) [] toks) in
       let out = run inp in
       Buffer.clear buf;
       List.iter (fun n -> Buffer.add_string buf (string_of_int (int_of_n n)); Buffer.add_char buf ' ') out;
       print_endline (Buffer.contents buf)
     done
   with End_of_file -> ())
