(* Proofs about the scalar / enum leaf coercion model (C16). *)
From GV Require Import Base.Prelude Types.Scalars.

Local Open Scope Z_scope.

(* ------------------------------------------------------------------ value domains *)

Definition int32 (z : Z) : Prop := - 2 ^ 31 <= z <= 2 ^ 31 - 1.

Definition in_domain (sc : scalar) (o : pyval) : Prop :=
  match sc with
  | SInt => exists z, o = PInt z /\ int32 z
  | SFloat => (exists z, o = PInt z /\ (z = 0 \/ z = 1)) \/ (exists n m e, o = PFloat (FFin n m e))
  | SString | SID => exists s, o = PStr s
  | SBoolean => exists b, o = PBool b
  end.

(* o' (what input coercion returns for the emitted o) denotes the same value as o *)
Definition same_meaning (o o' : pyval) : Prop :=
  o' = o \/ exists z f, o = PInt z /\ o' = PFloat f /\ f_int_value f = Some z.

Lemma in_int32_spec z : in_int32 z = true <-> int32 z.
Proof.
  unfold in_int32, int32, GRAPHQL_MIN_INT, GRAPHQL_MAX_INT.
  change (2 ^ 31) with 2147483648.
  rewrite andb_true_iff, !Z.leb_le. lia.
Qed.

(* ------------------------------------------------------------------ exact values of floats *)

Lemma signed_abs b n : 0 <= n -> Z.abs (signed b n) = n.
Proof. destruct b; cbn; lia. Qed.

(* f_int_value is the exact value: the float is  z * 2^0 *)
Lemma f_int_value_exact n m e z :
  f_int_value (FFin n m e) = Some z ->
  (0 <= e /\ z = signed n (Z.of_N m * 2 ^ e)) \/
  (e < 0 /\ Z.of_N m = Z.abs z * 2 ^ (- e) /\ z = signed n (Z.abs z)).
Proof.
  unfold f_int_value. destruct (0 <=? e) eqn:E.
  - intro H; inversion H; subst. left. apply Z.leb_le in E. auto.
  - destruct (Z.of_N m mod 2 ^ (- e) =? 0) eqn:M; [|discriminate].
    intro H; inversion H; subst; clear H. right.
    apply Z.leb_gt in E. apply Z.eqb_eq in M.
    assert (P : 0 < 2 ^ (- e)) by (apply Z.pow_pos_nonneg; lia).
    assert (Q : 0 <= Z.of_N m / 2 ^ (- e)) by (apply Z.div_pos; lia).
    rewrite signed_abs by exact Q.
    split; [exact E|]. split; [|reflexivity].
    rewrite (Z.div_mod (Z.of_N m) (2 ^ (- e))) at 1 by lia. rewrite M. lia.
Qed.

Lemma odd_tz p : 0 <= trailing_zeros p /\ Zpos p = Zpos (odd_part p) * 2 ^ trailing_zeros p.
Proof.
  induction p as [p IH|p IH|]; cbn [odd_part trailing_zeros].
  - rewrite Z.pow_0_r. lia.
  - destruct IH as [H0 H]. split; [lia|].
    rewrite Z.pow_add_r, Z.pow_1_r by lia. rewrite Pos2Z.inj_xO, H at 1. ring.
  - rewrite Z.pow_0_r. lia.
Qed.

Lemma f_int_value_of_int z : f_int_value (float_of_int z) = Some z.
Proof.
  unfold float_of_int. destruct z as [|p|p]; cbn [Z.abs_N Z.ltb Z.compare f_norm].
  - reflexivity.
  - destruct (odd_tz p) as [H0 H]. unfold f_int_value.
    rewrite Z.add_0_l. apply Z.leb_le in H0. rewrite H0. cbn [signed Z.of_N]. rewrite <- H. reflexivity.
  - destruct (odd_tz p) as [H0 H]. unfold f_int_value.
    rewrite Z.add_0_l. apply Z.leb_le in H0. rewrite H0. cbn [signed Z.of_N]. rewrite <- H. reflexivity.
Qed.

Lemma float_of_int_fin z : exists n m e, float_of_int z = FFin n m e.
Proof. unfold float_of_int. destruct z; cbn [Z.abs_N f_norm]; eauto. Qed.

(* ------------------------------------------------------------------ odd part *)

Lemma odd_part_spec p : exists k, 0 <= k /\ Zpos p = Zpos (odd_part p) * 2 ^ k.
Proof.
  induction p as [p IH|p IH|]; cbn [odd_part].
  - exists 0. rewrite Z.pow_0_r. lia.
  - destruct IH as [k [Hk IH]]. exists (k + 1). split; [lia|].
    rewrite Z.pow_add_r, Z.pow_1_r by lia.
    rewrite Pos2Z.inj_xO, IH. ring.
  - exists 0. rewrite Z.pow_0_r. lia.
Qed.

Lemma odd_part_le_factor : forall (k : nat) (p : positive) (m : Z),
  0 < m -> Zpos p = m * 2 ^ (Z.of_nat k) -> Zpos (odd_part p) <= m.
Proof.
  induction k as [|k IH]; intros p m Hm H.
  - cbn [Z.of_nat] in H. rewrite Z.pow_0_r, Z.mul_1_r in H. subst m.
    clear. induction p as [p IH|p IH|]; cbn [odd_part]; lia.
  - rewrite Nat2Z.inj_succ, Z.pow_succ_r in H by lia.
    destruct p as [p|p|].
    + exfalso. rewrite Pos2Z.inj_xI in H. lia.
    + cbn [odd_part]. apply IH; [exact Hm|]. rewrite Pos2Z.inj_xO in H. lia.
    + exfalso. assert (0 < 2 ^ Z.of_nat k) by (apply Z.pow_pos_nonneg; lia). nia.
Qed.

Definition binary64_int (z : Z) : Prop :=
  exists m k, 0 <= k /\ 0 <= m < 2 ^ 53 /\ Z.abs z = m * 2 ^ k /\ Z.abs z < 2 ^ 1024.

Lemma representable_pos p :
  (Npos p <? 2 ^ 1024)%N && (Npos (odd_part p) <? 2 ^ 53)%N = true <-> binary64_int (Zpos p).
Proof.
  rewrite andb_true_iff, !N.ltb_lt. unfold binary64_int. cbn [Z.abs].
  assert (E1 : Z.of_N (2 ^ 1024)%N = 2 ^ 1024) by (rewrite N2Z.inj_pow; reflexivity).
  assert (E2 : Z.of_N (2 ^ 53)%N = 2 ^ 53) by (rewrite N2Z.inj_pow; reflexivity).
  split.
  - intros [A B]. destruct (odd_part_spec p) as [k [Hk Hp]].
    exists (Zpos (odd_part p)), k.
    apply N2Z.inj_lt in B. rewrite E2 in B. cbn [Z.of_N] in B.
    apply N2Z.inj_lt in A. rewrite E1 in A. cbn [Z.of_N] in A.
    split; [exact Hk|]. split; [split; [apply Pos2Z.is_nonneg | exact B]|].
    split; [exact Hp | exact A].
  - intros [m [k [Hk [Hm [Hp Hlt]]]]]. split.
    + apply N2Z.inj_lt. rewrite E1. cbn [Z.of_N]. exact Hlt.
    + apply N2Z.inj_lt. rewrite E2. cbn [Z.of_N].
      assert (0 < m).
      { destruct (Z.eq_dec m 0) as [->|]; [rewrite Z.mul_0_l in Hp; lia | lia]. }
      assert (L := odd_part_le_factor (Z.to_nat k) p m H).
      rewrite Z2Nat.id in L by lia. specialize (L Hp). lia.
Qed.

Lemma int_representable_spec z : int_representable z = true <-> binary64_int z.
Proof.
  destruct z as [|p|p]; cbn [int_representable].
  - split; [|reflexivity]. intros _. exists 0, 0.
    split; [lia|]. split; [split; [lia | apply Z.pow_pos_nonneg; lia]|].
    split; [reflexivity | apply Z.pow_pos_nonneg; lia].
  - apply representable_pos.
  - rewrite representable_pos. unfold binary64_int. cbn [Z.abs]. reflexivity.
Qed.

(* ------------------------------------------------------------------ the five scalars *)

Section Oracles.
  Variable parse_int : text -> option Z.
  Variable parse_float : text -> option pyfloat.
  Variable float_str : pyfloat -> text.
  Variable maxd : N.

  Notation ser := (serialize parse_int parse_float float_str maxd).
  Notation inp := (coerce_input maxd).

  Lemma int_from_int_ok z o : int_from_int z = COk o -> o = PInt z /\ int32 z.
  Proof.
    unfold int_from_int. destruct (in_int32 z) eqn:E; [|discriminate].
    intro H; inversion H. split; [reflexivity|]. apply in_int32_spec, E.
  Qed.

  Lemma int_from_float_ok f o :
    int_from_float f = COk o -> exists z, f_int_value f = Some z /\ o = PInt z /\ int32 z.
  Proof using.
    unfold int_from_float. destruct (f_int_value f) as [z|]; [|discriminate].
    intro H. apply int_from_int_ok in H. destruct H as [H1 H2]. exists z. split; [reflexivity|]. split; assumption.
  Qed.

  Lemma serialize_int_range v o :
    serialize_int parse_int v = COk o -> exists z, o = PInt z /\ int32 z.
  Proof.
    destruct v; cbn [serialize_int]; try discriminate.
    - intro H; inversion H. destruct b; eexists; (split; [reflexivity|]);
        unfold int32; change (2 ^ 31) with 2147483648; lia.
    - intro H. apply int_from_int_ok in H. eauto.
    - intro H. apply int_from_float_ok in H as [z [_ H]]. eauto.
    - unfold int_from_string. destruct (is_empty s); [discriminate|].
      destruct (parse_int s); [|discriminate]. intro H. apply int_from_int_ok in H. eauto.
  Qed.

  Lemma float_from_float_ok f o :
    float_from_float f = COk o -> o = PFloat f /\ exists n m e, f = FFin n m e.
  Proof.
    unfold float_from_float. destruct f; cbn [f_finite]; try discriminate.
    intro H; inversion H. split; [reflexivity|]. eauto.
  Qed.

  Lemma float_from_int_ok z o :
    float_from_int z = COk o -> o = PFloat (float_of_int z) /\ binary64_int z.
  Proof.
    unfold float_from_int. destruct (int_representable z) eqn:E; [|discriminate].
    intro H; inversion H. split; [reflexivity|]. apply int_representable_spec, E.
  Qed.

  (* where an emitted Float comes from: complete case split *)
  Lemma serialize_float_origin v o :
    serialize_float parse_float v = COk o ->
    (exists b, v = PBool b /\ o = PInt (if b then 1 else 0))
    \/ (exists n m e, v = PFloat (FFin n m e) /\ o = v)
    \/ (exists z, v = PInt z /\ o = PFloat (float_of_int z) /\ binary64_int z)
    \/ (exists s n m e, v = PStr s /\ s <> [] /\ parse_float s = Some (FFin n m e)
                        /\ o = PFloat (FFin n m e)).
  Proof.
    destruct v; cbn [serialize_float]; try discriminate.
    - intro H; inversion H. left. eauto.
    - intro H. apply float_from_int_ok in H as [-> B]. right; right; left. eauto.
    - intro H. apply float_from_float_ok in H as [-> [n [m [e ->]]]]. right; left. eauto 6.
    - unfold float_from_string. destruct s as [|c s]; [discriminate|]. cbn [is_empty].
      destruct (parse_float (c :: s)) as [f|] eqn:P; [|discriminate].
      intro H. apply float_from_float_ok in H as [-> [n [m [e ->]]]].
      right; right; right. exists (c :: s), n, m, e. repeat split; auto. discriminate.
  Qed.

  Lemma serialize_float_finite v o :
    serialize_float parse_float v = COk o -> in_domain SFloat o.
  Proof.
    intro H. apply serialize_float_origin in H.
    destruct H as [[b [_ ->]] | [[n [m [e [-> ->]]]] | [[z [_ [-> _]]] | [s [n [m [e [_ [_ [_ ->]]]]]]]]]];
      cbn [in_domain].
    - left. destruct b; eauto.
    - right. eauto.
    - right. destruct (float_of_int_fin z) as [n [m [e E]]]. rewrite E. eauto.
    - right. eauto.
  Qed.

  Lemma str_of_int_ok z o : str_of_int maxd z = COk o -> exists s, int_str maxd z = Some s /\ o = PStr s.
  Proof.
    unfold str_of_int. destruct (int_str maxd z); [|discriminate]. intro H; inversion H. eauto.
  Qed.

  Lemma str_of_custom_ok v o : str_of_custom v = COk o -> exists s, o = PStr s.
  Proof.
    destruct v; cbn [str_of_custom]; try discriminate.
    - intro H; inversion H. eauto.
    - destruct builtin; [discriminate|]. intro H; inversion H. eauto.
  Qed.

  Lemma serialize_string_text v o : serialize_string float_str maxd v = COk o -> exists s, o = PStr s.
  Proof.
    destruct v; cbn [serialize_string]; try discriminate;
      try (intro H; apply str_of_custom_ok in H; exact H).
    - intro H; inversion H. eauto.
    - intro H. apply str_of_int_ok in H as [s [_ ->]]. eauto.
    - destruct (f_finite f); [|discriminate]. intro H; inversion H. eauto.
    - intro H; inversion H. eauto.
  Qed.

  Lemma id_from_float_ok f o :
    id_from_float maxd f = COk o ->
    exists z s, f_int_value f = Some z /\ int_str maxd z = Some s /\ o = PStr s.
  Proof.
    unfold id_from_float. destruct (f_int_value f) as [z|]; [|discriminate].
    intro H. apply str_of_int_ok in H as [s [A ->]]. eauto.
  Qed.

  Lemma serialize_id_text v o : serialize_id maxd v = COk o -> exists s, o = PStr s.
  Proof.
    destruct v; cbn [serialize_id]; try discriminate;
      try (intro H; apply str_of_custom_ok in H; exact H).
    - intro H. apply str_of_int_ok in H as [s [_ ->]]. eauto.
    - intro H. apply id_from_float_ok in H as [z [s [_ [_ ->]]]]. eauto.
    - intro H; inversion H. eauto.
  Qed.

  Lemma serialize_boolean_bool v o : serialize_boolean v = COk o -> exists b, o = PBool b.
  Proof.
    destruct v; cbn [serialize_boolean]; try discriminate.
    - intro H; inversion H. eauto.
    - intro H; inversion H. eauto.
    - destruct (f_finite f); [|discriminate]. intro H; inversion H. eauto.
  Qed.

  Theorem serialize_in_domain sc v o : ser sc v = COk o -> in_domain sc o.
  Proof.
    destruct sc; cbn [serialize in_domain].
    - apply serialize_int_range.
    - apply serialize_float_finite.
    - apply serialize_string_text.
    - apply serialize_boolean_bool.
    - apply serialize_id_text.
  Qed.

  Theorem serialize_domain_or_error sc v :
    ser sc v = CErr \/ exists o, ser sc v = COk o /\ in_domain sc o.
  Proof.
    destruct (ser sc v) as [o|] eqn:E; [right | left; reflexivity].
    exists o. split; [reflexivity|]. eapply serialize_in_domain, E.
  Qed.

  (* ---------------------------------------------------------------- no silent precision loss *)

  Theorem float_of_int_exact z o :
    ser SFloat (PInt z) = COk o ->
    o = PFloat (float_of_int z) /\ f_int_value (float_of_int z) = Some z /\ binary64_int z.
  Proof.
    cbn [serialize serialize_float]. intro H. apply float_from_int_ok in H as [-> B].
    repeat split; auto. apply f_int_value_of_int.
  Qed.

  Theorem float_of_int_complete z :
    binary64_int z -> ser SFloat (PInt z) = COk (PFloat (float_of_int z)).
  Proof.
    intro B. cbn [serialize serialize_float]. unfold float_from_int.
    apply int_representable_spec in B. rewrite B. reflexivity.
  Qed.

  Theorem int_of_float_exact f o :
    ser SInt (PFloat f) = COk o -> exists z, o = PInt z /\ f_int_value f = Some z.
  Proof.
    cbn [serialize serialize_int]. intro H. apply int_from_float_ok in H as [z [A [-> _]]]. eauto.
  Qed.

  Theorem int_of_int_same z o : ser SInt (PInt z) = COk o -> o = PInt z.
  Proof. cbn [serialize serialize_int]. intro H. apply int_from_int_ok in H. tauto. Qed.

  Theorem id_of_number_exact v o :
    ser SID v = COk o ->
    match v with
    | PInt z => exists s, int_str maxd z = Some s /\ o = PStr s
    | PFloat f => exists z s, f_int_value f = Some z /\ int_str maxd z = Some s /\ o = PStr s
    | _ => True
    end.
  Proof.
    destruct v; try exact (fun _ => I); cbn [serialize serialize_id]; intro H.
    - apply str_of_int_ok in H. exact H.
    - apply id_from_float_ok in H. exact H.
  Qed.

  (* ---------------------------------------------------------------- re-acceptance *)

  Theorem serialize_reaccepted sc v o :
    ser sc v = COk o -> exists o', inp sc o = COk o' /\ same_meaning o o'.
  Proof.
    intro H. destruct sc; cbn [serialize coerce_input] in *.
    - apply serialize_int_range in H as [z [-> R]]. exists (PInt z). split; [|left; reflexivity].
      cbn [coerce_int]. unfold int_from_int. apply in_int32_spec in R. rewrite R. reflexivity.
    - apply serialize_float_origin in H.
      destruct H as [[b [_ ->]] | [[n [m [e [-> ->]]]] | [[z [_ [-> _]]] | [s [n [m [e [_ [_ [_ ->]]]]]]]]]].
      + exists (PFloat (float_of_int (if b then 1 else 0))). split.
        * cbn [coerce_float]. destruct b; reflexivity.
        * right. eexists _, _. split; [reflexivity|]. split; [reflexivity|]. apply f_int_value_of_int.
      + eexists. split; [reflexivity | left; reflexivity].
      + exists (PFloat (float_of_int z)). split; [|left; reflexivity].
        cbn [coerce_float]. unfold float_from_float.
        destruct (float_of_int_fin z) as [n [m [e E]]]. rewrite E. reflexivity.
      + eexists. split; [reflexivity | left; reflexivity].
    - apply serialize_string_text in H as [s ->]. eexists. split; [reflexivity | left; reflexivity].
    - apply serialize_boolean_bool in H as [b ->]. eexists. split; [reflexivity | left; reflexivity].
    - apply serialize_id_text in H as [s ->]. eexists. split; [reflexivity | left; reflexivity].
  Qed.

  (* ---------------------------------------------------------------- complete_leaf_value *)

  Lemma in_domain_not_null sc o : in_domain sc o -> is_null o = false.
  Proof.
    destruct sc; cbn [in_domain].
    - intros [z [-> _]]. reflexivity.
    - intros [[z [-> _]] | [n [m [e ->]]]]; reflexivity.
    - intros [s ->]. reflexivity.
    - intros [b ->]. reflexivity.
    - intros [s ->]. reflexivity.
  Qed.

  Theorem complete_leaf_scalar sc v :
    match complete_leaf (ser sc) v with
    | COk o => (is_null v = true /\ o = PNone)
               \/ (is_null v = false /\ ser sc v = COk o /\ in_domain sc o)
    | CErr => is_null v = false /\ ser sc v = CErr
    end.
  Proof.
    unfold complete_leaf. destruct (is_null v) eqn:Nv; [left; auto|].
    destruct (ser sc v) as [r|] eqn:E; [|auto].
    pose proof (serialize_in_domain _ _ _ E) as D.
    rewrite (in_domain_not_null _ _ D). right. auto.
  Qed.
End Oracles.

(* ------------------------------------------------------------------ enums *)

Lemma assoc_in {A} k (l : list (text * A)) v : assoc k l = Some v -> In (k, v) l.
Proof.
  induction l as [|[k' v'] l IH]; cbn [assoc]; [discriminate|].
  destruct (nat_list_eqb k k') eqn:E.
  - intro H; inversion H; subst. apply nat_list_eqb_eq in E. subst. left. reflexivity.
  - intro H. right. apply IH, H.
Qed.

Lemma nat_list_eqb_refl s : nat_list_eqb s s = true.
Proof. apply nat_list_eqb_eq. reflexivity. Qed.

Lemma in_assoc_nodup {A} k (v : A) l : NoDup (map fst l) -> In (k, v) l -> assoc k l = Some v.
Proof.
  induction l as [|[k' v'] l IH]; cbn [map fst assoc]; intros ND H; [destruct H|].
  inversion ND as [|? ? Hn ND']; subst.
  destruct H as [H|H].
  - inversion H; subst. rewrite nat_list_eqb_refl. reflexivity.
  - destruct (nat_list_eqb k k') eqn:E.
    + apply nat_list_eqb_eq in E. subst. exfalso. apply Hn.
      change k' with (fst (k', v)). apply in_map, H.
    + apply IH; assumption.
Qed.

Lemma find_key_in v tbl n : find_key v tbl = Some n -> exists k, In (k, n) tbl /\ pyeq k v = true.
Proof.
  induction tbl as [|[k m] tbl IH]; cbn [find_key]; [discriminate|].
  destruct (pyeq k v) eqn:E.
  - intro H; inversion H; subst. exists k. split; [left; reflexivity | exact E].
  - intro H. destruct (IH H) as [k' [A B]]. exists k'. split; [right; exact A | exact B].
Qed.

(* every entry of the lookup table is (key of a member, that member's name) *)
Lemma value_lookup_entries e : forall acc k n,
  In (k, n) (value_lookup e acc) ->
  In (k, n) acc \/ exists val, In (n, val) e /\ k = lookup_key n val.
Proof.
  induction e as [|[name value] e IH]; intros acc k n H; cbn [value_lookup] in H; [left; exact H|].
  destruct (hashable (lookup_key name value)).
  - destruct (find_key (lookup_key name value) acc).
    + destruct (IH _ _ _ H) as [A|[val [A B]]]; [left; exact A|].
      right. exists val. split; [right; exact A | exact B].
    + destruct (IH _ _ _ H) as [A|[val [A B]]].
      * apply in_app_or in A as [A|A]; [left; exact A|].
        destruct A as [A|[]]. inversion A; subst. right. exists value. split; [left; reflexivity | reflexivity].
      * right. exists val. split; [right; exact A | exact B].
  - destruct (IH _ _ _ H) as [A|[val [A B]]]; [left; exact A|].
    right. exists val. split; [right; exact A | exact B].
Qed.

Lemma scan_values_in v e n : scan_values v e = Some n -> exists val, In (n, val) e /\ pyeq val v = true.
Proof.
  induction e as [|[name value] e IH]; cbn [scan_values]; [discriminate|].
  destruct (pyeq value v) eqn:E.
  - intro H; inversion H; subst. exists value. split; [left; reflexivity | exact E].
  - intro H. destruct (IH H) as [val [A B]]. exists val. split; [right; exact A | exact B].
Qed.

(* the emitted text is the name of a member whose internal value (or, for a member without a
   value, whose name) equals the resolver's value by Python == *)
Theorem enum_output_member e v o :
  enum_output e v = COk o ->
  exists name val, o = PStr name /\ In (name, val) e /\
    (pyeq (lookup_key name val) v = true \/ pyeq val v = true).
Proof.
  unfold enum_output. destruct (hashable v).
  - destruct (find_key v (value_lookup e [])) as [n|] eqn:F; [|discriminate].
    intro H; inversion H; subst; clear H.
    apply find_key_in in F as [k [A B]].
    apply value_lookup_entries in A as [[]|[val [A ->]]].
    exists n, val. auto.
  - destruct (scan_values v e) as [n|] eqn:F; [|discriminate].
    intro H; inversion H; subst; clear H.
    apply scan_values_in in F as [val [A B]]. exists n, val. auto.
Qed.

Theorem enum_output_declared e v o :
  enum_output e v = COk o -> exists name, o = PStr name /\ In name (map fst e).
Proof.
  intro H. apply enum_output_member in H as [name [val [-> [A _]]]].
  exists name. split; [reflexivity|]. change name with (fst (name, val)). apply in_map, A.
Qed.

Theorem enum_reaccepted e v o :
  NoDup (map fst e) -> enum_output e v = COk o ->
  exists name val, o = PStr name /\ enum_input e o = COk val /\
    (pyeq (lookup_key name val) v = true \/ pyeq val v = true).
Proof.
  intros ND H. apply enum_output_member in H as [name [val [-> [A B]]]].
  exists name, val. split; [reflexivity|]. split; [|exact B].
  cbn [enum_input]. rewrite (in_assoc_nodup _ _ _ ND A). reflexivity.
Qed.

Theorem complete_leaf_enum e v :
  match complete_leaf (enum_output e) v with
  | COk o => (is_null v = true /\ o = PNone)
             \/ (is_null v = false /\ exists name, o = PStr name /\ In name (map fst e))
  | CErr => is_null v = false /\ enum_output e v = CErr
  end.
Proof.
  unfold complete_leaf. destruct (is_null v) eqn:Nv; [left; auto|].
  destruct (enum_output e v) as [r|] eqn:E; [|auto].
  destruct (enum_output_declared _ _ _ E) as [name [-> I]]. cbn [is_null]. right. eauto.
Qed.
