(* Model of input coercion and input validation:
     utilities/coerce_input_value.py   coerce_input_value, coerce_input_literal, coerce_default_value
     utilities/validate_input_value.py validate_input_value_impl, validate_input_literal_impl
     utilities/value_to_literal.py     value_to_literal and the scalars' value_to_literal
     type/scalars.py                   parse_*_literal of the five built-in scalars
     type/definition.py                GraphQLEnumType.coerce_input_value / coerce_input_literal /
                                       value_to_literal
     execution/values.py               coerce_variable_values / get_variable_values
   over input types built from the five built-in scalars, enums and (recursive, OneOf) input
   objects whose defaults are literals (what build_schema produces).  Definitions only.

   Tuples ([PTuple], used by the C16 enum model) are outside this model's fragment: the
   implementation iterates them like lists; the C15 harness skips values that contain one.

   The implementation returns Undefined both for "invalid" and for "no value"; the model has the
   constructor [Invalid] for exactly that overloaded Undefined.  [Crash] is an exception other
   than the coercers' own (TypeError of coerce_default_value for an invalid default, a type name
   that is no input type).  Fragment variables are not modelled.

   One behaviour is modelled as REPAIRED, not as found: parse_float_literal accepts a literal whose
   value overflows binary64 (1e999) and returns inf; the model rejects it (see [float_lit]). *)
From GV Require Import Base.Prelude Types.Scalars.

Inductive ityp : Type :=
| TNamed (n : text)
| TList (t : ityp)
| TNonNull (t : ityp).

Inductive lit : Type :=
| LVar (n : text)
| LNull
| LInt (s : text)           (* IntValueNode.value: the digits as written *)
| LFloat (s : text)
| LString (s : text)
| LBool (b : bool)
| LEnum (n : text)
| LList (l : list lit)
| LObject (fs : list (text * lit)).

Record field : Type := mkField { f_name : text; f_type : ityp; f_default : option lit }.

Inductive tdef : Type :=
| DScalar (sc : scalar)
| DEnum (e : enum)
| DInput (oneof : bool) (fs : list field).

Definition schema := list (text * tdef).

Inductive result (A : Type) : Type :=
| Good (a : A)
| Invalid
| Crash
| Fuel.
Arguments Good {A} a.
Arguments Invalid {A}.
Arguments Crash {A}.
Arguments Fuel {A}.

Inductive pseg : Type := PName (n : text) | PIdx (i : nat).
Definition path := list pseg.

(* coerced variable values: VariableValues.coerced (never holds Undefined) *)
Definition env := list (text * pyval).

(* ------------------------------------------------------------------ small helpers *)

Definition is_undef (v : pyval) : bool := match v with PUndef => true | _ => false end.
Definition is_none (v : pyval) : bool := match v with PNone => true | _ => false end.

Definition is_nonnull (t : ityp) : bool := match t with TNonNull _ => true | _ => false end.

Definition is_lnull (l : lit) : bool := match l with LNull => true | _ => false end.

(* an Undefined stored by a leaf coercer is the overloaded "invalid" *)
Definition good (v : pyval) : result pyval := if is_undef v then Invalid else Good v.

Definition of_cres (r : cres) : result pyval :=
  match r with COk v => good v | CErr => Invalid end.

(* dict.get(name, Undefined) *)
Definition dget (k : text) (kvs : list (text * pyval)) : pyval :=
  match assoc k kvs with Some v => v | None => PUndef end.

Definition required (fd : field) : bool :=
  is_nonnull (f_type fd) && match f_default fd with None => true | Some _ => false end.

Fixpoint known (k : text) (fs : list field) : bool :=
  match fs with
  | [] => false
  | fd :: r => nat_list_eqb k (f_name fd) || known k r
  end.

(* provided (not Undefined) entries of an input dict *)
Definition defined_entries (kvs : list (text * pyval)) : list (text * pyval) :=
  filter (fun kv => negb (is_undef (snd kv))) kvs.

Definition has_unknown (fs : list field) (kvs : list (text * pyval)) : bool :=
  existsb (fun kv => negb (known (fst kv) fs)) (defined_entries kvs).

Definition lookup_var (n : text) (vars : env) : pyval := dget n vars.

(* {field.name.value: field for field in value_node.fields}: the last node of a name wins,
   the key order is the order of first occurrence *)
Fixpoint lit_get (k : text) (fs : list (text * lit)) : option lit :=
  match fs with
  | [] => None
  | (k', l) :: r =>
      match lit_get k r with
      | Some x => Some x
      | None => if nat_list_eqb k k' then Some l else None
      end
  end.

Fixpoint mem_text (k : text) (l : list text) : bool :=
  match l with
  | [] => false
  | x :: r => nat_list_eqb k x || mem_text k r
  end.

Fixpoint dedup_names (l : list text) (seen : list text) : list text :=
  match l with
  | [] => []
  | x :: r => if mem_text x seen then dedup_names r seen else x :: dedup_names r (x :: seen)
  end.

Definition node_names (fs : list (text * lit)) : list text := dedup_names (map fst fs) [].

(* ------------------------------------------------------------------ leaf literal coercers *)

(* int(value) of a lexer-produced IntValue: optional minus, then 0 or a digit string without
   leading zero *)
Fixpoint dec_value (s : text) (acc : Z) : option Z :=
  match s with
  | [] => Some acc
  | c :: r => if (48 <=? c) && (c <=? 57) then dec_value r (acc * 10 + Z.of_N (c - 48))%Z else None
  end.

Definition int_lit_value (s : text) : option Z :=
  match s with
  | [] => None
  | 45 :: r => match r with
               | [] => None
               | _ => match dec_value r 0%Z with Some z => Some (- z)%Z | None => None end
               end
  | _ => dec_value s 0%Z
  end.

Section Oracles.
  Variable parse_float : text -> option pyfloat.   (* float(s) *)
  Variable float_str : pyfloat -> text.            (* str(x) *)
  Variable maxd : N.

  (* parse_float_literal; REPAIRED: a non-finite result is rejected *)
  Definition float_lit (s : text) : result pyval :=
    match parse_float s with
    | Some f => if f_finite f then Good (PFloat f) else Invalid
    | None => Invalid
    end.

  Definition scalar_lit (sc : scalar) (l : lit) : result pyval :=
    match sc, l with
    | SInt, LInt s =>
        match int_lit_value s with
        | Some z => if in_int32 z then Good (PInt z) else Invalid
        | None => Invalid
        end
    | SFloat, LInt s => float_lit s
    | SFloat, LFloat s => float_lit s
    | SString, LString s => Good (PStr s)
    | SBoolean, LBool b => Good (PBool b)
    | SID, LString s => Good (PStr s)
    | SID, LInt s => Good (PStr s)
    | _, _ => Invalid
    end.

  Definition enum_lit (e : enum) (l : lit) : result pyval :=
    match l with
    | LEnum n => match assoc n e with Some v => good v | None => Invalid end
    | _ => Invalid
    end.

  Definition leaf_val (d : tdef) (v : pyval) : result pyval :=
    match d with
    | DScalar sc => of_cres (coerce_input maxd sc v)
    | DEnum e => of_cres (enum_input e v)
    | DInput _ _ => Invalid
    end.

  Definition leaf_lit (d : tdef) (l : lit) : result pyval :=
    match d with
    | DScalar sc => scalar_lit sc l
    | DEnum e => enum_lit e l
    | DInput _ _ => Invalid
    end.

  Variable s : schema.

  (* ---------------------------------------------------------------- sequencing helpers *)

  Definition rmap {A B} (g : A -> B) (r : result A) : result B :=
    match r with
    | Good a => Good (g a)
    | Invalid => Invalid
    | Crash => Crash
    | Fuel => Fuel
    end.

  (* items / fields are processed in order; the first failure is the result *)
  Fixpoint seq_list {A B} (c : A -> result B) (l : list A) : result (list B) :=
    match l with
    | [] => Good []
    | x :: r =>
        match c x with
        | Good y => rmap (cons y) (seq_list c r)
        | Invalid => Invalid
        | Crash => Crash
        | Fuel => Fuel
        end
    end.

  Definition add_entry (fd : field) (o : option pyval) (out : list (text * pyval)) :=
    match o with
    | Some y => (f_name fd, y) :: out
    | None => out
    end.

  Fixpoint seq_fields (step : field -> result (option pyval)) (fds : list field)
    : result (list (text * pyval)) :=
    match fds with
    | [] => Good []
    | fd :: r =>
        match step fd with
        | Good o => rmap (add_entry fd o) (seq_fields step r)
        | Invalid => Invalid
        | Crash => Crash
        | Fuel => Fuel
        end
    end.

  (* coerce_default_value of a default given as a literal: an invalid default is a TypeError *)
  Definition default_step (cd : ityp -> lit -> result pyval) (fd : field) : result (option pyval) :=
    match f_default fd with
    | None => Good None
    | Some dl =>
        match cd (f_type fd) dl with
        | Good y => Good (Some y)
        | Invalid => Crash
        | Crash => Crash
        | Fuel => Fuel
        end
    end.

  Definition oapp {A} (a b : option (list A)) : option (list A) :=
    match a, b with
    | Some x, Some y => Some (x ++ y)
    | _, _ => None
    end.

  Fixpoint vseq {A} (vf : nat -> A -> option (list path)) (i : nat) (l : list A)
    : option (list path) :=
    match l with
    | [] => Some []
    | x :: r => oapp (vf i x) (vseq vf (S i) r)
    end.

  Fixpoint vfields (step : field -> option (list path)) (fds : list field) : option (list path) :=
    match fds with
    | [] => Some []
    | fd :: r => oapp (step fd) (vfields step r)
    end.

  Definition is_good {A} (r : result A) : bool := match r with Good _ => true | _ => false end.

  (* ---------------------------------------------------------------- coerce_input_literal *)

  Definition var_missing (vars : env) (l : lit) : bool :=
    match l with LVar n => is_undef (lookup_var n vars) | _ => false end.

  Definition var_nullish (vars : env) (l : lit) : bool :=
    match l with LVar n => is_null (lookup_var n vars) | _ => false end.

  (* after the fields loop of a OneOf object: exactly one node, exactly one coerced entry, that
     node not the null literal and its entry not None *)
  Definition oneof_lit_ok (fs : list (text * lit)) (coerced : list (text * pyval)) : bool :=
    match node_names fs, coerced with
    | [k], [_] =>
        match lit_get k fs with
        | Some l => negb (is_lnull l) && negb (is_none (dget k coerced))
        | None => false
        end
    | _, _ => false
    end.

  (* a list item: a missing/null variable in a nullable position becomes None *)
  Definition lit_item (c : lit -> result pyval) (vars : env) (it : ityp) (x : lit) : result pyval :=
    match c x with
    | Invalid => if negb (is_nonnull it) && var_nullish vars x then Good PNone else Invalid
    | r => r
    end.

  Definition lit_step (c : ityp -> lit -> result pyval) (cd : ityp -> lit -> result pyval)
      (vars : env) (fs : list (text * lit)) (fd : field) : result (option pyval) :=
    match lit_get (f_name fd) fs with
    | None => if required fd then Invalid else default_step cd fd
    | Some node =>
        if var_missing vars node then
          if required fd then Invalid else default_step cd fd
        else rmap Some (c (f_type fd) node)
    end.

  Definition coerce_obj_lit (c cd : ityp -> lit -> result pyval) (vars : env)
      (oneof : bool) (fds : list field) (fs : list (text * lit)) : result pyval :=
    if existsb (fun k => negb (known k fds)) (node_names fs) then Invalid else
    match seq_fields (lit_step c cd vars fs) fds with
    | Good kvs => if oneof && negb (oneof_lit_ok fs kvs) then Invalid else Good (PDict kvs)
    | Invalid => Invalid
    | Crash => Crash
    | Fuel => Fuel
    end.

  Fixpoint coerce_lit (fuel : nat) (vars : env) (t : ityp) (l : lit) {struct fuel} : result pyval :=
    match fuel with
    | O => Fuel
    | S f =>
      match l with
      | LVar n =>
          let v := lookup_var n vars in
          if is_null v && is_nonnull t then Invalid else good v
      | _ =>
        match t with
        | TNonNull t' => if is_lnull l then Invalid else coerce_lit f vars t' l
        | TList it =>
            if is_lnull l then Good PNone else
            match l with
            | LList items => rmap PList (seq_list (lit_item (coerce_lit f vars it) vars it) items)
            | _ => rmap (fun y => PList [y]) (coerce_lit f vars it l)
            end
        | TNamed n =>
            if is_lnull l then Good PNone else
            match assoc n s with
            | None => Crash
            | Some (DInput oneof fds) =>
                match l with
                | LObject fs => coerce_obj_lit (coerce_lit f vars) (coerce_lit f []) vars oneof fds fs
                | _ => Invalid
                end
            | Some d => leaf_lit d l
            end
        end
      end
    end.

  (* ---------------------------------------------------------------- coerce_input_value *)

  Definition oneof_val_ok (kvs : list (text * pyval)) (coerced : list (text * pyval)) : bool :=
    match defined_entries kvs, coerced with
    | [_], [(_, y)] => negb (is_none y)
    | _, _ => false
    end.

  Definition val_step (c : ityp -> pyval -> result pyval) (cd : ityp -> lit -> result pyval)
      (kvs : list (text * pyval)) (fd : field) : result (option pyval) :=
    let fv := dget (f_name fd) kvs in
    if is_undef fv then
      if required fd then Invalid else default_step cd fd
    else rmap Some (c (f_type fd) fv).

  Definition coerce_obj_val (c : ityp -> pyval -> result pyval) (cd : ityp -> lit -> result pyval)
      (oneof : bool) (fds : list field) (kvs : list (text * pyval)) : result pyval :=
    if has_unknown fds kvs then Invalid else
    match seq_fields (val_step c cd kvs) fds with
    | Good out => if oneof && negb (oneof_val_ok kvs out) then Invalid else Good (PDict out)
    | Invalid => Invalid
    | Crash => Crash
    | Fuel => Fuel
    end.

  Fixpoint coerce_val (fuel : nat) (t : ityp) (v : pyval) {struct fuel} : result pyval :=
    match fuel with
    | O => Fuel
    | S f =>
      match t with
      | TNonNull t' => if is_null v then Invalid else coerce_val f t' v
      | TList it =>
          if is_null v then Good PNone else
          match v with
          | PList items => rmap PList (seq_list (coerce_val f it) items)
          | _ => rmap (fun y => PList [y]) (coerce_val f it v)
          end
      | TNamed n =>
          if is_null v then Good PNone else
          match assoc n s with
          | None => Crash
          | Some (DInput oneof fds) =>
              match v with
              | PDict kvs => coerce_obj_val (coerce_val f) (coerce_lit f []) oneof fds kvs
              | _ => Invalid
              end
          | Some d => leaf_val d v
          end
      end
    end.

  (* ---------------------------------------------------------------- validate_input_value_impl *)

  (* names of the provided entries that are declared fields, in dict order *)
  Definition known_entries (fds : list field) (kvs : list (text * pyval)) : list text :=
    map fst (filter (fun kv => known (fst kv) fds) (defined_entries kvs)).

  Definition oneof_val_errs (p : path) (fds : list field) (kvs : list (text * pyval)) : list path :=
    let ks := known_entries fds kvs in
    (if (length ks =? 1)%nat then [] else [p]) ++
    match ks with
    | k :: _ => if is_none (dget k kvs) then [p ++ [PName k]] else []
    | [] => []
    end.

  Definition unknown_val_errs (p : path) (fds : list field) (kvs : list (text * pyval)) : list path :=
    map (fun _ => p) (filter (fun kv => negb (known (fst kv) fds)) (defined_entries kvs)).

  Definition vval_step (vv : ityp -> pyval -> path -> option (list path))
      (kvs : list (text * pyval)) (p : path) (fd : field) : option (list path) :=
    let fv := dget (f_name fd) kvs in
    if is_undef fv then Some (if required fd then [p] else [])
    else vv (f_type fd) fv (p ++ [PName (f_name fd)]).

  Definition validate_obj_val (vv : ityp -> pyval -> path -> option (list path))
      (oneof : bool) (fds : list field) (kvs : list (text * pyval)) (p : path) : option (list path) :=
    oapp (vfields (vval_step vv kvs p) fds)
         (Some (unknown_val_errs p fds kvs ++ (if oneof then oneof_val_errs p fds kvs else []))).

  Fixpoint validate_val (fuel : nat) (t : ityp) (v : pyval) (p : path) {struct fuel}
    : option (list path) :=
    match fuel with
    | O => None
    | S f =>
      match t with
      | TNonNull t' => if is_null v then Some [p] else validate_val f t' v p
      | TList it =>
          if is_null v then Some [] else
          match v with
          | PList items => vseq (fun i x => validate_val f it x (p ++ [PIdx i])) O items
          | _ => validate_val f it v p
          end
      | TNamed n =>
          if is_null v then Some [] else
          match assoc n s with
          | None => Some []                       (* not an input type: nothing is reported *)
          | Some (DInput oneof fds) =>
              match v with
              | PDict kvs => validate_obj_val (validate_val f) oneof fds kvs p
              | _ => Some [p]
              end
          | Some d => Some (if is_good (leaf_val d v) then [] else [p])
          end
      end
    end.

  (* ---------------------------------------------------------------- validate_input_literal_impl *)

  Definition unknown_lit_errs (p : path) (fds : list field) (fs : list (text * lit)) : list path :=
    map (fun _ => p) (filter (fun kl => negb (known (fst kl) fds)) fs).

  Definition oneof_lit_errs (p : path) (fds : list field) (fs : list (text * lit)) : list path :=
    match filter (fun kl => known (fst kl) fds) fs with
    | [(k, node)] => if is_lnull node then [p ++ [PName k]] else []
    | _ => [p]
    end.

  Definition vlit_step (vl : ityp -> lit -> path -> option (list path)) (static : bool) (vars : env)
      (oneof : bool) (fs : list (text * lit)) (p : path) (fd : field) : option (list path) :=
    match lit_get (f_name fd) fs with
    | None => Some (if required fd then [p] else [])
    | Some node =>
        let sub := vl (f_type fd) node (p ++ [PName (f_name fd)]) in
        match node with
        | LVar vn =>
            if static then sub else
            let v := lookup_var vn vars in
            if oneof then oapp (Some (if is_null v then [p] else [])) sub
            else if is_undef v && negb (required fd) then Some []
            else sub
        | _ => sub
        end
    end.

  Definition validate_obj_lit (vl : ityp -> lit -> path -> option (list path)) (static : bool)
      (vars : env) (oneof : bool) (fds : list field) (fs : list (text * lit)) (p : path)
      : option (list path) :=
    oapp (vfields (vlit_step vl static vars oneof fs p) fds)
         (Some (unknown_lit_errs p fds fs ++ (if oneof then oneof_lit_errs p fds fs else []))).

  (* static = no variable values given (the validation rule); then variables are not judged *)
  Fixpoint validate_lit (fuel : nat) (static : bool) (vars : env) (t : ityp) (l : lit) (p : path)
      {struct fuel} : option (list path) :=
    match fuel with
    | O => None
    | S f =>
      match l with
      | LVar n =>
          if static then Some []
          else Some (if is_nonnull t && is_null (lookup_var n vars) then [p] else [])
      | _ =>
        match t with
        | TNonNull t' => if is_lnull l then Some [p] else validate_lit f static vars t' l p
        | TList it =>
            if is_lnull l then Some [] else
            match l with
            | LList items => vseq (fun i x => validate_lit f static vars it x (p ++ [PIdx i])) O items
            | _ => validate_lit f static vars it l p
            end
        | TNamed n =>
            if is_lnull l then Some [] else
            match assoc n s with
            | None => Some []
            | Some (DInput oneof fds) =>
                match l with
                | LObject fs => validate_obj_lit (validate_lit f static vars) static vars oneof fds fs p
                | _ => Some [p]
                end
            | Some d => Some (if is_good (leaf_lit d l) then [] else [p])
            end
        end
      end
    end.

  (* ---------------------------------------------------------------- value_to_literal *)

  (* _re_integer_string.match(s) (optional minus, 0 or digits without leading zero, then \Z, the
     end of the string - not before a final LF; /repo commit c102a9f) *)
  Fixpoint all_digits (s : text) : bool :=
    match s with
    | [] => true
    | c :: r => (48 <=? c) && (c <=? 57) && all_digits r
    end.

  Definition int_body (s : text) : bool :=
    match s with
    | [] => false
    | [48] => true
    | 48 :: _ => false
    | _ => all_digits s
    end.

  Definition is_integer_string (s : text) : bool :=
    match s with
    | 45 :: r => int_body r
    | _ => int_body s
    end.

  (* default_scalar_value_to_literal restricted to what the built-in scalars keep *)
  Definition number_literal (v : pyval) : result lit :=
    match v with
    | PInt z => match int_str maxd z with
                | Some str => Good (LInt str)
                | None => Invalid
                end
    | PFloat x =>
        if f_finite x then
          let str := float_str x in
          Good (if is_integer_string str then LInt str else LFloat str)
        else Invalid
    | _ => Invalid
    end.

  Definition scalar_to_literal (sc : scalar) (v : pyval) : result lit :=
    match sc with
    | SInt =>
        match coerce_int v with
        | COk (PInt z) => match int_str maxd z with Some str => Good (LInt str) | None => Invalid end
        | _ => Invalid
        end
    | SFloat => number_literal v
    | SString => match v with PStr str => Good (LString str) | _ => Invalid end
    | SBoolean => match v with PBool b => Good (LBool b) | _ => Invalid end
    | SID =>
        match v with
        | PStr str => Good (if is_integer_string str then LInt str else LString str)
        | PInt _ | PFloat _ =>
            match coerce_id maxd v with
            | COk (PStr str) => Good (LInt str)
            | _ => Invalid
            end
        | _ => Invalid
        end
    end.

  Definition enum_to_literal (e : enum) (v : pyval) : result lit :=
    match v with
    | PStr n => match assoc n e with Some _ => Good (LEnum n) | None => Invalid end
    | _ => Invalid
    end.

  Definition tolit_add (fd : field) (o : option lit) (out : list (text * lit)) :=
    match o with
    | Some y => (f_name fd, y) :: out
    | None => out
    end.

  Fixpoint seq_lit_fields (step : field -> result (option lit)) (fds : list field)
    : result (list (text * lit)) :=
    match fds with
    | [] => Good []
    | fd :: r =>
        match step fd with
        | Good o => rmap (tolit_add fd o) (seq_lit_fields step r)
        | Invalid => Invalid
        | Crash => Crash
        | Fuel => Fuel
        end
    end.

  Definition tolit_step (tl : ityp -> pyval -> result lit) (kvs : list (text * pyval)) (fd : field)
    : result (option lit) :=
    let fv := dget (f_name fd) kvs in
    if is_undef fv then (if required fd then Invalid else Good None)
    else rmap Some (tl (f_type fd) fv).

  Fixpoint to_literal (fuel : nat) (t : ityp) (v : pyval) {struct fuel} : result lit :=
    match fuel with
    | O => Fuel
    | S f =>
      match t with
      | TNonNull t' => if is_null v then Invalid else to_literal f t' v
      | TList it =>
          if is_null v then Good LNull else
          match v with
          | PList items => rmap LList (seq_list (to_literal f it) items)
          | _ => to_literal f it v
          end
      | TNamed n =>
          if is_null v then Good LNull else
          match assoc n s with
          | None => Crash
          | Some (DInput _ fds) =>
              match v with
              | PDict kvs =>
                  if has_unknown fds kvs then Invalid
                  else rmap LObject (seq_lit_fields (tolit_step (to_literal f) kvs) fds)
              | _ => Invalid
              end
          | Some (DScalar sc) => scalar_to_literal sc v
          | Some (DEnum e) => enum_to_literal e v
          end
      end
    end.

  (* ---------------------------------------------------------------- coerce_variable_values *)

  Record vardef : Type := mkVar { v_name : text; v_type : ityp; v_default : option lit }.

  (* one error = (variable, path inside its value) *)
  Inductive vars_result : Type :=
  | VValues (coerced : env)
  | VErrors (errs : list (text * path))
  | VCrash
  | VFuel.

  Definition tag (n : text) (ps : list path) : list (text * path) := map (fun p => (n, p)) ps.

  (* the rest of the loop after this definition contributed [errs] and maybe a value *)
  Definition vars_rest (d : vardef) (loop : result (list (text * path) * env))
      (errs : list (text * path)) (o : option pyval) : result (list (text * path) * env) :=
    match loop with
    | Good (es, cs) => Good (errs ++ es, match o with
                                         | Some y => (v_name d, y) :: cs
                                         | None => cs
                                         end)
    | e => e
    end.

  (* coerce the provided value; on failure ask the validator for the errors *)
  Definition vars_by_value (fuel : nat) (d : vardef) (value : pyval)
      (loop : result (list (text * path) * env)) : result (list (text * path) * env) :=
    match coerce_val fuel (v_type d) value with
    | Good y => vars_rest d loop [] (Some y)
    | Invalid =>
        match validate_val fuel (v_type d) value [] with
        | Some ps => vars_rest d loop (tag (v_name d) ps) None
        | None => Fuel
        end
    | Crash => Crash
    | Fuel => Fuel
    end.

  (* maybe_use_default_value after the TypeError of coerce_default_value: the errors of
     validate_default_input, or the TypeError itself when that reports nothing *)
  Definition vars_default_errs (fuel : nat) (d : vardef) (dl : lit)
      (loop : result (list (text * path) * env)) : result (list (text * path) * env) :=
    match validate_lit fuel true [] (v_type d) dl [] with
    | Some [] => vars_rest d loop [(v_name d, [])] None
    | Some ps => vars_rest d loop (tag (v_name d) ps) None
    | None => Fuel
    end.

  (* returns (errors, coerced) accumulated in definition order *)
  Fixpoint coerce_vars_loop (fuel : nat) (defs : list vardef) (inputs : list (text * pyval))
    : result (list (text * path) * env) :=
    match defs with
    | [] => Good ([], [])
    | d :: r =>
        let loop := coerce_vars_loop fuel r inputs in
        let value := dget (v_name d) inputs in
        if is_undef value then
          match v_default d with
          | Some dl =>
              match coerce_lit fuel [] (v_type d) dl with
              | Good y => vars_rest d loop [] (Some y)
              | Invalid => vars_default_errs fuel d dl loop
              | Crash => vars_default_errs fuel d dl loop
              | Fuel => Fuel
              end
          | None =>
              if is_nonnull (v_type d) then vars_by_value fuel d value loop
              else vars_rest d loop [] None
          end
        else vars_by_value fuel d value loop
    end.

  Definition coerce_variables (fuel : nat) (defs : list vardef) (inputs : list (text * pyval))
    : vars_result :=
    match coerce_vars_loop fuel defs inputs with
    | Good ([], cs) => VValues cs
    | Good (es, _) => VErrors es
    | Invalid => VCrash
    | Crash => VCrash
    | Fuel => VFuel
    end.
End Oracles.
