(* Proofs about the input coercion / validation model (C15). *)
From GV Require Import Base.Prelude Types.Scalars Types.ScalarsProps Types.Coerce.

(* ------------------------------------------------------------------ well-formedness *)

(* what validate_schema guarantees and the proofs need: unique field names, no default on a
   OneOf field, no enum member whose internal value is None/Undefined (build_schema: the name) *)
Definition wf_tdef (d : tdef) : Prop :=
  match d with
  | DScalar _ => True
  | DEnum e => forall n v, In (n, v) e -> is_null v = false
  | DInput oneof fds =>
      NoDup (map f_name fds) /\ (oneof = true -> forall fd, In fd fds -> f_default fd = None)
  end.

Definition wf_schema (s : schema) : Prop := forall n d, assoc n s = Some d -> wf_tdef d.

(* a Python dict has unique keys *)
Fixpoint wf_val (v : pyval) : Prop :=
  match v with
  | PList l => (fix all (l : list pyval) : Prop :=
                  match l with [] => True | x :: r => wf_val x /\ all r end) l
  | PDict kvs =>
      NoDup (map fst kvs) /\
      (fix all (l : list (text * pyval)) : Prop :=
         match l with [] => True | (_, x) :: r => wf_val x /\ all r end) kvs
  | _ => True
  end.

Lemma wf_val_list l x : wf_val (PList l) -> In x l -> wf_val x.
Proof.
  cbn [wf_val]. induction l as [|y l IH]; intros H I; [destruct I|].
  destruct H as [H1 H2]. destruct I as [->|I]; auto.
Qed.

Lemma wf_val_dict kvs k x : wf_val (PDict kvs) -> In (k, x) kvs -> wf_val x.
Proof.
  cbn [wf_val]. intros [_ H]. induction kvs as [|[k' y] kvs IH]; intro I; [destruct I|].
  destruct H as [H1 H2]. destruct I as [E|I]; [inversion E; subst; auto | auto].
Qed.

Lemma wf_val_dict_nodup kvs : wf_val (PDict kvs) -> NoDup (map fst kvs).
Proof. cbn [wf_val]. tauto. Qed.

Lemma wf_val_dget kvs k : wf_val (PDict kvs) -> wf_val (dget k kvs).
Proof.
  intro H. unfold dget. destruct (assoc k kvs) as [x|] eqn:E; [|exact I].
  apply assoc_in in E. eapply wf_val_dict; eauto.
Qed.

(* ------------------------------------------------------------------ results *)

Definition settled {A} (r : result A) : Prop := r <> Crash /\ r <> Fuel.

Lemma settled_cases {A} (r : result A) : settled r -> (exists a, r = Good a) \/ r = Invalid.
Proof. destruct r; intros [H1 H2]; eauto; congruence. Qed.

Lemma settled_good {A} (a : A) : settled (Good a).
Proof. split; discriminate. Qed.

Lemma settled_invalid {A} : settled (@Invalid A).
Proof. split; discriminate. Qed.

Lemma rmap_settled {A B} (g : A -> B) r : settled (rmap g r) -> settled r.
Proof. destruct r; cbn; intros [H1 H2]; split; congruence. Qed.

Lemma rmap_invalid {A B} (g : A -> B) r : rmap g r = Invalid <-> r = Invalid.
Proof. destruct r; cbn; split; congruence. Qed.

Lemma rmap_good {A B} (g : A -> B) r b : rmap g r = Good b -> exists a, r = Good a /\ b = g a.
Proof. destruct r; cbn; intro H; inversion H. eauto. Qed.

Lemma good_settled v : settled (good v).
Proof. unfold good. destruct (is_undef v); [apply settled_invalid | apply settled_good]. Qed.

Lemma of_cres_settled r : settled (of_cres r).
Proof. destruct r; cbn [of_cres]; [apply good_settled | apply settled_invalid]. Qed.

Lemma oapp_some {A} (a b : option (list A)) l :
  oapp a b = Some l -> exists x y, a = Some x /\ b = Some y /\ l = x ++ y.
Proof. destruct a, b; cbn; intro H; inversion H. eauto. Qed.

Lemma app_nonempty {A} (x y : list A) : x ++ y <> [] <-> x <> [] \/ y <> [].
Proof.
  destruct x; cbn; split.
  - intro H. right. exact H.
  - intros [H|H]; congruence.
  - intros _. left. discriminate.
  - intros _. discriminate.
Qed.

(* ------------------------------------------------------------------ generic agreement of loops *)

Lemma seq_list_agree {A B} (c : A -> result B) (vf : nat -> A -> option (list path)) items :
  (forall x, In x items -> forall i e, settled (c x) -> vf i x = Some e -> (c x = Invalid <-> e <> [])) ->
  forall i errs, settled (seq_list c items) -> vseq vf i items = Some errs ->
    (seq_list c items = Invalid <-> errs <> []).
Proof.
  induction items as [|x items IH]; intros Hx i errs St V.
  - cbn in *. inversion V. split; [discriminate | congruence].
  - cbn [seq_list vseq] in *. apply oapp_some in V as [e1 [e2 [V1 [V2 ->]]]].
    assert (Hrest : forall y, In y items -> forall i e, settled (c y) -> vf i y = Some e ->
                      (c y = Invalid <-> e <> [])) by (intros y Iy j e Sy Vy; exact (Hx y (or_intror Iy) j e Sy Vy)).
    pose proof (Hx x (or_introl eq_refl) i e1) as Hx1.
    destruct (c x) as [y| | |] eqn:C.
    + apply rmap_settled in St as S'. specialize (IH Hrest (S i) e2 S' V2).
      rewrite rmap_invalid. specialize (Hx1 (settled_good y) V1).
      assert (e1 = []) as ->.
      { destruct e1; [reflexivity|]. exfalso. destruct Hx1 as [_ H]. discriminate H. discriminate. }
      cbn [app]. exact IH.
    + specialize (Hx1 settled_invalid V1). split; [|reflexivity].
      intros _. apply app_nonempty. left. apply Hx1. reflexivity.
    + destruct St as [St _]. congruence.
    + destruct St as [_ St]. congruence.
Qed.

Lemma seq_fields_agree (step : field -> result (option pyval)) (vstep : field -> option (list path)) fds :
  (forall fd, In fd fds -> forall e, settled (step fd) -> vstep fd = Some e -> (step fd = Invalid <-> e <> [])) ->
  forall errs, settled (seq_fields step fds) -> vfields vstep fds = Some errs ->
    (seq_fields step fds = Invalid <-> errs <> []).
Proof.
  induction fds as [|fd fds IH]; intros Hx errs St V.
  - cbn in *. inversion V. split; [discriminate | congruence].
  - cbn [seq_fields vfields] in *. apply oapp_some in V as [e1 [e2 [V1 [V2 ->]]]].
    assert (Hrest : forall y, In y fds -> forall e, settled (step y) -> vstep y = Some e ->
                      (step y = Invalid <-> e <> [])) by (intros y Iy e Sy Vy; exact (Hx y (or_intror Iy) e Sy Vy)).
    pose proof (Hx fd (or_introl eq_refl) e1) as Hx1.
    destruct (step fd) as [y| | |] eqn:C.
    + apply rmap_settled in St as S'. specialize (IH Hrest e2 S' V2).
      rewrite rmap_invalid. specialize (Hx1 (settled_good y) V1).
      assert (e1 = []) as ->.
      { destruct e1; [reflexivity|]. exfalso. destruct Hx1 as [_ H]. discriminate H. discriminate. }
      cbn [app]. exact IH.
    + specialize (Hx1 settled_invalid V1). split; [|reflexivity].
      intros _. apply app_nonempty. left. apply Hx1. reflexivity.
    + destruct St as [St _]. congruence.
    + destruct St as [_ St]. congruence.
Qed.

(* when the loop succeeds, nothing was reported for any field *)
Lemma seq_fields_good_no_errs (step : field -> result (option pyval)) vstep fds out errs :
  (forall fd, In fd fds -> forall e, settled (step fd) -> vstep fd = Some e -> (step fd = Invalid <-> e <> [])) ->
  seq_fields step fds = Good out -> vfields vstep fds = Some errs -> errs = [].
Proof.
  intros H G V. pose proof (seq_fields_agree step vstep fds H errs) as A.
  rewrite G in A. specialize (A (settled_good out) V).
  destruct errs; [reflexivity|]. exfalso. destruct A as [_ A]. discriminate A. discriminate.
Qed.

(* ------------------------------------------------------------------ small facts on dicts *)

Lemma existsb_filter_nonempty {A} (f : A -> bool) l : existsb f l = true <-> filter f l <> [].
Proof.
  induction l as [|x l IH]; cbn; [split; [discriminate | congruence]|].
  destruct (f x); cbn; [split; [discriminate | reflexivity] | exact IH].
Qed.

Lemma existsb_filter_empty {A} (f : A -> bool) l : existsb f l = false -> filter f l = [].
Proof.
  intro H. destruct (filter f l) eqn:E; [reflexivity|].
  assert (existsb f l = true) by (apply existsb_filter_nonempty; rewrite E; discriminate). congruence.
Qed.

Lemma map_nonempty {A B} (g : A -> B) l : map g l <> [] <-> l <> [].
Proof. destruct l; cbn; split; congruence. Qed.

Lemma known_in k fds : known k fds = true <-> exists fd, In fd fds /\ f_name fd = k.
Proof.
  induction fds as [|fd fds IH]; cbn [known].
  - split; [discriminate | intros [? [[] _]]].
  - rewrite orb_true_iff, IH, nat_list_eqb_eq. split.
    + intros [E|[fd' [I E]]].
      * exists fd. split; [left; reflexivity | symmetry; exact E].
      * exists fd'. split; [right; exact I | exact E].
    + intros [fd' [[E'|I] E]].
      * left. subst. reflexivity.
      * right. exists fd'. split; assumption.
Qed.

Lemma dget_defined_in k kvs : is_undef (dget k kvs) = false -> In (k, dget k kvs) (defined_entries kvs).
Proof.
  unfold dget, defined_entries. destruct (assoc k kvs) as [x|] eqn:E; [|discriminate].
  intro U. apply filter_In. split; [apply assoc_in; exact E | cbn; rewrite U; reflexivity].
Qed.

Lemma defined_in_dget k v kvs :
  NoDup (map fst kvs) -> In (k, v) (defined_entries kvs) -> dget k kvs = v /\ is_undef v = false.
Proof.
  intros ND I. apply filter_In in I as [I U]. cbn in U. apply negb_true_iff in U.
  unfold dget. rewrite (in_assoc_nodup _ _ _ ND I). auto.
Qed.

(* ------------------------------------------------------------------ leaves *)

Ltac break_match :=
  repeat match goal with
         | |- context [if ?c then _ else _] => destruct c
         | |- context [match ?x with _ => _ end] => destruct x
         end.

Lemma coerce_input_not_null maxd sc v o : coerce_input maxd sc v = COk o -> is_null o = false.
Proof.
  destruct sc, v; cbn [coerce_input coerce_int coerce_float coerce_string coerce_boolean coerce_id];
    try discriminate;
    unfold int_from_float, int_from_int, float_from_float, float_from_int, id_from_float, str_of_int;
    break_match; intro H; inversion H; reflexivity.
Qed.

Lemma good_inv v y : good v = Good y -> y = v /\ is_undef v = false.
Proof. unfold good. destruct (is_undef v); intro H; inversion H. auto. Qed.

Lemma leaf_val_not_null maxd d v y : wf_tdef d -> leaf_val maxd d v = Good y -> is_null y = false.
Proof.
  destruct d as [sc|e|o fds]; cbn [leaf_val wf_tdef]; intros W H.
  - destruct (coerce_input maxd sc v) as [x|] eqn:E; cbn [of_cres] in H; [|discriminate].
    apply good_inv in H as [-> _]. eapply coerce_input_not_null; eauto.
  - destruct v; cbn [enum_input of_cres] in H; try discriminate.
    destruct (assoc s e) as [x|] eqn:E; cbn [of_cres] in H; [|discriminate].
    apply good_inv in H as [-> _]. apply assoc_in in E. eapply W; eauto.
  - discriminate.
Qed.

Lemma leaf_val_settled maxd d v : settled (leaf_val maxd d v).
Proof. destruct d; cbn [leaf_val]; try apply of_cres_settled. apply settled_invalid. Qed.

(* ------------------------------------------------------------------ decimal text of an int *)

Lemma div_eucl_10 n q r : N.div_eucl n 10 = (q, r) -> n = 10 * q + r /\ r < 10.
Proof.
  intro E. pose proof (N.div_eucl_spec n 10) as S. rewrite E in S.
  split; [exact S|].
  assert (r = n mod 10) by (unfold N.modulo; rewrite E; reflexivity). subst r.
  apply N.mod_lt. discriminate.
Qed.

Lemma digit_ok r : r < 10 -> ((48 <=? 48 + r) && (48 + r <=? 57)) = true /\ (48 + r - 48 = r).
Proof.
  intro H. split; [|lia]. apply andb_true_iff. split; apply N.leb_le; lia.
Qed.

(* reading back the digits written by dec_digits *)
Lemma dec_digits_value : forall fuel n acc,
  n < 10 ^ N.of_nat fuel ->
  exists d : nat, forall a, dec_value (dec_digits fuel n acc) a = dec_value acc (a * 10 ^ Z.of_nat d + Z.of_N n)%Z.
Proof.
  induction fuel as [|f IH]; intros n acc H.
  - cbn in H. assert (n = 0) by lia. subst. exists O. intro a. cbn [dec_digits].
    cbn [Z.of_nat]. rewrite Z.pow_0_r, Z.mul_1_r, Z.add_0_r. reflexivity.
  - cbn [dec_digits]. destruct (N.div_eucl n 10) as [q r] eqn:E.
    destruct (div_eucl_10 _ _ _ E) as [En Hr]. destruct (digit_ok r Hr) as [D1 D2].
    destruct (q =? 0) eqn:Q.
    + apply N.eqb_eq in Q. subst q. exists 1%nat. intro a. cbn [dec_value]. rewrite D1, D2.
      cbn [Z.of_nat Pos.of_succ_nat]. rewrite Z.pow_1_r. f_equal. lia.
    + assert (Hq : q < 10 ^ N.of_nat f).
      { rewrite Nat2N.inj_succ, N.pow_succ_r' in H. lia. }
      destruct (IH q ((48 + r) :: acc) Hq) as [d Hd]. exists (S d). intro a.
      rewrite Hd. cbn [dec_value]. rewrite D1, D2. f_equal.
      rewrite Nat2Z.inj_succ, Z.pow_succ_r by lia. subst n. lia.
Qed.

Lemma dec_digits_head : forall fuel n acc, exists c r, dec_digits (S fuel) n acc = c :: r /\ 48 <= c /\ c <= 57.
Proof.
  induction fuel as [|f IH]; intros n acc.
  - cbn [dec_digits]. destruct (N.div_eucl n 10) as [q r] eqn:E.
    destruct (div_eucl_10 _ _ _ E) as [_ Hr]. destruct (q =? 0); eexists _, _; (split; [reflexivity | lia]).
  - cbn [dec_digits]. destruct (N.div_eucl n 10) as [q r] eqn:E.
    destruct (div_eucl_10 _ _ _ E) as [_ Hr]. destruct (q =? 0).
    + eexists _, _; (split; [reflexivity | lia]).
    + apply IH.
Qed.

Lemma fuel_enough n : n < 10 ^ N.of_nat (S (N.to_nat (N.log2 n))).
Proof.
  rewrite Nat2N.inj_succ, N2Nat.id.
  destruct n as [|p]; [cbn; lia|].
  pose proof (N.log2_spec (Npos p) eq_refl) as [_ H].
  eapply N.lt_le_trans; [exact H|]. apply N.pow_le_mono_l. lia.
Qed.

Lemma N_dec_value n : dec_value (N_dec n) 0%Z = Some (Z.of_N n).
Proof.
  unfold N_dec. destruct (dec_digits_value _ n [] (fuel_enough n)) as [d Hd].
  rewrite Hd. cbn [dec_value]. f_equal.
Qed.

Lemma int_lit_value_digit c r : 48 <= c -> int_lit_value (c :: r) = dec_value (c :: r) 0%Z.
Proof.
  intro H. unfold int_lit_value.
  destruct c as [|p]; [lia|].
  do 6 (destruct p as [p|p|]; try reflexivity); lia.
Qed.

Lemma int_str_roundtrip maxd z str : int_str maxd z = Some str -> int_lit_value str = Some z.
Proof.
  unfold int_str. destruct (negb (maxd =? 0) && (maxd <? N.of_nat (length (N_dec (Z.abs_N z))))); [discriminate|].
  intro H; inversion H; subst str; clear H.
  pose proof (N_dec_value (Z.abs_N z)) as V.
  destruct (dec_digits_head (N.to_nat (N.log2 (Z.abs_N z))) (Z.abs_N z) []) as [c [r [E [C1 C2]]]].
  fold (N_dec (Z.abs_N z)) in E. rewrite E in *.
  destruct (z <? 0)%Z eqn:Neg.
  - cbn [int_lit_value]. rewrite V. f_equal. apply Z.ltb_lt in Neg. rewrite N2Z.inj_abs_N. lia.
  - rewrite int_lit_value_digit by exact C1. rewrite V. f_equal. apply Z.ltb_ge in Neg. rewrite N2Z.inj_abs_N. lia.
Qed.

Lemma dec_digits_len : forall fuel n acc k,
  n < 10 ^ N.of_nat k -> (1 <= k)%nat -> (length (dec_digits fuel n acc) <= k + length acc)%nat.
Proof.
  induction fuel as [|f IH]; intros n acc k H K; cbn [dec_digits]; [lia|].
  destruct (N.div_eucl n 10) as [q r] eqn:E.
  destruct (div_eucl_10 _ _ _ E) as [En Hr].
  destruct (q =? 0) eqn:Q; [cbn [length]; lia|].
  apply N.eqb_neq in Q.
  destruct k as [|k]; [lia|]. destruct k as [|k].
  - cbn in H. lia.
  - assert (Hq : q < 10 ^ N.of_nat (S k)).
    { rewrite (Nat2N.inj_succ (S k)), N.pow_succ_r' in H. lia. }
    specialize (IH q ((48 + r) :: acc) (S k) Hq ltac:(lia)). cbn [length] in IH. lia.
Qed.

Lemma int_str_some maxd z :
  (maxd = 0 \/ 309 <= maxd) -> (Z.abs z < 2 ^ 1024)%Z -> exists str, int_str maxd z = Some str.
Proof.
  intros M B. unfold int_str.
  assert (L : (length (N_dec (Z.abs_N z)) <= 309)%nat).
  { unfold N_dec. pose proof (dec_digits_len (S (N.to_nat (N.log2 (Z.abs_N z)))) (Z.abs_N z) [] 309) as X.
    cbn [length] in X. rewrite Nat.add_0_r in X. apply X; [|lia].
    assert (Z.abs_N z < 2 ^ 1024).
    { apply N2Z.inj_lt. rewrite N2Z.inj_abs_N, N2Z.inj_pow. exact B. }
    eapply N.lt_le_trans; [exact H|]. apply N.leb_le. vm_compute. reflexivity. }
  destruct (negb (maxd =? 0) && (maxd <? N.of_nat (length (N_dec (Z.abs_N z))))) eqn:C; [|eauto].
  exfalso. apply andb_true_iff in C as [C1 C2]. apply negb_true_iff, N.eqb_neq in C1. apply N.ltb_lt in C2.
  destruct M as [M|M]; [congruence|]. lia.
Qed.

Lemma leaf_agree {A} (r : result A) (p : path) :
  settled r -> (r = Invalid <-> (if is_good r then [] else [p]) <> []).
Proof.
  destruct r; cbn [is_good]; intros [S1 S2]; split; intro H;
    try discriminate; try reflexivity; try congruence; exfalso; apply H; reflexivity.
Qed.

Definition is_var (l : lit) : bool := match l with LVar _ => true | _ => false end.

(* no object literal names a field twice (UniqueInputFieldNamesRule) *)
Fixpoint lit_wf (l : lit) : Prop :=
  match l with
  | LList xs => (fix all (xs : list lit) : Prop :=
                   match xs with [] => True | x :: r => lit_wf x /\ all r end) xs
  | LObject fs =>
      NoDup (map fst fs) /\
      (fix all (fs : list (text * lit)) : Prop :=
         match fs with [] => True | (_, x) :: r => lit_wf x /\ all r end) fs
  | _ => True
  end.

(* a constant literal: no variable anywhere *)
Fixpoint lit_const (l : lit) : Prop :=
  match l with
  | LVar _ => False
  | LList xs => (fix all (xs : list lit) : Prop :=
                   match xs with [] => True | x :: r => lit_const x /\ all r end) xs
  | LObject fs =>
      (fix all (fs : list (text * lit)) : Prop :=
         match fs with [] => True | (_, x) :: r => lit_const x /\ all r end) fs
  | _ => True
  end.

Lemma lit_wf_list xs x : lit_wf (LList xs) -> In x xs -> lit_wf x.
Proof.
  cbn [lit_wf]. induction xs as [|y xs IH]; intros H I; [destruct I|].
  destruct H as [H1 H2]. destruct I as [->|I]; auto.
Qed.

Lemma lit_wf_obj fs k x : lit_wf (LObject fs) -> In (k, x) fs -> lit_wf x.
Proof.
  cbn [lit_wf]. intros [_ H]. induction fs as [|[k' y] fs IH]; intro I; [destruct I|].
  destruct H as [H1 H2]. destruct I as [E|I]; [inversion E; subst; auto | auto].
Qed.

Lemma lit_wf_obj_nodup fs : lit_wf (LObject fs) -> NoDup (map fst fs).
Proof. cbn [lit_wf]. tauto. Qed.

Lemma lit_const_list xs x : lit_const (LList xs) -> In x xs -> lit_const x.
Proof.
  cbn [lit_const]. induction xs as [|y xs IH]; intros H I; [destruct I|].
  destruct H as [H1 H2]. destruct I as [->|I]; auto.
Qed.

Lemma lit_const_obj fs k x : lit_const (LObject fs) -> In (k, x) fs -> lit_const x.
Proof.
  cbn [lit_const]. intro H. induction fs as [|[k' y] fs IH]; intro I; [destruct I|].
  destruct H as [H1 H2]. destruct I as [E|I]; [inversion E; subst; auto | auto].
Qed.

Lemma lit_const_nonvar l : lit_const l -> is_var l = false.
Proof. destruct l; cbn; [intros [] | reflexivity ..]. Qed.

Lemma lit_get_in k fs x : lit_get k fs = Some x -> In (k, x) fs.
Proof.
  induction fs as [|[k' y] fs IH]; cbn [lit_get]; [discriminate|].
  destruct (lit_get k fs) as [z|] eqn:E.
  - intro H; inversion H; subst. right. apply IH. reflexivity.
  - destruct (nat_list_eqb k k') eqn:Ek; [|discriminate].
    intro H; inversion H; subst. apply nat_list_eqb_eq in Ek. subst. left. reflexivity.
Qed.

Lemma mem_text_in k l : mem_text k l = true <-> In k l.
Proof.
  induction l as [|x l IH]; cbn [mem_text]; [split; [discriminate | intros []]|].
  rewrite orb_true_iff, IH, nat_list_eqb_eq. split; intros [H|H]; [left; auto | right; auto | left; auto | right; auto].
Qed.

Lemma dedup_nodup l : forall seen, NoDup l -> (forall x, In x l -> ~ In x seen) -> dedup_names l seen = l.
Proof.
  induction l as [|x l IH]; intros seen ND H; [reflexivity|].
  cbn [dedup_names]. inversion ND as [|? ? Hn ND']; subst.
  destruct (mem_text x seen) eqn:M.
  - exfalso. apply mem_text_in in M. exact (H x (or_introl eq_refl) M).
  - f_equal. apply IH; [exact ND'|]. intros y Iy [E|Is].
    + subst. exact (Hn Iy).
    + exact (H y (or_intror Iy) Is).
Qed.

Lemma node_names_nodup fs : NoDup (map fst fs) -> node_names fs = map fst fs.
Proof. intro ND. unfold node_names. apply dedup_nodup; [exact ND | intros x _ []]. Qed.

Lemma existsb_map {A B} (f : B -> bool) (g : A -> B) l : existsb f (map g l) = existsb (fun x => f (g x)) l.
Proof. induction l as [|x l IH]; cbn; [reflexivity | rewrite IH; reflexivity]. Qed.

Definition top_ok (vars : env) (t : ityp) (l : lit) : bool :=
  negb (var_missing vars l && negb (is_nonnull t)).

Lemma top_ok_nonvar vars t l : is_var l = false -> top_ok vars t l = true.
Proof. destruct l; cbn; try discriminate; reflexivity. Qed.

Lemma seq_fields_good_each (step : field -> result (option pyval)) fds :
  forall out, seq_fields step fds = Good out -> forall fd, In fd fds -> exists o, step fd = Good o.
Proof.
  induction fds as [|fd' fds IH]; intros out H fd I; [destruct I|].
  cbn [seq_fields] in H. destruct (step fd') as [o| | |] eqn:C; try discriminate.
  apply rmap_good in H as [out' [H _]]. destruct I as [->|I]; [eauto | eapply IH; eauto].
Qed.

Lemma vfields_some_each vstep fds :
  forall errs, vfields vstep fds = Some errs -> forall fd, In fd fds -> exists e, vstep fd = Some e.
Proof.
  induction fds as [|fd' fds IH]; intros errs H fd I; [destruct I|].
  cbn [vfields] in H. apply oapp_some in H as [e1 [e2 [V1 [V2 _]]]].
  destruct I as [->|I]; [eauto | eapply IH; eauto].
Qed.

Lemma nat_list_eqb_sym a b : nat_list_eqb a b = nat_list_eqb b a.
Proof.
  destruct (nat_list_eqb a b) eqn:E1, (nat_list_eqb b a) eqn:E2; try reflexivity.
  - apply nat_list_eqb_eq in E1. subst. rewrite nat_list_eqb_refl in E2. discriminate.
  - apply nat_list_eqb_eq in E2. subst. rewrite nat_list_eqb_refl in E1. discriminate.
Qed.

Lemma vfields_invalid_errs (step : field -> result (option pyval)) vstep fds :
  (forall fd, In fd fds -> forall e, vstep fd = Some e -> step fd = Invalid -> e <> []) ->
  forall errs, seq_fields step fds = Invalid -> vfields vstep fds = Some errs -> errs <> [].
Proof.
  induction fds as [|fd fds IH]; intros H errs SF V; [discriminate|].
  cbn [seq_fields vfields] in *. apply oapp_some in V as [e1 [e2 [V1 [V2 ->]]]].
  apply app_nonempty.
  destruct (step fd) eqn:C; try discriminate.
  - right. apply rmap_invalid in SF. eapply IH; eauto. intros fd' I. apply H. right. exact I.
  - left. eapply H; eauto. left. reflexivity.
Qed.

Lemma vfields_all_nil vstep fds :
  (forall fd, In fd fds -> forall e, vstep fd = Some e -> e = []) ->
  forall errs, vfields vstep fds = Some errs -> errs = [].
Proof.
  induction fds as [|fd fds IH]; intros H errs V; cbn [vfields] in V; [inversion V; reflexivity|].
  apply oapp_some in V as [e1 [e2 [V1 [V2 ->]]]].
  rewrite (H fd (or_introl eq_refl) e1 V1). cbn [app]. apply IH; auto. intros fd' I. apply H. right. exact I.
Qed.

Lemma vfields_in_errs vstep fds fd e :
  In fd fds -> vstep fd = Some e -> e <> [] -> forall errs, vfields vstep fds = Some errs -> errs <> [].
Proof.
  induction fds as [|fd' fds IH]; intros I V1 Ne errs V; [destruct I|].
  cbn [vfields] in V. apply oapp_some in V as [e1 [e2 [W1 [W2 ->]]]]. apply app_nonempty.
  destruct I as [->|I].
  - left. rewrite V1 in W1. inversion W1; subst. exact Ne.
  - right. eapply IH; eauto.
Qed.

Section Agreement.
  Variable parse_float : text -> option pyfloat.
  Variable float_str : pyfloat -> text.
  Variable maxd : N.
  Variable s : schema.
  Hypothesis WF : wf_schema s.

  Notation cval := (coerce_val parse_float maxd s).
  Notation vval := (validate_val maxd s).
  Notation clit := (coerce_lit parse_float s).
  Notation vlit := (validate_lit parse_float s).

  (* a coerced None can only come from a null input *)
  Lemma cval_none : forall fuel t v y, cval fuel t v = Good y -> is_null y = true -> is_null v = true.
  Proof.
    induction fuel as [|f IH]; intros t v y H Ny; [discriminate|].
    destruct t as [n|it|t']; cbn [coerce_val] in H.
    - destruct (is_null v) eqn:Nv; [reflexivity|]. exfalso.
      destruct (assoc n s) as [d|] eqn:A; [|discriminate].
      destruct d as [sc|e|o fds].
      + pose proof (leaf_val_not_null _ _ _ _ (WF _ _ A) H). congruence.
      + pose proof (leaf_val_not_null _ _ _ _ (WF _ _ A) H). congruence.
      + destruct v; try discriminate. unfold coerce_obj_val in H.
        destruct (has_unknown fds kvs); [discriminate|].
        destruct (seq_fields _ fds); try discriminate.
        destruct (o && negb (oneof_val_ok kvs a)); [discriminate|].
        inversion H; subst. discriminate.
    - destruct (is_null v) eqn:Nv; [reflexivity|]. exfalso.
      destruct v; apply rmap_good in H as [a [_ ->]]; discriminate.
    - destruct (is_null v) eqn:Nv; [discriminate|]. rewrite <- Nv. eapply IH; eauto.
  Qed.

  Lemma cval_of_none fuel t y : cval fuel t PNone = Good y -> y = PNone.
  Proof.
    destruct fuel as [|f]; [discriminate|]. destruct t; cbn [coerce_val is_null]; intro H; inversion H; reflexivity.
  Qed.

  (* ---------------------------------------------------------------- OneOf, values *)

  (* the coerced entries when exactly the key k is provided and no field has a default *)
  Lemma seq_fields_single c cd kvs k : forall fds out,
    (forall fd, In fd fds -> f_default fd = None) ->
    (forall n, is_undef (dget n kvs) = false <-> n = k) ->
    NoDup (map f_name fds) ->
    seq_fields (val_step c cd kvs) fds = Good out ->
    (known k fds = true ->
       exists fd y, In fd fds /\ f_name fd = k /\ c (f_type fd) (dget k kvs) = Good y /\ out = [(k, y)])
    /\ (known k fds = false -> out = []).
  Proof.
    induction fds as [|fd fds IH]; intros out ND Hk NDn H.
    - cbn in H. inversion H. split; [discriminate | reflexivity].
    - cbn [seq_fields] in H. cbn [map] in NDn. inversion NDn as [|? ? Hnot ND']; subst.
      assert (NDr : forall fd', In fd' fds -> f_default fd' = None) by (intros; apply ND; right; auto).
      unfold val_step at 1 in H.
      destruct (is_undef (dget (f_name fd) kvs)) eqn:U.
      + (* this field is not provided: its name is not k *)
        assert (Nk : nat_list_eqb k (f_name fd) = false).
        { destruct (nat_list_eqb k (f_name fd)) eqn:E; [|reflexivity].
          apply nat_list_eqb_eq in E. subst k.
          assert (is_undef (dget (f_name fd) kvs) = false) by (apply Hk; reflexivity). congruence. }
        destruct (required fd); [discriminate|].
        unfold default_step in H. rewrite (ND fd (or_introl eq_refl)) in H.
        apply rmap_good in H as [out' [H ->]]. cbn [add_entry].
        destruct (IH out' NDr Hk ND' H) as [I1 I2].
        cbn [known]. rewrite Nk. cbn [orb]. split.
        * intro K. destruct (I1 K) as [fd' [y [A [B [C D]]]]]. exists fd', y. repeat split; auto. right. exact A.
        * exact I2.
      + (* provided: its name is k, and no later field is named k *)
        assert (E : f_name fd = k) by (apply Hk; exact U).
        destruct (c (f_type fd) (dget (f_name fd) kvs)) as [y| | |] eqn:C; cbn [rmap] in H; try discriminate.
        apply rmap_good in H as [out' [H ->]]. cbn [add_entry].
        assert (Kr : known k fds = false).
        { destruct (known k fds) eqn:K; [|reflexivity]. exfalso. apply known_in in K as [fd' [A B]].
          apply Hnot. rewrite E, <- B. apply in_map. exact A. }
        destruct (IH out' NDr Hk ND' H) as [_ I2]. rewrite (I2 Kr).
        split; [|intro K; cbn [known] in K; rewrite <- E, nat_list_eqb_refl in K; discriminate].
        intros _. exists fd, y. rewrite <- E. repeat split; auto. left. reflexivity.
  Qed.

  Lemma filter_all {A} (f : A -> bool) l : existsb (fun x => negb (f x)) l = false -> filter f l = l.
  Proof.
    induction l as [|x l IH]; cbn; [reflexivity|].
    destruct (f x); cbn; [intro H; rewrite IH; auto | discriminate].
  Qed.

  Lemma existsb_false_in {A} (f : A -> bool) l x : existsb f l = false -> In x l -> f x = false.
  Proof.
    induction l as [|y l IH]; cbn; [intros _ []|].
    intros H [->|I]; apply orb_false_iff in H as [H1 H2]; auto.
  Qed.

  Lemma is_none_null v : is_undef v = false -> is_null v = true -> is_none v = true.
  Proof. destruct v; cbn; congruence. Qed.

  Lemma oneof_val_agree c cd fds kvs out p :
    (forall fd, In fd fds -> f_default fd = None) ->
    NoDup (map f_name fds) -> NoDup (map fst kvs) ->
    has_unknown fds kvs = false ->
    seq_fields (val_step c cd kvs) fds = Good out ->
    (forall t v y, c t v = Good y -> is_null y = true -> is_null v = true) ->
    (forall t y, c t PNone = Good y -> y = PNone) ->
    (oneof_val_ok kvs out = false <-> oneof_val_errs p fds kvs <> []).
  Proof.
    intros ND NDn NDk HU SF F1 F2.
    unfold oneof_val_ok, oneof_val_errs, known_entries. unfold has_unknown in HU.
    rewrite (filter_all _ _ HU).
    destruct (defined_entries kvs) as [|[k v] [|kv2 rest]] eqn:ED.
    - cbn. split; [discriminate | reflexivity].
    - cbn [map fst length Nat.eqb app].
      assert (Ikv : In (k, v) (defined_entries kvs)) by (rewrite ED; left; reflexivity).
      destruct (defined_in_dget _ _ _ NDk Ikv) as [Dk Uv].
      assert (Hk : forall n, is_undef (dget n kvs) = false <-> n = k).
      { intro n. split.
        - intro U. apply dget_defined_in in U. rewrite ED in U. destruct U as [E|[]]. inversion E. reflexivity.
        - intros ->. rewrite Dk. exact Uv. }
      assert (K : known k fds = true).
      { pose proof (existsb_false_in _ _ (k, v) HU (or_introl eq_refl)) as X. cbn in X. apply negb_false_iff in X. exact X. }
      destruct (seq_fields_single c cd kvs k fds out ND Hk NDn SF) as [S1 _].
      destruct (S1 K) as [fd [y [_ [_ [C ->]]]]]. rewrite Dk in C. rewrite Dk.
      destruct (is_none v) eqn:Nv.
      + assert (Ev : v = PNone) by (destruct v; cbn in Nv; congruence). rewrite Ev in C.
        rewrite (F2 _ _ C). cbn. split; [discriminate | reflexivity].
      + destruct (is_none y) eqn:Ny.
        * exfalso. assert (Ey : y = PNone) by (destruct y; cbn in Ny; congruence). rewrite Ey in C.
          pose proof (F1 _ _ _ C eq_refl) as Nl. rewrite (is_none_null _ Uv Nl) in Nv. discriminate.
        * cbn. split; [discriminate | congruence].
    - cbn. split; [discriminate | reflexivity].
  Qed.

  Lemma obj_val_agree c cd vv oneof fds kvs p errs :
    wf_tdef (DInput oneof fds) -> NoDup (map fst kvs) ->
    (forall fd, In fd fds -> forall e, settled (val_step c cd kvs fd) -> vval_step vv kvs p fd = Some e ->
                 (val_step c cd kvs fd = Invalid <-> e <> [])) ->
    (forall t v y, c t v = Good y -> is_null y = true -> is_null v = true) ->
    (forall t y, c t PNone = Good y -> y = PNone) ->
    settled (coerce_obj_val c cd oneof fds kvs) ->
    validate_obj_val vv oneof fds kvs p = Some errs ->
    (coerce_obj_val c cd oneof fds kvs = Invalid <-> errs <> []).
  Proof.
    intros [NDn OD] NDk Hf F1 F2 St V.
    unfold coerce_obj_val in *. unfold validate_obj_val in V.
    apply oapp_some in V as [e1 [e2 [V1 [V2 ->]]]]. inversion V2; subst e2; clear V2.
    destruct (has_unknown fds kvs) eqn:HU.
    - split; [|reflexivity]. intros _. apply app_nonempty. right. apply app_nonempty. left.
      unfold unknown_val_errs. apply map_nonempty. apply existsb_filter_nonempty. exact HU.
    - assert (UE : unknown_val_errs p fds kvs = []).
      { unfold unknown_val_errs. unfold has_unknown in HU. rewrite (existsb_filter_empty _ _ HU). reflexivity. }
      rewrite UE. cbn [app].
      destruct (seq_fields (val_step c cd kvs) fds) as [out| | |] eqn:SF.
      + rewrite (seq_fields_good_no_errs _ _ _ _ _ Hf SF V1). cbn [app].
        destruct oneof; cbn [andb].
        * pose proof (oneof_val_agree c cd fds kvs out p (OD eq_refl) NDn NDk HU SF F1 F2) as A.
          destruct (oneof_val_ok kvs out); cbn [negb].
          -- split; [discriminate|]. intro X. destruct A as [_ A]. specialize (A X). discriminate.
          -- split; [|reflexivity]. intros _. apply A. reflexivity.
        * split; [discriminate | congruence].
      + split; [|reflexivity]. intros _. apply app_nonempty. left.
        pose proof (seq_fields_agree _ _ fds Hf e1) as A. rewrite SF in A.
        apply (A settled_invalid V1). reflexivity.
      + destruct St as [St _]. congruence.
      + destruct St as [_ St]. congruence.
  Qed.

  (* pointwise agreement of a field step, from agreement of the recursive calls *)
  Lemma val_step_agree c cd vv kvs p fd e :
    (forall v q e', settled (c (f_type fd) v) -> vv (f_type fd) v q = Some e' -> wf_val v ->
                    (c (f_type fd) v = Invalid <-> e' <> [])) ->
    wf_val (PDict kvs) ->
    settled (val_step c cd kvs fd) -> vval_step vv kvs p fd = Some e ->
    (val_step c cd kvs fd = Invalid <-> e <> []).
  Proof.
    intros H W St V. unfold val_step, vval_step in *.
    destruct (is_undef (dget (f_name fd) kvs)) eqn:U.
    - inversion V; subst e; clear V. destruct (required fd).
      + split; [discriminate | reflexivity].
      + unfold default_step in *. destruct (f_default fd) as [dl|].
        * destruct (cd (f_type fd) dl); split; try discriminate; try congruence;
            destruct St as [S1 S2]; congruence.
        * split; [discriminate | congruence].
    - apply rmap_settled in St. rewrite rmap_invalid. eapply H; eauto. apply wf_val_dget. exact W.
  Qed.

  (* ---------------------------------------------------------------- values: the agreement *)

  Theorem value_agree : forall fuel t v p errs,
    wf_val v -> settled (cval fuel t v) -> vval fuel t v p = Some errs ->
    (cval fuel t v = Invalid <-> errs <> []).
  Proof.
    induction fuel as [|f IH]; intros t v p errs W St V; [discriminate|].
    destruct t as [n|it|t']; cbn [coerce_val validate_val] in *.
    - destruct (is_null v) eqn:Nv.
      { inversion V. split; [discriminate | congruence]. }
      destruct (assoc n s) as [d|] eqn:A; [|destruct St as [St _]; congruence].
      destruct d as [sc|e|o fds].
      + inversion V; subst errs. apply leaf_agree. exact St.
      + inversion V; subst errs. apply leaf_agree. exact St.
      + destruct v; try (inversion V; split; [discriminate | reflexivity]).
        apply (obj_val_agree (cval f) (clit f []) (vval f) o fds kvs p errs (WF _ _ A) (wf_val_dict_nodup _ W)).
        * intros fd _ e0 S0 V0. eapply val_step_agree; eauto.
        * intros t v y. apply cval_none.
        * intros t y. apply cval_of_none.
        * exact St.
        * exact V.
    - destruct (is_null v) eqn:Nv.
      { inversion V. split; [discriminate | congruence]. }
      destruct v; try (apply rmap_settled in St; rewrite rmap_invalid; eapply IH; eauto).
      apply rmap_settled in St. rewrite rmap_invalid.
      eapply (seq_list_agree (cval f it) (fun i x => vval f it x (p ++ [PIdx i]))); eauto.
      intros x Ix i e S1 V1. eapply IH; eauto. eapply wf_val_list; eauto.
    - destruct (is_null v) eqn:Nv.
      + inversion V. split; [discriminate | reflexivity].
      + eapply IH; eauto.
  Qed.

  (* ================================================================ literals *)

  Lemma clit_nonvar f vars t l : is_var l = false ->
    clit (S f) vars t l =
    match t with
    | TNonNull t' => if is_lnull l then Invalid else clit f vars t' l
    | TList it =>
        if is_lnull l then Good PNone else
        match l with
        | LList items => rmap PList (seq_list (lit_item (clit f vars it) vars it) items)
        | _ => rmap (fun y => PList [y]) (clit f vars it l)
        end
    | TNamed n =>
        if is_lnull l then Good PNone else
        match assoc n s with
        | None => Crash
        | Some (DInput oneof fds) =>
            match l with
            | LObject fs => coerce_obj_lit (clit f vars) (clit f []) vars oneof fds fs
            | _ => Invalid
            end
        | Some d => leaf_lit parse_float d l
        end
    end.
  Proof. destruct l; try discriminate; reflexivity. Qed.

  Lemma vlit_nonvar f static vars t l p : is_var l = false ->
    vlit (S f) static vars t l p =
    match t with
    | TNonNull t' => if is_lnull l then Some [p] else vlit f static vars t' l p
    | TList it =>
        if is_lnull l then Some [] else
        match l with
        | LList items => vseq (fun i x => vlit f static vars it x (p ++ [PIdx i])) O items
        | _ => vlit f static vars it l p
        end
    | TNamed n =>
        if is_lnull l then Some [] else
        match assoc n s with
        | None => Some []
        | Some (DInput oneof fds) =>
            match l with
            | LObject fs => validate_obj_lit (vlit f static vars) static vars oneof fds fs p
            | _ => Some [p]
            end
        | Some d => Some (if is_good (leaf_lit parse_float d l) then [] else [p])
        end
    end.
  Proof. destruct l; try discriminate; reflexivity. Qed.

  Lemma leaf_lit_settled d l : settled (leaf_lit parse_float d l).
  Proof.
    destruct d as [sc|e|o fds]; cbn [leaf_lit].
    - destruct sc, l; cbn [scalar_lit]; try apply settled_invalid; try apply settled_good;
        unfold float_lit; break_match; try apply settled_invalid; apply settled_good.
    - destruct l; cbn [enum_lit]; try apply settled_invalid.
      destruct (assoc n e); [apply good_settled | apply settled_invalid].
    - apply settled_invalid.
  Qed.

  Lemma leaf_lit_not_null d l y : wf_tdef d -> leaf_lit parse_float d l = Good y -> is_null y = false.
  Proof.
    destruct d as [sc|e|o fds]; cbn [leaf_lit wf_tdef]; intros W H.
    - destruct sc, l; cbn [scalar_lit] in H; try discriminate; unfold float_lit in H;
        repeat match type of H with
               | context [match ?x with _ => _ end] => destruct x; try discriminate
               | context [if ?c then _ else _] => destruct c; try discriminate
               end; inversion H; reflexivity.
    - destruct l; cbn [enum_lit] in H; try discriminate.
      destruct (assoc n e) as [x|] eqn:E; [|discriminate].
      apply good_inv in H as [-> _]. apply assoc_in in E. eapply W; eauto.
    - discriminate.
  Qed.

  (* a coerced None comes from the null literal or from a variable *)
  Lemma clit_none : forall fuel vars t l y,
    clit fuel vars t l = Good y -> is_null y = true -> is_lnull l = true \/ is_var l = true.
  Proof.
    induction fuel as [|f IH]; intros vars t l y H Ny; [discriminate|].
    destruct (is_var l) eqn:Vl; [right; reflexivity|]. left.
    rewrite (clit_nonvar f vars t l Vl) in H.
    destruct t as [n|it|t'].
    - destruct (is_lnull l) eqn:Nl; [reflexivity|]. exfalso.
      destruct (assoc n s) as [d|] eqn:A; [|discriminate].
      destruct d as [sc|e|o fds].
      + pose proof (leaf_lit_not_null _ _ _ (WF _ _ A) H). congruence.
      + pose proof (leaf_lit_not_null _ _ _ (WF _ _ A) H). congruence.
      + destruct l; try discriminate. unfold coerce_obj_lit in H.
        destruct (existsb _ (node_names fs)); [discriminate|].
        destruct (seq_fields _ fds); try discriminate.
        destruct (o && negb (oneof_lit_ok fs a)); [discriminate|].
        inversion H; subst. discriminate.
    - destruct (is_lnull l) eqn:Nl; [reflexivity|]. exfalso.
      destruct l; apply rmap_good in H as [a [_ ->]]; discriminate.
    - destruct (is_lnull l) eqn:Nl; [discriminate|].
      destruct (IH _ _ _ _ H Ny) as [X|X]; congruence.
  Qed.

  (* ---------------------------------------------------------------- object literals *)

  Section ObjLit.
    Variable c cd : ityp -> lit -> result pyval.
    Variable vl : ityp -> lit -> path -> option (list path).
    Variable static : bool.
    Variable vars : env.

    (* what the proofs use of the recursive calls *)
    Hypothesis HIH : forall t x q e, lit_wf x -> (static = true -> lit_const x) ->
      (static = false -> top_ok vars t x = true) ->
      settled (c t x) -> vl t x q = Some e -> (c t x = Invalid <-> e <> []).
    Hypothesis HN : forall t x y, c t x = Good y -> is_null y = true -> is_lnull x = true \/ is_var x = true.
    Hypothesis HCV : forall t vn, settled (c t (LVar vn)) ->
      c t (LVar vn) = (let v := lookup_var vn vars in if is_null v && is_nonnull t then Invalid else good v).
    Hypothesis HVV : forall t vn q e, vl t (LVar vn) q = Some e ->
      e = (if static then [] else if is_nonnull t && is_null (lookup_var vn vars) then [q] else []).
    Hypothesis HCN : forall t, settled (c t LNull) -> c t LNull = (if is_nonnull t then Invalid else Good PNone).

    Variable oneof : bool.
    Variable fs : list (text * lit).
    Variable p : path.
    Hypothesis FW : lit_wf (LObject fs).
    Hypothesis FC : static = true -> lit_const (LObject fs).

    Definition exceptional (fd : field) : Prop :=
      oneof = true /\ static = false /\
      exists vn, lit_get (f_name fd) fs = Some (LVar vn) /\ is_null (lookup_var vn vars) = true.

    Lemma lit_step_facts fd e :
      settled (lit_step c cd vars fs fd) -> vlit_step vl static vars oneof fs p fd = Some e ->
      (lit_step c cd vars fs fd = Invalid -> e <> [])
      /\ (forall o, lit_step c cd vars fs fd = Good o -> e = [] \/ exceptional fd).
    Proof.
      unfold lit_step, vlit_step, exceptional. intros St V.
      destruct (lit_get (f_name fd) fs) as [node|] eqn:LG.
      2:{ inversion V; subst e; clear V. destruct (required fd).
          - split; [intros _; discriminate | intros o H; discriminate].
          - split; [|intros; left; reflexivity].
            unfold default_step. destruct (f_default fd); [destruct (cd (f_type fd) l)|]; discriminate. }
      pose proof (lit_get_in _ _ _ LG) as Inode.
      destruct (is_var node) eqn:Vn.
      - destruct node as [vn| | | | | | | |]; try discriminate Vn. cbn [var_missing] in *.
        destruct static eqn:ST.
        { exfalso. exact (lit_const_obj _ _ _ (FC eq_refl) Inode). }
        set (v := lookup_var vn vars) in *.
        destruct (is_undef v) eqn:U.
        + assert (Nv : is_null v = true) by (destruct v; cbn in U; try discriminate; reflexivity).
          destruct oneof eqn:OO.
          * rewrite Nv in V. apply oapp_some in V as [e1 [e2 [V1 [V2 ->]]]]. inversion V1; subst e1.
            split; [intros _; discriminate|]. intros o H. right. repeat split; auto. exists vn. auto.
          * cbn [andb] in V. destruct (required fd) eqn:R; cbn [negb] in V.
            -- apply HVV in V. cbn in V. fold v in V. rewrite Nv in V.
               assert (NN : is_nonnull (f_type fd) = true).
               { unfold required in R. apply andb_true_iff in R. tauto. }
               rewrite NN in V. cbn in V. subst e.
               split; [intros _; discriminate | intros o H; discriminate].
            -- inversion V; subst e. split; [|intros; left; reflexivity].
               unfold default_step. destruct (f_default fd); [destruct (cd (f_type fd) l)|]; discriminate.
        + apply rmap_settled in St. rewrite (HCV _ _ St) in *. cbn zeta in *. fold v in St |- *.
          assert (G : good v = Good v) by (unfold good; rewrite U; reflexivity). rewrite G in *.
          destruct oneof eqn:OO.
          * apply oapp_some in V as [e1 [e2 [V1 [V2 ->]]]]. inversion V1; subst e1.
            apply HVV in V2. cbn in V2. fold v in V2.
            destruct (is_null v) eqn:Nv.
            -- split; [intros _; discriminate|]. intros o H. right. repeat split; auto. exists vn. auto.
            -- rewrite andb_false_r in V2. subst e2. cbn [andb rmap]. split; [discriminate | intros; left; reflexivity].
          * cbn [andb] in V. apply HVV in V. cbn in V. fold v in V. subst e.
            rewrite (andb_comm (is_nonnull (f_type fd))).
            destruct (is_null v && is_nonnull (f_type fd)); cbn [rmap].
            -- split; [intros _; discriminate | intros o H; discriminate].
            -- split; [discriminate | intros; left; reflexivity].
      - assert (VM : var_missing vars node = false) by (destruct node; try discriminate Vn; reflexivity).
        rewrite VM in *.
        assert (V' : vl (f_type fd) node (p ++ [PName (f_name fd)]) = Some e).
        { destruct node; try discriminate Vn; exact V. }
        apply rmap_settled in St.
        pose proof (HIH (f_type fd) node _ e (lit_wf_obj _ _ _ FW Inode)
                      (fun E => lit_const_obj _ _ _ (FC E) Inode)
                      (fun _ => top_ok_nonvar vars _ _ Vn) St V') as A.
        split.
        + intro H. apply rmap_invalid in H. apply A. exact H.
        + intros o H. left. destruct e; [reflexivity|]. exfalso.
          destruct A as [_ A]. rewrite A in H by discriminate. discriminate.
    Qed.
  
    Lemma seq_fields_single_lit k node : forall fds out,
      (forall fd, In fd fds -> f_default fd = None) ->
      NoDup (map f_name fds) ->
      seq_fields (lit_step c cd vars [(k, node)]) fds = Good out ->
      (known k fds = true ->
         exists fd, In fd fds /\ f_name fd = k /\
           ((var_missing vars node = true /\ out = []) \/
            (var_missing vars node = false /\ exists y, c (f_type fd) node = Good y /\ out = [(k, y)])))
      /\ (known k fds = false -> out = []).
    Proof.
      induction fds as [|fd fds IH]; intros out ND NDn H.
      - cbn in H. inversion H. split; [discriminate | reflexivity].
      - cbn [seq_fields] in H. cbn [map] in NDn. inversion NDn as [|? ? Hnot ND']; subst.
        assert (NDr : forall fd', In fd' fds -> f_default fd' = None) by (intros; apply ND; right; auto).
        unfold lit_step at 1 in H. cbn [lit_get] in H. cbn [known]. rewrite (nat_list_eqb_sym k (f_name fd)).
        destruct (nat_list_eqb (f_name fd) k) eqn:E; cbn [orb].
        + apply nat_list_eqb_eq in E.
          assert (Kr : known k fds = false).
          { destruct (known k fds) eqn:K; [|reflexivity]. exfalso. apply known_in in K as [fd' [A B]].
            apply Hnot. rewrite E, <- B. apply in_map. exact A. }
          split; [|discriminate]. intros _. exists fd. split; [left; reflexivity|]. split; [exact E|].
          destruct (var_missing vars node) eqn:VM.
          * destruct (required fd); [discriminate|]. unfold default_step in H.
            rewrite (ND fd (or_introl eq_refl)) in H. apply rmap_good in H as [out' [H ->]]. cbn [add_entry].
            destruct (IH out' NDr ND' H) as [_ I2]. left. split; [reflexivity | exact (I2 Kr)].
          * destruct (c (f_type fd) node) as [y| | |] eqn:C; cbn [rmap] in H; try discriminate.
            apply rmap_good in H as [out' [H ->]]. cbn [add_entry].
            destruct (IH out' NDr ND' H) as [_ I2]. rewrite (I2 Kr). right. split; [reflexivity|].
            exists y. rewrite <- E. split; reflexivity.
        + destruct (required fd); [discriminate|]. unfold default_step in H.
          rewrite (ND fd (or_introl eq_refl)) in H. apply rmap_good in H as [out' [H ->]]. cbn [add_entry].
          destruct (IH out' NDr ND' H) as [I1 I2]. split; [|exact I2].
          intro K. destruct (I1 K) as [fd' [A B]]. exists fd'. split; [right; exact A | exact B].
    Qed.

    Lemma obj_lit_agree fds errs :
      wf_tdef (DInput oneof fds) ->
      settled (coerce_obj_lit c cd vars oneof fds fs) ->
      validate_obj_lit vl static vars oneof fds fs p = Some errs ->
      (coerce_obj_lit c cd vars oneof fds fs = Invalid <-> errs <> []).
    Proof.
      intros [NDn OD] St V. unfold coerce_obj_lit in *. unfold validate_obj_lit in V.
      pose proof (lit_wf_obj_nodup _ FW) as NDf.
      rewrite (node_names_nodup fs NDf) in *.
      apply oapp_some in V as [e1 [e2 [V1 [V2 ->]]]]. inversion V2; subst e2; clear V2.
      rewrite existsb_map in *.
      destruct (existsb (fun x => negb (known (fst x) fds)) fs) eqn:HU.
      - split; [|reflexivity]. intros _. apply app_nonempty. right. apply app_nonempty. left.
        unfold unknown_lit_errs. apply map_nonempty. apply existsb_filter_nonempty. exact HU.
      - assert (UE : unknown_lit_errs p fds fs = []).
        { unfold unknown_lit_errs. rewrite (existsb_filter_empty _ _ HU). reflexivity. }
        rewrite UE. cbn [app].
        assert (FK : filter (fun kl => known (fst kl) fds) fs = fs) by (apply filter_all; exact HU).
        destruct (seq_fields (lit_step c cd vars fs) fds) as [kvs| | |] eqn:SF.
        + assert (Each : forall fd, In fd fds -> forall e, vlit_step vl static vars oneof fs p fd = Some e ->
                           e = [] \/ exceptional fd).
          { intros fd I e Ve. destruct (seq_fields_good_each _ _ _ SF fd I) as [o Ho].
            assert (S0 : settled (lit_step c cd vars fs fd)) by (rewrite Ho; apply settled_good).
            destruct (lit_step_facts fd e S0 Ve) as [_ B]. exact (B o Ho). }
          destruct (Bool.bool_dec oneof true) as [OO|OO].
          2:{ assert (OF : oneof = false) by (destruct oneof; congruence). rewrite OF. cbn [andb].
              rewrite app_nil_r. split; [discriminate|]. intro X. exfalso. apply X.
              eapply vfields_all_nil; [|exact V1]. intros fd I e Ve.
              destruct (Each fd I e Ve) as [E|[E _]]; [exact E | congruence]. }
          rewrite OO. cbn [andb]. unfold oneof_lit_errs. rewrite FK.
          unfold oneof_lit_ok. rewrite (node_names_nodup fs NDf).
          destruct fs as [|[k node] [|kn2 rest]] eqn:EF.
          * cbn. split; [|reflexivity]. intros _. apply app_nonempty. right. discriminate.
          * cbn [map fst]. cbn in HU. rewrite orb_false_r in HU. apply negb_false_iff in HU.
            destruct (seq_fields_single_lit k node fds kvs (OD OO) NDn SF) as [S1 _].
            destruct (S1 HU) as [fd [Ifd [En Sh]]].
            destruct (vfields_some_each _ _ _ V1 fd Ifd) as [ek Vk].
            assert (LGk : lit_get (f_name fd) [(k, node)] = Some node).
            { cbn [lit_get]. rewrite En, nat_list_eqb_refl. reflexivity. }
            destruct Sh as [[VM ->]|[VM [y [Cy ->]]]].
            -- (* the only node is a variable without a value *)
               cbn. split; [|reflexivity]. intros _. apply app_nonempty. left.
               destruct node as [vn| | | | | | | |]; try discriminate VM. cbn [var_missing] in VM.
               assert (SF' : static = false).
               { destruct static eqn:ST; [|reflexivity]. exfalso.
                 exact (lit_const_obj [(k, LVar vn)] k (LVar vn) (FC eq_refl) (or_introl eq_refl)). }
               pose proof Vk as Vk0.
               unfold vlit_step in Vk. rewrite LGk, SF', OO in Vk.
               assert (Nv : is_null (lookup_var vn vars) = true)
                 by (destruct (lookup_var vn vars); cbn in VM; try discriminate; reflexivity).
               rewrite Nv in Vk. apply oapp_some in Vk as [a [b [Va [_ Ek]]]]. inversion Va; subst a.
               eapply vfields_in_errs; [exact Ifd | exact Vk0 | | exact V1]. rewrite Ek. discriminate.
            -- cbn [lit_get]. rewrite nat_list_eqb_refl. unfold dget. cbn [assoc]. rewrite nat_list_eqb_refl.
               destruct (is_lnull node) eqn:Nl; cbn [negb andb].
               { split; [|reflexivity]. intros _. apply app_nonempty. right. discriminate. }
               rewrite app_nil_r.
               destruct (is_none y) eqn:Ny; cbn [negb].
               ++ (* a variable holding None *)
                  split; [|reflexivity]. intros _.
                  assert (Ey : y = PNone) by (destruct y; cbn in Ny; congruence). subst y.
                  destruct (HN _ _ _ Cy eq_refl) as [X|X]; [congruence|].
                  destruct node as [vn| | | | | | | |]; try discriminate X. cbn [var_missing] in VM.
                  assert (SF' : static = false).
                  { destruct static eqn:ST; [|reflexivity]. exfalso.
                    exact (lit_const_obj [(k, LVar vn)] k (LVar vn) (FC eq_refl) (or_introl eq_refl)). }
                  assert (Sc : settled (c (f_type fd) (LVar vn))) by (rewrite Cy; apply settled_good).
                  rewrite (HCV _ _ Sc) in Cy. cbn zeta in Cy.
                  destruct (is_null (lookup_var vn vars) && is_nonnull (f_type fd)); [discriminate|].
                  apply good_inv in Cy as [Ev _].
                  assert (Nv : is_null (lookup_var vn vars) = true) by (rewrite <- Ev; reflexivity).
                  pose proof Vk as Vk0.
                  unfold vlit_step in Vk. rewrite LGk, SF', OO, Nv in Vk.
                  apply oapp_some in Vk as [a [b [Va [_ Ek]]]]. inversion Va; subst a.
                  eapply vfields_in_errs; [exact Ifd | exact Vk0 | | exact V1]. rewrite Ek. discriminate.
               ++ split; [discriminate|]. intro X. exfalso. apply X.
                  eapply vfields_all_nil; [|exact V1]. intros fd' I' e' Ve'.
                  destruct (Each fd' I' e' Ve') as [E|[_ [SF' [vn [LG' Nv]]]]]; [exact E|]. exfalso.
                  rewrite EF in LG'. cbn [lit_get] in LG'. destruct (nat_list_eqb (f_name fd') k); [|discriminate LG'].
                  inversion LG'; subst node. cbn [var_missing] in VM.
                  assert (Sc : settled (c (f_type fd) (LVar vn))) by (rewrite Cy; apply settled_good).
                  rewrite (HCV _ _ Sc) in Cy. cbn zeta in Cy.
                  destruct (is_null (lookup_var vn vars) && is_nonnull (f_type fd)); [discriminate|].
                  apply good_inv in Cy as [Ev _]. subst y.
                  destruct (lookup_var vn vars); cbn in *; congruence.
          * cbn. split; [|reflexivity]. intros _. apply app_nonempty. right. discriminate.
        + split; [|reflexivity]. intros _. apply app_nonempty. left.
          eapply vfields_invalid_errs; [|exact SF|exact V1].
          intros fd I e Ve Hi.
          assert (S0 : settled (lit_step c cd vars fs fd)) by (rewrite Hi; apply settled_invalid).
          destruct (lit_step_facts fd e S0 Ve) as [A _]. exact (A Hi).
        + destruct St as [St _]. congruence.
        + destruct St as [_ St]. congruence.
    Qed.
  End ObjLit.

  (* ---------------------------------------------------------------- literals: the agreement *)

  Lemma clit_var f vars t vn : settled (clit f vars t (LVar vn)) ->
    clit f vars t (LVar vn) =
    (let v := lookup_var vn vars in if is_null v && is_nonnull t then Invalid else good v).
  Proof. destruct f; [intros [_ H]; exfalso; apply H; reflexivity | reflexivity]. Qed.

  Lemma vlit_var f static vars t vn q e : vlit f static vars t (LVar vn) q = Some e ->
    e = (if static then [] else if is_nonnull t && is_null (lookup_var vn vars) then [q] else []).
  Proof. destruct f; [discriminate|]. cbn [validate_lit]. destruct static; intro H; inversion H; reflexivity. Qed.

  Lemma clit_null f vars t : settled (clit f vars t LNull) ->
    clit f vars t LNull = (if is_nonnull t then Invalid else Good PNone).
  Proof.
    destruct f; [intros [_ H]; exfalso; apply H; reflexivity|]. destruct t; reflexivity.
  Qed.

  Lemma lit_item_id {A} (r : result A) (g : A) : match r with Invalid => if false then Good g else Invalid | x => x end = r.
  Proof. destruct r; reflexivity. Qed.

  Theorem lit_agree_gen : forall fuel static vars t l p errs,
    lit_wf l -> (static = true -> lit_const l) -> (static = false -> top_ok vars t l = true) ->
    settled (clit fuel vars t l) -> vlit fuel static vars t l p = Some errs ->
    (clit fuel vars t l = Invalid <-> errs <> []).
  Proof.
    induction fuel as [|f IH]; intros static vars t l p errs W C TO St V; [discriminate|].
    destruct (is_var l) eqn:Vl.
    - destruct l as [n| | | | | | | |]; try discriminate Vl. cbn [coerce_lit validate_lit] in *.
      destruct static. { exfalso. exact (C eq_refl). }
      specialize (TO eq_refl). unfold top_ok in TO. cbn [var_missing] in TO.
      inversion V; subst errs; clear V.
      destruct (lookup_var n vars) eqn:E, (is_nonnull t) eqn:NN; cbn in *;
        split; intro H; try discriminate; try reflexivity; try congruence; exfalso; apply H; reflexivity.
    - rewrite (clit_nonvar f vars t l Vl) in *. rewrite (vlit_nonvar f static vars t l p Vl) in V.
      destruct t as [n|it|t'].
      + destruct (is_lnull l) eqn:Nl.
        { inversion V. split; [discriminate | congruence]. }
        destruct (assoc n s) as [d|] eqn:A; [|destruct St as [St _]; congruence].
        destruct d as [sc|e|o fds].
        * inversion V; subst errs. apply leaf_agree. exact St.
        * inversion V; subst errs. apply leaf_agree. exact St.
        * destruct l; try discriminate Vl; try (inversion V; split; [discriminate | reflexivity]).
          refine (obj_lit_agree (clit f vars) (clit f []) (vlit f static vars) static vars
                    _ _ _ _ o fs p W C fds errs (WF _ _ A) St V).
          -- intros t0 x q e W0 C0 T0 S0 V0. eapply IH; eauto.
          -- intros t0 x y. apply clit_none.
          -- intros t0 vn. apply clit_var.
          -- intros t0 vn q e. apply vlit_var.
      + destruct (is_lnull l) eqn:Nl.
        { inversion V. split; [discriminate | congruence]. }
        destruct l; try discriminate Vl; try discriminate Nl;
          try (apply rmap_settled in St; rewrite rmap_invalid; eapply IH; eauto;
               intros _; apply top_ok_nonvar; reflexivity).
        apply rmap_settled in St. rewrite rmap_invalid.
        eapply (seq_list_agree (lit_item (clit f vars it) vars it)
                  (fun i x => vlit f static vars it x (p ++ [PIdx i]))); eauto.
        intros x Ix i e S1 V1.
        pose proof (lit_wf_list _ _ W Ix) as Wx.
        assert (Cx : static = true -> lit_const x) by (intro E; exact (lit_const_list _ _ (C E) Ix)).
        unfold lit_item in *.
        destruct (negb (is_nonnull it) && var_nullish vars x) eqn:SP.
        * apply andb_true_iff in SP as [NN VN]. apply negb_true_iff in NN.
          destruct x as [vn| | | | | | | |]; try discriminate VN. cbn [var_nullish] in VN.
          apply vlit_var in V1. rewrite NN in V1. cbn [andb] in V1.
          assert (Ee : e = []) by (destruct static; exact V1). subst e.
          split; [|congruence]. intro Hi. exfalso.
          destruct f as [|f']; [cbn in S1; destruct S1 as [_ S1]; congruence|].
          cbn [coerce_lit] in Hi. rewrite NN, andb_false_r in Hi.
          destruct (lookup_var vn vars); cbn in *; discriminate.
        * assert (TOx : static = false -> top_ok vars it x = true).
          { intros _. unfold top_ok. destruct x; try reflexivity. cbn [var_missing var_nullish] in *.
            destruct (is_nonnull it), (lookup_var n vars); cbn in *; congruence. }
          pose proof (IH static vars it x (p ++ [PIdx i]) e Wx Cx TOx) as Ax.
          destruct (clit f vars it x) as [y| | |] eqn:CX.
          -- exact (Ax (settled_good y) V1).
          -- exact (Ax settled_invalid V1).
          -- destruct S1 as [S1 _]. congruence.
          -- destruct S1 as [_ S1]. congruence.
      + destruct (is_lnull l) eqn:Nl.
        { inversion V. split; [discriminate | reflexivity]. }
        eapply IH; eauto. intros _. apply top_ok_nonvar. exact Vl.
  Qed.

  (* ================================================================ the result conforms to the type *)

  Definition scalar_conforms (sc : scalar) (v : pyval) : Prop :=
    match sc with
    | SInt => exists z, v = PInt z /\ int32 z
    | SFloat => exists n m e, v = PFloat (FFin n m e)
    | SString | SID => exists str, v = PStr str
    | SBoolean => exists b, v = PBool b
    end.

  Inductive conforms : ityp -> pyval -> Prop :=
  | CNull t : is_nonnull t = false -> conforms t PNone
  | CNonNull t v : is_null v = false -> conforms t v -> conforms (TNonNull t) v
  | CList it vs : Forall (conforms it) vs -> conforms (TList it) (PList vs)
  | CScalar n sc v : assoc n s = Some (DScalar sc) -> scalar_conforms sc v -> conforms (TNamed n) v
  | CEnum n e v : assoc n s = Some (DEnum e) -> (exists name, In (name, v) e) -> conforms (TNamed n) v
  | CInput n oneof fds kvs :
      assoc n s = Some (DInput oneof fds) ->
      (* exactly the declared fields: every entry is a declared field holding a conforming value *)
      Forall (fun kv => exists fd, In fd fds /\ f_name fd = fst kv /\ conforms (f_type fd) (snd kv)) kvs ->
      NoDup (map fst kvs) ->
      (* defaults applied, required fields present *)
      (forall fd, In fd fds -> (f_default fd <> None \/ is_nonnull (f_type fd) = true) ->
                  exists y, In (f_name fd, y) kvs) ->
      (* OneOf: exactly one entry, not null *)
      (oneof = true -> exists k y, kvs = [(k, y)] /\ is_null y = false) ->
      conforms (TNamed n) (PDict kvs).

  Lemma scalar_conforms_not_null sc v : scalar_conforms sc v -> is_null v = false.
  Proof.
    destruct sc; cbn.
    - intros [z [-> _]]. reflexivity.
    - intros [n [m [e ->]]]. reflexivity.
    - intros [x ->]. reflexivity.
    - intros [x ->]. reflexivity.
    - intros [x ->]. reflexivity.
  Qed.

  Lemma conforms_not_undef t v : conforms t v -> is_undef v = false.
  Proof.
    destruct 1 as [t N|t v N C|it vs F|n sc v A Sc|n e v A [name I]|n oneof fds kvs A F ND D O].
    - reflexivity.
    - destruct v; cbn in *; congruence.
    - reflexivity.
    - apply scalar_conforms_not_null in Sc. destruct v; cbn in *; congruence.
    - pose proof (WF _ _ A name v I) as X. destruct v; cbn in *; congruence.
    - reflexivity.
  Qed.

  Lemma coerce_input_conforms sc v r : coerce_input maxd sc v = COk r -> scalar_conforms sc r.
  Proof.
    destruct sc, v; cbn [coerce_input coerce_int coerce_float coerce_string coerce_boolean coerce_id scalar_conforms];
      try discriminate; intro H.
    - apply int_from_int_ok in H. exists z. exact H.
    - apply int_from_float_ok in H as [z [_ H]]. exists z. exact H.
    - apply float_from_int_ok in H as [-> _]. destruct (float_of_int_fin z) as [n [m [e E]]].
      exists n, m, e. rewrite E. reflexivity.
    - apply float_from_float_ok in H as [-> [n [m [e ->]]]]. exists n, m, e. reflexivity.
    - inversion H. eexists; reflexivity.
    - inversion H. eexists; reflexivity.
    - apply str_of_int_ok in H as [x [_ ->]]. eexists; reflexivity.
    - apply id_from_float_ok in H as [z [x [_ [_ ->]]]]. eexists; reflexivity.
    - inversion H. eexists; reflexivity.
  Qed.

  Lemma of_cres_good r y : of_cres r = Good y -> r = COk y.
  Proof. destruct r; cbn [of_cres]; [|discriminate]. intro H. apply good_inv in H as [-> _]. reflexivity. Qed.

  Lemma seq_list_forall {A B} (c : A -> result B) (P : B -> Prop) l :
    (forall x y, In x l -> c x = Good y -> P y) ->
    forall ys, seq_list c l = Good ys -> Forall P ys.
  Proof.
    induction l as [|x l IH]; intros H ys G; cbn [seq_list] in G.
    - inversion G. constructor.
    - destruct (c x) as [y| | |] eqn:C; try discriminate.
      apply rmap_good in G as [ys' [G ->]]. constructor.
      + eapply H; [left; reflexivity | exact C].
      + apply IH; auto. intros x' y' I. apply H. right. exact I.
  Qed.

  (* entries produced by a fields loop *)
  Lemma seq_fields_entries (step : field -> result (option pyval)) (P : field -> pyval -> Prop) :
    forall fds out,
    (forall fd y, In fd fds -> step fd = Good (Some y) -> P fd y) ->
    NoDup (map f_name fds) ->
    seq_fields step fds = Good out ->
    Forall (fun kv => exists fd, In fd fds /\ f_name fd = fst kv /\ P fd (snd kv)) out
    /\ NoDup (map fst out)
    /\ (forall k, In k (map fst out) -> In k (map f_name fds))
    /\ (forall fd, In fd fds -> (exists y, step fd = Good (Some y)) -> exists y, In (f_name fd, y) out).
  Proof.
    induction fds as [|fd fds IH]; intros out HP ND G; cbn [seq_fields] in G.
    - inversion G. repeat split; try constructor; intros ? []; contradiction.
    - destruct (step fd) as [o| | |] eqn:C; try discriminate.
      apply rmap_good in G as [out' [G ->]]. cbn [map] in ND. inversion ND as [|? ? Hn ND']; subst.
      destruct (IH out' (fun fd' y I => HP fd' y (or_intror I)) ND' G) as [F [N [Sub Ex]]].
      assert (F' : Forall (fun kv => exists fd0, In fd0 (fd :: fds) /\ f_name fd0 = fst kv /\ P fd0 (snd kv)) out').
      { eapply Forall_impl; [|exact F]. intros kv [fd0 [I [E Pk]]]. exists fd0. repeat split; auto. right. exact I. }
      destruct o as [y|]; cbn [add_entry].
      + repeat split.
        * constructor; [|exact F']. exists fd. cbn [fst snd]. split; [left; reflexivity|]. split; [reflexivity|].
          apply HP; [left; reflexivity | exact C].
        * cbn [map fst]. constructor; [|exact N]. intro I. apply Hn. apply Sub. exact I.
        * intros k [<-|I]; [left; reflexivity | right; apply Sub; exact I].
        * intros fd0 [<-|I] X.
          -- exists y. left. reflexivity.
          -- destruct (Ex fd0 I X) as [y0 I0]. exists y0. right. exact I0.
      + repeat split; auto.
        * intros k I. right. apply Sub. exact I.
        * intros fd0 [<-|I] [y0 X]; [congruence|]. apply Ex; eauto.
  Qed.

  Lemma scalar_lit_conforms sc l r : scalar_lit parse_float sc l = Good r -> scalar_conforms sc r.
  Proof.
    destruct sc, l; cbn [scalar_lit scalar_conforms]; try discriminate; unfold float_lit; intro H.
    - destruct (int_lit_value s0) as [z|]; [|discriminate].
      destruct (in_int32 z) eqn:R; [|discriminate]. inversion H. exists z. split; [reflexivity|].
      apply in_int32_spec. exact R.
    - destruct (parse_float s0) as [x|]; [|discriminate]. destruct x; cbn [f_finite] in H; try discriminate.
      inversion H. eexists _, _, _. reflexivity.
    - destruct (parse_float s0) as [x|]; [|discriminate]. destruct x; cbn [f_finite] in H; try discriminate.
      inversion H. eexists _, _, _. reflexivity.
    - inversion H. eexists; reflexivity.
    - inversion H. eexists; reflexivity.
    - inversion H. eexists; reflexivity.
    - inversion H. eexists; reflexivity.
  Qed.

  Lemma dedup_in x l : forall seen, In x l -> In x seen \/ In x (dedup_names l seen).
  Proof.
    induction l as [|y l IH]; intros seen I; [destruct I|]. cbn [dedup_names].
    destruct I as [->|I].
    - destruct (mem_text x seen) eqn:M; [left; apply mem_text_in; exact M | right; left; reflexivity].
    - destruct (mem_text y seen) eqn:M.
      + apply IH. exact I.
      + destruct (IH (y :: seen) I) as [[->|H]|H]; [right; left; reflexivity | left; exact H | right; right; exact H].
  Qed.

  Lemma lit_get_some_in k fs : lit_get k fs <> None -> In k (node_names fs).
  Proof.
    intro H. destruct (lit_get k fs) as [x|] eqn:E; [|congruence]. apply lit_get_in in E.
    unfold node_names. destruct (dedup_in k (map fst fs) [] (in_map fst _ _ E)) as [[]|I]. exact I.
  Qed.

  Lemma lookup_var_nil n : lookup_var n [] = PUndef.
  Proof. reflexivity. Qed.

  Theorem conforms_lit : forall fuel t l r, clit fuel [] t l = Good r -> conforms t r.
  Proof.
    induction fuel as [|f IH]; intros t l r H; [discriminate|].
    destruct (is_var l) eqn:Vl.
    - destruct l; try discriminate Vl. cbn [coerce_lit] in H. rewrite lookup_var_nil in H.
      cbn in H. destruct (is_nonnull t); discriminate.
    - rewrite (clit_nonvar f [] t l Vl) in H. destruct t as [n|it|t'].
      + destruct (is_lnull l) eqn:Nl. { inversion H. apply CNull. reflexivity. }
        destruct (assoc n s) as [d|] eqn:A; [|discriminate].
        destruct d as [sc|e|o fds].
        * eapply CScalar; [exact A|]. eapply scalar_lit_conforms. exact H.
        * cbn [leaf_lit] in H. destruct l; cbn [enum_lit] in H; try discriminate.
          destruct (assoc n0 e) as [x|] eqn:E; [|discriminate]. apply good_inv in H as [-> _].
          eapply CEnum; [exact A|]. exists n0. apply assoc_in. exact E.
        * destruct l; try discriminate. unfold coerce_obj_lit in H.
          destruct (existsb _ (node_names fs)); [discriminate|].
          destruct (seq_fields (lit_step (clit f []) (clit f []) [] fs) fds) as [kvs| | |] eqn:SF; try discriminate.
          destruct (o && negb (oneof_lit_ok fs kvs)) eqn:OK; [discriminate|]. inversion H; subst r; clear H.
          destruct (WF _ _ A) as [NDn OD].
          set (step := lit_step (clit f []) (clit f []) [] fs) in *.
          assert (HP : forall fd y, In fd fds -> step fd = Good (Some y) ->
                         conforms (f_type fd) y /\ step fd = Good (Some y)).
          { intros fd y _ Hs. split; [|exact Hs]. unfold step, lit_step in Hs.
            assert (D : default_step (clit f []) fd = Good (Some y) -> conforms (f_type fd) y).
            { unfold default_step. destruct (f_default fd) as [dl|]; [|discriminate].
              destruct (clit f [] (f_type fd) dl) eqn:C; try discriminate. intro X; inversion X; subst.
              eapply IH; eauto. }
            destruct (lit_get (f_name fd) fs) as [node|].
            - destruct (var_missing [] node).
              + destruct (required fd); [discriminate | auto].
              + apply rmap_good in Hs as [a [C E]]. inversion E; subst. eapply IH; eauto.
            - destruct (required fd); [discriminate | auto]. }
          destruct (seq_fields_entries step (fun fd y => conforms (f_type fd) y /\ step fd = Good (Some y))
                      fds kvs HP NDn SF) as [F [N [_ Ex]]].
          eapply CInput; [exact A | | exact N | |].
          -- eapply Forall_impl; [|exact F]. intros kv [fd [I [E [Cf _]]]]. exists fd. auto.
          -- intros fd I Hd. apply Ex; [exact I|].
             destruct (seq_fields_good_each _ _ _ SF fd I) as [o' Ho]. destruct o' as [y|]; [eauto|]. exfalso.
             unfold step, lit_step in Ho.
             assert (D : default_step (clit f []) fd = Good None -> f_default fd = None).
             { unfold default_step. destruct (f_default fd) as [dl|]; [|reflexivity].
               destruct (clit f [] (f_type fd) dl); discriminate. }
             assert (R : required fd = false -> default_step (clit f []) fd = Good None -> False).
             { intros R X. apply D in X. unfold required in R. rewrite X in R.
               destruct Hd as [Hd|Hd]; [congruence|]. rewrite Hd in R. discriminate. }
             destruct (lit_get (f_name fd) fs) as [node|].
             ++ destruct (var_missing [] node).
                ** destruct (required fd) eqn:Rq; [discriminate | exact (R eq_refl Ho)].
                ** apply rmap_good in Ho as [a [_ E]]. discriminate.
             ++ destruct (required fd) eqn:Rq; [discriminate | exact (R eq_refl Ho)].
          -- intros ->. cbn [andb] in OK. apply negb_false_iff in OK. unfold oneof_lit_ok in OK.
             destruct (node_names fs) as [|k [|]] eqn:NN; try discriminate.
             destruct kvs as [|[k' y] [|]]; try discriminate.
             destruct (lit_get k fs) as [node|] eqn:LG; [|discriminate].
             apply andb_true_iff in OK as [_ OK]. apply negb_true_iff in OK.
             exists k', y. split; [reflexivity|].
             destruct (Forall_inv F) as [fd [I [E [Cf Hs]]]]. cbn [fst snd] in *.
             pose proof (conforms_not_undef _ _ Cf) as U.
             assert (Ek : k' = k).
             { assert (LG' : lit_get k' fs <> None).
               { unfold step, lit_step in Hs. rewrite E in Hs. destruct (lit_get k' fs); [discriminate|].
                 destruct (required fd); [discriminate|]. unfold default_step in Hs.
                 rewrite (OD eq_refl fd I) in Hs. discriminate. }
               apply lit_get_some_in in LG'. rewrite NN in LG'. destruct LG' as [->|[]]. reflexivity. }
             rewrite Ek in OK. unfold dget in OK. cbn [assoc] in OK. rewrite nat_list_eqb_refl in OK.
             destruct y; cbn in *; congruence.
      + destruct (is_lnull l) eqn:Nl. { inversion H. apply CNull. reflexivity. }
        assert (Hone : forall y, clit f [] it l = Good y -> conforms (TList it) (PList [y])).
        { intros y Hy. apply CList. constructor; [eapply IH; eauto | constructor]. }
        destruct l; try discriminate Vl; try discriminate Nl;
          try (apply rmap_good in H as [y [Hy ->]]; apply Hone; exact Hy).
        apply rmap_good in H as [ys [Hy ->]]. apply CList.
        eapply seq_list_forall; [|exact Hy]. intros x y _ Hx. unfold lit_item in Hx.
        destruct (clit f [] it x) eqn:C; try discriminate.
        * inversion Hx; subst. eapply IH; eauto.
        * destruct (negb (is_nonnull it) && var_nullish [] x) eqn:SP; [|discriminate].
          inversion Hx. apply CNull. apply andb_true_iff in SP as [SP _]. apply negb_true_iff in SP. exact SP.
      + destruct (is_lnull l) eqn:Nl; [discriminate|].
        apply CNonNull; [|eapply IH; eauto].
        destruct (is_null r) eqn:Nr; [|reflexivity]. exfalso.
        destruct (clit_none _ _ _ _ _ H Nr); congruence.
  Qed.

  Theorem conforms_val : forall fuel t v r, cval fuel t v = Good r -> conforms t r.
  Proof.
    induction fuel as [|f IH]; intros t v r H; [discriminate|].
    destruct t as [n|it|t']; cbn [coerce_val] in H.
    - destruct (is_null v) eqn:Nv. { inversion H. apply CNull. reflexivity. }
      destruct (assoc n s) as [d|] eqn:A; [|discriminate].
      destruct d as [sc|e|o fds].
      + cbn [leaf_val] in H. apply of_cres_good in H. eapply CScalar; [exact A|].
        eapply coerce_input_conforms. exact H.
      + cbn [leaf_val] in H. apply of_cres_good in H. destruct v; cbn [enum_input] in H; try discriminate.
        destruct (assoc s0 e) as [x|] eqn:E; [|discriminate]. inversion H; subst.
        eapply CEnum; [exact A|]. exists s0. apply assoc_in. exact E.
      + destruct v; try discriminate. unfold coerce_obj_val in H.
        destruct (has_unknown fds kvs); [discriminate|].
        destruct (seq_fields (val_step (cval f) (clit f []) kvs) fds) as [out| | |] eqn:SF; try discriminate.
        destruct (o && negb (oneof_val_ok kvs out)) eqn:OK; [discriminate|]. inversion H; subst r; clear H.
        destruct (WF _ _ A) as [NDn OD].
        set (step := val_step (cval f) (clit f []) kvs) in *.
        assert (D : forall fd y, default_step (clit f []) fd = Good (Some y) -> conforms (f_type fd) y).
        { intros fd y. unfold default_step. destruct (f_default fd) as [dl|]; [|discriminate].
          destruct (clit f [] (f_type fd) dl) eqn:C; try discriminate. intro X; inversion X; subst.
          eapply conforms_lit; eauto. }
        assert (HP : forall fd y, In fd fds -> step fd = Good (Some y) -> conforms (f_type fd) y).
        { intros fd y _ Hs. unfold step, val_step in Hs.
          destruct (is_undef (dget (f_name fd) kvs)).
          - destruct (required fd); [discriminate | auto].
          - apply rmap_good in Hs as [a [C E]]. inversion E; subst. eapply IH; eauto. }
        destruct (seq_fields_entries step (fun fd y => conforms (f_type fd) y) fds out HP NDn SF) as [F [N [_ Ex]]].
        eapply CInput; [exact A | exact F | exact N | |].
        * intros fd I Hd. apply Ex; [exact I|].
          destruct (seq_fields_good_each _ _ _ SF fd I) as [o' Ho]. destruct o' as [y|]; [eauto|]. exfalso.
          unfold step, val_step in Ho.
          destruct (is_undef (dget (f_name fd) kvs)).
          -- destruct (required fd) eqn:Rq; [discriminate|]. unfold default_step in Ho.
             destruct (f_default fd) as [dl|] eqn:Df.
             ++ destruct (clit f [] (f_type fd) dl); discriminate.
             ++ unfold required in Rq. rewrite Df in Rq. destruct Hd as [Hd|Hd]; [congruence|].
                rewrite Hd in Rq. discriminate.
          -- apply rmap_good in Ho as [a [_ E]]. discriminate.
        * intros ->. cbn [andb] in OK. apply negb_false_iff in OK. unfold oneof_val_ok in OK.
          destruct (defined_entries kvs) as [|? [|]]; try discriminate.
          destruct out as [|[k y] [|]]; try discriminate.
          exists k, y. split; [reflexivity|]. apply negb_true_iff in OK.
          destruct (Forall_inv F) as [fd [_ [_ Cf]]]. cbn [snd] in Cf.
          pose proof (conforms_not_undef _ _ Cf). destruct y; cbn in *; congruence.
    - destruct (is_null v) eqn:Nv. { inversion H. apply CNull. reflexivity. }
      assert (Hone : forall y, cval f it v = Good y -> conforms (TList it) (PList [y])).
      { intros y Hy. apply CList. constructor; [eapply IH; eauto | constructor]. }
      destruct v; try (apply rmap_good in H as [y [Hy ->]]; apply Hone; exact Hy).
      apply rmap_good in H as [ys [Hy ->]]. apply CList.
      eapply seq_list_forall; [|exact Hy]. intros x y _ Hx. eapply IH; eauto.
    - destruct (is_null v) eqn:Nv; [discriminate|].
      apply CNonNull; [|eapply IH; eauto].
      destruct (is_null r) eqn:Nr; [|reflexivity]. exfalso.
      pose proof (cval_none _ _ _ _ H Nr). congruence.
  Qed.

  (* ================================================================ variables *)

  Notation cvars_loop := (coerce_vars_loop parse_float maxd s).

  Lemma tag_nil n ps : tag n ps = [] -> ps = [].
  Proof. destruct ps; cbn; [reflexivity | discriminate]. Qed.

  Lemma vars_rest_good d loop errs o cs :
    vars_rest d loop errs o = Good ([], cs) ->
    errs = [] /\ exists cs0, loop = Good ([], cs0) /\
                   cs = match o with Some y => (v_name d, y) :: cs0 | None => cs0 end.
  Proof.
    unfold vars_rest. destruct loop as [[es cs0]| | |]; try discriminate.
    intro X. inversion X as [[E1 E2]]. apply app_eq_nil in E1 as [-> ->]. split; [reflexivity|]. exists cs0. auto.
  Qed.

  Lemma vars_default_errs_bad fuel d dl loop cs :
    vars_default_errs parse_float s fuel d dl loop = Good ([], cs) -> False.
  Proof.
    unfold vars_default_errs. destruct (vlit fuel true [] (v_type d) dl []) as [[|p0 ps0]|]; try discriminate;
      intro X; apply vars_rest_good in X as [X _]; discriminate.
  Qed.

  Lemma vars_loop_complete fuel inputs :
    (forall k v, In (k, v) inputs -> wf_val v) ->
    forall defs cs, cvars_loop fuel defs inputs = Good ([], cs) ->
    forall d, In d defs ->
      (is_undef (dget (v_name d) inputs) = false \/ v_default d <> None) ->
      exists y, In (v_name d, y) cs /\ conforms (v_type d) y.
  Proof.
    intros Winp. induction defs as [|d0 defs IH]; intros cs H d I Hd; [destruct I|].
    cbn [coerce_vars_loop] in H. cbv zeta in H.
    set (value := dget (v_name d0) inputs) in *.
    set (loop := cvars_loop fuel defs inputs) in *.
    assert (Wv : wf_val value).
    { unfold value, dget. destruct (assoc (v_name d0) inputs) eqn:E; [|constructor].
      apply assoc_in in E. eapply Winp; eauto. }
    assert (TAIL : forall o cs0, loop = Good ([], cs0) ->
      cs = match o with Some y => (v_name d0, y) :: cs0 | None => cs0 end ->
      In d defs -> exists y, In (v_name d, y) cs /\ conforms (v_type d) y).
    { intros o cs0 L -> Id. destruct (IH cs0 L d Id Hd) as [y [Iy Cy]]. exists y. split; [|exact Cy].
      destruct o; [right; exact Iy | exact Iy]. }
    assert (BYVAL : vars_by_value parse_float maxd s fuel d0 value loop = Good ([], cs) ->
      exists y, In (v_name d, y) cs /\ conforms (v_type d) y).
    { unfold vars_by_value. intro X.
      destruct (cval fuel (v_type d0) value) as [y| | |] eqn:C; try discriminate.
      - apply vars_rest_good in X as [_ [cs0 [L E]]].
        destruct I as [<-|Id]; [|exact (TAIL (Some y) cs0 L E Id)].
        exists y. split; [rewrite E; left; reflexivity | eapply conforms_val; eauto].
      - destruct (vval fuel (v_type d0) value []) as [ps|] eqn:V; [|discriminate].
        apply vars_rest_good in X as [T _]. exfalso.
        apply tag_nil in T. subst ps.
        assert (St : settled (cval fuel (v_type d0) value)) by (rewrite C; apply settled_invalid).
        pose proof (value_agree fuel (v_type d0) value [] [] Wv St V) as A.
        destruct A as [A _]. apply A; [exact C | reflexivity]. }
    destruct (is_undef value) eqn:U.
    - destruct (v_default d0) as [dl|] eqn:Df.
      + destruct (clit fuel [] (v_type d0) dl) as [y| | |] eqn:C; try discriminate.
        * apply vars_rest_good in H as [_ [cs0 [L E]]].
          destruct I as [<-|Id]; [|exact (TAIL (Some y) cs0 L E Id)].
          exists y. split; [rewrite E; left; reflexivity | eapply conforms_lit; eauto].
        * exfalso. exact (vars_default_errs_bad _ _ _ _ _ H).
        * exfalso. exact (vars_default_errs_bad _ _ _ _ _ H).
      + destruct (is_nonnull (v_type d0)); [exact (BYVAL H)|].
        apply vars_rest_good in H as [_ [cs0 [L E]]].
        destruct I as [<-|Id]; [|exact (TAIL None cs0 L E Id)].
        exfalso. fold value in Hd. destruct Hd; congruence.
    - exact (BYVAL H).
  Qed.
End Agreement.

(* ================================================================== value -> literal -> value *)

Definition leafy (l : lit) : bool :=
  match l with
  | LInt _ | LFloat _ | LString _ | LBool _ | LEnum _ => true
  | _ => false
  end.

Definition is_llist (l : lit) : bool := match l with LList _ => true | _ => false end.
Definition is_plist (v : pyval) : bool := match v with PList _ => true | _ => false end.

Lemma lit_get_notin k fs : ~ In k (map fst fs) -> lit_get k fs = None.
Proof.
  induction fs as [|[k' l] fs IH]; cbn [lit_get map fst]; intro H; [reflexivity|].
  rewrite IH by (intro X; apply H; right; exact X).
  destruct (nat_list_eqb k k') eqn:E; [|reflexivity].
  apply nat_list_eqb_eq in E. exfalso. apply H. left. symmetry. exact E.
Qed.

Lemma lit_get_nodup k l fs : NoDup (map fst fs) -> In (k, l) fs -> lit_get k fs = Some l.
Proof.
  induction fs as [|[k' l'] fs IH]; cbn [lit_get map fst]; intros ND I; [destruct I|].
  inversion ND as [|? ? Hn ND']; subst. destruct I as [E|I].
  - inversion E; subst. rewrite lit_get_notin by exact Hn. rewrite nat_list_eqb_refl. reflexivity.
  - rewrite (IH ND' I). reflexivity.
Qed.

Lemma nodup_map_inj {A B} (g : A -> B) l x y : NoDup (map g l) -> In x l -> In y l -> g x = g y -> x = y.
Proof.
  induction l as [|z l IH]; cbn [map]; intros ND Ix Iy E; [destruct Ix|].
  inversion ND as [|? ? Hn ND']; subst.
  destruct Ix as [->|Ix], Iy as [->|Iy]; auto.
  - exfalso. apply Hn. rewrite E. apply in_map. exact Iy.
  - exfalso. apply Hn. rewrite <- E. apply in_map. exact Ix.
Qed.

Lemma nodup_map_filter {A B} (g : A -> B) (f : A -> bool) l : NoDup (map g l) -> NoDup (map g (filter f l)).
Proof.
  induction l as [|x l IH]; cbn [map filter]; intro ND; [constructor|].
  inversion ND as [|? ? Hn ND']; subst. destruct (f x); cbn [map]; auto.
  constructor; auto. intro I. apply Hn. apply in_map_iff in I as [y [E Iy]]. apply filter_In in Iy as [Iy _].
  rewrite <- E. apply in_map. exact Iy.
Qed.

Lemma seq_fields_ext (s1 s2 : field -> result (option pyval)) fds :
  (forall fd, In fd fds -> s1 fd = s2 fd) -> seq_fields s1 fds = seq_fields s2 fds.
Proof.
  induction fds as [|fd fds IH]; intro H; [reflexivity|]. cbn [seq_fields].
  rewrite (H fd (or_introl eq_refl)). rewrite IH by (intros; apply H; right; auto). reflexivity.
Qed.

Section RoundTrip.
  Variable parse_float : text -> option pyfloat.
  Variable float_str : pyfloat -> text.
  Variable maxd : N.
  Variable s : schema.
  Hypothesis WF : wf_schema s.
  (* CPython: the limit is 0 (off) or at least 640 *)
  Hypothesis HM : maxd = 0 \/ 309 <= maxd.
  (* the two oracles are inverse to each other on what the coercers emit *)
  Hypothesis H1 : forall z str, int_representable z = true -> int_str maxd z = Some str ->
                                 parse_float str = Some (float_of_int z).
  Hypothesis H2 : forall x, f_finite x = true -> parse_float (float_str x) = Some x.

  Notation cval := (coerce_val parse_float maxd s).
  Notation clit := (coerce_lit parse_float s).
  Notation tolit := (to_literal float_str maxd s).

  Lemma int32_small z : int32 z -> (Z.abs z < 2 ^ 1024)%Z.
  Proof.
    unfold int32. change (2 ^ 31)%Z with 2147483648%Z. intro H.
    assert (2147483648 < 2 ^ 1024)%Z by (apply Z.ltb_lt; vm_compute; reflexivity). lia.
  Qed.

  Lemma scalar_roundtrip sc v r :
    coerce_input maxd sc v = COk r ->
    exists l, scalar_to_literal float_str maxd sc v = Good l /\ scalar_lit parse_float sc l = Good r /\ leafy l = true.
  Proof.
    destruct sc; cbn [coerce_input scalar_to_literal].
    - (* Int *)
      intro H.
      assert (E : exists z, coerce_int v = COk (PInt z) /\ r = PInt z /\ int32 z).
      { destruct v; cbn [coerce_int] in *; try discriminate.
        - apply int_from_int_ok in H as [-> R]. exists z. unfold int_from_int.
          apply in_int32_spec in R as R'. rewrite R'. auto.
        - pose proof H as H'. apply int_from_float_ok in H as [z [_ [-> R]]]. exists z. auto. }
      destruct E as [z [E [-> R]]]. rewrite E.
      destruct (int_str_some maxd z HM (int32_small z R)) as [str Es]. rewrite Es.
      exists (LInt str). split; [reflexivity|]. split; [|reflexivity].
      cbn [scalar_lit]. rewrite (int_str_roundtrip _ _ _ Es). apply in_int32_spec in R. rewrite R. reflexivity.
    - (* Float *)
      destruct v; cbn [coerce_float number_literal]; try discriminate; intro H.
      + apply float_from_int_ok in H as [-> B].
        assert (Rp : int_representable z = true) by (apply int_representable_spec; exact B).
        assert (Sm : (Z.abs z < 2 ^ 1024)%Z) by (destruct B as [m [k [_ [_ [_ X]]]]]; exact X).
        destruct (int_str_some maxd z HM Sm) as [str Es]. rewrite Es.
        exists (LInt str). split; [reflexivity|]. split; [|reflexivity].
        cbn [scalar_lit]. unfold float_lit. rewrite (H1 z str Rp Es).
        destruct (float_of_int_fin z) as [n [m [e E]]]. rewrite E. reflexivity.
      + apply float_from_float_ok in H as [-> [n [m [e ->]]]]. cbn [f_finite].
        set (x := FFin n m e). set (str := float_str x).
        assert (P : parse_float str = Some x) by (apply H2; reflexivity).
        exists (if is_integer_string str then LInt str else LFloat str). split; [reflexivity|].
        destruct (is_integer_string str); (split; [|reflexivity]); cbn [scalar_lit]; unfold float_lit; rewrite P; reflexivity.
    - (* String *)
      destruct v; cbn [coerce_string]; try discriminate. intro H; inversion H.
      exists (LString s0). auto.
    - (* Boolean *)
      destruct v; cbn [coerce_boolean]; try discriminate. intro H; inversion H.
      exists (LBool b). auto.
    - (* ID *)
      destruct v; cbn [coerce_id]; try discriminate; intro H.
      + pose proof H as H'. apply str_of_int_ok in H as [str [_ ->]]. rewrite H'.
        exists (LInt str). auto.
      + pose proof H as H'. apply id_from_float_ok in H as [z [str [_ [_ ->]]]]. rewrite H'.
        exists (LInt str). auto.
      + inversion H. exists (if is_integer_string s0 then LInt s0 else LString s0).
        destruct (is_integer_string s0); auto.
  Qed.

  Lemma enum_roundtrip e v r :
    of_cres (enum_input e v) = Good r ->
    exists l, enum_to_literal e v = Good l /\ enum_lit e l = Good r /\ leafy l = true.
  Proof.
    intro H. destruct v; cbn [enum_input of_cres] in H; try discriminate.
    destruct (assoc s0 e) as [x|] eqn:E; cbn [of_cres] in H; [|discriminate].
    exists (LEnum s0). cbn [enum_to_literal enum_lit]. rewrite E. auto.
  Qed.

  (* facts about the literal produced for a value *)
  Definition good_lit (v : pyval) (l : lit) : Prop :=
    is_var l = false /\ (is_lnull l = true -> is_null v = true) /\ (is_llist l = true -> is_plist v = true).

  Lemma leafy_good v l : leafy l = true -> good_lit v l.
  Proof. destruct l; cbn; try discriminate; intros _; repeat split; discriminate. Qed.

  Definition provided (kvs : list (text * pyval)) (fd : field) : bool :=
    negb (is_undef (dget (f_name fd) kvs)).

  Section Fields.
    Variable f : nat.
    Variable kvs : list (text * pyval).
    Hypothesis IHf : forall t v r, cval f t v = Good r ->
      exists l, tolit f t v = Good l /\ clit f [] t l = Good r /\ good_lit v l.

    Let step_v := val_step (cval f) (clit f []) kvs.
    Let step_t := tolit_step (tolit f) kvs.

    Definition entry_ok (fds : list field) (kl : text * lit) : Prop :=
      exists fd y, In fd fds /\ f_name fd = fst kl /\
        clit f [] (f_type fd) (snd kl) = Good y /\ step_v fd = Good (Some y) /\
        is_var (snd kl) = false /\
        (is_lnull (snd kl) = true -> is_null (dget (f_name fd) kvs) = true).

    Lemma fields_joint : forall fds out,
      seq_fields step_v fds = Good out ->
      exists lfs, seq_lit_fields step_t fds = Good lfs /\
        map fst lfs = map f_name (filter (provided kvs) fds) /\
        Forall (entry_ok fds) lfs.
    Proof.
      induction fds as [|fd fds IH]; intros out H.
      - exists []. cbn. repeat split; constructor.
      - cbn [seq_fields] in H. destruct (step_v fd) as [o| | |] eqn:C; try discriminate.
        apply rmap_good in H as [out' [H _]]. destruct (IH out' H) as [lfs [L [M F]]].
        assert (F' : Forall (entry_ok (fd :: fds)) lfs).
        { eapply Forall_impl; [|exact F]. intros kl [fd0 [y [I R]]]. exists fd0, y. split; [right; exact I | exact R]. }
        cbn [seq_lit_fields filter]. unfold step_t at 1, tolit_step. unfold provided at 1.
        unfold step_v, val_step in C.
        destruct (is_undef (dget (f_name fd) kvs)) eqn:U; cbn [negb].
        + destruct (required fd); [discriminate|]. rewrite L. exists lfs. cbn [rmap tolit_add]. auto.
        + apply rmap_good in C as [y [Cy Ey]].
          destruct (IHf _ _ _ Cy) as [l [T [Cl [G1 [G2 _]]]]]. rewrite T. cbn [rmap]. rewrite L. cbn [rmap tolit_add].
          exists ((f_name fd, l) :: lfs). split; [reflexivity|]. split; [cbn [map fst]; rewrite M; reflexivity|].
          constructor; [|exact F']. exists fd, y. cbn [fst snd].
          split; [left; reflexivity|]. split; [reflexivity|]. split; [exact Cl|].
          split; [unfold step_v, val_step; rewrite U, Cy; reflexivity|]. split; [exact G1 | exact G2].
    Qed.

    (* coercing the literal object runs the same field steps *)
    Lemma lit_steps_same fds lfs :
      NoDup (map f_name fds) ->
      map fst lfs = map f_name (filter (provided kvs) fds) ->
      Forall (entry_ok fds) lfs ->
      forall fd, In fd fds -> lit_step (clit f []) (clit f []) [] lfs fd = step_v fd.
    Proof.
      intros ND M F fd I.
      assert (NDl : NoDup (map fst lfs)) by (rewrite M; apply nodup_map_filter; exact ND).
      unfold lit_step. destruct (provided kvs fd) eqn:P.
      - assert (Il : In (f_name fd) (map fst lfs)).
        { rewrite M. apply in_map. apply filter_In. auto. }
        apply in_map_iff in Il as [[k l] [Ek Il]]. cbn [fst] in Ek. subst k.
        rewrite (lit_get_nodup _ _ _ NDl Il).
        rewrite Forall_forall in F. destruct (F _ Il) as [fd' [y [I' [En [Cl [Sv [Nv _]]]]]]]. cbn [fst snd] in *.
        assert (fd' = fd) by (eapply nodup_map_inj; eauto). subst fd'.
        assert (VM : var_missing [] l = false) by (destruct l; try discriminate Nv; reflexivity).
        rewrite VM, Cl. cbn [rmap]. symmetry. exact Sv.
      - assert (Nl : ~ In (f_name fd) (map fst lfs)).
        { rewrite M. intro X. apply in_map_iff in X as [fd' [E X]]. apply filter_In in X as [_ X].
          unfold provided in *. rewrite E in X. congruence. }
        rewrite (lit_get_notin _ _ Nl). unfold step_v, val_step. unfold provided in P.
        apply negb_false_iff in P. rewrite P. reflexivity.
    Qed.
  End Fields.

  Lemma out_keys_no_default f kvs : forall fds out,
    (forall fd, In fd fds -> f_default fd = None) ->
    seq_fields (val_step (cval f) (clit f []) kvs) fds = Good out ->
    map fst out = map f_name (filter (provided kvs) fds).
  Proof.
    induction fds as [|fd fds IH]; intros out ND H; cbn [seq_fields] in H.
    - inversion H. reflexivity.
    - destruct (val_step (cval f) (clit f []) kvs fd) as [o| | |] eqn:C; try discriminate.
      apply rmap_good in H as [out' [H ->]].
      specialize (IH out' (fun fd' I => ND fd' (or_intror I)) H).
      cbn [filter]. unfold provided at 1. unfold val_step in C.
      destruct (is_undef (dget (f_name fd) kvs)); cbn [negb].
      + destruct (required fd); [discriminate|]. unfold default_step in C.
        rewrite (ND fd (or_introl eq_refl)) in C. inversion C; subst. cbn [add_entry]. exact IH.
      + apply rmap_good in C as [y [_ ->]]. cbn [add_entry map fst]. rewrite IH. reflexivity.
  Qed.

  Lemma names_known fds (g : field -> bool) :
    existsb (fun k => negb (known k fds)) (map f_name (filter g fds)) = false.
  Proof.
    destruct (existsb _ _) eqn:E; [|reflexivity]. exfalso.
    apply existsb_exists in E as [k [I K]]. apply in_map_iff in I as [fd [<- I]].
    apply filter_In in I as [I _]. apply negb_true_iff in K.
    assert (known (f_name fd) fds = true) by (apply known_in; eauto). congruence.
  Qed.

  Lemma list_joint f it :
    (forall v r, cval f it v = Good r -> exists l, tolit f it v = Good l /\ clit f [] it l = Good r /\ good_lit v l) ->
    forall items ys, seq_list (cval f it) items = Good ys ->
    exists ls, seq_list (tolit f it) items = Good ls /\
               seq_list (lit_item (clit f [] it) [] it) ls = Good ys.
  Proof.
    intros IHf. induction items as [|x items IH]; intros ys H; cbn [seq_list] in H.
    - inversion H. exists []. auto.
    - destruct (cval f it x) as [y| | |] eqn:C; try discriminate.
      apply rmap_good in H as [ys' [H ->]]. destruct (IH ys' H) as [ls [L1 L2]].
      destruct (IHf _ _ C) as [l [T [Cl _]]].
      exists (l :: ls). cbn [seq_list]. rewrite T, L1. cbn [rmap]. split; [reflexivity|].
      unfold lit_item at 1. rewrite Cl, L2. reflexivity.
  Qed.

  Theorem roundtrip : forall fuel t v r,
    cval fuel t v = Good r ->
    exists l, tolit fuel t v = Good l /\ clit fuel [] t l = Good r /\ good_lit v l.
  Proof.
    induction fuel as [|f IH]; intros t v r H; [discriminate|].
    assert (NULLCASE : forall t0, is_nonnull t0 = false -> is_null v = true ->
              exists l, Good LNull = Good l /\ clit (S f) [] t0 l = Good PNone /\ good_lit v l).
    { intros t0 N0 Nv. exists LNull. split; [reflexivity|]. split.
      - destruct t0; try discriminate N0; reflexivity.
      - repeat split; auto; discriminate. }
    destruct t as [n|it|t']; cbn [coerce_val to_literal] in *.
    - destruct (is_null v) eqn:Nv. { inversion H. apply NULLCASE; auto. }
      destruct (assoc n s) as [d|] eqn:A; [|discriminate].
      destruct d as [sc|e|o fds].
      + cbn [leaf_val] in H. apply of_cres_good in H.
        destruct (scalar_roundtrip _ _ _ H) as [l [T [C Lf]]]. exists l. split; [exact T|].
        split; [|apply leafy_good; exact Lf].
        assert (Vl : is_var l = false) by (destruct l; try discriminate Lf; reflexivity).
        rewrite (clit_nonvar parse_float s f [] (TNamed n) l Vl), A.
        destruct l; try discriminate Lf; exact C.
      + cbn [leaf_val] in H.
        destruct (enum_roundtrip _ _ _ H) as [l [T [C Lf]]]. exists l. split; [exact T|].
        split; [|apply leafy_good; exact Lf].
        assert (Vl : is_var l = false) by (destruct l; try discriminate Lf; reflexivity).
        rewrite (clit_nonvar parse_float s f [] (TNamed n) l Vl), A.
        destruct l; try discriminate Lf; exact C.
      + destruct v; try discriminate. unfold coerce_obj_val in H.
        destruct (has_unknown fds kvs) eqn:HU; [discriminate|].
        destruct (seq_fields (val_step (cval f) (clit f []) kvs) fds) as [out| | |] eqn:SF; try discriminate.
        destruct (o && negb (oneof_val_ok kvs out)) eqn:OK; [discriminate|]. inversion H; subst r; clear H.
        destruct (WF _ _ A) as [NDn OD].
        destruct (fields_joint f kvs IH fds out SF) as [lfs [L [M F]]].
        exists (LObject lfs). rewrite L. cbn [rmap]. split; [reflexivity|].
        split; [|repeat split; discriminate].
        cbn [coerce_lit is_lnull]. rewrite A. unfold coerce_obj_lit.
        assert (NDl : NoDup (map fst lfs)) by (rewrite M; apply nodup_map_filter; exact NDn).
        rewrite (node_names_nodup lfs NDl). rewrite M at 1. rewrite names_known.
        rewrite (seq_fields_ext _ _ fds (lit_steps_same f kvs fds lfs NDn M F)). rewrite SF.
        destruct o; cbn [andb] in *; [|reflexivity].
        apply negb_false_iff in OK.
        assert (OL : oneof_lit_ok lfs out = true); [|rewrite OL; reflexivity].
        unfold oneof_val_ok in OK. unfold oneof_lit_ok. rewrite (node_names_nodup lfs NDl).
        destruct (defined_entries kvs) as [|? [|]]; try discriminate.
        destruct out as [|[k y] [|]]; try discriminate.
        pose proof (out_keys_no_default f kvs fds _ (OD eq_refl) SF) as OKs. cbn [map fst] in OKs.
        rewrite <- OKs in M.
        destruct lfs as [|[k' l] [|]]; try discriminate M. cbn [map fst] in M. inversion M; subst k'.
        cbn [map fst lit_get]. rewrite nat_list_eqb_refl.
        unfold dget. cbn [assoc]. rewrite nat_list_eqb_refl. rewrite OK. rewrite andb_true_r.
        apply negb_true_iff.
        destruct (is_lnull l) eqn:Nl; [|reflexivity]. exfalso.
        destruct (Forall_inv F) as [fd [y' [I [En [Cl [Sv [_ Nn]]]]]]]. cbn [fst snd] in *.
        specialize (Nn Nl).
        unfold val_step in Sv.
        destruct (is_undef (dget (f_name fd) kvs)) eqn:U.
        * destruct (required fd); [discriminate|]. unfold default_step in Sv.
          rewrite (OD eq_refl fd I) in Sv. discriminate.
        * assert (dget (f_name fd) kvs = PNone) by (destruct (dget (f_name fd) kvs); cbn in *; congruence).
          (* the only entry of out is this field's value, and that value is None *)
          destruct (seq_fields_entries (val_step (cval f) (clit f []) kvs)
                      (fun fd0 y0 => val_step (cval f) (clit f []) kvs fd0 = Good (Some y0))
                      fds [(k, y)] (fun _ _ _ X => X) NDn SF) as [Fo _].
          destruct (Forall_inv Fo) as [fd2 [I2 [E2 S2]]]. cbn [fst snd] in *.
          assert (Efd : fd2 = fd) by (eapply nodup_map_inj; eauto; congruence). subst fd2.
          unfold val_step in S2. rewrite U, H in S2. apply rmap_good in S2 as [y2 [Cy2 Ey2]].
          inversion Ey2; subst y2.
          apply (cval_of_none parse_float maxd s) in Cy2. subst y. discriminate OK.
    - destruct (is_null v) eqn:Nv. { inversion H. apply NULLCASE; auto. }
      assert (NONLIST : is_plist v = false ->
                rmap (fun y => PList [y]) (cval f it v) = Good r ->
                exists l, tolit f it v = Good l /\ clit (S f) [] (TList it) l = Good r /\ good_lit v l).
      { intros NP X. apply rmap_good in X as [y [Cy ->]].
        destruct (IH _ _ _ Cy) as [l [T [Cl [G1 [G2 G3]]]]]. exists l. split; [exact T|].
        split; [|repeat split; auto].
        rewrite (clit_nonvar parse_float s f [] (TList it) l G1).
        destruct (is_lnull l) eqn:Nl; [specialize (G2 eq_refl); congruence|].
        destruct l; try (rewrite Cl; reflexivity). specialize (G3 eq_refl). congruence. }
      destruct v; try (apply NONLIST; [reflexivity | exact H]).
      apply rmap_good in H as [ys [Hy ->]].
      destruct (list_joint f it (IH it) l ys Hy) as [ls [L1 L2]].
      exists (LList ls). rewrite L1. cbn [rmap]. split; [reflexivity|].
      split; [|repeat split; auto; discriminate].
      cbn [coerce_lit is_lnull]. rewrite L2. reflexivity.
    - destruct (is_null v) eqn:Nv; [discriminate|].
      destruct (IH _ _ _ H) as [l [T [Cl [G1 [G2 G3]]]]]. exists l. split; [exact T|].
      split; [|repeat split; auto].
      rewrite (clit_nonvar parse_float s f [] (TNonNull t') l G1).
      destruct (is_lnull l) eqn:Nl; [specialize (G2 eq_refl); congruence | exact Cl].
  Qed.
End RoundTrip.

(* ================================================================== more fuel changes nothing *)

Lemma seq_list_stable {A B} (c1 c2 : A -> result B) l :
  (forall x, In x l -> settled (c1 x) -> c2 x = c1 x) ->
  settled (seq_list c1 l) -> seq_list c2 l = seq_list c1 l.
Proof.
  induction l as [|x l IH]; intros H St; [reflexivity|]. cbn [seq_list] in *.
  destruct (c1 x) as [y| | |] eqn:C.
  - rewrite (H x (or_introl eq_refl)) by (rewrite C; apply settled_good). rewrite C.
    rewrite IH; [reflexivity | intros; apply H; auto; right; auto | eapply rmap_settled; exact St].
  - rewrite (H x (or_introl eq_refl)) by (rewrite C; apply settled_invalid). rewrite C. reflexivity.
  - destruct St as [St _]. congruence.
  - destruct St as [_ St]. congruence.
Qed.

Lemma seq_fields_stable (s1 s2 : field -> result (option pyval)) fds :
  (forall fd, In fd fds -> settled (s1 fd) -> s2 fd = s1 fd) ->
  settled (seq_fields s1 fds) -> seq_fields s2 fds = seq_fields s1 fds.
Proof.
  induction fds as [|fd fds IH]; intros H St; [reflexivity|]. cbn [seq_fields] in *.
  destruct (s1 fd) as [y| | |] eqn:C.
  - rewrite (H fd (or_introl eq_refl)) by (rewrite C; apply settled_good). rewrite C.
    rewrite IH; [reflexivity | intros; apply H; auto; right; auto | eapply rmap_settled; exact St].
  - rewrite (H fd (or_introl eq_refl)) by (rewrite C; apply settled_invalid). rewrite C. reflexivity.
  - destruct St as [St _]. congruence.
  - destruct St as [_ St]. congruence.
Qed.

Lemma default_step_stable (cd1 cd2 : ityp -> lit -> result pyval) fd :
  (forall t l, settled (cd1 t l) -> cd2 t l = cd1 t l) ->
  settled (default_step cd1 fd) -> default_step cd2 fd = default_step cd1 fd.
Proof.
  intros H St. unfold default_step in *. destruct (f_default fd) as [dl|]; [|reflexivity].
  destruct (cd1 (f_type fd) dl) as [y| | |] eqn:C.
  - rewrite (H _ _) by (rewrite C; apply settled_good). rewrite C. reflexivity.
  - destruct St as [St _]. congruence.
  - destruct St as [St _]. congruence.
  - destruct St as [_ St]. congruence.
Qed.

Lemma vseq_stable {A} (v1 v2 : nat -> A -> option (list path)) l :
  (forall x i e, In x l -> v1 i x = Some e -> v2 i x = Some e) ->
  forall i e, vseq v1 i l = Some e -> vseq v2 i l = Some e.
Proof.
  induction l as [|x l IH]; intros H i e V; [exact V|]. cbn [vseq] in *.
  apply oapp_some in V as [e1 [e2 [V1 [V2 ->]]]].
  rewrite (H x i e1 (or_introl eq_refl) V1). rewrite (IH (fun y j e' I => H y j e' (or_intror I)) (S i) e2 V2).
  reflexivity.
Qed.

Lemma vfields_stable (v1 v2 : field -> option (list path)) fds :
  (forall fd e, In fd fds -> v1 fd = Some e -> v2 fd = Some e) ->
  forall e, vfields v1 fds = Some e -> vfields v2 fds = Some e.
Proof.
  induction fds as [|fd fds IH]; intros H e V; [exact V|]. cbn [vfields] in *.
  apply oapp_some in V as [e1 [e2 [V1 [V2 ->]]]].
  rewrite (H fd e1 (or_introl eq_refl) V1). rewrite (IH (fun y e' I => H y e' (or_intror I)) e2 V2).
  reflexivity.
Qed.

Section FuelStable.
  Variable parse_float : text -> option pyfloat.
  Variable maxd : N.
  Variable s : schema.

  Notation cval := (coerce_val parse_float maxd s).
  Notation vval := (validate_val maxd s).
  Notation clit := (coerce_lit parse_float s).
  Notation vlit := (validate_lit parse_float s).

  Lemma clit_stable : forall f vars t l, settled (clit f vars t l) -> clit (S f) vars t l = clit f vars t l.
  Proof.
    induction f as [|f IH]; intros vars t l St; [destruct St as [_ St]; exfalso; apply St; reflexivity|].
    destruct (is_var l) eqn:Vl.
    - destruct l; try discriminate Vl. reflexivity.
    - rewrite (clit_nonvar parse_float s (S f) vars t l Vl).
      rewrite (clit_nonvar parse_float s f vars t l Vl) in *.
      destruct t as [n|it|t'].
      + destruct (is_lnull l); [reflexivity|]. destruct (assoc n s) as [d|]; [|reflexivity].
        destruct d as [sc|e|o fds]; try reflexivity.
        destruct l; try reflexivity. unfold coerce_obj_lit in *.
        destruct (existsb _ (node_names fs)); [reflexivity|].
        assert (E : seq_fields (lit_step (clit (S f) vars) (clit (S f) []) vars fs) fds =
                    seq_fields (lit_step (clit f vars) (clit f []) vars fs) fds).
        { apply seq_fields_stable.
          - intros fd _ S0. unfold lit_step in *.
            destruct (lit_get (f_name fd) fs) as [node|].
            + destruct (var_missing vars node).
              * destruct (required fd); [reflexivity|]. apply default_step_stable; auto.
              * apply rmap_settled in S0. rewrite (IH _ _ _ S0). reflexivity.
            + destruct (required fd); [reflexivity|]. apply default_step_stable; auto.
          - destruct (seq_fields (lit_step (clit f vars) (clit f []) vars fs) fds);
              [apply settled_good | apply settled_invalid | destruct St as [X _]; congruence | destruct St as [_ X]; congruence]. }
        rewrite E. reflexivity.
      + destruct (is_lnull l); [reflexivity|].
        destruct l; try (apply rmap_settled in St; rewrite (IH _ _ _ St); reflexivity).
        apply rmap_settled in St. f_equal. apply seq_list_stable; [|exact St].
        intros x _ S0. unfold lit_item in *.
        destruct (clit f vars it x) as [y| | |] eqn:C.
        * rewrite (IH vars it x) by (rewrite C; apply settled_good). rewrite C. reflexivity.
        * rewrite (IH vars it x) by (rewrite C; apply settled_invalid). rewrite C. reflexivity.
        * destruct S0 as [X _]. congruence.
        * destruct S0 as [_ X]. congruence.
      + destruct (is_lnull l); [reflexivity|]. apply IH. exact St.
  Qed.

  Lemma cval_unfold f t v :
    cval (S f) t v =
    match t with
    | TNonNull t' => if is_null v then Invalid else cval f t' v
    | TList it =>
        if is_null v then Good PNone else
        match v with
        | PList items => rmap PList (seq_list (cval f it) items)
        | _ => rmap (fun y => PList [y]) (cval f it v)
        end
    | TNamed n =>
        if is_null v then Good PNone else
        match assoc n s with
        | None => Crash
        | Some (DInput oneof fds) =>
            match v with
            | PDict kvs => coerce_obj_val (cval f) (clit f []) oneof fds kvs
            | _ => Invalid
            end
        | Some d => leaf_val maxd d v
        end
    end.
  Proof. reflexivity. Qed.

  Lemma vval_unfold f t v p :
    vval (S f) t v p =
    match t with
    | TNonNull t' => if is_null v then Some [p] else vval f t' v p
    | TList it =>
        if is_null v then Some [] else
        match v with
        | PList items => vseq (fun i x => vval f it x (p ++ [PIdx i])) O items
        | _ => vval f it v p
        end
    | TNamed n =>
        if is_null v then Some [] else
        match assoc n s with
        | None => Some []
        | Some (DInput oneof fds) =>
            match v with
            | PDict kvs => validate_obj_val (vval f) oneof fds kvs p
            | _ => Some [p]
            end
        | Some d => Some (if is_good (leaf_val maxd d v) then [] else [p])
        end
    end.
  Proof. reflexivity. Qed.

  Lemma cval_stable : forall f t v, settled (cval f t v) -> cval (S f) t v = cval f t v.
  Proof.
    induction f as [|f IH]; intros t v St; [destruct St as [_ St]; exfalso; apply St; reflexivity|].
    rewrite (cval_unfold (S f)). rewrite (cval_unfold f) in *.
    destruct t as [n|it|t'].
    - destruct (is_null v); [reflexivity|]. destruct (assoc n s) as [d|]; [|reflexivity].
      destruct d as [sc|e|o fds]; try reflexivity.
      destruct v; try reflexivity. unfold coerce_obj_val in *.
      destruct (has_unknown fds kvs); [reflexivity|].
      assert (E : seq_fields (val_step (cval (S f)) (clit (S f) []) kvs) fds =
                  seq_fields (val_step (cval f) (clit f []) kvs) fds).
      { apply seq_fields_stable.
        - intros fd _ S0. unfold val_step in *.
          destruct (is_undef (dget (f_name fd) kvs)).
          + destruct (required fd); [reflexivity|]. apply default_step_stable; auto.
            intros t0 l0. apply clit_stable.
          + apply rmap_settled in S0. rewrite (IH _ _ S0). reflexivity.
        - destruct (seq_fields (val_step (cval f) (clit f []) kvs) fds);
            [apply settled_good | apply settled_invalid | destruct St as [X _]; congruence | destruct St as [_ X]; congruence]. }
      rewrite E. reflexivity.
    - destruct (is_null v); [reflexivity|].
      destruct v; try (apply rmap_settled in St; rewrite (IH _ _ St); reflexivity).
      apply rmap_settled in St. f_equal. apply seq_list_stable; [|exact St].
      intros x _ S0. apply IH. exact S0.
    - destruct (is_null v); [reflexivity|]. apply IH. exact St.
  Qed.

  Lemma vval_stable : forall f t v p e, vval f t v p = Some e -> vval (S f) t v p = Some e.
  Proof.
    induction f as [|f IH]; intros t v p e V; [discriminate|].
    rewrite (vval_unfold (S f)). rewrite (vval_unfold f) in V.
    destruct t as [n|it|t'].
    - destruct (is_null v); [exact V|]. destruct (assoc n s) as [d|]; [|exact V].
      destruct d as [sc|en|o fds]; try exact V.
      destruct v; try exact V. unfold validate_obj_val in *.
      apply oapp_some in V as [e1 [e2 [V1 [V2 ->]]]].
      rewrite (vfields_stable (vval_step (vval f) kvs p) (vval_step (vval (S f)) kvs p) fds) with (e := e1);
        [rewrite V2; reflexivity | | exact V1].
      intros fd e0 _ V0. unfold vval_step in *. destruct (is_undef (dget (f_name fd) kvs)); [exact V0|].
      apply IH. exact V0.
    - destruct (is_null v); [exact V|].
      destruct v; try (apply IH; exact V).
      eapply vseq_stable; [|exact V]. intros x i e0 _ V0. apply IH. exact V0.
    - destruct (is_null v); [exact V|]. apply IH. exact V.
  Qed.

  Lemma vlit_stable : forall f static vars t l p e,
    vlit f static vars t l p = Some e -> vlit (S f) static vars t l p = Some e.
  Proof.
    induction f as [|f IH]; intros static vars t l p e V; [discriminate|].
    destruct (is_var l) eqn:Vl.
    - destruct l; try discriminate Vl. exact V.
    - rewrite (vlit_nonvar parse_float s (S f) static vars t l p Vl).
      rewrite (vlit_nonvar parse_float s f static vars t l p Vl) in V.
      destruct t as [n|it|t'].
      + destruct (is_lnull l); [exact V|]. destruct (assoc n s) as [d|]; [|exact V].
        destruct d as [sc|en|o fds]; try exact V.
        destruct l; try exact V. unfold validate_obj_lit in *.
        apply oapp_some in V as [e1 [e2 [V1 [V2 ->]]]].
        rewrite (vfields_stable (vlit_step (vlit f static vars) static vars o fs p)
                                (vlit_step (vlit (S f) static vars) static vars o fs p) fds) with (e := e1);
          [rewrite V2; reflexivity | | exact V1].
        intros fd e0 _ V0. unfold vlit_step in *.
        destruct (lit_get (f_name fd) fs) as [node|]; [|exact V0].
        destruct node; try (apply IH; exact V0).
        destruct static; [apply IH; exact V0|].
        destruct o.
        * apply oapp_some in V0 as [a [b [Va [Vb ->]]]]. rewrite Va. rewrite (IH _ _ _ _ _ _ Vb). reflexivity.
        * destruct (is_undef (lookup_var n0 vars) && negb (required fd)); [exact V0 | apply IH; exact V0].
      + destruct (is_lnull l); [exact V|].
        destruct l; try (apply IH; exact V).
        eapply vseq_stable; [|exact V]. intros x i e0 _ V0. apply IH. exact V0.
      + destruct (is_lnull l); [exact V|]. apply IH. exact V.
  Qed.

  (* once a run settles, every larger fuel gives the same answer *)
  Theorem fuel_stable f k :
    (forall t v, settled (cval f t v) -> cval (k + f) t v = cval f t v)
    /\ (forall vars t l, settled (clit f vars t l) -> clit (k + f) vars t l = clit f vars t l)
    /\ (forall t v p e, vval f t v p = Some e -> vval (k + f) t v p = Some e)
    /\ (forall st vars t l p e, vlit f st vars t l p = Some e -> vlit (k + f) st vars t l p = Some e).
  Proof.
    induction k as [|k [A [B [C D]]]]; [repeat split; auto|].
    cbn [plus]. repeat split.
    - intros t v St. rewrite cval_stable; rewrite (A t v St); auto.
    - intros vars t l St. rewrite clit_stable; rewrite (B vars t l St); auto.
    - intros t v p e V. apply vval_stable. apply C. exact V.
    - intros st vars t l p e V. apply vlit_stable. apply D. exact V.
  Qed.
End FuelStable.
