(* Model of the built-in scalar coercers of src/graphql/type/scalars.py, of
   GraphQLEnumType.coerce_output_value / coerce_input_value (type/definition.py) and of the
   null check + complete_leaf_value of execution/executor.py.
   Definitions only; proofs are in Types/ScalarsProps.v.

   Python values are the inductive [pyval]; floats are exact dyadics (no floating point
   arithmetic enters: every test of scalars.py on a float is a test on sign * m * 2^e).
   What CPython computes from the *characters* of a string (int("..."), float("...")) and the
   shortest repr of a float (str(x)) are oracles: Section variables here, supplied by the
   harness with every case. *)
From GV Require Import Base.Prelude.

(* ------------------------------------------------------------------ values *)

(* value = (-1)^neg * m * 2^e ; -0.0 is [FFin true 0 e] *)
Inductive pyfloat : Type :=
| FNan
| FInf (neg : bool)
| FFin (neg : bool) (m : N) (e : Z).

Inductive pyval : Type :=
| PNone
| PUndef                                   (* graphql.pyutils.Undefined *)
| PBool (b : bool)
| PInt (z : Z)
| PFloat (f : pyfloat)
| PStr (s : text)
| PBytes (s : text)
| PList (l : list pyval)
| PTuple (l : list pyval)                  (* a tuple: never equal to a list, hashable iff its items are *)
| PDict (kvs : list (text * pyval))        (* str keys, insertion ordered *)
| PObj (id : N) (builtin : bool) (str : text).
   (* an object compared by identity [id]; [builtin] = (type(o).__module__ == "builtins");
      [str] = str(o) *)

Inductive cres : Type :=
| COk (v : pyval)
| CErr.                                     (* an exception: GraphQLError for the scalars *)

Inductive scalar : Type := SInt | SFloat | SString | SBoolean | SID.

(* ------------------------------------------------------------------ exact float tests *)

Definition signed (neg : bool) (n : Z) : Z := if neg then (- n)%Z else n.

(* Some z  iff the float is finite and integral, z its exact value (int(x) == x). *)
Definition f_int_value (f : pyfloat) : option Z :=
  match f with
  | FFin neg m e =>
      if (0 <=? e)%Z then Some (signed neg (Z.of_N m * 2 ^ e)%Z)
      else
        let d := (2 ^ (- e))%Z in
        if (Z.of_N m mod d =? 0)%Z then Some (signed neg (Z.of_N m / d)%Z) else None
  | _ => None
  end.

Definition f_finite (f : pyfloat) : bool :=
  match f with FFin _ _ _ => true | _ => false end.

Definition f_is_zero (f : pyfloat) : bool :=
  match f with FFin _ m _ => m =? 0 | _ => false end.

(* exact equality of two floats as Python's == (nan differs from everything, -0.0 == 0.0) *)
Definition f_eq (a b : pyfloat) : bool :=
  match a, b with
  | FInf x, FInf y => Bool.eqb x y
  | FFin n1 m1 e1, FFin n2 m2 e2 =>
      let lo := Z.min e1 e2 in
      (signed n1 (Z.of_N m1 * 2 ^ (e1 - lo)) =? signed n2 (Z.of_N m2 * 2 ^ (e2 - lo)))%Z
  | _, _ => false
  end.

Definition GRAPHQL_MIN_INT : Z := (- 2147483648)%Z.
Definition GRAPHQL_MAX_INT : Z := 2147483647%Z.

Definition in_int32 (z : Z) : bool := ((GRAPHQL_MIN_INT <=? z) && (z <=? GRAPHQL_MAX_INT))%Z.

(* an int is exactly a binary64 value: float(z) does not overflow and int(float(z)) == z *)
Fixpoint odd_part (p : positive) : positive :=
  match p with
  | xO q => odd_part q
  | _ => p
  end.

Definition int_representable (z : Z) : bool :=
  match z with
  | Z0 => true
  | Zpos p | Zneg p => (Npos p <? 2 ^ 1024) && (Npos (odd_part p) <? 2 ^ 53)
  end.

Fixpoint trailing_zeros (p : positive) : Z :=
  match p with
  | xO q => (1 + trailing_zeros q)%Z
  | _ => 0%Z
  end.

(* canonical form of a finite float: odd mantissa, or mantissa 0 with exponent 0 *)
Definition f_norm (x : pyfloat) : pyfloat :=
  match x with
  | FFin s N0 _ => FFin s 0 0%Z
  | FFin s (Npos p) e => FFin s (Npos (odd_part p)) (e + trailing_zeros p)%Z
  | _ => x
  end.

(* float(z) for a representable z, in canonical form *)
Definition float_of_int (z : Z) : pyfloat := f_norm (FFin (z <? 0)%Z (Z.abs_N z) 0%Z).

(* ------------------------------------------------------------------ str(int) *)

Fixpoint dec_digits (fuel : nat) (n : N) (acc : text) : text :=
  match fuel with
  | O => acc
  | S f =>
      let (q, r) := N.div_eucl n 10 in
      let acc' := (48 + r) :: acc in
      if q =? 0 then acc' else dec_digits f q acc'
  end.

Definition N_dec (n : N) : text := dec_digits (S (N.to_nat (N.log2 n))) n [].

(* str(z); None models the ValueError of CPython's integer string conversion length limit
   (sys.get_int_max_str_digits(), 0 = unlimited) *)
Definition int_str (maxd : N) (z : Z) : option text :=
  let ds := N_dec (Z.abs_N z) in
  if negb (maxd =? 0) && (maxd <? N.of_nat (length ds)) then None
  else Some (if (z <? 0)%Z then 45 :: ds else ds).

Definition is_empty (s : text) : bool := match s with [] => true | _ => false end.

Definition TRUE_S : text := [116; 114; 117; 101].
Definition FALSE_S : text := [102; 97; 108; 115; 101].
Definition UNDEFINED_S : text := [85; 110; 100; 101; 102; 105; 110; 101; 100].

(* ------------------------------------------------------------------ the coercers *)

Section Oracles.
  Variable parse_int : text -> option Z.         (* int(s): None = ValueError *)
  Variable parse_float : text -> option pyfloat. (* float(s): None = ValueError *)
  Variable float_str : pyfloat -> text.          (* str(x) of a finite float *)
  Variable maxd : N.                             (* sys.get_int_max_str_digits() *)

  (* coerce_int_from_number *)
  Definition int_from_int (z : Z) : cres :=
    if in_int32 z then COk (PInt z) else CErr.

  Definition int_from_float (f : pyfloat) : cres :=
    match f_int_value f with
    | Some z => int_from_int z
    | None => CErr
    end.

  (* coerce_int_from_string *)
  Definition int_from_string (s : text) : cres :=
    if is_empty s then CErr
    else match parse_int s with
         | Some z => int_from_int z
         | None => CErr
         end.

  Definition serialize_int (v : pyval) : cres :=
    match v with
    | PBool b => COk (PInt (if b then 1 else 0)%Z)
    | PInt z => int_from_int z
    | PFloat f => int_from_float f
    | PStr s => int_from_string s
    | _ => CErr
    end.

  Definition coerce_int (v : pyval) : cres :=
    match v with
    | PInt z => int_from_int z
    | PFloat f => int_from_float f
    | _ => CErr
    end.

  (* coerce_float_from_number / _from_int / _from_string *)
  Definition float_from_float (f : pyfloat) : cres :=
    if f_finite f then COk (PFloat f) else CErr.

  Definition float_from_int (z : Z) : cres :=
    if int_representable z then COk (PFloat (float_of_int z)) else CErr.

  Definition float_from_string (s : text) : cres :=
    if is_empty s then CErr
    else match parse_float s with
         | Some f => float_from_float f
         | None => CErr
         end.

  Definition serialize_float (v : pyval) : cres :=
    match v with
    | PBool b => COk (PInt (if b then 1 else 0)%Z)   (* the code returns the int 1 / 0 *)
    | PFloat f => float_from_float f
    | PInt z => float_from_int z
    | PStr s => float_from_string s
    | _ => CErr
    end.

  Definition coerce_float (v : pyval) : cres :=
    match v with
    | PFloat f => float_from_float f
    | PInt z => float_from_int z
    | _ => CErr
    end.

  Definition str_of_int (z : Z) : cres :=
    match int_str maxd z with
    | Some s => COk (PStr s)
    | None => CErr
    end.

  (* value of type(v).__module__ != "builtins": str(v) *)
  Definition str_of_custom (v : pyval) : cres :=
    match v with
    | PObj _ false s => COk (PStr s)
    | PUndef => COk (PStr UNDEFINED_S)      (* Undefined lives in graphql.pyutils *)
    | _ => CErr
    end.

  Definition serialize_string (v : pyval) : cres :=
    match v with
    | PStr s => COk (PStr s)
    | PBool b => COk (PStr (if b then TRUE_S else FALSE_S))
    | PFloat f => if f_finite f then COk (PStr (float_str f)) else CErr
    | PInt z => str_of_int z
    | _ => str_of_custom v
    end.

  Definition coerce_string (v : pyval) : cres :=
    match v with
    | PStr s => COk (PStr s)
    | _ => CErr
    end.

  Definition serialize_boolean (v : pyval) : cres :=
    match v with
    | PBool b => COk (PBool b)
    | PFloat f => if f_finite f then COk (PBool (negb (f_is_zero f))) else CErr
    | PInt z => COk (PBool (negb (z =? 0)%Z))
    | _ => CErr
    end.

  Definition coerce_boolean (v : pyval) : cres :=
    match v with
    | PBool b => COk (PBool b)
    | _ => CErr
    end.

  (* coerce_id_from_number *)
  Definition id_from_float (f : pyfloat) : cres :=
    match f_int_value f with
    | Some z => str_of_int z
    | None => CErr
    end.

  Definition serialize_id (v : pyval) : cres :=
    match v with
    | PStr s => COk (PStr s)
    | PInt z => str_of_int z
    | PFloat f => id_from_float f
    | _ => str_of_custom v
    end.

  Definition coerce_id (v : pyval) : cres :=
    match v with
    | PStr s => COk (PStr s)
    | PInt z => str_of_int z
    | PFloat f => id_from_float f
    | _ => CErr
    end.

  Definition serialize (sc : scalar) : pyval -> cres :=
    match sc with
    | SInt => serialize_int
    | SFloat => serialize_float
    | SString => serialize_string
    | SBoolean => serialize_boolean
    | SID => serialize_id
    end.

  Definition coerce_input (sc : scalar) : pyval -> cres :=
    match sc with
    | SInt => coerce_int
    | SFloat => coerce_float
    | SString => coerce_string
    | SBoolean => coerce_boolean
    | SID => coerce_id
    end.

  (* complete_value on a leaf type: null check, then complete_leaf_value *)
  Definition is_null (v : pyval) : bool :=
    match v with PNone | PUndef => true | _ => false end.

  Definition complete_leaf (coerce_output : pyval -> cres) (v : pyval) : cres :=
    if is_null v then COk PNone
    else match coerce_output v with
         | COk r => if is_null r then CErr else COk r
         | CErr => CErr
         end.
End Oracles.

(* ------------------------------------------------------------------ Python == and hashability *)

Inductive num : Type := NInt (z : Z) | NFlt (f : pyfloat).

Definition as_num (v : pyval) : option num :=
  match v with
  | PBool b => Some (NInt (if b then 1 else 0)%Z)
  | PInt z => Some (NInt z)
  | PFloat f => Some (NFlt f)
  | _ => None
  end.

Definition int_eq_float (z : Z) (f : pyfloat) : bool :=
  match f_int_value f with
  | Some z' => (z =? z')%Z
  | None => false
  end.

Definition num_eq (a b : num) : bool :=
  match a, b with
  | NInt x, NInt y => (x =? y)%Z
  | NInt x, NFlt f => int_eq_float x f
  | NFlt f, NInt y => int_eq_float y f
  | NFlt f, NFlt g => f_eq f g
  end.

Fixpoint assoc {A} (k : text) (l : list (text * A)) : option A :=
  match l with
  | [] => None
  | (k', v) :: r => if nat_list_eqb k k' then Some v else assoc k r
  end.

(* a == b for the modelled values (fresh nan objects: nan is never equal, not even to itself) *)
Fixpoint pyeq (a b : pyval) : bool :=
  match a, b with
  | PNone, PNone => true
  | PUndef, PUndef => true
  | PNone, PUndef => true                    (* UndefinedType.__eq__ accepts None ... *)
  | PUndef, PNone => true                    (* ... also reflected (the hashes differ) *)
  | PStr s, PStr t => nat_list_eqb s t
  | PBytes s, PBytes t => nat_list_eqb s t
  | PObj i _ _, PObj j _ _ => i =? j
  | PList la, PList lb =>
      (fix go (la lb : list pyval) : bool :=
         match la, lb with
         | [], [] => true
         | x :: la', y :: lb' => pyeq x y && go la' lb'
         | _, _ => false
         end) la lb
  | PTuple la, PTuple lb =>
      (fix go (la lb : list pyval) : bool :=
         match la, lb with
         | [], [] => true
         | x :: la', y :: lb' => pyeq x y && go la' lb'
         | _, _ => false
         end) la lb
  | PDict da, PDict db =>
      (length da =? length db)%nat &&
      (fix go (da : list (text * pyval)) : bool :=
         match da with
         | [] => true
         | (k, v) :: da' =>
             match assoc k db with
             | Some v' => pyeq v v'
             | None => false
             end && go da'
         end) da
  | _, _ =>
      match as_num a, as_num b with
      | Some x, Some y => num_eq x y
      | _, _ => false
      end
  end.

(* hash(v) does not raise: lists and dicts never, a tuple iff all its items *)
Fixpoint hashable (v : pyval) : bool :=
  match v with
  | PList _ | PDict _ => false
  | PTuple l => (fix all (l : list pyval) : bool :=
                   match l with [] => true | x :: r => hashable x && all r end) l
  | _ => true
  end.

(* ------------------------------------------------------------------ enums *)

(* GraphQLEnumType.values: name -> internal value, in definition order *)
Definition enum := list (text * pyval).

Definition lookup_key (name : text) (value : pyval) : pyval :=
  if is_null value then PStr name else value.

Fixpoint find_key (v : pyval) (tbl : list (pyval * text)) : option text :=
  match tbl with
  | [] => None
  | (k, n) :: r => if pyeq k v then Some n else find_key v r
  end.

(* _value_lookup: first name per distinct hashable key; unhashable values are left out *)
Fixpoint value_lookup (e : enum) (acc : list (pyval * text)) : list (pyval * text) :=
  match e with
  | [] => acc
  | (name, value) :: r =>
      let k := lookup_key name value in
      if hashable k then
        match find_key k acc with
        | Some _ => value_lookup r acc
        | None => value_lookup r (acc ++ [(k, name)])
        end
      else value_lookup r acc
  end.

Fixpoint scan_values (v : pyval) (e : enum) : option text :=
  match e with
  | [] => None
  | (name, value) :: r => if pyeq value v then Some name else scan_values v r
  end.

Definition enum_output (e : enum) (v : pyval) : cres :=
  match (if hashable v then find_key v (value_lookup e []) else scan_values v e) with
  | Some name => COk (PStr name)
  | None => CErr
  end.

Definition enum_input (e : enum) (v : pyval) : cres :=
  match v with
  | PStr name =>
      match assoc name e with
      | Some value => COk value
      | None => CErr
      end
  | _ => CErr
  end.
