(* C20 - proofs about Types/SchemaValidate.v *)
From GV Require Import Base.Prelude Types.SchemaValidate.

(* ================================================================== generic DFS *)
Section DFSProps.
  Variable A : Type.
  Variable eqb : A -> A -> bool.
  Hypothesis eqb_spec : forall a b, eqb a b = true <-> a = b.
  Variable succ : A -> list A.

  Notation memA := (memA A eqb).
  Notation dstate := (dstate A).
  Notation dfs := (dfs A eqb succ).
  Notation loop := (loop A eqb).
  Notation step := (step A eqb).
  Notation dfs_all := (dfs_all A eqb succ).
  Notation cycle_from := (cycle_from A eqb).

  Definition edge (a b : A) : Prop := In b (succ a).

  Lemma memA_In x l : memA x l = true <-> In x l.
  Proof.
    induction l as [|y l IH]; cbn.
    - split; [discriminate | tauto].
    - rewrite orb_true_iff, IH, eqb_spec. split; intros [H|H]; auto.
  Qed.

  Lemma memA_false x l : memA x l = false <-> ~ In x l.
  Proof.
    rewrite <- memA_In. destruct (memA x l).
    - split; [discriminate | intro H; exfalso; apply H; reflexivity].
    - split; [intros _ H; discriminate | reflexivity].
  Qed.

  (* ---------------------------------------------------------------- termination *)
  Definition unv (U vis : list A) : nat :=
    length (filter (fun a => negb (memA a vis)) U).

  Lemma unv_mono U vis vis' : incl vis vis' -> (unv U vis' <= unv U vis)%nat.
  Proof.
    intro Hi. unfold unv. induction U as [|a U IH]; cbn; [lia|].
    destruct (memA a vis) eqn:E1; destruct (memA a vis') eqn:E2; cbn; try lia.
    apply memA_In in E1. apply Hi in E1. apply memA_In in E1. congruence.
  Qed.

  Lemma unv_cons_lt U vis x :
    In x U -> memA x vis = false -> (unv U (x :: vis) < unv U vis)%nat.
  Proof.
    intros Hin Hm. unfold unv. induction U as [|a U IH]; [destruct Hin|].
    assert (Hle : (length (filter (fun a0 => negb (memA a0 (x :: vis))) U)
                   <= length (filter (fun a0 => negb (memA a0 vis)) U))%nat).
    { apply (unv_mono U vis (x :: vis)). intros z Hz. right. exact Hz. }
    cbn [filter]. destruct Hin as [->|Hin].
    - assert (E : memA x (x :: vis) = true) by (apply memA_In; left; reflexivity).
      rewrite E, Hm. cbn [negb length]. lia.
    - specialize (IH Hin).
      destruct (memA a (x :: vis)) eqn:E1; destruct (memA a vis) eqn:E2; cbn [negb length]; try lia.
      apply memA_In in E2. assert (In a (x :: vis)) by (right; exact E2).
      apply memA_In in H. congruence.
  Qed.

  Lemma unv_nil U : unv U [] = length U.
  Proof. unfold unv. induction U as [|a l IH]; cbn; [reflexivity | f_equal; exact IH]. Qed.

  Section Termination.
    Variable U : list A.
    Hypothesis U_closed : forall a, In a U -> incl (succ a) U.

    Lemma loop_terminates f p :
      (forall y st, In y U -> memA y (d_visited st) = false -> (unv U (d_visited st) <= f)%nat ->
         exists st', SchemaValidate.dfs A eqb succ f p y st = Some st'
                     /\ incl (d_visited st) (d_visited st')) ->
      forall ys st, incl ys U -> (unv U (d_visited st) <= f)%nat ->
        exists st', loop (SchemaValidate.dfs A eqb succ f p) p ys st = Some st'
                    /\ incl (d_visited st) (d_visited st').
    Proof.
      intros IHf ys. induction ys as [|y ys IH]; intros st Hys Hu; cbn [SchemaValidate.loop].
      - exists st. split; [reflexivity | apply incl_refl].
      - assert (Hy : In y U) by (apply Hys; left; reflexivity).
        assert (Hys' : incl ys U) by (intros z Hz; apply Hys; right; exact Hz).
        unfold SchemaValidate.step.
        destruct (memA y p) eqn:E1.
        + destruct (IH (mkD (d_visited st) (cycle_from y p :: d_reports st) (d_done st)) Hys' Hu)
            as [st' [H1 H2]].
          exists st'. split; [exact H1 | exact H2].
        + destruct (memA y (d_visited st)) eqn:E2.
          * apply IH; assumption.
          * destruct (IHf y st Hy E2 Hu) as [st1 [H1 H2]]. rewrite H1.
            assert (Hu1 : (unv U (d_visited st1) <= f)%nat).
            { pose proof (unv_mono U _ _ H2). lia. }
            destruct (IH st1 Hys' Hu1) as [st' [H3 H4]].
            exists st'. split; [exact H3 | eapply incl_tran; eassumption].
    Qed.

    Lemma dfs_terminates fuel : forall p x st,
      In x U -> memA x (d_visited st) = false -> (unv U (d_visited st) <= fuel)%nat ->
      exists st', dfs fuel p x st = Some st' /\ incl (d_visited st) (d_visited st').
    Proof.
      induction fuel as [|f IHf]; intros p x st Hx Hm Hu.
      - pose proof (unv_cons_lt U (d_visited st) x Hx Hm). lia.
      - cbn [SchemaValidate.dfs].
        assert (Hu' : (unv U (d_visited (mark A x st)) <= f)%nat).
        { cbn. pose proof (unv_cons_lt U (d_visited st) x Hx Hm). lia. }
        destruct (loop_terminates f (x :: p) (fun y st0 => IHf (x :: p) y st0)
                    (succ x) (mark A x st) (U_closed x Hx) Hu') as [st' [H1 H2]].
        rewrite H1. exists (finish A x st'). split; [reflexivity|].
        cbn. intros z Hz. apply H2. cbn. right. exact Hz.
    Qed.

    Lemma dfs_all_terminates fuel : forall roots st,
      incl roots U -> (unv U (d_visited st) <= fuel)%nat ->
      exists st', dfs_all fuel roots st = Some st'.
    Proof.
      induction roots as [|r roots IH]; intros st Hr Hu; cbn [SchemaValidate.dfs_all].
      - eexists; reflexivity.
      - assert (Hr' : incl roots U) by (intros z Hz; apply Hr; right; exact Hz).
        destruct (memA r (d_visited st)) eqn:E.
        + apply IH; assumption.
        + destruct (dfs_terminates fuel [] r st (Hr r (or_introl eq_refl)) E Hu) as [st1 [H1 H2]].
          rewrite H1. apply IH; [assumption|]. pose proof (unv_mono U _ _ H2). lia.
    Qed.

    Theorem dfs_all_fuel_suffices roots :
      incl roots U -> exists st', dfs_all (length U) roots dstate0 = Some st'.
    Proof. intro H. apply dfs_all_terminates; [exact H|]. cbn. rewrite unv_nil. lia. Qed.
  End Termination.

  (* ---------------------------------------------------------------- reports only grow *)
  Lemma loop_reports_mono rec p :
    (forall y st st', rec y st = Some st' -> exists l, d_reports st' = l ++ d_reports st) ->
    forall ys st st', loop rec p ys st = Some st' -> exists l, d_reports st' = l ++ d_reports st.
  Proof.
    intros Hrec ys. induction ys as [|y ys IH]; intros st st' H; cbn [SchemaValidate.loop] in H.
    - inversion H; subst. exists []. reflexivity.
    - unfold SchemaValidate.step in H.
      destruct (memA y p).
      + apply IH in H. destruct H as [l H]. cbn in H. exists (l ++ [cycle_from y p]).
        rewrite H, <- app_assoc. reflexivity.
      + destruct (memA y (d_visited st)); [apply IH; exact H|].
        destruct (rec y st) as [st1|] eqn:E; [|discriminate].
        apply Hrec in E. destruct E as [l1 E]. apply IH in H. destruct H as [l2 H].
        exists (l2 ++ l1). rewrite H, E, app_assoc. reflexivity.
  Qed.

  Lemma dfs_reports_mono fuel : forall p x st st',
    dfs fuel p x st = Some st' -> exists l, d_reports st' = l ++ d_reports st.
  Proof.
    induction fuel as [|f IHf]; intros p x st st' H; cbn [SchemaValidate.dfs] in H; [discriminate|].
    destruct (loop (SchemaValidate.dfs A eqb succ f (x :: p)) (x :: p) (succ x) (mark A x st)) as [st1|] eqn:E;
      [|discriminate].
    inversion H; subst. cbn.
    apply (loop_reports_mono _ _ (fun y s s' => IHf (x :: p) y s s')) in E. exact E.
  Qed.

  Lemma dfs_all_reports_mono fuel : forall roots st st',
    dfs_all fuel roots st = Some st' -> exists l, d_reports st' = l ++ d_reports st.
  Proof.
    induction roots as [|r roots IH]; intros st st' H; cbn [SchemaValidate.dfs_all] in H.
    - inversion H; subst. exists []. reflexivity.
    - destruct (memA r (d_visited st)); [apply IH; exact H|].
      destruct (dfs fuel [] r st) as [st1|] eqn:E; [|discriminate].
      apply dfs_reports_mono in E. destruct E as [l1 E]. apply IH in H. destruct H as [l2 H].
      exists (l2 ++ l1). rewrite H, E, app_assoc. reflexivity.
  Qed.

  (* ---------------------------------------------------------------- soundness *)
  (* a path stack: top first, every element is a successor of the one below it *)
  Fixpoint chain (p : list A) : Prop :=
    match p with
    | a :: ((b :: _) as p') => edge b a /\ chain p'
    | _ => True
    end.

  (* c = [top; ...; bottom]: bottom -> ... -> top -> bottom *)
  Definition is_cycle (c : list A) : Prop :=
    match c with
    | [] => False
    | top :: _ => chain c /\ edge top (last c top)
    end.

  Lemma chain_tail a p : chain (a :: p) -> chain p.
  Proof. destruct p; cbn; tauto. Qed.

  Lemma cycle_from_chain y p : chain p -> chain (cycle_from y p).
  Proof.
    induction p as [|z p IH]; intro H; cbn; [exact I|].
    destruct (eqb y z); [exact I|].
    destruct p as [|w p]; [exact I|].
    cbn in H. destruct H as [H1 H2]. specialize (IH H2).
    cbn [SchemaValidate.cycle_from] in *. destruct (eqb y w); cbn; split; auto.
  Qed.

  Lemma cycle_from_last y p d : memA y p = true -> last (cycle_from y p) d = y.
  Proof.
    induction p as [|z p IH]; intro H; cbn in H; [discriminate|].
    cbn [SchemaValidate.cycle_from]. destruct (eqb y z) eqn:E.
    - apply eqb_spec in E. subst. reflexivity.
    - cbn in H. specialize (IH H).
      destruct (cycle_from y p) as [|w q] eqn:Eq.
      + destruct p as [|w p]; [discriminate|]. cbn in Eq. destruct (eqb y w); discriminate.
      + exact IH.
  Qed.

  Lemma cycle_from_is_cycle y x p :
    chain (x :: p) -> memA y (x :: p) = true -> edge x y -> is_cycle (cycle_from y (x :: p)).
  Proof.
    intros Hc Hm He.
    pose proof (cycle_from_chain y _ Hc) as H1.
    pose proof (cycle_from_last y _ x Hm) as H2.
    cbn [SchemaValidate.cycle_from] in *. destruct (eqb y x) eqn:E.
    - cbn. split; [exact I|]. apply eqb_spec in E. subst. exact He.
    - cbn [is_cycle]. split; [exact H1|]. rewrite H2. exact He.
  Qed.

  Lemma loop_sound rec x p :
    chain (x :: p) ->
    (forall y st st', edge x y -> Forall is_cycle (d_reports st) -> rec y st = Some st' ->
                      Forall is_cycle (d_reports st')) ->
    forall ys st st', (forall y, In y ys -> edge x y) -> Forall is_cycle (d_reports st) ->
      loop rec (x :: p) ys st = Some st' -> Forall is_cycle (d_reports st').
  Proof.
    intros Hc Hrec ys. induction ys as [|y ys IH]; intros st st' Hys Hf H; cbn [SchemaValidate.loop] in H.
    - inversion H; subst. exact Hf.
    - assert (He : edge x y) by (apply Hys; left; reflexivity).
      assert (Hys' : forall z, In z ys -> edge x z) by (intros z Hz; apply Hys; right; exact Hz).
      unfold SchemaValidate.step in H.
      destruct (memA y (x :: p)) eqn:E1.
      + eapply IH; [exact Hys' | | exact H]. cbn. constructor; [|exact Hf].
        apply cycle_from_is_cycle; assumption.
      + destruct (memA y (d_visited st)); [eapply IH; eassumption|].
        destruct (rec y st) as [st1|] eqn:E; [|discriminate].
        eapply IH; [exact Hys' | | exact H]. eapply Hrec; eassumption.
  Qed.

  Lemma dfs_sound fuel : forall p x st st',
    chain (x :: p) -> Forall is_cycle (d_reports st) -> dfs fuel p x st = Some st' ->
    Forall is_cycle (d_reports st').
  Proof.
    induction fuel as [|f IHf]; intros p x st st' Hc Hf H; cbn [SchemaValidate.dfs] in H; [discriminate|].
    destruct (loop (SchemaValidate.dfs A eqb succ f (x :: p)) (x :: p) (succ x) (mark A x st)) as [st1|] eqn:E;
      [|discriminate].
    inversion H; subst. cbn.
    eapply (loop_sound _ x p Hc) in E; [exact E | | | exact Hf].
    - intros y s s' He Hs Hr. eapply IHf; [|exact Hs|exact Hr].
      cbn. split; [exact He|]. exact Hc.
    - intros y Hy. exact Hy.
  Qed.

  Theorem dfs_all_sound fuel : forall roots st st',
    Forall is_cycle (d_reports st) -> dfs_all fuel roots st = Some st' ->
    Forall is_cycle (d_reports st').
  Proof.
    induction roots as [|r roots IH]; intros st st' Hf H; cbn [SchemaValidate.dfs_all] in H.
    - inversion H; subst. exact Hf.
    - destruct (memA r (d_visited st)); [eapply IH; eassumption|].
      destruct (dfs fuel [] r st) as [st1|] eqn:E; [|discriminate].
      eapply IH; [|exact H]. eapply dfs_sound; [|exact Hf|exact E]. cbn. exact I.
  Qed.

  (* a non-empty path in the graph *)
  Inductive reach : A -> A -> Prop :=
  | reach_one a b : edge a b -> reach a b
  | reach_step a b c : edge a b -> reach b c -> reach a c.

  Lemma reach_snoc a b c : reach a b -> edge b c -> reach a c.
  Proof.
    intros H He. induction H as [a b H|a b b' H _ IH].
    - eapply reach_step; [exact H | apply reach_one; exact He].
    - eapply reach_step; [exact H | apply IH; exact He].
  Qed.

  Lemma last_cons (l : list A) : forall a b, last (b :: l) a = last l b.
  Proof.
    induction l as [|c l IH]; intros a b; [reflexivity|].
    change (last (b :: c :: l) a) with (last (c :: l) a).
    rewrite (IH a c), (IH b c). reflexivity.
  Qed.

  Lemma chain_reach l : forall a, chain (a :: l) -> last l a = a \/ reach (last l a) a.
  Proof.
    induction l as [|b l IH]; intros a H.
    - left. reflexivity.
    - cbn in H. destruct H as [He Hc]. specialize (IH b Hc).
      rewrite last_cons. right. destruct IH as [IH|IH].
      + rewrite IH. apply reach_one. exact He.
      + eapply reach_snoc; eassumption.
  Qed.

  Lemma is_cycle_reach c : is_cycle c -> exists x, reach x x.
  Proof.
    destruct c as [|top l]; [intros []|]. intros [Hc He]. exists top.
    rewrite last_cons in He.
    destruct (chain_reach l top Hc) as [H|H].
    - rewrite H in He. apply reach_one. exact He.
    - eapply reach_step; eassumption.
  Qed.

  (* ---------------------------------------------------------------- completeness *)
  Fixpoint topo (l : list A) : Prop :=
    match l with
    | [] => True
    | x :: r => ~ In x r /\ (forall s, edge x s -> In s r) /\ topo r
    end.

  Lemma topo_closed l : topo l -> forall x s, In x l -> edge x s -> In s l.
  Proof.
    induction l as [|a l IH]; intros H x s Hx He; [destruct Hx|].
    destruct H as [_ [H2 H3]]. destruct Hx as [->|Hx].
    - right. apply H2. exact He.
    - right. eapply IH; eassumption.
  Qed.

  Lemma reach_closed l : topo l -> forall x y, reach x y -> In x l -> In y l.
  Proof.
    intros Ht x y H. induction H as [a b H|a b c H _ IH]; intro Hx.
    - eapply topo_closed; eassumption.
    - apply IH. eapply topo_closed; eassumption.
  Qed.

  Lemma topo_acyclic l : topo l -> forall x, In x l -> ~ reach x x.
  Proof.
    induction l as [|a l IH]; intros Ht x Hx Hr; [destruct Hx|].
    destruct Ht as [H1 [H2 H3]]. destruct Hx as [->|Hx].
    - apply H1. inversion Hr as [? ? He|? b ? He Hr']; subst.
      + apply H2. exact He.
      + eapply reach_closed; [exact H3 | exact Hr' | apply H2; exact He].
    - eapply IH; eassumption.
  Qed.

  Record Inv (p : list A) (st : dstate) : Prop := mkInv
    { inv_vis : forall a, In a (d_visited st) -> In a p \/ In a (d_done st);
      inv_path : forall a, In a p -> In a (d_visited st);
      inv_disj : forall a, In a p -> ~ In a (d_done st);
      inv_done : forall a, In a (d_done st) -> In a (d_visited st);
      inv_topo : topo (d_done st) }.

  Lemma app_nil_r_inv {B} (l r : list B) : l ++ r = [] -> r = [].
  Proof. intro H. apply app_eq_nil in H. tauto. Qed.

  Lemma loop_complete rec p :
    (forall y st st', rec y st = Some st' -> exists l, d_reports st' = l ++ d_reports st) ->
    (forall y st st', rec y st = Some st' -> d_reports st' = [] -> Inv p st ->
        ~ In y (d_visited st) ->
        Inv p st' /\ In y (d_done st') /\ incl (d_done st) (d_done st')) ->
    forall ys st st', loop rec p ys st = Some st' -> d_reports st' = [] -> Inv p st ->
      Inv p st' /\ incl (d_done st) (d_done st') /\ (forall s, In s ys -> In s (d_done st')).
  Proof.
    intros Hmono Hrec ys. induction ys as [|y ys IH]; intros st st' H Hr Hi; cbn [SchemaValidate.loop] in H.
    - inversion H; subst. split; [exact Hi|]. split; [apply incl_refl|]. intros s [].
    - unfold SchemaValidate.step in H.
      destruct (memA y p) eqn:E1.
      + exfalso. apply (loop_reports_mono rec p Hmono) in H. destruct H as [l H]. cbn in H.
        rewrite Hr in H. symmetry in H. apply app_nil_r_inv in H. discriminate.
      + destruct (memA y (d_visited st)) eqn:E2.
        * destruct (IH st st' H Hr Hi) as [H1 [H2 H3]]. split; [exact H1|]. split; [exact H2|].
          intros s [<-|Hs]; [|apply H3; exact Hs].
          apply H2. apply memA_In in E2. apply memA_false in E1.
          destruct (inv_vis p st Hi y E2); [contradiction | assumption].
        * destruct (rec y st) as [st1|] eqn:E; [|discriminate].
          assert (Hr1 : d_reports st1 = []).
          { apply (loop_reports_mono rec p Hmono) in H. destruct H as [l H].
            rewrite Hr in H. symmetry in H. apply app_nil_r_inv in H. exact H. }
          apply memA_false in E2.
          destruct (Hrec y st st1 E Hr1 Hi E2) as [Hi1 [Hy Hinc]].
          destruct (IH st1 st' H Hr Hi1) as [H1 [H2 H3]]. split; [exact H1|].
          split; [eapply incl_tran; eassumption|].
          intros s [<-|Hs]; [apply H2; exact Hy | apply H3; exact Hs].
  Qed.

  Lemma dfs_complete fuel : forall p x st st',
    dfs fuel p x st = Some st' -> d_reports st' = [] -> Inv p st -> ~ In x (d_visited st) ->
    Inv p st' /\ In x (d_done st') /\ incl (d_done st) (d_done st').
  Proof.
    induction fuel as [|f IHf]; intros p x st st' H Hr Hi Hx; cbn [SchemaValidate.dfs] in H; [discriminate|].
    destruct (loop (SchemaValidate.dfs A eqb succ f (x :: p)) (x :: p) (succ x) (mark A x st)) as [st1|] eqn:E;
      [|discriminate].
    inversion H; subst. cbn in Hr.
    assert (Hi0 : Inv (x :: p) (mark A x st)).
    { destruct Hi as [I1 I2 I3 I4 I5]. constructor; cbn.
      - intros a [<-|Ha]; [left; left; reflexivity|].
        destruct (I1 a Ha); [left; right; assumption | right; assumption].
      - intros a [<-|Ha]; [left; reflexivity | right; apply I2; exact Ha].
      - intros a [<-|Ha]; [|apply I3; exact Ha]. intro Hd. apply Hx. apply I4. exact Hd.
      - intros a Ha. right. apply I4. exact Ha.
      - exact I5. }
    destruct (loop_complete _ (x :: p)
                (fun y s s' => dfs_reports_mono f (x :: p) y s s')
                (fun y s s' => IHf (x :: p) y s s')
                (succ x) (mark A x st) st1 E Hr Hi0) as [Hi1 [Hinc Hs]].
    destruct Hi1 as [J1 J2 J3 J4 J5]. destruct Hi as [I1 I2 I3 I4 I5].
    split; [constructor; cbn|split; [cbn; left; reflexivity|]].
    - intros a Ha. destruct (J1 a Ha) as [[<-|Hp]|Hd]; [right; left; reflexivity | left; exact Hp | right; right; exact Hd].
    - intros a Ha. apply J2. right. exact Ha.
    - intros a Ha [<-|Hd].
      + apply Hx. apply I2. exact Ha.
      + apply (J3 a); [right; exact Ha | exact Hd].
    - intros a [<-|Ha]; [apply J2; left; reflexivity | apply J4; exact Ha].
    - split; [apply J3; left; reflexivity|]. split; [|exact J5].
      intros s He. apply Hs. exact He.
    - cbn. intros a Ha. right. apply Hinc. exact Ha.
  Qed.

  Lemma dfs_all_complete fuel : forall roots st st',
    dfs_all fuel roots st = Some st' -> d_reports st' = [] -> Inv [] st ->
    Inv [] st' /\ incl (d_done st) (d_done st') /\ (forall r, In r roots -> In r (d_done st')).
  Proof.
    induction roots as [|r roots IH]; intros st st' H Hr Hi; cbn [SchemaValidate.dfs_all] in H.
    - inversion H; subst. split; [exact Hi|]. split; [apply incl_refl|]. intros r [].
    - destruct (memA r (d_visited st)) eqn:E.
      + destruct (IH st st' H Hr Hi) as [H1 [H2 H3]]. split; [exact H1|]. split; [exact H2|].
        intros s [<-|Hs]; [|apply H3; exact Hs]. apply H2. apply memA_In in E.
        destruct (inv_vis [] st Hi r E) as [[]|Hd]. exact Hd.
      + destruct (dfs fuel [] r st) as [st1|] eqn:E1; [|discriminate].
        assert (Hr1 : d_reports st1 = []).
        { apply dfs_all_reports_mono in H. destruct H as [l H]. rewrite Hr in H.
          symmetry in H. apply app_nil_r_inv in H. exact H. }
        apply memA_false in E.
        destruct (dfs_complete fuel [] r st st1 E1 Hr1 Hi E) as [Hi1 [Hy Hinc]].
        destruct (IH st1 st' H Hr Hi1) as [H1 [H2 H3]]. split; [exact H1|].
        split; [eapply incl_tran; eassumption|].
        intros s [<-|Hs]; [apply H2; exact Hy | apply H3; exact Hs].
  Qed.

  Lemma Inv0 : Inv [] dstate0.
  Proof. constructor; cbn; try tauto. Qed.

  (* if every node with a successor is a root and nothing is reported, the graph is acyclic *)
  Theorem dfs_all_complete_acyclic fuel roots st :
    (forall x s, edge x s -> In x roots) ->
    dfs_all fuel roots dstate0 = Some st -> d_reports st = [] ->
    forall x, ~ reach x x.
  Proof.
    intros Hroots H Hr x Hx.
    destruct (dfs_all_complete fuel roots dstate0 st H Hr Inv0) as [Hi [_ Hd]].
    assert (Hin : In x roots).
    { inversion Hx as [? ? He|? b ? He _]; subst; eapply Hroots; exact He. }
    eapply topo_acyclic; [exact (inv_topo [] st Hi) | apply Hd; exact Hin | exact Hx].
  Qed.

  Theorem dfs_all_sound_reach fuel roots st :
    dfs_all fuel roots dstate0 = Some st -> d_reports st <> [] -> exists x, reach x x.
  Proof.
    intros H Hr. pose proof (dfs_all_sound fuel roots dstate0 st (Forall_nil _) H) as Hf.
    destruct (d_reports st) as [|c l]; [congruence|]. inversion Hf; subst.
    eapply is_cycle_reach; eassumption.
  Qed.
End DFSProps.

Arguments edge {A}.
Arguments reach {A}.
Arguments is_cycle {A}.

(* ================================================================== the two detectors *)

Lemma lookup_in_In ts n d : lookup_in ts n = Some d -> In (n, d) ts.
Proof.
  induction ts as [|[m e] ts IH]; cbn [lookup_in]; [discriminate|].
  destruct (n =? m) eqn:E.
  - intro H. inversion H; subst. apply N.eqb_eq in E. subst. left. reflexivity.
  - intro H. right. apply IH. exact H.
Qed.

Definition type_names (rs : raw_schema) : list N := map fst (s_types rs).

Lemma input_fields_nonempty_name rs n f :
  In f (input_fields_of rs n) -> In n (input_object_names rs).
Proof.
  unfold input_fields_of, lookup. destruct (lookup_in (s_types rs) n) as [d|] eqn:E; [|intros []].
  destruct d; try (intros []). intros _. apply lookup_in_In in E.
  unfold input_object_names. apply in_flat_map. eexists. split; [exact E|]. cbn. left. reflexivity.
Qed.

Lemma is_input_object_name rs n : is_input_object rs n = true -> In n (input_object_names rs).
Proof.
  unfold is_input_object, lookup. destruct (lookup_in (s_types rs) n) as [d|] eqn:E; [|discriminate].
  destruct d; try discriminate. intros _. apply lookup_in_In in E.
  unfold input_object_names. apply in_flat_map. eexists. split; [exact E|]. cbn. left. reflexivity.
Qed.

Lemma input_object_names_incl rs : incl (input_object_names rs) (type_names rs).
Proof.
  intros n H. unfold input_object_names in H. apply in_flat_map in H.
  destruct H as [[m d] [H1 H2]]. destruct d; cbn in H2; try contradiction.
  destruct H2 as [<-|[]]. unfold type_names. apply in_map_iff. eexists. split; [|exact H1]. reflexivity.
Qed.

Lemma nn_succ_spec rs n m :
  In m (nn_succ rs n) <->
  exists f, In f (input_fields_of rs n) /\ iv_type f = TNonNull (TNamed m) /\ is_input_object rs m = true.
Proof.
  unfold nn_succ. rewrite in_flat_map. split.
  - intros [f [H1 H2]]. exists f. split; [exact H1|]. unfold nn_target in H2.
    destruct (iv_type f) as [|?|t]; try contradiction. destruct t as [k| |]; try contradiction.
    destruct (is_input_object rs k) eqn:E; [|contradiction]. destruct H2 as [<-|[]]. auto.
  - intros [f [H1 [H2 H3]]]. exists f. split; [exact H1|]. unfold nn_target. rewrite H2, H3. left. reflexivity.
Qed.

Lemma nn_closed rs a : In a (type_names rs) -> incl (nn_succ rs a) (type_names rs).
Proof.
  intros _ m H. apply nn_succ_spec in H. destruct H as [f [_ [_ H]]].
  apply input_object_names_incl. apply is_input_object_name. exact H.
Qed.

Theorem nn_detect_terminates rs : exists st, nn_detect rs = Some st.
Proof.
  unfold nn_detect.
  destruct (dfs_all_fuel_suffices N N.eqb N.eqb_eq (nn_succ rs) (type_names rs) (nn_closed rs)
              (input_object_names rs) (input_object_names_incl rs)) as [st H].
  unfold type_names in H. rewrite map_length in H. exists st. exact H.
Qed.

Theorem nn_detect_sound rs st :
  nn_detect rs = Some st -> Forall (is_cycle (nn_succ rs)) (d_reports st).
Proof. unfold nn_detect. apply dfs_all_sound; [exact N.eqb_eq | constructor]. Qed.

Lemma nn_roots rs x s : edge (nn_succ rs) x s -> In x (input_object_names rs).
Proof.
  unfold edge. intro H. apply nn_succ_spec in H. destruct H as [f [H _]].
  eapply input_fields_nonempty_name. exact H.
Qed.

Theorem nn_detect_complete rs st :
  nn_detect rs = Some st -> d_reports st = [] -> forall n, ~ reach (nn_succ rs) n n.
Proof.
  unfold nn_detect. intros H Hr.
  eapply dfs_all_complete_acyclic; [exact N.eqb_eq | exact (nn_roots rs) | exact H | exact Hr].
Qed.

(* --- default value cycles *)

Section LitInd.
  Variable P : lit -> Prop.
  Hypothesis Hnull : P LNull.
  Hypothesis Hint : forall b m, P (LInt b m).
  Hypothesis Hfloat : P LFloat.
  Hypothesis Hstr : P LStr.
  Hypothesis Hbool : forall b, P (LBool b).
  Hypothesis Henum : forall n, P (LEnum n).
  Hypothesis Hlist : forall vs, Forall P vs -> P (LList vs).
  Hypothesis Hobj : forall kvs, Forall (fun kv => P (snd kv)) kvs -> P (LObj kvs).

  Fixpoint lit_ind' (v : lit) : P v :=
    match v with
    | LNull => Hnull
    | LInt b m => Hint b m
    | LFloat => Hfloat
    | LStr => Hstr
    | LBool b => Hbool b
    | LEnum n => Henum n
    | LList vs =>
        Hlist vs ((fix go (l : list lit) : Forall P l :=
                     match l with
                     | [] => Forall_nil _
                     | x :: l' => Forall_cons x (lit_ind' x) (go l')
                     end) vs)
    | LObj kvs =>
        Hobj kvs ((fix go (l : list (N * lit)) : Forall (fun kv => P (snd kv)) l :=
                     match l with
                     | [] => Forall_nil _
                     | kv :: l' => Forall_cons kv (lit_ind' (snd kv)) (go l')
                     end) kvs)
    end.
End LitInd.

Lemma fnode_eqb_spec a b : fnode_eqb a b = true <-> a = b.
Proof.
  destruct a as [a1 a2], b as [b1 b2]. unfold fnode_eqb. cbn.
  rewrite andb_true_iff, !N.eqb_eq. split; [intros [-> ->]; reflexivity | intro H; inversion H; auto].
Qed.

Lemma input_field_node rs ty f :
  In f (input_fields_of rs ty) -> In (ty, iv_name f) (all_input_fields rs).
Proof.
  intro H. unfold all_input_fields. apply in_flat_map. exists ty. split.
  - eapply input_fields_nonempty_name. exact H.
  - apply in_map_iff. exists f. auto.
Qed.

Lemma dv_walk_in rs v : forall ty nd, In nd (dv_walk rs v ty) -> In nd (all_input_fields rs).
Proof.
  induction v as [ | b m | | | b | n | vs IHF | kvs IHF] using lit_ind'; intros ty nd H;
    try (cbn in H; contradiction).
  - (* list *)
    cbn [dv_walk] in H. induction vs as [|x vs IHvs]; [destruct H|].
    inversion IHF as [|? ? Hx Hvs]; subst. apply in_app_or in H. destruct H as [H|H].
    + eapply Hx. exact H.
    + apply IHvs; assumption.
  - (* object *)
    cbn [dv_walk] in H. apply in_app_or in H. destruct H as [H|H].
    + clear - H IHF. induction kvs as [|[k x] kvs IHk]; [destruct H|].
      inversion IHF as [|? ? Hx Hvs]; subst. apply in_app_or in H. destruct H as [H|H].
      * destruct (find_inval k (input_fields_of rs ty)) as [f|]; [|destruct H].
        destruct (is_input_object rs (named_of (iv_type f))); [|destruct H].
        cbn in Hx. eapply Hx. exact H.
      * apply IHk; assumption.
    + apply in_flat_map in H. destruct H as [f [Hf H]].
      destruct (is_input_object rs (named_of (iv_type f)) && negb (memN (iv_name f) (keys kvs))
                && match lit_default f with Some _ => true | None => false end); [|destruct H].
      destruct H as [<-|[]]. apply input_field_node. exact Hf.
Qed.

Lemma dv_succ_in rs nd : incl (dv_succ rs nd) (all_input_fields rs).
Proof.
  intros x H. unfold dv_succ in H.
  destruct (find_inval (snd nd) (input_fields_of rs (fst nd))) as [f|]; [|destruct H].
  destruct (lit_default f) as [v|]; [|destruct H].
  destruct (is_input_object rs (named_of (iv_type f))); [|destruct H].
  eapply dv_walk_in. exact H.
Qed.

Lemma dv_roots_incl rs : incl (dv_roots rs) (all_input_fields rs).
Proof.
  intros x H. unfold dv_roots in H. apply in_flat_map in H. destruct H as [n [_ H]].
  eapply dv_walk_in. exact H.
Qed.

Theorem dv_detect_terminates rs : exists st, dv_detect rs = Some st.
Proof.
  unfold dv_detect.
  apply (dfs_all_fuel_suffices fnode fnode_eqb fnode_eqb_spec (dv_succ rs) (all_input_fields rs)
           (fun a _ => dv_succ_in rs a) (dv_roots rs) (dv_roots_incl rs)).
Qed.

Theorem dv_detect_sound rs st :
  dv_detect rs = Some st -> Forall (is_cycle (dv_succ rs)) (d_reports st).
Proof. unfold dv_detect. apply dfs_all_sound; [exact fnode_eqb_spec | constructor]. Qed.

Lemma find_inval_In n l f : find_inval n l = Some f -> In f l /\ iv_name f = n.
Proof.
  induction l as [|a l IH]; cbn [find_inval]; [discriminate|].
  destruct (n =? iv_name a) eqn:E.
  - intro H. inversion H; subst. apply N.eqb_eq in E. split; [left; reflexivity | auto].
  - intro H. destruct (IH H). split; [right|]; assumption.
Qed.

Lemma dv_roots_cover rs x s : edge (dv_succ rs) x s -> In x (dv_roots rs).
Proof.
  unfold edge, dv_succ. destruct x as [ty g]. cbn [fst snd].
  destruct (find_inval g (input_fields_of rs ty)) as [f|] eqn:Ef; [|intros []].
  destruct (lit_default f) as [v|] eqn:Ed; [|intros []].
  destruct (is_input_object rs (named_of (iv_type f))) eqn:Ei; [|intros []].
  intros _. apply find_inval_In in Ef. destruct Ef as [Hf Hn].
  unfold dv_roots. apply in_flat_map. exists ty. split.
  - eapply input_fields_nonempty_name. exact Hf.
  - cbn [dv_walk]. cbn [app]. apply in_flat_map. exists f. split; [exact Hf|].
    rewrite Ei, Ed. cbn. left. rewrite Hn. reflexivity.
Qed.

Theorem dv_detect_complete rs st :
  dv_detect rs = Some st -> d_reports st = [] -> forall nd, ~ reach (dv_succ rs) nd nd.
Proof.
  unfold dv_detect. intros H Hr.
  eapply dfs_all_complete_acyclic; [exact fnode_eqb_spec | exact (dv_roots_cover rs) | exact H | exact Hr].
Qed.

(* ================================================================== no assert site is reached *)

Lemma lmax_assert a b : lmax a b = RAssert <-> a = RAssert \/ b = RAssert.
Proof. destruct a, b; cbn; split; intro H; try discriminate; auto; destruct H; discriminate. Qed.

Lemma ofb_assert b : ofb b <> RAssert.
Proof. destruct b; discriminate. Qed.

Lemma is_input_named_cases rs n :
  is_input_named rs n = true ->
  (exists s, lookup rs n = Some (DScalar s)) \/ (exists vs, lookup rs n = Some (DEnum vs))
  \/ (exists o fs, lookup rs n = Some (DInput o fs)).
Proof.
  unfold is_input_named. destruct (lookup rs n) as [d|]; [|discriminate].
  destruct d; try discriminate; intros _; eauto.
Qed.

(* validate_input_literal's assert_leaf_type is never reached from a declared input type *)
Lemma lit_check_no_assert rs v : forall t, is_input_tref rs t = true -> lit_check rs v t <> RAssert.
Proof.
  induction v as [ | b m | | | b | e | vs IHF | kvs IHF] using lit_ind'; intro t;
    induction t as [n|t IHt|t IHt]; intro Hin; cbn [is_input_tref] in Hin;
    try (cbn; discriminate); try (cbn; apply IHt; exact Hin);
    try (cbn; destruct (is_input_named_cases rs n Hin) as [[s H]|[[ws H]|[o [fs H]]]]; rewrite H;
         try discriminate; apply ofb_assert).
  - (* list literal at a list type *)
    cbn. clear IHt. induction vs as [|x vs IHvs]; [discriminate|].
    inversion IHF as [|? ? Hx Hvs]; subst. intro H. apply lmax_assert in H. destruct H as [H|H].
    + exact (Hx t Hin H).
    + exact (IHvs Hvs H).
  - (* object literal at a named type *)
    cbn. destruct (is_input_named_cases rs n Hin) as [[s H]|[[ws H]|[o [fs H]]]]; rewrite H;
      try discriminate; try apply ofb_assert.
    intro Hm. apply lmax_assert in Hm. destruct Hm as [Hm|Hm].
    + clear H Hin. induction kvs as [|[k x] kvs IHk]; [discriminate|].
      inversion IHF as [|? ? Hx Hvs]; subst. apply lmax_assert in Hm. destruct Hm as [Hm|Hm].
      * destruct (find_inval k fs) as [f|]; [|discriminate].
        destruct (is_input_tref rs (iv_type f)) eqn:E; [|discriminate].
        exact (Hx (iv_type f) E Hm).
      * exact (IHk Hvs Hm).
    + apply lmax_assert in Hm. destruct Hm as [Hm|Hm]; exact (ofb_assert _ Hm).
Qed.

Definition nokind (k : rule_kind) (l : list rule_kind) : Prop := ~ In k l.

Lemma nokind_app k a b : nokind k a -> nokind k b -> nokind k (a ++ b).
Proof. unfold nokind. intros Ha Hb H. apply in_app_or in H. tauto. Qed.

Lemma nokind_flat_map {B} k (f : B -> list rule_kind) l :
  (forall x, nokind k (f x)) -> nokind k (flat_map f l).
Proof. unfold nokind. intros Hf H. apply in_flat_map in H. destruct H as [x [_ H]]. exact (Hf x H). Qed.

Lemma nokind_chk k b k' : k <> k' -> nokind k (chk b k').
Proof. unfold nokind, chk. intros Hk H. destruct b; [destruct H|]. destruct H as [H|[]]. congruence. Qed.

Lemma nokind_nil k : nokind k [].
Proof. intros []. Qed.

Lemma nokind_cons k k' l : k <> k' -> nokind k l -> nokind k (k' :: l).
Proof. unfold nokind. intros Hk Hl [H|H]; [congruence | tauto]. Qed.

Ltac nk :=
  repeat first
    [ apply nokind_nil
    | apply nokind_app
    | apply nokind_chk; discriminate
    | apply nokind_cons; [discriminate|]
    | apply nokind_flat_map; intro ].

(* pseudo kinds and the two cycle kinds: never emitted by the per-position rules *)
Definition special (k : rule_kind) : Prop :=
  k = KCrash \/ k = KOutOfFuel \/ k = KNonNullCycle \/ k = KDefaultCycle.

Lemma default_check_no_crash rs t d : nokind KCrash (default_check rs t d).
Proof.
  unfold default_check. destruct d as [| |v]; nk.
  destruct (is_input_tref rs t) eqn:E; [|nk].
  pose proof (lit_check_no_assert rs v t E). destruct (lit_check rs v t); nk. congruence.
Qed.

Lemma default_check_no_fuel rs t d : nokind KOutOfFuel (default_check rs t d).
Proof.
  unfold default_check. destruct d as [| |v]; nk.
  destruct (is_input_tref rs t); [|nk]. destruct (lit_check rs v t); nk.
Qed.

Lemma default_check_no_cycle rs t d k :
  k = KNonNullCycle \/ k = KDefaultCycle -> nokind k (default_check rs t d).
Proof.
  intro Hk. unfold default_check. destruct d as [| |v]; try apply nokind_nil.
  destruct (is_input_tref rs t); [destruct (lit_check rs v t)|]; destruct Hk as [-> | ->]; nk.
Qed.

Lemma validate_inval_nokind rs iv k : special k -> nokind k (validate_inval rs iv).
Proof.
  intros [-> | [-> | [-> | ->]]]; unfold validate_inval, name_ok; nk;
    [apply default_check_no_crash | apply default_check_no_fuel
     | apply default_check_no_cycle; auto | apply default_check_no_cycle; auto].
Qed.

Lemma validate_ifaces_nokind rs self sf si k : special k ->
  forall l seen, nokind k (validate_ifaces rs self sf si seen l).
Proof.
  intros Hk l. induction l as [|i l IH]; intro seen; cbn [validate_ifaces]; [apply nokind_nil|].
  assert (Himpl : nokind k (validate_implements rs sf i)).
  { unfold validate_implements. apply nokind_flat_map. intro f. unfold implements_field.
    destruct (find_field (f_name f) sf); destruct Hk as [-> | [-> | [-> | ->]]]; nk;
      try (unfold implements_arg; destruct (find_inval (iv_name x) (f_args f0)); nk);
      try (unfold extra_arg; nk). }
  assert (Hanc : nokind k (validate_ancestors rs si i)).
  { unfold validate_ancestors. destruct Hk as [-> | [-> | [-> | ->]]]; nk. }
  destruct (negb (is_interface rs i)).
  - destruct Hk as [-> | [-> | [-> | ->]]]; (apply nokind_cons; [discriminate | apply IH]).
  - apply nokind_app; [destruct Hk as [-> | [-> | [-> | ->]]]; nk|].
    destruct (memN i seen).
    + destruct Hk as [-> | [-> | [-> | ->]]]; (apply nokind_cons; [discriminate | apply IH]).
    + apply nokind_app; [exact Hanc|]. apply nokind_app; [exact Himpl | apply IH].
Qed.

Lemma validate_members_nokind rs k : special k ->
  forall l seen, nokind k (validate_members rs seen l).
Proof.
  intros Hk l. induction l as [|m l IH]; intro seen; cbn [validate_members]; [apply nokind_nil|].
  destruct (is_object rs m); [destruct (memN m seen)|];
    try apply IH; destruct Hk as [-> | [-> | [-> | ->]]]; (apply nokind_cons; [discriminate | apply IH]).
Qed.

Lemma validate_type_nokind rs nd k : special k -> nokind k (validate_type rs nd).
Proof.
  intro Hk. destruct nd as [n d]. unfold validate_type. cbn [fst snd].
  assert (Hn : nokind k (name_ok n)) by (unfold name_ok; destruct Hk as [-> | [-> | [-> | ->]]]; nk).
  assert (Hfs : forall fs, nokind k (validate_fields rs fs)).
  { intro fs. unfold validate_fields, validate_field, name_ok.
    apply nokind_app; [destruct Hk as [-> | [-> | [-> | ->]]]; nk|]. apply nokind_flat_map. intro f.
    apply nokind_app; [destruct Hk as [-> | [-> | [-> | ->]]]; nk|].
    apply nokind_app; [destruct Hk as [-> | [-> | [-> | ->]]]; nk|]. apply nokind_flat_map. intro a.
    apply validate_inval_nokind. exact Hk. }
  destruct d as [s|fs ifs|fs ifs|ms|vs|o fs|]; cbn [validate_type_body];
    try (apply nokind_app; [exact Hn|]).
  - apply nokind_nil.
  - apply nokind_app; [apply Hfs | apply validate_ifaces_nokind; exact Hk].
  - apply nokind_app; [apply Hfs | apply validate_ifaces_nokind; exact Hk].
  - apply nokind_app; [destruct Hk as [-> | [-> | [-> | ->]]]; nk | apply validate_members_nokind; exact Hk].
  - unfold name_ok. destruct Hk as [-> | [-> | [-> | ->]]]; nk.
  - apply nokind_app; [destruct Hk as [-> | [-> | [-> | ->]]]; nk|]. apply nokind_flat_map. intro a.
    unfold validate_input_field. apply nokind_app; [apply validate_inval_nokind; exact Hk|].
    destruct o; destruct Hk as [-> | [-> | [-> | ->]]]; nk.
  - destruct Hk as [-> | [-> | [-> | ->]]]; nk.
Qed.

Lemma cycle_reports_nokind {B} k0 (o : option (dstate B)) k :
  (exists st, o = Some st) -> k <> k0 -> nokind k (cycle_reports k0 o).
Proof.
  intros [st ->] Hk. unfold cycle_reports, nokind. intro H. apply in_map_iff in H.
  destruct H as [_ [H _]]. congruence.
Qed.

Lemma validate_parts_nokind rs k : special k ->
  nokind k (validate_roots rs) /\ nokind k (flat_map (validate_directive rs) (s_dirs rs))
  /\ nokind k (flat_map (validate_type rs) (s_types rs)).
Proof.
  intro Hk. split; [|split].
  - unfold validate_roots, root_check.
    destruct (s_query rs), (s_mutation rs), (s_subscription rs); destruct Hk as [-> | [-> | [-> | ->]]]; nk.
  - apply nokind_flat_map. intro d. unfold validate_directive, name_ok.
    destruct (d_isdir d); [|destruct Hk as [-> | [-> | [-> | ->]]]; nk].
    apply nokind_app; [destruct Hk as [-> | [-> | [-> | ->]]]; nk|].
    apply nokind_app; [destruct Hk as [-> | [-> | [-> | ->]]]; nk|].
    apply nokind_flat_map. intro a. apply validate_inval_nokind. exact Hk.
  - apply nokind_flat_map. intro nd. apply validate_type_nokind. exact Hk.
Qed.

Theorem validate_never_crashes rs : ~ In KCrash (validate rs) /\ ~ In KOutOfFuel (validate rs).
Proof.
  assert (H : forall k, (k = KCrash \/ k = KOutOfFuel) -> nokind k (validate rs)).
  { intros k Hk. assert (Hs : special k) by (unfold special; tauto).
    destruct (validate_parts_nokind rs k Hs) as [H1 [H2 H3]]. unfold validate.
    apply nokind_app; [exact H1|]. apply nokind_app; [exact H2|]. apply nokind_app; [exact H3|].
    apply nokind_app; apply cycle_reports_nokind;
      try apply nn_detect_terminates; try apply dv_detect_terminates;
      destruct Hk as [-> | ->]; discriminate. }
  split; apply H; auto.
Qed.

(* ================================================================== validate = [] <-> ValidSchema *)


(* declarative covariance: the specification's "valid subtype" relation *)
Definition PossibleType (rs : raw_schema) (p b : N) : Prop :=
  (exists ms, lookup rs p = Some (DUnion ms) /\ In b ms)
  \/ (is_interface rs p = true /\ In p (ifaces_of rs b)).

Inductive Subtype (rs : raw_schema) : tref -> tref -> Prop :=
| ST_same n : Subtype rs (TNamed n) (TNamed n)
| ST_possible b p :
    (is_interface rs b = true \/ is_object rs b = true) -> PossibleType rs p b ->
    Subtype rs (TNamed b) (TNamed p)
| ST_nonnull a b : Subtype rs a b -> Subtype rs (TNonNull a) (TNonNull b)
| ST_nonnull_of_nullable a b : is_nonnull b = false -> Subtype rs a b -> Subtype rs (TNonNull a) b
| ST_list a b : Subtype rs a b -> Subtype rs (TList a) (TList b).


(* declarative "value is valid for type" (input coercion rules of the specification) *)
Inductive LitValid (rs : raw_schema) : lit -> tref -> Prop :=
| LV_nonnull v t : v <> LNull -> LitValid rs v t -> LitValid rs v (TNonNull t)
| LV_null_list t : LitValid rs LNull (TList t)
| LV_null_named n : LitValid rs LNull (TNamed n)
| LV_list vs t : Forall (fun x => LitValid rs x t) vs -> LitValid rs (LList vs) (TList t)
| LV_item v t : v <> LNull -> (forall vs, v <> LList vs) -> LitValid rs v t -> LitValid rs v (TList t)
| LV_scalar v n s :
    v <> LNull -> lookup rs n = Some (DScalar s) -> scalar_accepts s v = true ->
    LitValid rs v (TNamed n)
| LV_enum e n vals : lookup rs n = Some (DEnum vals) -> In e vals -> LitValid rs (LEnum e) (TNamed n)
| LV_object kvs n oneof fs :
    lookup rs n = Some (DInput oneof fs) ->
    (forall k x, In (k, x) kvs ->
       exists f, find_inval k fs = Some f /\ is_input_tref rs (iv_type f) = true
                 /\ LitValid rs x (iv_type f)) ->
    (forall f, In f fs -> required f = true -> In (iv_name f) (keys kvs)) ->
    (oneof = true -> exists k x, kvs = [(k, x)] /\ x <> LNull) ->
    LitValid rs (LObj kvs) (TNamed n).

Definition roots_list (rs : raw_schema) : list N :=
  opt_list (s_query rs) ++ opt_list (s_mutation rs) ++ opt_list (s_subscription rs).

Definition RootsOK (rs : raw_schema) : Prop :=
  (exists q, s_query rs = Some q)
  /\ (forall n, In n (roots_list rs) -> is_object rs n = true)
  /\ NoDup (roots_list rs).

Definition DefaultOK (rs : raw_schema) (t : tref) (d : dflt) : Prop :=
  match d with DLit v => LitValid rs v t | _ => True end.

Definition InvalOK (rs : raw_schema) (iv : inval) : Prop :=
  reserved (iv_name iv) = false
  /\ is_input_tref rs (iv_type iv) = true
  /\ ~ (required iv = true /\ iv_dep iv = true)
  /\ DefaultOK rs (iv_type iv) (iv_default iv).

Definition DirectiveOK (rs : raw_schema) (d : directive) : Prop :=
  d_isdir d = true /\ reserved (d_name d) = false /\ d_haslocs d = true /\ Forall (InvalOK rs) (d_args d).

Definition FieldOK (rs : raw_schema) (f : field) : Prop :=
  reserved (f_name f) = false /\ is_output_tref rs (f_type f) = true /\ Forall (InvalOK rs) (f_args f).

Definition ArgOK (tf : field) (ia : inval) : Prop :=
  exists ta, find_inval (iv_name ia) (f_args tf) = Some ta /\ iv_type ia = iv_type ta.

Definition ExtraOK (ifld : field) (ta : inval) : Prop :=
  find_inval (iv_name ta) (f_args ifld) = None -> required ta = false.

Definition FieldImpl (rs : raw_schema) (tfields : list field) (ifld : field) : Prop :=
  exists tf, find_field (f_name ifld) tfields = Some tf
    /\ Subtype rs (f_type tf) (f_type ifld)
    /\ Forall (ArgOK tf) (f_args ifld)
    /\ Forall (ExtraOK ifld) (f_args tf)
    /\ (f_dep tf = true -> f_dep ifld = true).

Definition IfaceOK (rs : raw_schema) (self : N) (sfields : list field) (sifaces : list N) (i : N) : Prop :=
  is_interface rs i = true /\ i <> self /\ incl (ifaces_of rs i) sifaces
  /\ Forall (FieldImpl rs sfields) (fields_of rs i).

Definition OneOfOK (iv : inval) : Prop := is_nonnull (iv_type iv) = false /\ iv_default iv = DNone.

Definition TypeOK (rs : raw_schema) (nd : N * tdef) : Prop :=
  reserved (fst nd) = false /\
  match snd nd with
  | DBogus => False
  | DScalar _ => True
  | DObject fs ifs | DInterface fs ifs =>
      fs <> [] /\ Forall (FieldOK rs) fs /\ NoDup ifs /\ Forall (IfaceOK rs (fst nd) fs ifs) ifs
  | DUnion ms => ms <> [] /\ NoDup ms /\ Forall (fun m => is_object rs m = true) ms
  | DEnum vs => vs <> [] /\ Forall (fun v => reserved v = false) vs
  | DInput oneof fs =>
      fs <> [] /\ Forall (InvalOK rs) fs /\ (oneof = true -> Forall OneOfOK fs)
  end.

Record ValidSchema (rs : raw_schema) : Prop := mkValid
  { vs_roots : RootsOK rs;
    vs_dirs : Forall (DirectiveOK rs) (s_dirs rs);
    vs_types : Forall (TypeOK rs) (s_types rs);
    vs_nn_acyclic : forall n, ~ reach (nn_succ rs) n n;
    vs_dv_acyclic : forall nd, ~ reach (dv_succ rs) nd nd }.

Lemma chk_nil b k : chk b k = [] <-> b = true.
Proof. destruct b; cbn; split; intro H; congruence. Qed.

Lemma app_nil_iff {B} (a b : list B) : a ++ b = [] <-> a = [] /\ b = [].
Proof. split; [apply app_eq_nil | intros [-> ->]; reflexivity]. Qed.

Lemma flat_map_nil {B C} (f : B -> list C) l : flat_map f l = [] <-> Forall (fun x => f x = []) l.
Proof.
  induction l as [|x l IH]; cbn; [split; auto|].
  rewrite app_nil_iff, IH. split; [intros [H1 H2]; constructor; auto | intro H; inversion H; auto].
Qed.

Lemma Forall_iff {B} (P Q : B -> Prop) l : (forall x, P x <-> Q x) -> Forall P l <-> Forall Q l.
Proof. intro H. split; apply Forall_impl; intro x; apply H. Qed.

Lemma memN_In x l : memN x l = true <-> In x l.
Proof.
  induction l as [|y l IH]; cbn; [split; [discriminate | tauto]|].
  rewrite orb_true_iff, IH, N.eqb_eq. split; intros [H|H]; auto.
Qed.

Lemma nodupN_NoDup l : nodupN l = true <-> NoDup l.
Proof.
  induction l as [|x l IH]; cbn; [split; [constructor | reflexivity]|].
  rewrite andb_true_iff, negb_true_iff, IH. split.
  - intros [H1 H2]. constructor; [|exact H2]. rewrite <- memN_In. congruence.
  - intro H. inversion H; subst. split; [|assumption].
    destruct (memN x l) eqn:E; [|reflexivity]. apply memN_In in E. contradiction.
Qed.

Lemma filter_all {B} (f : B -> bool) l : (forall x, In x l -> f x = true) -> filter f l = l.
Proof.
  induction l as [|x l IH]; intro H; cbn; [reflexivity|].
  rewrite (H x (or_introl eq_refl)). f_equal. apply IH. intros y Hy. apply H. right. exact Hy.
Qed.

Lemma is_nil_false {B} (l : list B) : negb (is_nil l) = true <-> l <> [].
Proof. destruct l; cbn; split; intro H; congruence. Qed.

Lemma tref_eqb_eq a : forall b, tref_eqb a b = true <-> a = b.
Proof.
  induction a as [n|a IH|a IH]; intros [m|b|b]; cbn; try (split; intro H; discriminate).
  - rewrite N.eqb_eq. split; intro H; [subst; reflexivity | inversion H; reflexivity].
  - rewrite IH. split; intro H; [subst; reflexivity | inversion H; reflexivity].
  - rewrite IH. split; intro H; [subst; reflexivity | inversion H; reflexivity].
Qed.

(* --- the declarative relations agree with the executable checks *)
Lemma is_sub_named_possible rs p b :
  ((is_interface rs p || is_union rs p) && is_sub_named rs p b) = true <-> PossibleType rs p b.
Proof.
  unfold PossibleType, is_sub_named, is_interface, is_union.
  destruct (lookup rs p) as [d|]; [destruct d|]; cbn; rewrite ?memN_In; split;
    try (intro H; discriminate); try (intros [[ms [H _]]|[H _]]; discriminate).
  - intro H. right. auto.
  - intros [[ms [H _]]|[_ H]]; [discriminate | exact H].
  - intro H. left. eauto.
  - intros [[ms' [H H']]|[H _]]; [inversion H; subst; exact H' | discriminate].
Qed.

Lemma subtype_reflect rs : forall sub sup, subtype rs sub sup = true <-> Subtype rs sub sup.
Proof.
  induction sub as [b|sb IH|sb IH]; intros sup.
  - destruct sup as [p|sp|sp]; cbn [subtype].
    + rewrite orb_true_iff, N.eqb_eq. split.
      * intros [->|H]; [constructor|].
        rewrite <- andb_assoc, (andb_comm (is_interface rs b || is_object rs b)), andb_assoc in H.
        apply andb_true_iff in H. destruct H as [H1 H2]. apply is_sub_named_possible in H1.
        apply orb_true_iff in H2. apply ST_possible; assumption.
      * intro H. inversion H; subst; [left; reflexivity|]. right.
        rewrite <- andb_assoc, (andb_comm (is_interface rs b || is_object rs b)), andb_assoc.
        apply andb_true_iff. split; [apply is_sub_named_possible; assumption | apply orb_true_iff; assumption].
    + split; [discriminate | intro H; inversion H].
    + split; [discriminate | intro H; inversion H].
  - destruct sup as [p|sp|sp]; cbn [subtype].
    + split; [discriminate | intro H; inversion H].
    + rewrite IH. split; [apply ST_list | intro H; inversion H; subst; assumption].
    + split; [discriminate | intro H; inversion H].
  - destruct sup as [p|sp|sp]; cbn [subtype].
    + rewrite IH. split; [apply ST_nonnull_of_nullable; reflexivity | intro H; inversion H; subst; assumption].
    + rewrite IH. split; [apply ST_nonnull_of_nullable; reflexivity | intro H; inversion H; subst; assumption].
    + rewrite IH. split; [apply ST_nonnull|]. intro H. inversion H; subst; [assumption | discriminate].
Qed.

Lemma lmax_valid a b : lmax a b = RValid <-> a = RValid /\ b = RValid.
Proof. destruct a, b; cbn; split; intro H; try discriminate; auto; destruct H; discriminate. Qed.

Lemma ofb_valid b : ofb b = RValid <-> b = true.
Proof. destruct b; cbn; split; intro H; congruence. Qed.

Ltac inv H := inversion H; subst; clear H.

Lemma each_list_valid rs t vs :
  Forall (fun x => lit_check rs x t = RValid <-> LitValid rs x t) vs ->
  ((fix each (l : list lit) : lres :=
      match l with [] => RValid | x :: l' => lmax (lit_check rs x t) (each l') end) vs = RValid
   <-> Forall (fun x => LitValid rs x t) vs).
Proof.
  induction vs as [|x vs IH]; intro HF.
  - split; [constructor | reflexivity].
  - inv HF. rewrite lmax_valid, H1, (IH H2). split; [intros [A B]; constructor; auto | intro H; inv H; auto].
Qed.

Lemma oneof_ok_spec fs kvs :
  (forall k x, In (k, x) kvs -> exists f, find_inval k fs = Some f) ->
  (oneof_ok fs kvs = true <-> exists k x, kvs = [(k, x)] /\ x <> LNull).
Proof.
  intro Hk. unfold oneof_ok.
  assert (E : filter (fun kv => match find_inval (fst kv) fs with Some _ => true | None => false end) kvs = kvs).
  { apply filter_all. intros [k x] Hin. cbn. destruct (Hk k x Hin) as [f ->]. reflexivity. }
  rewrite E. destruct kvs as [|[k x] [|kv kvs]].
  - split; [discriminate | intros [k [x [H _]]]; discriminate].
  - rewrite negb_true_iff. split.
    + intro H. exists k, x. split; [reflexivity|]. intro Hx. subst. discriminate.
    + intros [k' [x' [H Hx]]]. inv H. destruct x'; try reflexivity. congruence.
  - split; [discriminate | intros [k' [x' [H _]]]; discriminate].
Qed.

Lemma required_forallb fs kvs :
  forallb (fun f => memN (iv_name f) (keys kvs) || negb (required f)) fs = true <->
  (forall f, In f fs -> required f = true -> In (iv_name f) (keys kvs)).
Proof.
  rewrite forallb_forall. split; intros H f Hf.
  - intro Hr. specialize (H f Hf). rewrite Hr in H. cbn in H. rewrite orb_false_r in H.
    apply memN_In. exact H.
  - destruct (required f) eqn:Er; [|apply orb_true_r].
    apply orb_true_iff. left. apply memN_In. apply H; auto.
Qed.

Lemma lit_check_reflect rs v : forall t, lit_check rs v t = RValid <-> LitValid rs v t.
Proof.
  induction v as [ | b m | | | b | e | vs IHF | kvs IHF] using lit_ind'; intro t;
    induction t as [n|t IHt|t IHt].
  (* LNull *)
  1-3: cbn; split; intro H; try constructor; try discriminate; inv H; congruence.
  (* leaf literals: LInt LFloat LStr LBool LEnum *)
  all: try (cbn; rewrite IHt; split;
            [intro H; first [apply LV_nonnull | apply LV_item]; try discriminate; auto
            | intro H; inv H; auto; try congruence;
              match goal with Hx : forall vs, _ <> LList vs |- _ => exfalso; eapply Hx; reflexivity end ]).
  all: try (cbn; destruct (lookup rs n) as [[s|?|?|?|ws|o fs|]|] eqn:El;
            try rewrite ofb_valid;
            (split; [intro H; try discriminate;
                     first [ eapply LV_scalar; [discriminate | exact El | exact H]
                           | eapply LV_enum; [exact El | apply memN_In; exact H] ]
                    | intro H; inv H; try congruence;
                      try (rewrite El in *; match goal with Hs : Some _ = Some _ |- _ => inv Hs end; auto);
                      try (apply memN_In; assumption) ])).
  - (* LList at TList *)
    cbn. clear IHt. rewrite (each_list_valid rs t vs).
    + split; [apply LV_list | intro H; inv H; auto].
      exfalso. match goal with Hx : forall vs0, _ <> LList vs0 |- _ => eapply Hx; reflexivity end.
    + revert IHF. apply Forall_impl. intros x Hx. apply Hx.
  - (* LObj at TNamed *)
    cbn. destruct (lookup rs n) as [[s|?|?|?|ws|o fs|]|] eqn:El.
    + rewrite ofb_valid. split.
      * intro H. eapply LV_scalar; [discriminate | exact El | exact H].
      * intro H. inv H; rewrite El in *; congruence.
    + split; [discriminate | intro H; inv H; rewrite El in *; congruence].
    + split; [discriminate | intro H; inv H; rewrite El in *; congruence].
    + split; [discriminate | intro H; inv H; rewrite El in *; congruence].
    + split; [discriminate | intro H; inv H; rewrite El in *; congruence].
    + rewrite !lmax_valid, !ofb_valid, required_forallb.
      assert (Heach :
        (fix each (l : list (N * lit)) : lres :=
           match l with
           | [] => RValid
           | (k, x) :: l' =>
               lmax (match find_inval k fs with
                     | Some f => if is_input_tref rs (iv_type f) then lit_check rs x (iv_type f) else RSkipped
                     | None => RInvalid
                     end) (each l')
           end) kvs = RValid <->
        (forall k x, In (k, x) kvs ->
           exists f, find_inval k fs = Some f /\ is_input_tref rs (iv_type f) = true
                     /\ LitValid rs x (iv_type f))).
      { clear El. induction kvs as [|[k x] kvs IHk].
        - split; [intros _ k x [] | reflexivity].
        - inv IHF. rewrite lmax_valid, (IHk H2). cbn in H1. split.
          + intros [A B] k' x' [E|Hin]; [inv E|apply B; exact Hin].
            destruct (find_inval k' fs) as [f|]; [|discriminate].
            destruct (is_input_tref rs (iv_type f)) eqn:Ei; [|discriminate].
            exists f. repeat split; auto. apply H1. exact A.
          + intro H. split; [|intros k' x' Hin; apply H; right; exact Hin].
            destruct (H k x (or_introl eq_refl)) as [f [E1 [E2 E3]]]. rewrite E1, E2. apply H1. exact E3. }
      rewrite Heach. split.
      * intros [A [B C]]. eapply LV_object; [exact El | exact A | exact B |].
        intro Ho. subst o. cbn in C. apply (oneof_ok_spec fs kvs); [|exact C].
        intros k x Hin. destruct (A k x Hin) as [f [E _]]. eauto.
      * intro H. inv H; try (rewrite El in *; congruence). rewrite El in H2. inv H2.
        split; [assumption|]. split; [assumption|]. destruct oneof; [|reflexivity]. cbn.
        apply (oneof_ok_spec fs0 kvs); [|auto].
        intros k x Hin. destruct (H3 k x Hin) as [f [E _]]. eauto.
    + split; [discriminate | intro H; inv H; rewrite El in *; congruence].
    + split; [discriminate | intro H; inv H; rewrite El in *; congruence].
Qed.

(* --- roots *)
Lemma root_check_nil rs o : root_check rs o = [] <-> (forall n, In n (opt_list o) -> is_object rs n = true).
Proof.
  destruct o as [n|]; cbn.
  - rewrite chk_nil. split; [intros H m [<-|[]]; exact H | intro H; apply H; left; reflexivity].
  - split; [intros _ n [] | reflexivity].
Qed.

Lemma validate_roots_nil rs : validate_roots rs = [] <-> RootsOK rs.
Proof.
  unfold validate_roots, RootsOK. rewrite !app_nil_iff, !chk_nil, !root_check_nil, nodupN_NoDup.
  unfold root_objects, roots_list. split.
  - intros [Hq [H1 [H2 [H3 H4]]]].
    assert (Hall : forall n, In n (opt_list (s_query rs) ++ opt_list (s_mutation rs) ++ opt_list (s_subscription rs))
                             -> is_object rs n = true).
    { intros n Hn. apply in_app_or in Hn. destruct Hn as [Hn|Hn]; [auto|].
      apply in_app_or in Hn. destruct Hn; auto. }
    split; [destruct (s_query rs); [eauto | discriminate]|]. split; [exact Hall|].
    rewrite (filter_all _ _ Hall) in H4. exact H4.
  - intros [[q Hq] [Hall Hnd]]. rewrite (filter_all _ _ Hall).
    split; [rewrite Hq; reflexivity|].
    repeat split; try exact Hnd; intros n Hn; apply Hall; apply in_or_app; auto;
      right; apply in_or_app; auto.
Qed.

(* --- input value definitions *)
Lemma default_check_nil rs t d :
  is_input_tref rs t = true -> (default_check rs t d = [] <-> DefaultOK rs t d).
Proof.
  intro Hi. unfold default_check, DefaultOK. destruct d as [| |v]; try tauto.
  rewrite Hi, <- lit_check_reflect. destruct (lit_check rs v t); split; intro H; congruence.
Qed.

Lemma validate_inval_nil rs iv : validate_inval rs iv = [] <-> InvalOK rs iv.
Proof.
  unfold validate_inval, InvalOK, name_ok. rewrite !app_nil_iff, !chk_nil, negb_true_iff, negb_true_iff.
  rewrite andb_false_iff. split.
  - intros [H1 [H2 [H3 H4]]]. split; [exact H1|]. split; [exact H2|]. split.
    + intros [Ha Hb]. destruct H3; congruence.
    + apply default_check_nil; assumption.
  - intros [H1 [H2 [H3 H4]]]. split; [exact H1|]. split; [exact H2|]. split.
    + destruct (required iv); [|left; reflexivity]. destruct (iv_dep iv); [|right; reflexivity].
      exfalso. apply H3. auto.
    + apply default_check_nil; assumption.
Qed.

Lemma validate_invals_nil rs l : flat_map (validate_inval rs) l = [] <-> Forall (InvalOK rs) l.
Proof. rewrite flat_map_nil. apply Forall_iff. intro. apply validate_inval_nil. Qed.

Lemma validate_directive_nil rs d : validate_directive rs d = [] <-> DirectiveOK rs d.
Proof.
  unfold validate_directive, DirectiveOK, name_ok. destruct (d_isdir d).
  - rewrite !app_nil_iff, !chk_nil, negb_true_iff, validate_invals_nil. tauto.
  - split; [discriminate | intros [H _]; discriminate].
Qed.

Lemma validate_field_nil rs f : validate_field rs f = [] <-> FieldOK rs f.
Proof.
  unfold validate_field, FieldOK, name_ok.
  rewrite !app_nil_iff, !chk_nil, negb_true_iff, validate_invals_nil. tauto.
Qed.

(* --- interface implementation *)
Lemma implements_arg_nil tf ia : implements_arg tf ia = [] <-> ArgOK tf ia.
Proof.
  unfold implements_arg, ArgOK. destruct (find_inval (iv_name ia) (f_args tf)) as [ta|].
  - rewrite chk_nil, tref_eqb_eq. split; [intro H; eauto | intros [ta' [H1 H2]]; congruence].
  - split; [discriminate | intros [ta [H _]]; discriminate].
Qed.

Lemma extra_arg_nil ifld ta : extra_arg ifld ta = [] <-> ExtraOK ifld ta.
Proof.
  unfold extra_arg, ExtraOK. rewrite chk_nil, negb_true_iff.
  destruct (find_inval (iv_name ta) (f_args ifld)); split; intro H; auto; discriminate.
Qed.

Lemma implements_field_nil rs tfields ifld :
  implements_field rs tfields ifld = [] <-> FieldImpl rs tfields ifld.
Proof.
  unfold implements_field, FieldImpl. destruct (find_field (f_name ifld) tfields) as [tf|].
  - rewrite !app_nil_iff, !chk_nil, !flat_map_nil, negb_true_iff, andb_false_iff, negb_false_iff.
    rewrite subtype_reflect.
    rewrite (Forall_iff _ _ _ (implements_arg_nil tf)), (Forall_iff _ _ _ (extra_arg_nil ifld)).
    split.
    + intros [H1 [H2 [H3 H4]]]. exists tf. repeat split; auto.
      intro Hd. destruct H4; congruence.
    + intros [tf' [E [H1 [H2 [H3 H4]]]]]. inversion E; subst tf'. repeat split; auto.
      destruct (f_dep tf); [right; auto | left; reflexivity].
  - split; [discriminate | intros [tf [H _]]; discriminate].
Qed.

Lemma validate_ancestors_nil rs sifaces i :
  validate_ancestors rs sifaces i = [] <-> incl (ifaces_of rs i) sifaces.
Proof.
  unfold validate_ancestors. rewrite flat_map_nil, Forall_forall. unfold incl.
  split; intros H x Hx; specialize (H x Hx).
  - apply chk_nil in H. apply memN_In. exact H.
  - apply chk_nil. apply memN_In. exact H.
Qed.

Lemma validate_ifaces_nil rs self sf si : forall l seen,
  validate_ifaces rs self sf si seen l = [] <->
  NoDup l /\ (forall i, In i l -> ~ In i seen) /\ Forall (IfaceOK rs self sf si) l.
Proof.
  induction l as [|i l IH]; intro seen; cbn [validate_ifaces].
  - split; [intros _; repeat split; [constructor | intros ? [] | constructor] | reflexivity].
  - destruct (is_interface rs i) eqn:Ei; cbn [negb].
    + rewrite app_nil_iff, chk_nil, negb_true_iff, N.eqb_neq.
      destruct (memN i seen) eqn:Em.
      * split; [intros [_ H]; discriminate|].
        intros [_ [H _]]. exfalso. apply (H i (or_introl eq_refl)). apply memN_In. exact Em.
      * rewrite !app_nil_iff, IH, validate_ancestors_nil.
        unfold validate_implements. rewrite flat_map_nil.
        rewrite (Forall_iff _ _ _ (implements_field_nil rs sf)).
        assert (Hns : ~ In i seen) by (rewrite <- memN_In; congruence).
        split.
        -- intros [Hne [Hanc [Himp [Hnd [Hdisj Hall]]]]]. split; [|split].
           ++ constructor; [|exact Hnd]. intro Hin. apply (Hdisj i Hin). left. reflexivity.
           ++ intros j [<-|Hj]; [exact Hns|]. intro Hs. apply (Hdisj j Hj). right. exact Hs.
           ++ constructor; [|exact Hall]. unfold IfaceOK. auto.
        -- intros [Hnd [Hdisj Hall]]. inversion Hnd as [|? ? Hni Hnd']; subst.
           inversion Hall as [|? ? Hi Hl]; subst.
           destruct Hi as [_ [Ha [Hb Hc]]]. repeat split; auto.
           intros j Hj [<-|Hs]; [contradiction|]. apply (Hdisj j (or_intror Hj) Hs).
    + split; [discriminate|]. intros [_ [_ H]]. inversion H as [|? ? Hi _]; subst.
      destruct Hi as [Hi _]. congruence.
Qed.

Lemma validate_members_nil rs : forall l seen,
  validate_members rs seen l = [] <->
  NoDup l /\ (forall m, In m l -> ~ In m seen) /\ Forall (fun m => is_object rs m = true) l.
Proof.
  induction l as [|m l IH]; intro seen; cbn [validate_members].
  - split; [intros _; repeat split; [constructor | intros ? [] | constructor] | reflexivity].
  - destruct (is_object rs m) eqn:Eo.
    + destruct (memN m seen) eqn:Em.
      * split; [discriminate|]. intros [_ [H _]]. exfalso.
        apply (H m (or_introl eq_refl)). apply memN_In. exact Em.
      * rewrite IH. assert (Hns : ~ In m seen) by (rewrite <- memN_In; congruence). split.
        -- intros [Hnd [Hdisj Hall]]. split; [|split].
           ++ constructor; [|exact Hnd]. intro Hin. apply (Hdisj m Hin). left. reflexivity.
           ++ intros j [<-|Hj]; [exact Hns|]. intro Hs. apply (Hdisj j Hj). right. exact Hs.
           ++ constructor; assumption.
        -- intros [Hnd [Hdisj Hall]]. inversion Hnd as [|? ? Hni Hnd']; subst.
           inversion Hall as [|? ? Hi Hl]; subst.
           repeat split; auto. intros j Hj [<-|Hs]; [contradiction|]. apply (Hdisj j (or_intror Hj) Hs).
    + split; [discriminate|]. intros [_ [_ H]]. inversion H; subst. congruence.
Qed.

Lemma validate_input_field_nil rs o iv :
  validate_input_field rs o iv = [] <-> InvalOK rs iv /\ (o = true -> OneOfOK iv).
Proof.
  unfold validate_input_field, OneOfOK. rewrite app_nil_iff, validate_inval_nil. destruct o.
  - rewrite app_nil_iff, !chk_nil, !negb_true_iff. split.
    + intros [H1 [H2 H3]]. split; [exact H1|]. intros _. split; [exact H2|].
      destruct (iv_default iv); cbn in H3; congruence.
    + intros [H1 H2]. destruct (H2 eq_refl) as [H3 H4]. rewrite H4. cbn. auto.
  - split; [intros [H _]; split; [exact H | discriminate] | intros [H _]; auto].
Qed.

Lemma Forall_and_iff {B} (P Q : B -> Prop) l : Forall (fun x => P x /\ Q x) l <-> Forall P l /\ Forall Q l.
Proof.
  rewrite !Forall_forall. split.
  - intro H. split; intros x Hx; apply (H x Hx).
  - intros [H1 H2] x Hx. split; auto.
Qed.

Lemma fields_ifaces_nil rs n fs ifs :
  validate_fields rs fs ++ validate_ifaces rs n fs ifs [] ifs = [] <->
  fs <> [] /\ Forall (FieldOK rs) fs /\ NoDup ifs /\ Forall (IfaceOK rs n fs ifs) ifs.
Proof.
  unfold validate_fields. rewrite !app_nil_iff, chk_nil, is_nil_false, flat_map_nil, validate_ifaces_nil.
  rewrite (Forall_iff _ _ _ (validate_field_nil rs)).
  split; [intros [[H1 H2] [H3 [_ H4]]]; auto | intros [H1 [H2 [H3 H4]]]; repeat split; auto].
Qed.

Lemma validate_type_nil rs nd : validate_type rs nd = [] <-> TypeOK rs nd.
Proof.
  destruct nd as [n d]. unfold validate_type, TypeOK, name_ok. cbn [fst snd].
  destruct d as [s|fs ifs|fs ifs|ms|vs|o fs|]; cbn [validate_type_body];
    try rewrite app_nil_iff, chk_nil, negb_true_iff.
  - tauto.
  - rewrite fields_ifaces_nil. tauto.
  - rewrite fields_ifaces_nil. tauto.
  - rewrite app_nil_iff, chk_nil, is_nil_false, validate_members_nil.
    split; [intros [H0 [H1 [H2 [_ H3]]]]; auto | intros [H0 [H1 [H2 H3]]]; repeat split; auto].
  - rewrite app_nil_iff, chk_nil, is_nil_false, flat_map_nil.
    unfold name_ok. rewrite (Forall_iff _ (fun v => reserved v = false)); [tauto|].
    intro v. rewrite chk_nil, negb_true_iff. tauto.
  - rewrite app_nil_iff, chk_nil, is_nil_false, flat_map_nil.
    rewrite (Forall_iff _ _ _ (validate_input_field_nil rs o)), Forall_and_iff.
    split.
    + intros [H0 [H1 [H2 H3]]]. repeat split; auto. intro Ho. revert H3. apply Forall_impl. auto.
    + intros [H0 [H1 [H2 H3]]]. repeat split; auto. destruct o.
      * specialize (H3 eq_refl). revert H3. apply Forall_impl. auto.
      * apply Forall_forall. intros x _ Hd. discriminate.
  - split; [discriminate | tauto].
Qed.

(* --- cycle reports *)
Lemma map_nil_iff {B C} (f : B -> C) l : map f l = [] <-> l = [].
Proof. destruct l; cbn; split; intro H; congruence. Qed.

Lemma nn_reports_nil rs :
  cycle_reports KNonNullCycle (nn_detect rs) = [] <-> (forall n, ~ reach (nn_succ rs) n n).
Proof.
  destruct (nn_detect_terminates rs) as [st H]. rewrite H. unfold cycle_reports. rewrite map_nil_iff.
  split.
  - apply nn_detect_complete. exact H.
  - intro Hac. destruct (d_reports st) as [|c l] eqn:E; [reflexivity|]. exfalso.
    unfold nn_detect in H.
    destruct (dfs_all_sound_reach N N.eqb N.eqb_eq (nn_succ rs) _ _ st H) as [x Hx]; [congruence|].
    exact (Hac x Hx).
Qed.

Lemma dv_reports_nil rs :
  cycle_reports KDefaultCycle (dv_detect rs) = [] <-> (forall nd, ~ reach (dv_succ rs) nd nd).
Proof.
  destruct (dv_detect_terminates rs) as [st H]. rewrite H. unfold cycle_reports. rewrite map_nil_iff.
  split.
  - apply dv_detect_complete. exact H.
  - intro Hac. destruct (d_reports st) as [|c l] eqn:E; [reflexivity|]. exfalso.
    unfold dv_detect in H.
    destruct (dfs_all_sound_reach fnode fnode_eqb fnode_eqb_spec (dv_succ rs) _ _ st H) as [x Hx]; [congruence|].
    exact (Hac x Hx).
Qed.

Theorem validate_reflects rs : validate rs = [] <-> ValidSchema rs.
Proof.
  unfold validate. rewrite !app_nil_iff, validate_roots_nil, !flat_map_nil.
  rewrite (Forall_iff _ _ _ (validate_directive_nil rs)), (Forall_iff _ _ _ (validate_type_nil rs)).
  rewrite nn_reports_nil, dv_reports_nil.
  split; [intros [H1 [H2 [H3 [H4 H5]]]]; constructor; assumption | intros [H1 H2 H3 H4 H5]; auto].
Qed.

(* ================================================================== per-kind characterisations *)

Lemma in_chk k b k' : In k (chk b k') <-> b = false /\ k = k'.
Proof.
  unfold chk. destruct b; cbn.
  - split; [intros [] | intros [H _]; discriminate].
  - split; [intros [H|[]]; auto | intros [_ ->]; left; reflexivity].
Qed.

(* every input value definition looked at by validate: directive arguments, field arguments,
   input fields *)
Definition type_invals (nd : N * tdef) : list inval :=
  match snd nd with
  | DObject fs _ | DInterface fs _ => flat_map f_args fs
  | DInput _ fs => fs
  | _ => []
  end.
Definition all_invals (rs : raw_schema) : list inval :=
  flat_map (fun d => if d_isdir d then d_args d else []) (s_dirs rs)
  ++ flat_map type_invals (s_types rs).

Definition type_fields (nd : N * tdef) : list field :=
  match snd nd with DObject fs _ | DInterface fs _ => fs | _ => [] end.
Definition all_fields (rs : raw_schema) : list field := flat_map type_fields (s_types rs).

(* kinds that only the shared input-value rule / the output-type rule emits *)
Definition pos_kind (k : rule_kind) : Prop :=
  k = KNotInputType \/ k = KRequiredDeprecated \/ k = KInvalidDefault \/ k = KDefaultNotValidated
  \/ k = KNotOutputType.

Ltac pk Hk := destruct Hk as [-> | [-> | [-> | [-> | ->]]]].

Lemma validate_ifaces_poskind rs self sf si k : pos_kind k ->
  forall l seen, nokind k (validate_ifaces rs self sf si seen l).
Proof.
  intros Hk l. induction l as [|i l IH]; intro seen; cbn [validate_ifaces]; [apply nokind_nil|].
  assert (Himpl : nokind k (validate_implements rs sf i)).
  { unfold validate_implements. apply nokind_flat_map. intro f. unfold implements_field.
    destruct (find_field (f_name f) sf); pk Hk; nk;
      try (unfold implements_arg; destruct (find_inval (iv_name x) (f_args f0)); nk);
      try (unfold extra_arg; nk). }
  assert (Hanc : nokind k (validate_ancestors rs si i)).
  { unfold validate_ancestors. pk Hk; nk. }
  destruct (negb (is_interface rs i)).
  - pk Hk; (apply nokind_cons; [discriminate | apply IH]).
  - apply nokind_app; [pk Hk; nk|].
    destruct (memN i seen).
    + pk Hk; (apply nokind_cons; [discriminate | apply IH]).
    + apply nokind_app; [exact Hanc|]. apply nokind_app; [exact Himpl | apply IH].
Qed.

Lemma validate_members_poskind rs k : pos_kind k ->
  forall l seen, nokind k (validate_members rs seen l).
Proof.
  intros Hk l. induction l as [|m l IH]; intro seen; cbn [validate_members]; [apply nokind_nil|].
  destruct (is_object rs m); [destruct (memN m seen)|];
    try apply IH; pk Hk; (apply nokind_cons; [discriminate | apply IH]).
Qed.

Lemma cycle_reports_in {B} k0 (o : option (dstate B)) k :
  In k (cycle_reports k0 o) -> k = k0 \/ k = KOutOfFuel.
Proof.
  unfold cycle_reports. destruct o as [st|].
  - intro H. apply in_map_iff in H. destruct H as [_ [H _]]. auto.
  - intros [H|[]]; auto.
Qed.

Lemma default_check_no_output rs t d : nokind KNotOutputType (default_check rs t d) /\
  nokind KNotInputType (default_check rs t d) /\ nokind KRequiredDeprecated (default_check rs t d).
Proof.
  unfold default_check. destruct d as [| |v].
  - split; [|split]; nk.
  - split; [|split]; nk.
  - destruct (is_input_tref rs t); [destruct (lit_check rs v t)|]; (split; [|split]); nk.
Qed.

(* kind k among the errors of the input value definitions of a list *)
Lemma in_invals rs k l :
  In k (flat_map (validate_inval rs) l) <-> exists iv, In iv l /\ In k (validate_inval rs iv).
Proof. apply in_flat_map. Qed.

Lemma validate_field_pos rs f k : pos_kind k ->
  (In k (validate_field rs f) <->
   (k = KNotOutputType /\ is_output_tref rs (f_type f) = false)
   \/ exists iv, In iv (f_args f) /\ In k (validate_inval rs iv)).
Proof.
  intro Hk. unfold validate_field, name_ok. rewrite !in_app_iff, !in_chk, in_invals. split.
  - intros [[_ H]|[[H1 H2]|H]]; [pk Hk; discriminate | left; auto | right; exact H].
  - intros [[H1 H2]|H]; [right; left; auto | right; right; exact H].
Qed.

Lemma validate_inval_no_output rs iv : ~ In KNotOutputType (validate_inval rs iv).
Proof.
  unfold validate_inval, name_ok. rewrite !in_app_iff, !in_chk.
  intros [[_ H]|[[_ H]|[[_ H]|H]]]; try discriminate.
  exact (proj1 (default_check_no_output rs _ _) H).
Qed.

Lemma validate_type_pos rs nd k : pos_kind k ->
  (In k (validate_type rs nd) <->
   (exists f, In f (type_fields nd) /\ k = KNotOutputType /\ is_output_tref rs (f_type f) = false)
   \/ exists iv, In iv (type_invals nd) /\ In k (validate_inval rs iv)).
Proof.
  intro Hk. destruct nd as [n d]. unfold validate_type, type_fields, type_invals. cbn [fst snd].
  assert (Hn : ~ In k (name_ok n)).
  { unfold name_ok. rewrite in_chk. intros [_ H]. pk Hk; discriminate. }
  assert (Hfs : forall fs ifs,
    In k (validate_fields rs fs ++ validate_ifaces rs n fs ifs [] ifs) <->
    (exists f, In f fs /\ k = KNotOutputType /\ is_output_tref rs (f_type f) = false)
    \/ exists iv, In iv (flat_map f_args fs) /\ In k (validate_inval rs iv)).
  { intros fs ifs. unfold validate_fields. rewrite !in_app_iff, in_chk, in_flat_map. split.
    - intros [[[_ H]|[f [Hf H]]]|H].
      + pk Hk; discriminate.
      + apply (validate_field_pos rs f k Hk) in H. destruct H as [H|[iv [H1 H2]]].
        * left. exists f. tauto.
        * right. exists iv. split; [|exact H2]. apply in_flat_map. exists f. auto.
      + exfalso. exact (validate_ifaces_poskind rs n fs ifs k Hk ifs [] H).
    - intros [[f [Hf H]]|[iv [H1 H2]]].
      + left. right. exists f. split; [exact Hf|]. apply (validate_field_pos rs f k Hk). left. exact H.
      + apply in_flat_map in H1. destruct H1 as [f [Hf Ha]]. left. right. exists f. split; [exact Hf|].
        apply (validate_field_pos rs f k Hk). right. exists iv. auto. }
  destruct d as [s|fs ifs|fs ifs|ms|vs|o fs|]; cbn [validate_type_body]; try rewrite in_app_iff.
  - cbn. split; [tauto | intros [[f [[] _]]|[iv [[] _]]]].
  - rewrite Hfs. tauto.
  - rewrite Hfs. tauto.
  - rewrite in_app_iff, in_chk. split.
    + intros [H|[[_ H]|H]]; [tauto | pk Hk; discriminate |].
      exfalso. exact (validate_members_poskind rs k Hk ms [] H).
    + intros [[f [[] _]]|[iv [[] _]]].
  - rewrite in_app_iff, in_chk, in_flat_map. split.
    + intros [H|[[_ H]|[v [_ H]]]]; [tauto | pk Hk; discriminate |].
      unfold name_ok in H. apply in_chk in H. destruct H as [_ H]. pk Hk; discriminate.
    + intros [[f [[] _]]|[iv [[] _]]].
  - rewrite in_app_iff, in_chk, in_flat_map. split.
    + intros [H|[[_ H]|[iv [Hiv H]]]]; [tauto | pk Hk; discriminate |].
      unfold validate_input_field in H. apply in_app_iff in H. destruct H as [H|H].
      * right. exists iv. auto.
      * destruct o; [|destruct H]. apply in_app_iff in H. rewrite !in_chk in H.
        destruct H as [[_ H]|[_ H]]; pk Hk; discriminate.
    + intros [[f [[] _]]|[iv [Hiv H]]]. right. right. exists iv. split; [exact Hiv|].
      unfold validate_input_field. apply in_app_iff. left. exact H.
  - cbn. split; [intros [H|[]]; pk Hk; discriminate | intros [[f [[] _]]|[iv [[] _]]]].
Qed.

Lemma validate_pos rs k : pos_kind k ->
  (In k (validate rs) <->
   (exists f, In f (all_fields rs) /\ k = KNotOutputType /\ is_output_tref rs (f_type f) = false)
   \/ exists iv, In iv (all_invals rs) /\ In k (validate_inval rs iv)).
Proof.
  intro Hk. unfold validate, all_fields, all_invals. rewrite !in_app_iff. split.
  - intros [H|[H|[H|[H|H]]]].
    + exfalso. unfold validate_roots, root_check in H.
      destruct (s_query rs), (s_mutation rs), (s_subscription rs);
        repeat (apply in_app_iff in H; destruct H as [H|H]); try apply in_chk in H;
        try destruct H as [_ H]; try contradiction; pk Hk; discriminate.
    + apply in_flat_map in H. destruct H as [d [Hd H]]. unfold validate_directive in H.
      destruct (d_isdir d) eqn:Ed.
      * unfold name_ok in H. rewrite !in_app_iff, !in_chk, in_invals in H.
        destruct H as [[_ H]|[[_ H]|[iv [H1 H2]]]]; try (pk Hk; discriminate).
        right. exists iv. split; [|exact H2]. apply in_app_iff. left. apply in_flat_map.
        exists d. rewrite Ed. auto.
      * destruct H as [H|[]]. pk Hk; discriminate.
    + apply in_flat_map in H. destruct H as [nd [Hnd H]].
      apply (validate_type_pos rs nd k Hk) in H. destruct H as [[f [H1 H2]]|[iv [H1 H2]]].
      * left. exists f. split; [|exact H2]. apply in_flat_map. eauto.
      * right. exists iv. split; [|exact H2]. apply in_app_iff. right. apply in_flat_map. eauto.
    + apply cycle_reports_in in H. destruct H; pk Hk; discriminate.
    + apply cycle_reports_in in H. destruct H; pk Hk; discriminate.
  - intros [[f [H1 H2]]|[iv [H1 H2]]].
    + apply in_flat_map in H1. destruct H1 as [nd [Hnd Hf]]. right. right. left.
      apply in_flat_map. exists nd. split; [exact Hnd|]. apply (validate_type_pos rs nd k Hk).
      left. eauto.
    + apply in_app_iff in H1. destruct H1 as [H1|H1]; apply in_flat_map in H1.
      * destruct H1 as [d [Hd Ha]]. right. left. apply in_flat_map. exists d. split; [exact Hd|].
        unfold validate_directive. destruct (d_isdir d); [|destruct Ha].
        rewrite !in_app_iff, in_invals. right. right. eauto.
      * destruct H1 as [nd [Hnd Ha]]. right. right. left. apply in_flat_map. exists nd.
        split; [exact Hnd|]. apply (validate_type_pos rs nd k Hk). right. eauto.
Qed.

Theorem kind_not_input_type rs :
  In KNotInputType (validate rs) <->
  exists iv, In iv (all_invals rs) /\ is_input_tref rs (iv_type iv) = false.
Proof.
  rewrite (validate_pos rs KNotInputType) by (left; reflexivity). split.
  - intros [[f [_ [H _]]]|[iv [H1 H2]]]; [discriminate|]. exists iv. split; [exact H1|].
    unfold validate_inval, name_ok in H2. rewrite !in_app_iff, !in_chk in H2.
    destruct H2 as [[_ H]|[[H _]|[[_ H]|H]]]; try discriminate; [exact H|].
    exfalso. exact (proj1 (proj2 (default_check_no_output rs _ _)) H).
  - intros [iv [H1 H2]]. right. exists iv. split; [exact H1|].
    unfold validate_inval. rewrite !in_app_iff, !in_chk. right. left. auto.
Qed.

Theorem kind_not_output_type rs :
  In KNotOutputType (validate rs) <->
  exists f, In f (all_fields rs) /\ is_output_tref rs (f_type f) = false.
Proof.
  rewrite (validate_pos rs KNotOutputType) by (right; right; right; right; reflexivity). split.
  - intros [[f [H1 [_ H2]]]|[iv [_ H]]]; [eauto|]. exfalso. exact (validate_inval_no_output rs iv H).
  - intros [f [H1 H2]]. left. eauto.
Qed.

Theorem kind_invalid_default rs :
  In KInvalidDefault (validate rs) <->
  exists iv v, In iv (all_invals rs) /\ iv_default iv = DLit v
               /\ is_input_tref rs (iv_type iv) = true /\ lit_check rs v (iv_type iv) = RInvalid.
Proof.
  rewrite (validate_pos rs KInvalidDefault) by (right; right; left; reflexivity). split.
  - intros [[f [_ [H _]]]|[iv [H1 H2]]]; [discriminate|].
    unfold validate_inval, name_ok in H2. rewrite !in_app_iff, !in_chk in H2.
    destruct H2 as [[_ H]|[[_ H]|[[_ H]|H]]]; try discriminate.
    unfold default_check in H. destruct (iv_default iv) as [| |v] eqn:Ed; try destruct H.
    destruct (is_input_tref rs (iv_type iv)) eqn:Ei; [|destruct H as [H|[]]; discriminate].
    destruct (lit_check rs v (iv_type iv)) eqn:El; try destruct H as [H|[]]; try discriminate;
      try contradiction.
    exists iv, v. auto.
  - intros [iv [v [H1 [H2 [H3 H4]]]]]. right. exists iv. split; [exact H1|].
    unfold validate_inval. rewrite !in_app_iff. right. right. right.
    unfold default_check. rewrite H2, H3, H4. left. reflexivity.
Qed.

Lemma validate_cycle_kind rs k : k = KNonNullCycle \/ k = KDefaultCycle ->
  (In k (validate rs) <->
   In k (cycle_reports KNonNullCycle (nn_detect rs)) \/ In k (cycle_reports KDefaultCycle (dv_detect rs))).
Proof.
  intro Hk. assert (Hs : special k) by (unfold special; tauto).
  destruct (validate_parts_nokind rs k Hs) as [H1 [H2 H3]].
  unfold validate. rewrite !in_app_iff. unfold nokind in *. tauto.
Qed.

Theorem kind_nonnull_cycle rs :
  In KNonNullCycle (validate rs) <-> exists n, reach (nn_succ rs) n n.
Proof.
  rewrite (validate_cycle_kind rs KNonNullCycle) by (left; reflexivity).
  destruct (nn_detect_terminates rs) as [st Hst]. rewrite Hst. split.
  - intros [H|H].
    + cbn in H. destruct (d_reports st) as [|c l] eqn:E; [destruct H|].
      unfold nn_detect in Hst.
      eapply (dfs_all_sound_reach N N.eqb N.eqb_eq); [exact Hst | rewrite E; discriminate].
    + apply cycle_reports_in in H. destruct H; discriminate.
  - intros [n Hn]. left. cbn. destruct (d_reports st) as [|c l] eqn:E; [|left; reflexivity].
    exfalso. exact (nn_detect_complete rs st Hst E n Hn).
Qed.

Theorem kind_default_cycle rs :
  In KDefaultCycle (validate rs) <-> exists nd, reach (dv_succ rs) nd nd.
Proof.
  rewrite (validate_cycle_kind rs KDefaultCycle) by (right; reflexivity).
  destruct (dv_detect_terminates rs) as [st Hst]. rewrite Hst. split.
  - intros [H|H].
    + apply cycle_reports_in in H. destruct H; discriminate.
    + cbn in H. destruct (d_reports st) as [|c l] eqn:E; [destruct H|].
      unfold dv_detect in Hst.
      eapply (dfs_all_sound_reach fnode fnode_eqb fnode_eqb_spec); [exact Hst | rewrite E; discriminate].
  - intros [n Hn]. right. cbn. destruct (d_reports st) as [|c l] eqn:E; [|left; reflexivity].
    exfalso. exact (dv_detect_complete rs st Hst E n Hn).
Qed.

Theorem kind_required_deprecated rs :
  In KRequiredDeprecated (validate rs) <->
  exists iv, In iv (all_invals rs) /\ required iv = true /\ iv_dep iv = true.
Proof.
  rewrite (validate_pos rs KRequiredDeprecated) by (right; left; reflexivity). split.
  - intros [[f [_ [H _]]]|[iv [H1 H2]]]; [discriminate|]. exists iv. split; [exact H1|].
    unfold validate_inval, name_ok in H2. rewrite !in_app_iff, !in_chk in H2.
    destruct H2 as [[_ H]|[[_ H]|[[H _]|H]]]; try discriminate.
    + apply negb_false_iff, andb_true_iff in H. exact H.
    + exfalso. exact (proj2 (proj2 (default_check_no_output rs _ _)) H).
  - intros [iv [H1 [H2 H3]]]. right. exists iv. split; [exact H1|].
    unfold validate_inval. rewrite !in_app_iff, !in_chk. right. right. left.
    rewrite H2, H3. auto.
Qed.
