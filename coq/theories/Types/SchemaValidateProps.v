(* C20 - proofs about Types/SchemaValidate.v *)
From GV Require Import Base.Prelude Types.SchemaValidate.

(* ================================================================== generic DFS *)
Section DFSProps.
  Variable A : Type.
  Variable eqb : A -> A -> bool.
  Hypothesis eqb_spec : forall a b, eqb a b = true <-> a = b.
  Variable succ : A -> list A.

  Notation memA := (memA A eqb).
  Notation dstate := (dstate A).
  Notation dfs := (dfs A eqb succ).
  Notation loop := (loop A eqb).
  Notation step := (step A eqb).
  Notation dfs_all := (dfs_all A eqb succ).
  Notation cycle_from := (cycle_from A eqb).

  Definition edge (a b : A) : Prop := In b (succ a).

  Lemma memA_In x l : memA x l = true <-> In x l.
  Proof.
    induction l as [|y l IH]; cbn.
    - split; [discriminate | tauto].
    - rewrite orb_true_iff, IH, eqb_spec. split; intros [H|H]; auto.
  Qed.

  Lemma memA_false x l : memA x l = false <-> ~ In x l.
  Proof.
    rewrite <- memA_In. destruct (memA x l).
    - split; [discriminate | intro H; exfalso; apply H; reflexivity].
    - split; [intros _ H; discriminate | reflexivity].
  Qed.

  (* ---------------------------------------------------------------- termination *)
  Definition unv (U vis : list A) : nat :=
    length (filter (fun a => negb (memA a vis)) U).

  Lemma unv_mono U vis vis' : incl vis vis' -> (unv U vis' <= unv U vis)%nat.
  Proof.
    intro Hi. unfold unv. induction U as [|a U IH]; cbn; [lia|].
    destruct (memA a vis) eqn:E1; destruct (memA a vis') eqn:E2; cbn; try lia.
    apply memA_In in E1. apply Hi in E1. apply memA_In in E1. congruence.
  Qed.

  Lemma unv_cons_lt U vis x :
    In x U -> memA x vis = false -> (unv U (x :: vis) < unv U vis)%nat.
  Proof.
    intros Hin Hm. unfold unv. induction U as [|a U IH]; [destruct Hin|].
    assert (Hle : (length (filter (fun a0 => negb (memA a0 (x :: vis))) U)
                   <= length (filter (fun a0 => negb (memA a0 vis)) U))%nat).
    { apply (unv_mono U vis (x :: vis)). intros z Hz. right. exact Hz. }
    cbn [filter]. destruct Hin as [->|Hin].
    - assert (E : memA x (x :: vis) = true) by (apply memA_In; left; reflexivity).
      rewrite E, Hm. cbn [negb length]. lia.
    - specialize (IH Hin).
      destruct (memA a (x :: vis)) eqn:E1; destruct (memA a vis) eqn:E2; cbn [negb length]; try lia.
      apply memA_In in E2. assert (In a (x :: vis)) by (right; exact E2).
      apply memA_In in H. congruence.
  Qed.

  Lemma unv_nil U : unv U [] = length U.
  Proof. unfold unv. induction U as [|a l IH]; cbn; [reflexivity | f_equal; exact IH]. Qed.

  Section Termination.
    Variable U : list A.
    Hypothesis U_closed : forall a, In a U -> incl (succ a) U.

    Lemma loop_terminates f p :
      (forall y st, In y U -> memA y (d_visited st) = false -> (unv U (d_visited st) <= f)%nat ->
         exists st', SchemaValidate.dfs A eqb succ f p y st = Some st'
                     /\ incl (d_visited st) (d_visited st')) ->
      forall ys st, incl ys U -> (unv U (d_visited st) <= f)%nat ->
        exists st', loop (SchemaValidate.dfs A eqb succ f p) p ys st = Some st'
                    /\ incl (d_visited st) (d_visited st').
    Proof.
      intros IHf ys. induction ys as [|y ys IH]; intros st Hys Hu; cbn [SchemaValidate.loop].
      - exists st. split; [reflexivity | apply incl_refl].
      - assert (Hy : In y U) by (apply Hys; left; reflexivity).
        assert (Hys' : incl ys U) by (intros z Hz; apply Hys; right; exact Hz).
        unfold SchemaValidate.step.
        destruct (memA y p) eqn:E1.
        + destruct (IH (mkD (d_visited st) (cycle_from y p :: d_reports st) (d_done st)) Hys' Hu)
            as [st' [H1 H2]].
          exists st'. split; [exact H1 | exact H2].
        + destruct (memA y (d_visited st)) eqn:E2.
          * apply IH; assumption.
          * destruct (IHf y st Hy E2 Hu) as [st1 [H1 H2]]. rewrite H1.
            assert (Hu1 : (unv U (d_visited st1) <= f)%nat).
            { pose proof (unv_mono U _ _ H2). lia. }
            destruct (IH st1 Hys' Hu1) as [st' [H3 H4]].
            exists st'. split; [exact H3 | eapply incl_tran; eassumption].
    Qed.

    Lemma dfs_terminates fuel : forall p x st,
      In x U -> memA x (d_visited st) = false -> (unv U (d_visited st) <= fuel)%nat ->
      exists st', dfs fuel p x st = Some st' /\ incl (d_visited st) (d_visited st').
    Proof.
      induction fuel as [|f IHf]; intros p x st Hx Hm Hu.
      - pose proof (unv_cons_lt U (d_visited st) x Hx Hm). lia.
      - cbn [SchemaValidate.dfs].
        assert (Hu' : (unv U (d_visited (mark A x st)) <= f)%nat).
        { cbn. pose proof (unv_cons_lt U (d_visited st) x Hx Hm). lia. }
        destruct (loop_terminates f (x :: p) (fun y st0 => IHf (x :: p) y st0)
                    (succ x) (mark A x st) (U_closed x Hx) Hu') as [st' [H1 H2]].
        rewrite H1. exists (finish A x st'). split; [reflexivity|].
        cbn. intros z Hz. apply H2. cbn. right. exact Hz.
    Qed.

    Lemma dfs_all_terminates fuel : forall roots st,
      incl roots U -> (unv U (d_visited st) <= fuel)%nat ->
      exists st', dfs_all fuel roots st = Some st'.
    Proof.
      induction roots as [|r roots IH]; intros st Hr Hu; cbn [SchemaValidate.dfs_all].
      - eexists; reflexivity.
      - assert (Hr' : incl roots U) by (intros z Hz; apply Hr; right; exact Hz).
        destruct (memA r (d_visited st)) eqn:E.
        + apply IH; assumption.
        + destruct (dfs_terminates fuel [] r st (Hr r (or_introl eq_refl)) E Hu) as [st1 [H1 H2]].
          rewrite H1. apply IH; [assumption|]. pose proof (unv_mono U _ _ H2). lia.
    Qed.

    Theorem dfs_all_fuel_suffices roots :
      incl roots U -> exists st', dfs_all (length U) roots dstate0 = Some st'.
    Proof. intro H. apply dfs_all_terminates; [exact H|]. cbn. rewrite unv_nil. lia. Qed.
  End Termination.

  (* ---------------------------------------------------------------- reports only grow *)
  Lemma loop_reports_mono rec p :
    (forall y st st', rec y st = Some st' -> exists l, d_reports st' = l ++ d_reports st) ->
    forall ys st st', loop rec p ys st = Some st' -> exists l, d_reports st' = l ++ d_reports st.
  Proof.
    intros Hrec ys. induction ys as [|y ys IH]; intros st st' H; cbn [SchemaValidate.loop] in H.
    - inversion H; subst. exists []. reflexivity.
    - unfold SchemaValidate.step in H.
      destruct (memA y p).
      + apply IH in H. destruct H as [l H]. cbn in H. exists (l ++ [cycle_from y p]).
        rewrite H, <- app_assoc. reflexivity.
      + destruct (memA y (d_visited st)); [apply IH; exact H|].
        destruct (rec y st) as [st1|] eqn:E; [|discriminate].
        apply Hrec in E. destruct E as [l1 E]. apply IH in H. destruct H as [l2 H].
        exists (l2 ++ l1). rewrite H, E, app_assoc. reflexivity.
  Qed.

  Lemma dfs_reports_mono fuel : forall p x st st',
    dfs fuel p x st = Some st' -> exists l, d_reports st' = l ++ d_reports st.
  Proof.
    induction fuel as [|f IHf]; intros p x st st' H; cbn [SchemaValidate.dfs] in H; [discriminate|].
    destruct (loop (SchemaValidate.dfs A eqb succ f (x :: p)) (x :: p) (succ x) (mark A x st)) as [st1|] eqn:E;
      [|discriminate].
    inversion H; subst. cbn.
    apply (loop_reports_mono _ _ (fun y s s' => IHf (x :: p) y s s')) in E. exact E.
  Qed.

  Lemma dfs_all_reports_mono fuel : forall roots st st',
    dfs_all fuel roots st = Some st' -> exists l, d_reports st' = l ++ d_reports st.
  Proof.
    induction roots as [|r roots IH]; intros st st' H; cbn [SchemaValidate.dfs_all] in H.
    - inversion H; subst. exists []. reflexivity.
    - destruct (memA r (d_visited st)); [apply IH; exact H|].
      destruct (dfs fuel [] r st) as [st1|] eqn:E; [|discriminate].
      apply dfs_reports_mono in E. destruct E as [l1 E]. apply IH in H. destruct H as [l2 H].
      exists (l2 ++ l1). rewrite H, E, app_assoc. reflexivity.
  Qed.

  (* ---------------------------------------------------------------- soundness *)
  (* a path stack: top first, every element is a successor of the one below it *)
  Fixpoint chain (p : list A) : Prop :=
    match p with
    | a :: ((b :: _) as p') => edge b a /\ chain p'
    | _ => True
    end.

  (* c = [top; ...; bottom]: bottom -> ... -> top -> bottom *)
  Definition is_cycle (c : list A) : Prop :=
    match c with
    | [] => False
    | top :: _ => chain c /\ edge top (last c top)
    end.

  Lemma chain_tail a p : chain (a :: p) -> chain p.
  Proof. destruct p; cbn; tauto. Qed.

  Lemma cycle_from_chain y p : chain p -> chain (cycle_from y p).
  Proof.
    induction p as [|z p IH]; intro H; cbn; [exact I|].
    destruct (eqb y z); [exact I|].
    destruct p as [|w p]; [exact I|].
    cbn in H. destruct H as [H1 H2]. specialize (IH H2).
    cbn [SchemaValidate.cycle_from] in *. destruct (eqb y w); cbn; split; auto.
  Qed.

  Lemma cycle_from_last y p d : memA y p = true -> last (cycle_from y p) d = y.
  Proof.
    induction p as [|z p IH]; intro H; cbn in H; [discriminate|].
    cbn [SchemaValidate.cycle_from]. destruct (eqb y z) eqn:E.
    - apply eqb_spec in E. subst. reflexivity.
    - cbn in H. specialize (IH H).
      destruct (cycle_from y p) as [|w q] eqn:Eq.
      + destruct p as [|w p]; [discriminate|]. cbn in Eq. destruct (eqb y w); discriminate.
      + exact IH.
  Qed.

  Lemma cycle_from_is_cycle y x p :
    chain (x :: p) -> memA y (x :: p) = true -> edge x y -> is_cycle (cycle_from y (x :: p)).
  Proof.
    intros Hc Hm He.
    pose proof (cycle_from_chain y _ Hc) as H1.
    pose proof (cycle_from_last y _ x Hm) as H2.
    cbn [SchemaValidate.cycle_from] in *. destruct (eqb y x) eqn:E.
    - cbn. split; [exact I|]. apply eqb_spec in E. subst. exact He.
    - cbn [is_cycle]. split; [exact H1|]. rewrite H2. exact He.
  Qed.

  Lemma loop_sound rec x p :
    chain (x :: p) ->
    (forall y st st', edge x y -> Forall is_cycle (d_reports st) -> rec y st = Some st' ->
                      Forall is_cycle (d_reports st')) ->
    forall ys st st', (forall y, In y ys -> edge x y) -> Forall is_cycle (d_reports st) ->
      loop rec (x :: p) ys st = Some st' -> Forall is_cycle (d_reports st').
  Proof.
    intros Hc Hrec ys. induction ys as [|y ys IH]; intros st st' Hys Hf H; cbn [SchemaValidate.loop] in H.
    - inversion H; subst. exact Hf.
    - assert (He : edge x y) by (apply Hys; left; reflexivity).
      assert (Hys' : forall z, In z ys -> edge x z) by (intros z Hz; apply Hys; right; exact Hz).
      unfold SchemaValidate.step in H.
      destruct (memA y (x :: p)) eqn:E1.
      + eapply IH; [exact Hys' | | exact H]. cbn. constructor; [|exact Hf].
        apply cycle_from_is_cycle; assumption.
      + destruct (memA y (d_visited st)); [eapply IH; eassumption|].
        destruct (rec y st) as [st1|] eqn:E; [|discriminate].
        eapply IH; [exact Hys' | | exact H]. eapply Hrec; eassumption.
  Qed.

  Lemma dfs_sound fuel : forall p x st st',
    chain (x :: p) -> Forall is_cycle (d_reports st) -> dfs fuel p x st = Some st' ->
    Forall is_cycle (d_reports st').
  Proof.
    induction fuel as [|f IHf]; intros p x st st' Hc Hf H; cbn [SchemaValidate.dfs] in H; [discriminate|].
    destruct (loop (SchemaValidate.dfs A eqb succ f (x :: p)) (x :: p) (succ x) (mark A x st)) as [st1|] eqn:E;
      [|discriminate].
    inversion H; subst. cbn.
    eapply (loop_sound _ x p Hc) in E; [exact E | | | exact Hf].
    - intros y s s' He Hs Hr. eapply IHf; [|exact Hs|exact Hr].
      cbn. split; [exact He|]. exact Hc.
    - intros y Hy. exact Hy.
  Qed.

  Theorem dfs_all_sound fuel : forall roots st st',
    Forall is_cycle (d_reports st) -> dfs_all fuel roots st = Some st' ->
    Forall is_cycle (d_reports st').
  Proof.
    induction roots as [|r roots IH]; intros st st' Hf H; cbn [SchemaValidate.dfs_all] in H.
    - inversion H; subst. exact Hf.
    - destruct (memA r (d_visited st)); [eapply IH; eassumption|].
      destruct (dfs fuel [] r st) as [st1|] eqn:E; [|discriminate].
      eapply IH; [|exact H]. eapply dfs_sound; [|exact Hf|exact E]. cbn. exact I.
  Qed.

  (* a non-empty path in the graph *)
  Inductive reach : A -> A -> Prop :=
  | reach_one a b : edge a b -> reach a b
  | reach_step a b c : edge a b -> reach b c -> reach a c.

  Lemma reach_snoc a b c : reach a b -> edge b c -> reach a c.
  Proof.
    intros H He. induction H as [a b H|a b b' H _ IH].
    - eapply reach_step; [exact H | apply reach_one; exact He].
    - eapply reach_step; [exact H | apply IH; exact He].
  Qed.

  Lemma last_cons (l : list A) : forall a b, last (b :: l) a = last l b.
  Proof.
    induction l as [|c l IH]; intros a b; [reflexivity|].
    change (last (b :: c :: l) a) with (last (c :: l) a).
    rewrite (IH a c), (IH b c). reflexivity.
  Qed.

  Lemma chain_reach l : forall a, chain (a :: l) -> last l a = a \/ reach (last l a) a.
  Proof.
    induction l as [|b l IH]; intros a H.
    - left. reflexivity.
    - cbn in H. destruct H as [He Hc]. specialize (IH b Hc).
      rewrite last_cons. right. destruct IH as [IH|IH].
      + rewrite IH. apply reach_one. exact He.
      + eapply reach_snoc; eassumption.
  Qed.

  Lemma is_cycle_reach c : is_cycle c -> exists x, reach x x.
  Proof.
    destruct c as [|top l]; [intros []|]. intros [Hc He]. exists top.
    rewrite last_cons in He.
    destruct (chain_reach l top Hc) as [H|H].
    - rewrite H in He. apply reach_one. exact He.
    - eapply reach_step; eassumption.
  Qed.

  (* ---------------------------------------------------------------- completeness *)
  Fixpoint topo (l : list A) : Prop :=
    match l with
    | [] => True
    | x :: r => ~ In x r /\ (forall s, edge x s -> In s r) /\ topo r
    end.

  Lemma topo_closed l : topo l -> forall x s, In x l -> edge x s -> In s l.
  Proof.
    induction l as [|a l IH]; intros H x s Hx He; [destruct Hx|].
    destruct H as [_ [H2 H3]]. destruct Hx as [->|Hx].
    - right. apply H2. exact He.
    - right. eapply IH; eassumption.
  Qed.

  Lemma reach_closed l : topo l -> forall x y, reach x y -> In x l -> In y l.
  Proof.
    intros Ht x y H. induction H as [a b H|a b c H _ IH]; intro Hx.
    - eapply topo_closed; eassumption.
    - apply IH. eapply topo_closed; eassumption.
  Qed.

  Lemma topo_acyclic l : topo l -> forall x, In x l -> ~ reach x x.
  Proof.
    induction l as [|a l IH]; intros Ht x Hx Hr; [destruct Hx|].
    destruct Ht as [H1 [H2 H3]]. destruct Hx as [->|Hx].
    - apply H1. inversion Hr as [? ? He|? b ? He Hr']; subst.
      + apply H2. exact He.
      + eapply reach_closed; [exact H3 | exact Hr' | apply H2; exact He].
    - eapply IH; eassumption.
  Qed.

  Record Inv (p : list A) (st : dstate) : Prop := mkInv
    { inv_vis : forall a, In a (d_visited st) -> In a p \/ In a (d_done st);
      inv_path : forall a, In a p -> In a (d_visited st);
      inv_disj : forall a, In a p -> ~ In a (d_done st);
      inv_done : forall a, In a (d_done st) -> In a (d_visited st);
      inv_topo : topo (d_done st) }.

  Lemma app_nil_r_inv {B} (l r : list B) : l ++ r = [] -> r = [].
  Proof. intro H. apply app_eq_nil in H. tauto. Qed.

  Lemma loop_complete rec p :
    (forall y st st', rec y st = Some st' -> exists l, d_reports st' = l ++ d_reports st) ->
    (forall y st st', rec y st = Some st' -> d_reports st' = [] -> Inv p st ->
        ~ In y (d_visited st) ->
        Inv p st' /\ In y (d_done st') /\ incl (d_done st) (d_done st')) ->
    forall ys st st', loop rec p ys st = Some st' -> d_reports st' = [] -> Inv p st ->
      Inv p st' /\ incl (d_done st) (d_done st') /\ (forall s, In s ys -> In s (d_done st')).
  Proof.
    intros Hmono Hrec ys. induction ys as [|y ys IH]; intros st st' H Hr Hi; cbn [SchemaValidate.loop] in H.
    - inversion H; subst. split; [exact Hi|]. split; [apply incl_refl|]. intros s [].
    - unfold SchemaValidate.step in H.
      destruct (memA y p) eqn:E1.
      + exfalso. apply (loop_reports_mono rec p Hmono) in H. destruct H as [l H]. cbn in H.
        rewrite Hr in H. symmetry in H. apply app_nil_r_inv in H. discriminate.
      + destruct (memA y (d_visited st)) eqn:E2.
        * destruct (IH st st' H Hr Hi) as [H1 [H2 H3]]. split; [exact H1|]. split; [exact H2|].
          intros s [<-|Hs]; [|apply H3; exact Hs].
          apply H2. apply memA_In in E2. apply memA_false in E1.
          destruct (inv_vis p st Hi y E2); [contradiction | assumption].
        * destruct (rec y st) as [st1|] eqn:E; [|discriminate].
          assert (Hr1 : d_reports st1 = []).
          { apply (loop_reports_mono rec p Hmono) in H. destruct H as [l H].
            rewrite Hr in H. symmetry in H. apply app_nil_r_inv in H. exact H. }
          apply memA_false in E2.
          destruct (Hrec y st st1 E Hr1 Hi E2) as [Hi1 [Hy Hinc]].
          destruct (IH st1 st' H Hr Hi1) as [H1 [H2 H3]]. split; [exact H1|].
          split; [eapply incl_tran; eassumption|].
          intros s [<-|Hs]; [apply H2; exact Hy | apply H3; exact Hs].
  Qed.

  Lemma dfs_complete fuel : forall p x st st',
    dfs fuel p x st = Some st' -> d_reports st' = [] -> Inv p st -> ~ In x (d_visited st) ->
    Inv p st' /\ In x (d_done st') /\ incl (d_done st) (d_done st').
  Proof.
    induction fuel as [|f IHf]; intros p x st st' H Hr Hi Hx; cbn [SchemaValidate.dfs] in H; [discriminate|].
    destruct (loop (SchemaValidate.dfs A eqb succ f (x :: p)) (x :: p) (succ x) (mark A x st)) as [st1|] eqn:E;
      [|discriminate].
    inversion H; subst. cbn in Hr.
    assert (Hi0 : Inv (x :: p) (mark A x st)).
    { destruct Hi as [I1 I2 I3 I4 I5]. constructor; cbn.
      - intros a [<-|Ha]; [left; left; reflexivity|].
        destruct (I1 a Ha); [left; right; assumption | right; assumption].
      - intros a [<-|Ha]; [left; reflexivity | right; apply I2; exact Ha].
      - intros a [<-|Ha]; [|apply I3; exact Ha]. intro Hd. apply Hx. apply I4. exact Hd.
      - intros a Ha. right. apply I4. exact Ha.
      - exact I5. }
    destruct (loop_complete _ (x :: p)
                (fun y s s' => dfs_reports_mono f (x :: p) y s s')
                (fun y s s' => IHf (x :: p) y s s')
                (succ x) (mark A x st) st1 E Hr Hi0) as [Hi1 [Hinc Hs]].
    destruct Hi1 as [J1 J2 J3 J4 J5]. destruct Hi as [I1 I2 I3 I4 I5].
    split; [constructor; cbn|split; [cbn; left; reflexivity|]].
    - intros a Ha. destruct (J1 a Ha) as [[<-|Hp]|Hd]; [right; left; reflexivity | left; exact Hp | right; right; exact Hd].
    - intros a Ha. apply J2. right. exact Ha.
    - intros a Ha [<-|Hd].
      + apply Hx. apply I2. exact Ha.
      + apply (J3 a); [right; exact Ha | exact Hd].
    - intros a [<-|Ha]; [apply J2; left; reflexivity | apply J4; exact Ha].
    - split; [apply J3; left; reflexivity|]. split; [|exact J5].
      intros s He. apply Hs. exact He.
    - cbn. intros a Ha. right. apply Hinc. exact Ha.
  Qed.

  Lemma dfs_all_complete fuel : forall roots st st',
    dfs_all fuel roots st = Some st' -> d_reports st' = [] -> Inv [] st ->
    Inv [] st' /\ incl (d_done st) (d_done st') /\ (forall r, In r roots -> In r (d_done st')).
  Proof.
    induction roots as [|r roots IH]; intros st st' H Hr Hi; cbn [SchemaValidate.dfs_all] in H.
    - inversion H; subst. split; [exact Hi|]. split; [apply incl_refl|]. intros r [].
    - destruct (memA r (d_visited st)) eqn:E.
      + destruct (IH st st' H Hr Hi) as [H1 [H2 H3]]. split; [exact H1|]. split; [exact H2|].
        intros s [<-|Hs]; [|apply H3; exact Hs]. apply H2. apply memA_In in E.
        destruct (inv_vis [] st Hi r E) as [[]|Hd]. exact Hd.
      + destruct (dfs fuel [] r st) as [st1|] eqn:E1; [|discriminate].
        assert (Hr1 : d_reports st1 = []).
        { apply dfs_all_reports_mono in H. destruct H as [l H]. rewrite Hr in H.
          symmetry in H. apply app_nil_r_inv in H. exact H. }
        apply memA_false in E.
        destruct (dfs_complete fuel [] r st st1 E1 Hr1 Hi E) as [Hi1 [Hy Hinc]].
        destruct (IH st1 st' H Hr Hi1) as [H1 [H2 H3]]. split; [exact H1|].
        split; [eapply incl_tran; eassumption|].
        intros s [<-|Hs]; [apply H2; exact Hy | apply H3; exact Hs].
  Qed.

  Lemma Inv0 : Inv [] dstate0.
  Proof. constructor; cbn; try tauto. Qed.

  (* if every node with a successor is a root and nothing is reported, the graph is acyclic *)
  Theorem dfs_all_complete_acyclic fuel roots st :
    (forall x s, edge x s -> In x roots) ->
    dfs_all fuel roots dstate0 = Some st -> d_reports st = [] ->
    forall x, ~ reach x x.
  Proof.
    intros Hroots H Hr x Hx.
    destruct (dfs_all_complete fuel roots dstate0 st H Hr Inv0) as [Hi [_ Hd]].
    assert (Hin : In x roots).
    { inversion Hx as [? ? He|? b ? He _]; subst; eapply Hroots; exact He. }
    eapply topo_acyclic; [exact (inv_topo [] st Hi) | apply Hd; exact Hin | exact Hx].
  Qed.

  Theorem dfs_all_sound_reach fuel roots st :
    dfs_all fuel roots dstate0 = Some st -> d_reports st <> [] -> exists x, reach x x.
  Proof.
    intros H Hr. pose proof (dfs_all_sound fuel roots dstate0 st (Forall_nil _) H) as Hf.
    destruct (d_reports st) as [|c l]; [congruence|]. inversion Hf; subst.
    eapply is_cycle_reach; eassumption.
  Qed.
End DFSProps.

Arguments edge {A}.
Arguments reach {A}.
Arguments is_cycle {A}.

(* ================================================================== the two detectors *)

Lemma lookup_in_In ts n d : lookup_in ts n = Some d -> In (n, d) ts.
Proof.
  induction ts as [|[m e] ts IH]; cbn [lookup_in]; [discriminate|].
  destruct (n =? m) eqn:E.
  - intro H. inversion H; subst. apply N.eqb_eq in E. subst. left. reflexivity.
  - intro H. right. apply IH. exact H.
Qed.

Definition type_names (rs : raw_schema) : list N := map fst (s_types rs).

Lemma input_fields_nonempty_name rs n f :
  In f (input_fields_of rs n) -> In n (input_object_names rs).
Proof.
  unfold input_fields_of, lookup. destruct (lookup_in (s_types rs) n) as [d|] eqn:E; [|intros []].
  destruct d; try (intros []). intros _. apply lookup_in_In in E.
  unfold input_object_names. apply in_flat_map. eexists. split; [exact E|]. cbn. left. reflexivity.
Qed.

Lemma is_input_object_name rs n : is_input_object rs n = true -> In n (input_object_names rs).
Proof.
  unfold is_input_object, lookup. destruct (lookup_in (s_types rs) n) as [d|] eqn:E; [|discriminate].
  destruct d; try discriminate. intros _. apply lookup_in_In in E.
  unfold input_object_names. apply in_flat_map. eexists. split; [exact E|]. cbn. left. reflexivity.
Qed.

Lemma input_object_names_incl rs : incl (input_object_names rs) (type_names rs).
Proof.
  intros n H. unfold input_object_names in H. apply in_flat_map in H.
  destruct H as [[m d] [H1 H2]]. destruct d; cbn in H2; try contradiction.
  destruct H2 as [<-|[]]. unfold type_names. apply in_map_iff. eexists. split; [|exact H1]. reflexivity.
Qed.

Lemma nn_succ_spec rs n m :
  In m (nn_succ rs n) <->
  exists f, In f (input_fields_of rs n) /\ iv_type f = TNonNull (TNamed m) /\ is_input_object rs m = true.
Proof.
  unfold nn_succ. rewrite in_flat_map. split.
  - intros [f [H1 H2]]. exists f. split; [exact H1|]. unfold nn_target in H2.
    destruct (iv_type f) as [|?|t]; try contradiction. destruct t as [k| |]; try contradiction.
    destruct (is_input_object rs k) eqn:E; [|contradiction]. destruct H2 as [<-|[]]. auto.
  - intros [f [H1 [H2 H3]]]. exists f. split; [exact H1|]. unfold nn_target. rewrite H2, H3. left. reflexivity.
Qed.

Lemma nn_closed rs a : In a (type_names rs) -> incl (nn_succ rs a) (type_names rs).
Proof.
  intros _ m H. apply nn_succ_spec in H. destruct H as [f [_ [_ H]]].
  apply input_object_names_incl. apply is_input_object_name. exact H.
Qed.

Theorem nn_detect_terminates rs : exists st, nn_detect rs = Some st.
Proof.
  unfold nn_detect.
  destruct (dfs_all_fuel_suffices N N.eqb N.eqb_eq (nn_succ rs) (type_names rs) (nn_closed rs)
              (input_object_names rs) (input_object_names_incl rs)) as [st H].
  unfold type_names in H. rewrite map_length in H. exists st. exact H.
Qed.

Theorem nn_detect_sound rs st :
  nn_detect rs = Some st -> Forall (is_cycle (nn_succ rs)) (d_reports st).
Proof. unfold nn_detect. apply dfs_all_sound; [exact N.eqb_eq | constructor]. Qed.

Lemma nn_roots rs x s : edge (nn_succ rs) x s -> In x (input_object_names rs).
Proof.
  unfold edge. intro H. apply nn_succ_spec in H. destruct H as [f [H _]].
  eapply input_fields_nonempty_name. exact H.
Qed.

Theorem nn_detect_complete rs st :
  nn_detect rs = Some st -> d_reports st = [] -> forall n, ~ reach (nn_succ rs) n n.
Proof.
  unfold nn_detect. intros H Hr.
  eapply dfs_all_complete_acyclic; [exact N.eqb_eq | exact (nn_roots rs) | exact H | exact Hr].
Qed.

(* --- default value cycles *)

Section LitInd.
  Variable P : lit -> Prop.
  Hypothesis Hnull : P LNull.
  Hypothesis Hint : forall b m, P (LInt b m).
  Hypothesis Hfloat : P LFloat.
  Hypothesis Hstr : P LStr.
  Hypothesis Hbool : forall b, P (LBool b).
  Hypothesis Henum : forall n, P (LEnum n).
  Hypothesis Hlist : forall vs, Forall P vs -> P (LList vs).
  Hypothesis Hobj : forall kvs, Forall (fun kv => P (snd kv)) kvs -> P (LObj kvs).

  Fixpoint lit_ind' (v : lit) : P v :=
    match v with
    | LNull => Hnull
    | LInt b m => Hint b m
    | LFloat => Hfloat
    | LStr => Hstr
    | LBool b => Hbool b
    | LEnum n => Henum n
    | LList vs =>
        Hlist vs ((fix go (l : list lit) : Forall P l :=
                     match l with
                     | [] => Forall_nil _
                     | x :: l' => Forall_cons x (lit_ind' x) (go l')
                     end) vs)
    | LObj kvs =>
        Hobj kvs ((fix go (l : list (N * lit)) : Forall (fun kv => P (snd kv)) l :=
                     match l with
                     | [] => Forall_nil _
                     | kv :: l' => Forall_cons kv (lit_ind' (snd kv)) (go l')
                     end) kvs)
    end.
End LitInd.

Lemma fnode_eqb_spec a b : fnode_eqb a b = true <-> a = b.
Proof.
  destruct a as [a1 a2], b as [b1 b2]. unfold fnode_eqb. cbn.
  rewrite andb_true_iff, !N.eqb_eq. split; [intros [-> ->]; reflexivity | intro H; inversion H; auto].
Qed.

Lemma input_field_node rs ty f :
  In f (input_fields_of rs ty) -> In (ty, iv_name f) (all_input_fields rs).
Proof.
  intro H. unfold all_input_fields. apply in_flat_map. exists ty. split.
  - eapply input_fields_nonempty_name. exact H.
  - apply in_map_iff. exists f. auto.
Qed.

Lemma dv_walk_in rs v : forall ty nd, In nd (dv_walk rs v ty) -> In nd (all_input_fields rs).
Proof.
  induction v as [ | b m | | | b | n | vs IHF | kvs IHF] using lit_ind'; intros ty nd H;
    try (cbn in H; contradiction).
  - (* list *)
    cbn [dv_walk] in H. induction vs as [|x vs IHvs]; [destruct H|].
    inversion IHF as [|? ? Hx Hvs]; subst. apply in_app_or in H. destruct H as [H|H].
    + eapply Hx. exact H.
    + apply IHvs; assumption.
  - (* object *)
    cbn [dv_walk] in H. apply in_app_or in H. destruct H as [H|H].
    + clear - H IHF. induction kvs as [|[k x] kvs IHk]; [destruct H|].
      inversion IHF as [|? ? Hx Hvs]; subst. apply in_app_or in H. destruct H as [H|H].
      * destruct (find_inval k (input_fields_of rs ty)) as [f|]; [|destruct H].
        destruct (is_input_object rs (named_of (iv_type f))); [|destruct H].
        cbn in Hx. eapply Hx. exact H.
      * apply IHk; assumption.
    + apply in_flat_map in H. destruct H as [f [Hf H]].
      destruct (is_input_object rs (named_of (iv_type f)) && negb (memN (iv_name f) (keys kvs))
                && match lit_default f with Some _ => true | None => false end); [|destruct H].
      destruct H as [<-|[]]. apply input_field_node. exact Hf.
Qed.

Lemma dv_succ_in rs nd : incl (dv_succ rs nd) (all_input_fields rs).
Proof.
  intros x H. unfold dv_succ in H.
  destruct (find_inval (snd nd) (input_fields_of rs (fst nd))) as [f|]; [|destruct H].
  destruct (lit_default f) as [v|]; [|destruct H].
  destruct (is_input_object rs (named_of (iv_type f))); [|destruct H].
  eapply dv_walk_in. exact H.
Qed.

Lemma dv_roots_incl rs : incl (dv_roots rs) (all_input_fields rs).
Proof.
  intros x H. unfold dv_roots in H. apply in_flat_map in H. destruct H as [n [_ H]].
  eapply dv_walk_in. exact H.
Qed.

Theorem dv_detect_terminates rs : exists st, dv_detect rs = Some st.
Proof.
  unfold dv_detect.
  apply (dfs_all_fuel_suffices fnode fnode_eqb fnode_eqb_spec (dv_succ rs) (all_input_fields rs)
           (fun a _ => dv_succ_in rs a) (dv_roots rs) (dv_roots_incl rs)).
Qed.

Theorem dv_detect_sound rs st :
  dv_detect rs = Some st -> Forall (is_cycle (dv_succ rs)) (d_reports st).
Proof. unfold dv_detect. apply dfs_all_sound; [exact fnode_eqb_spec | constructor]. Qed.

Lemma find_inval_In n l f : find_inval n l = Some f -> In f l /\ iv_name f = n.
Proof.
  induction l as [|a l IH]; cbn [find_inval]; [discriminate|].
  destruct (n =? iv_name a) eqn:E.
  - intro H. inversion H; subst. apply N.eqb_eq in E. split; [left; reflexivity | auto].
  - intro H. destruct (IH H). split; [right|]; assumption.
Qed.

Lemma dv_roots_cover rs x s : edge (dv_succ rs) x s -> In x (dv_roots rs).
Proof.
  unfold edge, dv_succ. destruct x as [ty g]. cbn [fst snd].
  destruct (find_inval g (input_fields_of rs ty)) as [f|] eqn:Ef; [|intros []].
  destruct (lit_default f) as [v|] eqn:Ed; [|intros []].
  destruct (is_input_object rs (named_of (iv_type f))) eqn:Ei; [|intros []].
  intros _. apply find_inval_In in Ef. destruct Ef as [Hf Hn].
  unfold dv_roots. apply in_flat_map. exists ty. split.
  - eapply input_fields_nonempty_name. exact Hf.
  - cbn [dv_walk]. cbn [app]. apply in_flat_map. exists f. split; [exact Hf|].
    rewrite Ei, Ed. cbn. left. rewrite Hn. reflexivity.
Qed.

Theorem dv_detect_complete rs st :
  dv_detect rs = Some st -> d_reports st = [] -> forall nd, ~ reach (dv_succ rs) nd nd.
Proof.
  unfold dv_detect. intros H Hr.
  eapply dfs_all_complete_acyclic; [exact fnode_eqb_spec | exact (dv_roots_cover rs) | exact H | exact Hr].
Qed.
