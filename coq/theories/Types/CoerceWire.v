(* Wire codec for input types, literals, schemas, environments and results (Run/RunCoerce.v). *)
From GV Require Import Base.Prelude Types.Scalars Types.ScalarsWire Types.Coerce.

Fixpoint dec_ityp (fuel : nat) (l : list N) : option (ityp * list N) :=
  match fuel with
  | O => None
  | S f =>
    match l with
    | 0 :: r => match dec_text r with Some (n, r') => Some (TNamed n, r') | None => None end
    | 1 :: r => match dec_ityp f r with Some (t, r') => Some (TList t, r') | None => None end
    | 2 :: r => match dec_ityp f r with Some (t, r') => Some (TNonNull t, r') | None => None end
    | _ => None
    end
  end.

Fixpoint dec_lit (fuel : nat) (l : list N) : option (lit * list N) :=
  match fuel with
  | O => None
  | S f =>
    match l with
    | 0 :: r => match dec_text r with Some (n, r') => Some (LVar n, r') | None => None end
    | 1 :: r => Some (LNull, r)
    | 2 :: r => match dec_text r with Some (n, r') => Some (LInt n, r') | None => None end
    | 3 :: r => match dec_text r with Some (n, r') => Some (LFloat n, r') | None => None end
    | 4 :: r => match dec_text r with Some (n, r') => Some (LString n, r') | None => None end
    | 5 :: b :: r => Some (LBool (negb (b =? 0)), r)
    | 6 :: r => match dec_text r with Some (n, r') => Some (LEnum n, r') | None => None end
    | 7 :: n :: r =>
        match (fix items (cnt : nat) (l : list N) : option (list lit * list N) :=
                 match cnt with
                 | O => Some ([], l)
                 | S c => match dec_lit f l with
                          | Some (x, l') => match items c l' with
                                            | Some (xs, l'') => Some (x :: xs, l'')
                                            | None => None
                                            end
                          | None => None
                          end
                 end) (N.to_nat n) r with
        | Some (xs, r') => Some (LList xs, r')
        | None => None
        end
    | 8 :: n :: r =>
        match (fix items (cnt : nat) (l : list N) : option (list (text * lit) * list N) :=
                 match cnt with
                 | O => Some ([], l)
                 | S c => match dec_text l with
                          | Some (k, l1) =>
                              match dec_lit f l1 with
                              | Some (x, l') => match items c l' with
                                                | Some (xs, l'') => Some ((k, x) :: xs, l'')
                                                | None => None
                                                end
                              | None => None
                              end
                          | None => None
                          end
                 end) (N.to_nat n) r with
        | Some (xs, r') => Some (LObject xs, r')
        | None => None
        end
    | _ => None
    end
  end.

(* n items, each decoded by [d] *)
Fixpoint dec_many {A} (d : list N -> option (A * list N)) (cnt : nat) (l : list N)
  : option (list A * list N) :=
  match cnt with
  | O => Some ([], l)
  | S c => match d l with
           | Some (x, l') => match dec_many d c l' with
                             | Some (xs, l'') => Some (x :: xs, l'')
                             | None => None
                             end
           | None => None
           end
  end.

Definition dec_list {A} (d : list N -> option (A * list N)) (l : list N) : option (list A * list N) :=
  match l with
  | n :: r => dec_many d (N.to_nat n) r
  | [] => None
  end.

Definition dec_pair {A B} (da : list N -> option (A * list N)) (db : list N -> option (B * list N))
    (l : list N) : option ((A * B) * list N) :=
  match da l with
  | Some (a, l1) => match db l1 with
                    | Some (b, l2) => Some ((a, b), l2)
                    | None => None
                    end
  | None => None
  end.

Definition dec_field (l : list N) : option (field * list N) :=
  match dec_text l with
  | Some (n, l1) =>
      match dec_ityp WIRE_FUEL l1 with
      | Some (t, l2) =>
          match dec_opt (dec_lit WIRE_FUEL) l2 with
          | Some (d, l3) => Some (mkField n t d, l3)
          | None => None
          end
      | None => None
      end
  | None => None
  end.

Definition dec_scalar (n : N) : option scalar :=
  match n with
  | 0 => Some SInt | 1 => Some SFloat | 2 => Some SString | 3 => Some SBoolean | 4 => Some SID
  | _ => None
  end.

Definition dec_tdef (l : list N) : option (tdef * list N) :=
  match l with
  | 0 :: sc :: r => match dec_scalar sc with Some s => Some (DScalar s, r) | None => None end
  | 1 :: r => match dec_list (dec_pair dec_text (dec_val WIRE_FUEL)) r with
              | Some (e, r') => Some (DEnum e, r')
              | None => None
              end
  | 2 :: o :: r => match dec_list dec_field r with
                   | Some (fs, r') => Some (DInput (negb (o =? 0)) fs, r')
                   | None => None
                   end
  | _ => None
  end.

Definition dec_schema : list N -> option (schema * list N) := dec_list (dec_pair dec_text dec_tdef).
Definition dec_env : list N -> option (env * list N) := dec_list (dec_pair dec_text (dec_val WIRE_FUEL)).

Definition dec_vardef (l : list N) : option (vardef * list N) :=
  match dec_field l with
  | Some (fd, r) => Some (mkVar (f_name fd) (f_type fd) (f_default fd), r)
  | None => None
  end.

(* oracle tables *)
Definition parse_tbl := list (text * option pyfloat).
Definition str_tbl := list (pyfloat * text).

Definition dec_parse_tbl : list N -> option (parse_tbl * list N) :=
  dec_list (dec_pair dec_text (dec_opt dec_float)).
Definition dec_str_tbl : list N -> option (str_tbl * list N) :=
  dec_list (dec_pair dec_float dec_text).

Definition tbl_parse (tb : parse_tbl) (s : text) : option pyfloat :=
  match assoc s tb with Some o => o | None => None end.

Fixpoint tbl_str (tb : str_tbl) (x : pyfloat) : text :=
  match tb with
  | [] => []
  | (y, s) :: r => if nat_list_eqb (enc_float x) (enc_float y) then s else tbl_str r x
  end.

(* ---------------------------------------------------------------- encoders *)

Fixpoint enc_ityp (t : ityp) : list N :=
  match t with
  | TNamed n => 0 :: enc_text n
  | TList t' => 1 :: enc_ityp t'
  | TNonNull t' => 2 :: enc_ityp t'
  end.

Fixpoint enc_lit (l : lit) : list N :=
  match l with
  | LVar n => 0 :: enc_text n
  | LNull => [1]
  | LInt s => 2 :: enc_text s
  | LFloat s => 3 :: enc_text s
  | LString s => 4 :: enc_text s
  | LBool b => [5; enc_bool b]
  | LEnum n => 6 :: enc_text n
  | LList xs =>
      7 :: N.of_nat (length xs) ::
      (fix go (xs : list lit) : list N :=
         match xs with [] => [] | x :: r => enc_lit x ++ go r end) xs
  | LObject fs =>
      8 :: N.of_nat (length fs) ::
      (fix go (fs : list (text * lit)) : list N :=
         match fs with [] => [] | (k, x) :: r => enc_text k ++ enc_lit x ++ go r end) fs
  end.

Definition enc_result {A} (e : A -> list N) (r : result A) : list N :=
  match r with
  | Good a => 0 :: e a
  | Invalid => [1]
  | Crash => [2]
  | Fuel => [3]
  end.

Definition enc_seg (sg : pseg) : list N :=
  match sg with
  | PName n => 0 :: enc_text n
  | PIdx i => [1; N.of_nat i]
  end.

Definition enc_path (p : path) : list N := N.of_nat (length p) :: flat_map enc_seg p.

Definition enc_paths (o : option (list path)) : list N :=
  match o with
  | Some ps => 0 :: N.of_nat (length ps) :: flat_map enc_path ps
  | None => [3]
  end.

Definition enc_env (e : env) : list N :=
  N.of_nat (length e) :: flat_map (fun kv => enc_text (fst kv) ++ enc_val (snd kv)) e.

Definition enc_vars_result (r : vars_result) : list N :=
  match r with
  | VValues cs => 0 :: enc_env cs
  | VErrors es => 1 :: N.of_nat (length es) :: flat_map (fun e => enc_text (fst e) ++ enc_path (snd e)) es
  | VCrash => [2]
  | VFuel => [3]
  end.

(* a block = length-prefixed answer, so that several answers fit in one reply *)
Definition block (l : list N) : list N := N.of_nat (length l) :: l.
