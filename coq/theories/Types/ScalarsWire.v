(* Wire codec for [pyval] (flat lists of N) - used by Run/RunScalars.v and Run/RunCoerce.v.
   Big numbers are little-endian limbs of 32 bits.  Floats are written normalised
   (odd mantissa, or mantissa 0 with exponent 0) so that the harness compares exact values. *)
From GV Require Import Base.Prelude Types.Scalars.

Definition LIMB : N := 4294967296.

Fixpoint limbs_val (l : list N) : N :=
  match l with
  | [] => 0
  | x :: r => x + LIMB * limbs_val r
  end.

Fixpoint take_n {A} (n : nat) (l : list A) : option (list A * list A) :=
  match n with
  | O => Some ([], l)
  | S k =>
      match l with
      | [] => None
      | x :: r => match take_n k r with
                  | Some (a, b) => Some (x :: a, b)
                  | None => None
                  end
      end
  end.

Definition dec_big (l : list N) : option (N * list N) :=
  match l with
  | n :: r => match take_n (N.to_nat n) r with
              | Some (ls, r') => Some (limbs_val ls, r')
              | None => None
              end
  | [] => None
  end.

Definition dec_Z (l : list N) : option (Z * list N) :=
  match l with
  | s :: r => match dec_big r with
              | Some (n, r') => Some (if s =? 0 then Z.of_N n else (- Z.of_N n)%Z, r')
              | None => None
              end
  | [] => None
  end.

Definition dec_text (l : list N) : option (text * list N) :=
  match l with
  | n :: r => take_n (N.to_nat n) r
  | [] => None
  end.

Definition dec_float (l : list N) : option (pyfloat * list N) :=
  match l with
  | 0 :: r => Some (FNan, r)
  | 1 :: s :: r => Some (FInf (negb (s =? 0)), r)
  | 2 :: s :: r =>
      match dec_big r with
      | Some (m, r') =>
          match dec_Z r' with
          | Some (e, r'') => Some (f_norm (FFin (negb (s =? 0)) m e), r'')
          | None => None
          end
      | None => None
      end
  | _ => None
  end.

Fixpoint dec_val (fuel : nat) (l : list N) : option (pyval * list N) :=
  match fuel with
  | O => None
  | S f =>
    match l with
    | 0 :: r => Some (PNone, r)
    | 1 :: r => Some (PUndef, r)
    | 2 :: b :: r => Some (PBool (negb (b =? 0)), r)
    | 3 :: r => match dec_Z r with Some (z, r') => Some (PInt z, r') | None => None end
    | 4 :: r => match dec_float r with Some (x, r') => Some (PFloat x, r') | None => None end
    | 5 :: r => match dec_text r with Some (s, r') => Some (PStr s, r') | None => None end
    | 6 :: r => match dec_text r with Some (s, r') => Some (PBytes s, r') | None => None end
    | 7 :: n :: r =>
        match (fix items (cnt : nat) (l : list N) : option (list pyval * list N) :=
                 match cnt with
                 | O => Some ([], l)
                 | S c => match dec_val f l with
                          | Some (x, l') => match items c l' with
                                            | Some (xs, l'') => Some (x :: xs, l'')
                                            | None => None
                                            end
                          | None => None
                          end
                 end) (N.to_nat n) r with
        | Some (xs, r') => Some (PList xs, r')
        | None => None
        end
    | 8 :: n :: r =>
        match (fix items (cnt : nat) (l : list N) : option (list (text * pyval) * list N) :=
                 match cnt with
                 | O => Some ([], l)
                 | S c => match dec_text l with
                          | Some (k, l1) =>
                              match dec_val f l1 with
                              | Some (x, l') => match items c l' with
                                                | Some (xs, l'') => Some ((k, x) :: xs, l'')
                                                | None => None
                                                end
                              | None => None
                              end
                          | None => None
                          end
                 end) (N.to_nat n) r with
        | Some (xs, r') => Some (PDict xs, r')
        | None => None
        end
    | 10 :: n :: r =>
        match (fix items (cnt : nat) (l : list N) : option (list pyval * list N) :=
                 match cnt with
                 | O => Some ([], l)
                 | S c => match dec_val f l with
                          | Some (x, l') => match items c l' with
                                            | Some (xs, l'') => Some (x :: xs, l'')
                                            | None => None
                                            end
                          | None => None
                          end
                 end) (N.to_nat n) r with
        | Some (xs, r') => Some (PTuple xs, r')
        | None => None
        end
    | 9 :: id :: b :: r =>
        match dec_text r with Some (s, r') => Some (PObj id (negb (b =? 0)) s, r') | None => None end
    | _ => None
    end
  end.

(* ---------------------------------------------------------------- encoding *)

Fixpoint limbs_of (fuel : nat) (n : N) : list N :=
  match fuel with
  | O => []
  | S f => if n =? 0 then [] else let (q, r) := N.div_eucl n LIMB in r :: limbs_of f q
  end.

Definition enc_big (n : N) : list N :=
  let ls := limbs_of (S (N.to_nat (N.log2 n))) n in
  N.of_nat (length ls) :: ls.

Definition enc_Z (z : Z) : list N :=
  (if (z <? 0)%Z then 1 else 0) :: enc_big (Z.abs_N z).

Definition enc_text (s : text) : list N := N.of_nat (length s) :: s.

Definition enc_bool (b : bool) : N := if b then 1 else 0.

Definition enc_float (x : pyfloat) : list N :=
  match x with
  | FNan => [0]
  | FInf s => [1; enc_bool s]
  | FFin s m e =>
      match m with
      | N0 => 2 :: enc_bool s :: enc_big 0 ++ enc_Z 0
      | Npos p => 2 :: enc_bool s :: enc_big (Npos (odd_part p)) ++ enc_Z (e + trailing_zeros p)
      end
  end.

Fixpoint enc_val (v : pyval) : list N :=
  match v with
  | PNone => [0]
  | PUndef => [1]
  | PBool b => [2; enc_bool b]
  | PInt z => 3 :: enc_Z z
  | PFloat x => 4 :: enc_float x
  | PStr s => 5 :: enc_text s
  | PBytes s => 6 :: enc_text s
  | PList l =>
      7 :: N.of_nat (length l) ::
      (fix go (l : list pyval) : list N :=
         match l with [] => [] | x :: r => enc_val x ++ go r end) l
  | PTuple l =>
      10 :: N.of_nat (length l) ::
      (fix go (l : list pyval) : list N :=
         match l with [] => [] | x :: r => enc_val x ++ go r end) l
  | PDict d =>
      8 :: N.of_nat (length d) ::
      (fix go (d : list (text * pyval)) : list N :=
         match d with [] => [] | (k, x) :: r => enc_text k ++ enc_val x ++ go r end) d
  | PObj id b s => 9 :: id :: enc_bool b :: enc_text s
  end.

Definition enc_cres (r : cres) : list N :=
  match r with
  | COk v => 0 :: enc_val v
  | CErr => [1]
  end.

Definition dec_opt {A} (dec : list N -> option (A * list N)) (l : list N)
  : option (option A * list N) :=
  match l with
  | 0 :: r => Some (None, r)
  | 1 :: r => match dec r with Some (a, r') => Some (Some a, r') | None => None end
  | _ => None
  end.

Definition WIRE_FUEL : nat := 200.
