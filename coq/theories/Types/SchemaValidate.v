(* C20 - model of graphql/type/validate.py over RAW schemas.

   A raw schema is a table of named types whose references are plain names: a reference may
   resolve to a type of any kind (an object type in argument position, a union of scalars, a
   root operation type that is an input object, ...), exactly as the Python constructors allow.
   Names are interned numbers; the interning used by the harness makes a name odd iff the string
   starts with "__" (reserved by introspection).

   [validate] is written from the type-system rules of the specification / the rule order of
   validate.py; it returns the violated rule kinds (with repetitions, order not significant).
   Three pseudo kinds never stand for a rule:
     KCrash               - the place where validate.py calls assert_leaf_type (would raise)
     KOutOfFuel           - a cycle detector ran out of fuel
     KDefaultNotValidated - a default value met a type that is not an input type; it is not
                            validated there (the position error is reported by another rule)
   Definitions only; proofs are in SchemaValidateProps.v. *)
From GV Require Import Base.Prelude.

(* ------------------------------------------------------------------ raw schemas *)

Inductive tref : Type :=
| TNamed (n : N)
| TList (t : tref)
| TNonNull (t : tref).

(* const literals / external Python values used as default values *)
Inductive lit : Type :=
| LNull
| LInt (neg : bool) (mag : N)
| LFloat                       (* a non-integral float *)
| LStr                         (* a string that is not the name of an enum value *)
| LBool (b : bool)
| LEnum (n : N)
| LList (vs : list lit)
| LObj (kvs : list (N * lit)).

(* no default / deprecated internal `default_value=` (never validated) / `default=` *)
Inductive dflt : Type := DNone | DInternal | DLit (v : lit).

(* argument, directive argument or input field *)
Record inval : Type := mkInval
  { iv_name : N; iv_type : tref; iv_dep : bool; iv_default : dflt }.

Record field : Type := mkField
  { f_name : N; f_type : tref; f_dep : bool; f_args : list inval }.

Inductive ssort : Type := SInt | SFloat | SString | SBoolean | SID | SCustom.

Inductive tdef : Type :=
| DScalar (s : ssort)
| DObject (fs : list field) (ifs : list N)
| DInterface (fs : list field) (ifs : list N)
| DUnion (ms : list N)
| DEnum (vs : list N)
| DInput (oneof : bool) (fs : list inval)
| DBogus.                       (* an object in the type map that is not a GraphQL type *)

Record directive : Type := mkDir
  { d_name : N; d_isdir : bool (* false: not a GraphQLDirective object *);
    d_haslocs : bool; d_args : list inval }.

Record raw_schema : Type := mkSchema
  { s_types : list (N * tdef);
    s_query : option N; s_mutation : option N; s_subscription : option N;
    s_dirs : list directive }.

Inductive rule_kind : Type :=
| KMissingQuery | KRootNotObject | KRootsNotDistinct
| KReservedName | KDirectiveNoLocations
| KNotInputType | KNotOutputType | KRequiredDeprecated | KInvalidDefault
| KNoFields | KEmptyUnion | KEmptyEnum | KEmptyInput
| KImplementsNonInterface | KImplementsSelf | KDuplicateInterface | KMissingTransitive
| KMissingInterfaceField | KFieldNotCovariant | KMissingInterfaceArg | KArgNotInvariant
| KExtraRequiredArg | KDeprecatedImpl
| KNonObjectMember | KDuplicateMember
| KOneOfNonNull | KOneOfDefault
| KNonNullCycle | KDefaultCycle
| KNotNamedType | KNotDirective
| KCrash | KOutOfFuel | KDefaultNotValidated.

Definition kind_code (k : rule_kind) : N :=
  match k with
  | KMissingQuery => 1 | KRootNotObject => 2 | KRootsNotDistinct => 3
  | KReservedName => 4 | KDirectiveNoLocations => 5
  | KNotInputType => 6 | KNotOutputType => 7 | KRequiredDeprecated => 8 | KInvalidDefault => 9
  | KNoFields => 10 | KEmptyUnion => 11 | KEmptyEnum => 12 | KEmptyInput => 13
  | KImplementsNonInterface => 14 | KImplementsSelf => 15 | KDuplicateInterface => 16
  | KMissingTransitive => 17
  | KMissingInterfaceField => 18 | KFieldNotCovariant => 19 | KMissingInterfaceArg => 20
  | KArgNotInvariant => 21 | KExtraRequiredArg => 22 | KDeprecatedImpl => 23
  | KNonObjectMember => 24 | KDuplicateMember => 25
  | KOneOfNonNull => 26 | KOneOfDefault => 27
  | KNonNullCycle => 28 | KDefaultCycle => 29
  | KNotNamedType => 30 | KNotDirective => 31
  | KCrash => 90 | KOutOfFuel => 91 | KDefaultNotValidated => 92
  end.

(* ------------------------------------------------------------------ lookups *)

Fixpoint memN (x : N) (l : list N) : bool :=
  match l with [] => false | y :: l' => (x =? y) || memN x l' end.

Fixpoint nodupN (l : list N) : bool :=
  match l with [] => true | x :: l' => negb (memN x l') && nodupN l' end.

Definition reserved (n : N) : bool := N.odd n.

Fixpoint lookup_in (ts : list (N * tdef)) (n : N) : option tdef :=
  match ts with
  | [] => None
  | (m, d) :: ts' => if n =? m then Some d else lookup_in ts' n
  end.
Definition lookup (rs : raw_schema) (n : N) : option tdef := lookup_in (s_types rs) n.

Definition is_object (rs : raw_schema) (n : N) : bool :=
  match lookup rs n with Some (DObject _ _) => true | _ => false end.
Definition is_interface (rs : raw_schema) (n : N) : bool :=
  match lookup rs n with Some (DInterface _ _) => true | _ => false end.
Definition is_union (rs : raw_schema) (n : N) : bool :=
  match lookup rs n with Some (DUnion _) => true | _ => false end.
Definition is_input_object (rs : raw_schema) (n : N) : bool :=
  match lookup rs n with Some (DInput _ _) => true | _ => false end.

Definition is_input_named (rs : raw_schema) (n : N) : bool :=
  match lookup rs n with
  | Some (DScalar _) | Some (DEnum _) | Some (DInput _ _) => true
  | _ => false
  end.
Definition is_output_named (rs : raw_schema) (n : N) : bool :=
  match lookup rs n with
  | Some (DScalar _) | Some (DObject _ _) | Some (DInterface _ _) | Some (DUnion _)
  | Some (DEnum _) => true
  | _ => false
  end.

Fixpoint is_input_tref (rs : raw_schema) (t : tref) : bool :=
  match t with
  | TNamed n => is_input_named rs n
  | TList t' | TNonNull t' => is_input_tref rs t'
  end.
Fixpoint is_output_tref (rs : raw_schema) (t : tref) : bool :=
  match t with
  | TNamed n => is_output_named rs n
  | TList t' | TNonNull t' => is_output_tref rs t'
  end.

Fixpoint named_of (t : tref) : N :=
  match t with TNamed n => n | TList t' | TNonNull t' => named_of t' end.

Definition is_nonnull (t : tref) : bool :=
  match t with TNonNull _ => true | _ => false end.

Fixpoint tref_eqb (a b : tref) : bool :=
  match a, b with
  | TNamed n, TNamed m => n =? m
  | TList a', TList b' => tref_eqb a' b'
  | TNonNull a', TNonNull b' => tref_eqb a' b'
  | _, _ => false
  end.

Definition has_default (d : dflt) : bool :=
  match d with DNone => false | _ => true end.

(* is_required_argument / is_required_input_field *)
Definition required (iv : inval) : bool :=
  is_nonnull (iv_type iv) && negb (has_default (iv_default iv)).

Fixpoint find_field (n : N) (fs : list field) : option field :=
  match fs with
  | [] => None
  | f :: fs' => if n =? f_name f then Some f else find_field n fs'
  end.
Fixpoint find_inval (n : N) (l : list inval) : option inval :=
  match l with
  | [] => None
  | a :: l' => if n =? iv_name a then Some a else find_inval n l'
  end.

Definition fields_of (rs : raw_schema) (n : N) : list field :=
  match lookup rs n with
  | Some (DObject fs _) | Some (DInterface fs _) => fs
  | _ => []
  end.
Definition ifaces_of (rs : raw_schema) (n : N) : list N :=
  match lookup rs n with
  | Some (DObject _ is) | Some (DInterface _ is) => is
  | _ => []
  end.
Definition input_fields_of (rs : raw_schema) (n : N) : list inval :=
  match lookup rs n with Some (DInput _ fs) => fs | _ => [] end.

(* ------------------------------------------------------------------ type comparators *)

(* GraphQLSchema.is_sub_type(abstract, maybe_sub) *)
Definition is_sub_named (rs : raw_schema) (abstract sub : N) : bool :=
  match lookup rs abstract with
  | Some (DUnion ms) => memN sub ms
  | Some (DInterface _ _) => memN abstract (ifaces_of rs sub)
  | _ => false
  end.

(* utilities/type_comparators.is_type_sub_type_of *)
Fixpoint subtype (rs : raw_schema) (sub sup : tref) {struct sub} : bool :=
  match sup, sub with
  | TNonNull sp, TNonNull sb => subtype rs sb sp
  | TNonNull _, _ => false
  | _, TNonNull sb => subtype rs sb sup
  | TList sp, TList sb => subtype rs sb sp
  | TList _, _ => false
  | _, TList _ => false
  | TNamed p, TNamed b =>
      (b =? p)
      || ((is_interface rs p || is_union rs p)
          && (is_interface rs b || is_object rs b)
          && is_sub_named rs p b)
  end.

(* ------------------------------------------------------------------ default values *)

Inductive lres : Type := RValid | RInvalid | RSkipped | RAssert.

Definition lmax (a b : lres) : lres :=
  match a, b with
  | RAssert, _ | _, RAssert => RAssert
  | RSkipped, _ | _, RSkipped => RSkipped
  | RInvalid, _ | _, RInvalid => RInvalid
  | RValid, RValid => RValid
  end.

Definition ofb (b : bool) : lres := if b then RValid else RInvalid.

Definition int32 (neg : bool) (mag : N) : bool :=
  if neg then mag <=? 2147483648 else mag <=? 2147483647.

(* leaf coercion of a non-null literal by the built-in scalars; custom scalars accept all *)
Definition scalar_accepts (s : ssort) (v : lit) : bool :=
  match s, v with
  | SCustom, _ => true
  | SInt, LInt neg mag => int32 neg mag
  | SFloat, LInt _ _ | SFloat, LFloat => true
  | SString, LStr => true
  | SBoolean, LBool _ => true
  | SID, LStr | SID, LInt _ _ => true
  | _, _ => false
  end.

Definition is_lnull (v : lit) : bool := match v with LNull => true | _ => false end.

Definition keys (kvs : list (N * lit)) : list N := map fst kvs.

(* OneOf: exactly one known field, and its value is not null *)
Definition oneof_ok (fs : list inval) (kvs : list (N * lit)) : bool :=
  match filter (fun kv => match find_inval (fst kv) fs with Some _ => true | None => false end) kvs with
  | [(_, x)] => negb (is_lnull x)
  | _ => false
  end.

(* validate_input_literal / validate_input_value on a const default.  The recursion into the
   fields of an input object is guarded by the input-type test: a field whose declared type is
   not an input type is not validated (RSkipped).  RAssert marks validate_input_*'s
   assert_leaf_type. *)
Fixpoint lit_check (rs : raw_schema) (v : lit) {struct v} : tref -> lres :=
  fix go (t : tref) : lres :=
    match t with
    | TNonNull t' => match v with LNull => RInvalid | _ => go t' end
    | TList t' =>
        match v with
        | LNull => RValid
        | LList vs =>
            (fix each (l : list lit) : lres :=
               match l with
               | [] => RValid
               | x :: l' => lmax (lit_check rs x t') (each l')
               end) vs
        | _ => go t'
        end
    | TNamed n =>
        match v with
        | LNull => RValid
        | _ =>
            match lookup rs n with
            | Some (DScalar s) => ofb (scalar_accepts s v)
            | Some (DEnum vals) =>
                match v with LEnum e => ofb (memN e vals) | _ => RInvalid end
            | Some (DInput oneof fs) =>
                match v with
                | LObj kvs =>
                    lmax
                      ((fix each (l : list (N * lit)) : lres :=
                          match l with
                          | [] => RValid
                          | (k, x) :: l' =>
                              lmax
                                (match find_inval k fs with
                                 | None => RInvalid            (* unknown field *)
                                 | Some f =>
                                     if is_input_tref rs (iv_type f)
                                     then lit_check rs x (iv_type f)
                                     else RSkipped
                                 end)
                                (each l')
                          end) kvs)
                      (lmax
                         (ofb (forallb (fun f => memN (iv_name f) (keys kvs) || negb (required f)) fs))
                         (ofb (negb oneof || oneof_ok fs kvs)))
                | _ => RInvalid
                end
            | _ => RAssert
            end
        end
    end.

(* ------------------------------------------------------------------ generic DFS cycle detector
   Shape of InputObjectNonNullCircularRefsValidator / InputObjectDefaultValueCircularRefsValidator:
   a visited set shared by all roots, the current path, one report per back edge.  [d_done]
   records the exit order (the point where the impl deletes the path index / pops the path). *)
Section DFS.
  Variable A : Type.
  Variable eqb : A -> A -> bool.
  Variable succ : A -> list A.

  Fixpoint memA (x : A) (l : list A) : bool :=
    match l with [] => false | y :: l' => eqb x y || memA x l' end.

  (* the top of the path stack down to and including y *)
  Fixpoint cycle_from (y : A) (path : list A) : list A :=
    match path with
    | [] => []
    | z :: p => if eqb y z then [z] else z :: cycle_from y p
    end.

  Record dstate : Type := mkD
    { d_visited : list A; d_reports : list (list A); d_done : list A }.

  Definition dstate0 : dstate := mkD [] [] [].

  (* one successor y of the node on top of path': a back edge is reported, a visited node is
     skipped, a fresh node is explored *)
  Definition step (rec : A -> dstate -> option dstate) (path' : list A) (y : A) (st : dstate)
    : option dstate :=
    if memA y path'
    then Some (mkD (d_visited st) (cycle_from y path' :: d_reports st) (d_done st))
    else if memA y (d_visited st) then Some st
    else rec y st.

  Fixpoint loop (rec : A -> dstate -> option dstate) (path' : list A) (ys : list A) (st : dstate)
    : option dstate :=
    match ys with
    | [] => Some st
    | y :: ys' =>
        match step rec path' y st with
        | None => None
        | Some st' => loop rec path' ys' st'
        end
    end.

  Definition mark (x : A) (st : dstate) : dstate :=
    mkD (x :: d_visited st) (d_reports st) (d_done st).
  Definition finish (x : A) (st : dstate) : dstate :=
    mkD (d_visited st) (d_reports st) (x :: d_done st).

  (* precondition: x is not visited *)
  Fixpoint dfs (fuel : nat) (path : list A) (x : A) (st : dstate) : option dstate :=
    match fuel with
    | O => None
    | S f =>
        match loop (dfs f (x :: path)) (x :: path) (succ x) (mark x st) with
        | None => None
        | Some st' => Some (finish x st')
        end
    end.

  Fixpoint dfs_all (fuel : nat) (roots : list A) (st : dstate) : option dstate :=
    match roots with
    | [] => Some st
    | r :: roots' =>
        if memA r (d_visited st) then dfs_all fuel roots' st
        else match dfs fuel [] r st with
             | None => None
             | Some st' => dfs_all fuel roots' st'
             end
    end.
End DFS.
Arguments mkD {A}.
Arguments d_visited {A}.
Arguments d_reports {A}.
Arguments d_done {A}.
Arguments dstate0 {A}.

(* --- non-null input object cycles: nodes are type names *)

Definition nn_target (rs : raw_schema) (iv : inval) : list N :=
  match iv_type iv with
  | TNonNull (TNamed n) => if is_input_object rs n then [n] else []
  | _ => []
  end.
Definition nn_succ (rs : raw_schema) (n : N) : list N :=
  flat_map (nn_target rs) (input_fields_of rs n).

Definition input_object_names (rs : raw_schema) : list N :=
  flat_map (fun nd => match snd nd with DInput _ _ => [fst nd] | _ => [] end) (s_types rs).

Definition nn_detect (rs : raw_schema) : option (dstate N) :=
  dfs_all N N.eqb (nn_succ rs) (length (s_types rs)) (input_object_names rs) dstate0.

(* --- default value cycles: nodes are input fields (type name, field name) *)

Definition fnode : Type := (N * N)%type.
Definition fnode_eqb (a b : fnode) : bool := (fst a =? fst b) && (snd a =? snd b).

Definition lit_default (iv : inval) : option lit :=
  match iv_default iv with DLit v => Some v | _ => None end.

(* the input fields whose own default is applied when [v] is coerced at input object [ty]:
   detect_literal_default_value_cycle / detect_value_default_value_cycle *)
Fixpoint dv_walk (rs : raw_schema) (v : lit) {struct v} : N -> list fnode :=
  fun ty =>
  match v with
  | LList vs =>
      (fix each (l : list lit) : list fnode :=
         match l with [] => [] | x :: l' => dv_walk rs x ty ++ each l' end) vs
  | LObj kvs =>
      let fs := input_fields_of rs ty in
      (fix each (l : list (N * lit)) : list fnode :=
         match l with
         | [] => []
         | (k, x) :: l' =>
             (match find_inval k fs with
              | Some f => if is_input_object rs (named_of (iv_type f))
                          then dv_walk rs x (named_of (iv_type f)) else []
              | None => []
              end) ++ each l'
         end) kvs
      ++ flat_map (fun f =>
           if is_input_object rs (named_of (iv_type f))
              && negb (memN (iv_name f) (keys kvs))
              && match lit_default f with Some _ => true | None => false end
           then [(ty, iv_name f)] else []) fs
  | _ => []
  end.

Definition dv_succ (rs : raw_schema) (nd : fnode) : list fnode :=
  match find_inval (snd nd) (input_fields_of rs (fst nd)) with
  | Some f =>
      match lit_default f with
      | Some v => if is_input_object rs (named_of (iv_type f))
                  then dv_walk rs v (named_of (iv_type f)) else []
      | None => []
      end
  | None => []
  end.

Definition all_input_fields (rs : raw_schema) : list fnode :=
  flat_map (fun n => map (fun f => (n, iv_name f)) (input_fields_of rs n)) (input_object_names rs).

(* validate_types calls the detector on every input object with the empty object {} *)
Definition dv_roots (rs : raw_schema) : list fnode :=
  flat_map (fun n => dv_walk rs (LObj []) n) (input_object_names rs).

Definition dv_detect (rs : raw_schema) : option (dstate fnode) :=
  dfs_all fnode fnode_eqb (dv_succ rs) (length (all_input_fields rs)) (dv_roots rs) dstate0.

(* ------------------------------------------------------------------ the rules *)

Definition chk (b : bool) (k : rule_kind) : list rule_kind := if b then [] else [k].

Definition name_ok (n : N) : list rule_kind := chk (negb (reserved n)) KReservedName.

Definition is_nil {A} (l : list A) : bool := match l with [] => true | _ => false end.

(* validate_default_value, guarded: only a declared input type is validated *)
Definition default_check (rs : raw_schema) (t : tref) (d : dflt) : list rule_kind :=
  match d with
  | DLit v =>
      if is_input_tref rs t then
        match lit_check rs v t with
        | RValid => []
        | RInvalid => [KInvalidDefault]
        | RSkipped => [KDefaultNotValidated]
        | RAssert => [KCrash]
        end
      else [KDefaultNotValidated]
  | _ => []
  end.

(* arguments, directive arguments and input fields share name / input type /
   required-deprecated / default *)
Definition validate_inval (rs : raw_schema) (iv : inval) : list rule_kind :=
  name_ok (iv_name iv)
  ++ chk (is_input_tref rs (iv_type iv)) KNotInputType
  ++ chk (negb (required iv && iv_dep iv)) KRequiredDeprecated
  ++ default_check rs (iv_type iv) (iv_default iv).

Definition opt_list (o : option N) : list N := match o with Some n => [n] | None => [] end.

Definition root_check (rs : raw_schema) (o : option N) : list rule_kind :=
  match o with Some n => chk (is_object rs n) KRootNotObject | None => [] end.

Definition root_objects (rs : raw_schema) : list N :=
  filter (is_object rs) (opt_list (s_query rs) ++ opt_list (s_mutation rs) ++ opt_list (s_subscription rs)).

Definition validate_roots (rs : raw_schema) : list rule_kind :=
  chk (match s_query rs with Some _ => true | None => false end) KMissingQuery
  ++ root_check rs (s_query rs) ++ root_check rs (s_mutation rs) ++ root_check rs (s_subscription rs)
  ++ chk (nodupN (root_objects rs)) KRootsNotDistinct.

Definition validate_directive (rs : raw_schema) (d : directive) : list rule_kind :=
  if d_isdir d then
    name_ok (d_name d)
    ++ chk (d_haslocs d) KDirectiveNoLocations
    ++ flat_map (validate_inval rs) (d_args d)
  else [KNotDirective].

Definition validate_field (rs : raw_schema) (f : field) : list rule_kind :=
  name_ok (f_name f)
  ++ chk (is_output_tref rs (f_type f)) KNotOutputType
  ++ flat_map (validate_inval rs) (f_args f).

Definition validate_fields (rs : raw_schema) (fs : list field) : list rule_kind :=
  chk (negb (is_nil fs)) KNoFields ++ flat_map (validate_field rs) fs.

Definition validate_ancestors (rs : raw_schema) (self_ifaces : list N) (iface : N) : list rule_kind :=
  flat_map (fun tr => chk (memN tr self_ifaces) KMissingTransitive) (ifaces_of rs iface).

Definition implements_arg (tf : field) (ia : inval) : list rule_kind :=
  match find_inval (iv_name ia) (f_args tf) with
  | None => [KMissingInterfaceArg]
  | Some ta => chk (tref_eqb (iv_type ia) (iv_type ta)) KArgNotInvariant
  end.

Definition extra_arg (ifld : field) (ta : inval) : list rule_kind :=
  chk (negb (match find_inval (iv_name ta) (f_args ifld) with None => required ta | Some _ => false end))
      KExtraRequiredArg.

Definition implements_field (rs : raw_schema) (tfields : list field) (ifld : field) : list rule_kind :=
  match find_field (f_name ifld) tfields with
  | None => [KMissingInterfaceField]
  | Some tf =>
      chk (subtype rs (f_type tf) (f_type ifld)) KFieldNotCovariant
      ++ flat_map (implements_arg tf) (f_args ifld)
      ++ flat_map (extra_arg ifld) (f_args tf)
      ++ chk (negb (f_dep tf && negb (f_dep ifld))) KDeprecatedImpl
  end.

Definition validate_implements (rs : raw_schema) (tfields : list field) (iface : N) : list rule_kind :=
  flat_map (implements_field rs tfields) (fields_of rs iface).

Fixpoint validate_ifaces (rs : raw_schema) (self : N) (sfields : list field) (sifaces : list N)
         (seen : list N) (l : list N) : list rule_kind :=
  match l with
  | [] => []
  | i :: l' =>
      if negb (is_interface rs i)
      then KImplementsNonInterface :: validate_ifaces rs self sfields sifaces seen l'
      else
        chk (negb (i =? self)) KImplementsSelf
        ++ (if memN i seen
            then KDuplicateInterface :: validate_ifaces rs self sfields sifaces seen l'
            else validate_ancestors rs sifaces i
                 ++ validate_implements rs sfields i
                 ++ validate_ifaces rs self sfields sifaces (i :: seen) l')
  end.

Fixpoint validate_members (rs : raw_schema) (seen : list N) (l : list N) : list rule_kind :=
  match l with
  | [] => []
  | m :: l' =>
      if is_object rs m
      then (if memN m seen then KDuplicateMember :: validate_members rs seen l'
            else validate_members rs (m :: seen) l')
      else KNonObjectMember :: validate_members rs seen l'
  end.

Definition validate_input_field (rs : raw_schema) (oneof : bool) (iv : inval) : list rule_kind :=
  validate_inval rs iv
  ++ (if oneof
      then chk (negb (is_nonnull (iv_type iv))) KOneOfNonNull
           ++ chk (negb (has_default (iv_default iv))) KOneOfDefault
      else []).

Definition validate_type_body (rs : raw_schema) (n : N) (d : tdef) : list rule_kind :=
  match d with
  | DScalar _ | DBogus => []
  | DObject fs ifs | DInterface fs ifs =>
      validate_fields rs fs ++ validate_ifaces rs n fs ifs [] ifs
  | DUnion ms => chk (negb (is_nil ms)) KEmptyUnion ++ validate_members rs [] ms
  | DEnum vs => chk (negb (is_nil vs)) KEmptyEnum ++ flat_map name_ok vs
  | DInput oneof fs =>
      chk (negb (is_nil fs)) KEmptyInput ++ flat_map (validate_input_field rs oneof) fs
  end.

Definition validate_type (rs : raw_schema) (nd : N * tdef) : list rule_kind :=
  match snd nd with
  | DBogus => [KNotNamedType]          (* reported before the name is looked at *)
  | d => name_ok (fst nd) ++ validate_type_body rs (fst nd) d
  end.

Definition cycle_reports {A} (k : rule_kind) (o : option (dstate A)) : list rule_kind :=
  match o with
  | Some st => map (fun _ => k) (d_reports st)
  | None => [KOutOfFuel]
  end.

Definition validate (rs : raw_schema) : list rule_kind :=
  validate_roots rs
  ++ flat_map (validate_directive rs) (s_dirs rs)
  ++ flat_map (validate_type rs) (s_types rs)
  ++ cycle_reports KNonNullCycle (nn_detect rs)
  ++ cycle_reports KDefaultCycle (dv_detect rs).

(* graphql.py graphql_impl: a request against a schema with validation errors returns exactly
   those errors (data = None) and is neither validated nor executed *)
Inductive response : Type :=
| ErrorsOnly (ks : list rule_kind)
| Proceeds.

Definition request (rs : raw_schema) : response :=
  match validate rs with
  | [] => Proceeds
  | ks => ErrorsOnly ks
  end.
