(* Completeness of the collection of a set in the field-merge specification function
   (Valid/Overlap.collect): started from a state in which every visited fragment is covered
   (its fields collected, the fragments it spreads visited), the result contains every field the
   selection set contributes - its own and those of all fragments it reaches (OverlapMemoSound.Exp).
   (The converse, collected => Exp, is OverlapMemoSound.collect_exp.) *)
From GV Require Import Base.Prelude Valid.Overlap Valid.OverlapProps Valid.OverlapAdequacy Valid.OverlapEquiv
  Valid.OverlapMemoSound.

Section Complete.
  Variable frags : list fragdef.

  (* fragment F is covered by the state *)
  Definition Cov (st : cstate) (F : N) : Prop :=
    forall fd, find_frag frags F = Some fd ->
      incl (body_flat fd) (snd st) /\ incl (sprs (fr_body fd)) (fst st).

  Definition st_le (a b : cstate) : Prop := incl (fst a) (fst b) /\ incl (snd a) (snd b).

  Lemma st_le_refl a : st_le a a.
  Proof. split; apply incl_refl. Qed.
  Lemma st_le_trans a b c : st_le a b -> st_le b c -> st_le a c.
  Proof. intros [H1 H2] [H3 H4]. split; eapply incl_tran; eauto. Qed.
  Lemma Cov_mono a b F : st_le a b -> Cov a F -> Cov b F.
  Proof.
    intros [H1 H2] H fd Hf. destruct (H fd Hf) as [H3 H4]. split; eapply incl_tran; eauto.
  Qed.

  Definition complete_fn (c : collect_fn) : Prop :=
    forall q t st st', c q t st = Some st' ->
      st_le st st' /\ incl (flat q t) (snd st') /\ incl (sprs t) (fst st') /\
      (forall F, In F (fst st') -> ~ In F (fst st) -> Cov st' F).

  Lemma collect_go_complete rec : complete_fn rec -> complete_fn (collect_go frags rec).
  Proof.
    intros Hrec q t. revert q.
    induction t as [|f sub IHsub rest IHrest|iid tc sub IHsub rest IHrest|n rest IHrest];
      intros q st st' H; cbn [collect_go] in H.
    - inversion H; subst. repeat split; try apply incl_refl; try (intros x []); tauto.
    - destruct (IHrest q _ _ H) as (Hle & Hfl & Hsp & Hcov). cbn [fst snd] in *.
      assert (Hle0 : st_le st (fst st, snd st ++ [mkEntry q f sub])).
      { split; [apply incl_refl | apply incl_appl, incl_refl]. }
      split; [eapply st_le_trans; eauto|]. split; [|split; [exact Hsp | exact Hcov]].
      cbn [flat]. intros x [<-|Hx]; [|apply Hfl; exact Hx].
      apply (proj2 Hle). cbn [snd]. apply in_or_app. right. left. reflexivity.
    - destruct (collect_go frags rec (match tc with Some t0 => t0 | None => q end) sub st) as [st1|] eqn:E1;
        [|discriminate].
      destruct (IHsub _ _ _ E1) as (Hle1 & Hfl1 & Hsp1 & Hcov1).
      destruct (IHrest q _ _ H) as (Hle2 & Hfl2 & Hsp2 & Hcov2).
      split; [eapply st_le_trans; eauto|]. split; [|split].
      + cbn [flat]. apply incl_app; [eapply incl_tran; [exact Hfl1 | apply Hle2] | exact Hfl2].
      + cbn [sprs]. apply incl_app; [eapply incl_tran; [exact Hsp1 | apply Hle2] | exact Hsp2].
      + intros F HF Hn. destruct (in_dec N.eq_dec F (fst st1)) as [Hi|Hi].
        * eapply Cov_mono; [exact Hle2 | apply Hcov1; assumption].
        * apply Hcov2; assumption.
    - destruct (mem n (fst st)) eqn:Em.
      { destruct (IHrest q _ _ H) as (Hle & Hfl & Hsp & Hcov). split; [exact Hle|]. split; [exact Hfl|].
        split; [|exact Hcov]. cbn [sprs]. intros x [<-|Hx]; [|apply Hsp; exact Hx].
        apply (proj1 Hle). apply mem_In. exact Em. }
      destruct (find_frag frags n) as [fd|] eqn:Ef.
      + destruct (rec (fr_type fd) (fr_body fd) (n :: fst st, snd st)) as [st1|] eqn:E1; [|discriminate].
        destruct (Hrec _ _ _ _ E1) as (Hle1 & Hfl1 & Hsp1 & Hcov1). cbn [fst snd] in *.
        destruct (IHrest q _ _ H) as (Hle2 & Hfl2 & Hsp2 & Hcov2).
        assert (Hle0 : st_le st (n :: fst st, snd st)) by (split; [apply incl_tl, incl_refl | apply incl_refl]).
        assert (Hn1 : In n (fst st1)) by (apply (proj1 Hle1); cbn; auto).
        assert (Hcn : Cov st1 n).
        { intros fd' Hf'. rewrite Ef in Hf'. inversion Hf'; subst fd'. split; [exact Hfl1 | exact Hsp1]. }
        split; [eapply st_le_trans; [exact Hle0 | eapply st_le_trans; eauto]|]. split; [exact Hfl2|]. split.
        * cbn [sprs]. intros x [<-|Hx]; [apply (proj1 Hle2); exact Hn1 | apply Hsp2; exact Hx].
        * intros F HF Hn. destruct (in_dec N.eq_dec F (fst st1)) as [Hi|Hi]; [|apply Hcov2; assumption].
          eapply Cov_mono; [exact Hle2|]. destruct (N.eq_dec F n) as [->|Hne]; [exact Hcn|].
          apply Hcov1; [exact Hi|]. cbn. intros [Hx|Hx]; [congruence | contradiction].
      + destruct (IHrest q _ _ H) as (Hle2 & Hfl2 & Hsp2 & Hcov2). cbn [fst snd] in *.
        assert (Hle0 : st_le st (n :: fst st, snd st)) by (split; [apply incl_tl, incl_refl | apply incl_refl]).
        split; [eapply st_le_trans; eauto|]. split; [exact Hfl2|]. split.
        * cbn [sprs]. intros x [<-|Hx]; [apply (proj1 Hle2); cbn; auto | apply Hsp2; exact Hx].
        * intros F HF Hn. destruct (in_dec N.eq_dec F (n :: fst st)) as [Hi|Hi]; [|apply Hcov2; assumption].
          destruct Hi as [<-|Hi]; [|contradiction]. intros fd Hf. congruence.
  Qed.

  Lemma collect_complete_fn fuel : complete_fn (collect frags fuel).
  Proof.
    induction fuel as [|f IH]; cbn [collect]; apply collect_go_complete.
    - intros q t st st' H. discriminate.
    - exact IH.
  Qed.

  (* closed states: every visited fragment covered *)
  Definition closed_st (st : cstate) : Prop := forall F, In F (fst st) -> Cov st F.

  Lemma closed_reach st sps F : closed_st st -> incl sps (fst st) -> Reach frags sps F -> In F (fst st).
  Proof.
    intros Hc Hi H. induction H as [sps F Hin|sps G gd F Hin Hf Hr IH]; [apply Hi; exact Hin|].
    apply IH. destruct (Hc G (Hi G Hin) gd Hf) as [_ H]. exact H.
  Qed.

  Theorem collect_complete fuel q t st st' :
    closed_st st -> collect frags fuel q t st = Some st' ->
    closed_st st' /\ st_le st st' /\ forall u, Exp frags q t u -> In u (snd st').
  Proof.
    intros Hc H. destruct (collect_complete_fn fuel q t st st' H) as (Hle & Hfl & Hsp & Hcov).
    assert (Hc' : closed_st st').
    { intros F HF. destruct (in_dec N.eq_dec F (fst st)) as [Hi|Hi]; [eapply Cov_mono; [exact Hle | apply Hc; exact Hi] | apply Hcov; assumption]. }
    split; [exact Hc'|]. split; [exact Hle|].
    intros u [Hu|(F & fd & Hr & Hf & Hu)]; [apply Hfl; exact Hu|].
    pose proof (closed_reach st' _ F Hc' Hsp Hr) as HF. destruct (Hc' F HF fd Hf) as [Hb _]. apply Hb. exact Hu.
  Qed.

  Lemma closed_nil : closed_st ([], []).
  Proof. intros F []. Qed.
End Complete.
