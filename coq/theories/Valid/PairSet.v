(* C14 - the two memo tables of overlapping_fields_can_be_merged.py, as the code has them:
   PairSet (unordered pair of fragment keys -> are_mutually_exclusive flag) and OrderedPairSet
   (identity of a field map, fragment key -> flag).  Python dicts are association lists;
   str comparison `a < b` is lexicographic on code points. *)
From GV Require Import Base.Prelude.

Fixpoint text_ltb (a b : text) : bool :=
  match a, b with
  | [], [] => false
  | [], _ :: _ => true
  | _ :: _, [] => false
  | x :: a', y :: b' => if x <? y then true else if y <? x then false else text_ltb a' b'
  end.

Section Dict.
  Context {K V : Type} (eqb : K -> K -> bool).
  Fixpoint dget (k : K) (d : list (K * V)) : option V :=
    match d with
    | [] => None
    | (k', v) :: r => if eqb k' k then Some v else dget k r
    end.
  Fixpoint dset (k : K) (v : V) (d : list (K * V)) : list (K * V) :=
    match d with
    | [] => [(k, v)]
    | (k', v') :: r => if eqb k' k then (k', v) :: r else (k', v') :: dset k v r
    end.
End Dict.

Definition inner := list (text * bool).
Definition pairset := list (text * inner).

(* key1, key2 = (a, b) if a < b else (b, a) *)
Definition order (a b : text) : text * text := if text_ltb a b then (a, b) else (b, a).

Definition flag_answers (query result : bool) : bool :=
  (* True if are_mutually_exclusive else are_mutually_exclusive == result *)
  if query then true else Bool.eqb query result.

Definition ps_get (s : pairset) (a b : text) : option bool :=
  let '(k1, k2) := order a b in
  match dget nat_list_eqb k1 s with
  | None => None
  | Some m => dget nat_list_eqb k2 m
  end.

Definition ps_has (s : pairset) (a b : text) (excl : bool) : bool :=
  match ps_get s a b with
  | None => false
  | Some r => flag_answers excl r
  end.

Definition ps_add (s : pairset) (a b : text) (excl : bool) : pairset :=
  let '(k1, k2) := order a b in
  match dget nat_list_eqb k1 s with
  | None => dset nat_list_eqb k1 [(k2, excl)] s
  | Some m => dset nat_list_eqb k1 (dset nat_list_eqb k2 excl m) s
  end.

(* the way the rule uses the table: `if has(...): return` then `add(...)` *)
Definition ps_record (s : pairset) (a b : text) (excl : bool) : pairset :=
  if ps_has s a b excl then s else ps_add s a b excl.

(* OrderedPairSet: first component = id() of a field map, second = fragment key *)
Definition opairset := list (N * inner).

Definition ops_get (s : opairset) (a : N) (b : text) : option bool :=
  match dget N.eqb a s with
  | None => None
  | Some m => dget nat_list_eqb b m
  end.

Definition ops_has (s : opairset) (a : N) (b : text) (weak : bool) : bool :=
  match ops_get s a b with
  | None => false
  | Some r => flag_answers weak r
  end.

Definition ops_add (s : opairset) (a : N) (b : text) (weak : bool) : opairset :=
  match dget N.eqb a s with
  | None => dset N.eqb a [(b, weak)] s
  | Some m => dset N.eqb a (dset nat_list_eqb b weak m) s
  end.

Definition ops_record (s : opairset) (a : N) (b : text) (weak : bool) : opairset :=
  if ops_has s a b weak then s else ops_add s a b weak.

(* ---- scripted runs for the correspondence: op = (is_add, a, b, flag); answers of the has calls *)
Fixpoint ps_run (s : pairset) (ops : list (bool * text * text * bool)) : list bool :=
  match ops with
  | [] => []
  | (true, a, b, e) :: r => ps_run (ps_add s a b e) r
  | (false, a, b, e) :: r => ps_has s a b e :: ps_run s r
  end.

Fixpoint ops_run (s : opairset) (ops : list (bool * N * text * bool)) : list bool :=
  match ops with
  | [] => []
  | (true, a, b, e) :: r => ops_run (ops_add s a b e) r
  | (false, a, b, e) :: r => ops_has s a b e :: ops_run s r
  end.
