(* Proofs about the memoised algorithm model (Valid/OverlapOpt.v): every comparison skipped by a
   memo hit was started earlier under a flag at least as strong. *)
From GV Require Import Base.Prelude Valid.Overlap Valid.PairSet Valid.PairSetProps Valid.OverlapOpt.

Definition same_key (t : tbl) (a b a' b' : N) : Prop :=
  match t with
  | TFp => a = a' /\ b = b'
  | TFf => (a = a' /\ b = b') \/ (a = b' /\ b = a')
  end.

(* a recorded flag that subsumes the query: non-exclusive (false) subsumes both, exclusive only itself *)
Definition covers (r q : bool) : Prop := r = false \/ r = q.

(* the log is latest-first: "earlier" events are further down the list *)
Definition log_ok (log : list ev) : Prop :=
  forall l1 t a b q l2, log = l1 ++ EvSkip t a b q :: l2 ->
    exists a' b' r, In (EvStart t a' b' r) l2 /\ same_key t a b a' b' /\ covers r q.

Definition Inv (m : memo) : Prop :=
  log_ok (m_log m) /\
  (forall a b r, ops_get (m_fp m) a (fkey b) = Some r -> In (EvStart TFp a b r) (m_log m)) /\
  (forall a b r, ps_get (m_ff m) (fkey a) (fkey b) = Some r ->
     exists a' b', In (EvStart TFf a' b' r) (m_log m) /\ same_key TFf a b a' b').

Lemma log_ok_start t a b q l : log_ok l -> log_ok (EvStart t a b q :: l).
Proof.
  intros H l1 t' a' b' q' l2 E. destruct l1 as [|e l1]; cbn in E; [discriminate|].
  inversion E; subst. eapply H. reflexivity.
Qed.

Lemma log_ok_skip t a b q l :
  log_ok l -> (exists a' b' r, In (EvStart t a' b' r) l /\ same_key t a b a' b' /\ covers r q) ->
  log_ok (EvSkip t a b q :: l).
Proof.
  intros H Hs l1 t' a' b' q' l2 E. destruct l1 as [|e l1]; cbn in E.
  - inversion E; subst. exact Hs.
  - inversion E; subst. eapply H. reflexivity.
Qed.

Lemma flag_covers q r : flag_answers q r = true -> covers r q.
Proof. unfold flag_answers, covers. destruct q, r; cbn; auto; discriminate. Qed.

Lemma order_single a b c d :
  order (fkey a) (fkey b) = order (fkey c) (fkey d) -> (a = c /\ b = d) \/ (a = d /\ b = c).
Proof.
  unfold order, fkey. cbn [text_ltb].
  destruct (a <? b), (b <? a), (c <? d), (d <? c); intro H; inversion H; auto.
Qed.

Lemma order_dec (x y u v : text) : order x y = order u v \/ order x y <> order u v.
Proof.
  destruct (order x y) as [x1 x2], (order u v) as [y1 y2].
  destruct (nat_list_eqb x1 y1) eqn:E1; destruct (nat_list_eqb x2 y2) eqn:E2.
  - apply nat_list_eqb_eq in E1. apply nat_list_eqb_eq in E2. subst. left. reflexivity.
  - right. intro Hc. inversion Hc. subst. rewrite (proj2 (nat_list_eqb_eq y2 y2) eq_refl) in E2. discriminate.
  - right. intro Hc. inversion Hc. subst. rewrite (proj2 (nat_list_eqb_eq y1 y1) eq_refl) in E1. discriminate.
  - right. intro Hc. inversion Hc. subst. rewrite (proj2 (nat_list_eqb_eq y1 y1) eq_refl) in E1. discriminate.
Qed.

(* ---- the four memo decisions preserve the invariant ---- *)
Lemma inv_fp_skip m a b q :
  Inv m -> ops_has (m_fp m) a (fkey b) q = true ->
  Inv (mkMemo (m_fp m) (m_ff m) (EvSkip TFp a b q :: m_log m)).
Proof.
  intros [H1 [H2 H3]] Hh. unfold ops_has in Hh.
  destruct (ops_get (m_fp m) a (fkey b)) as [r|] eqn:Eg; [|discriminate].
  repeat split; cbn [m_log m_fp m_ff].
  - apply log_ok_skip; auto. exists a, b, r. repeat split; auto. apply flag_covers. exact Hh.
  - intros a' b' r' Hg. right. apply H2. exact Hg.
  - intros a' b' r' Hg. destruct (H3 a' b' r' Hg) as [x [y [Hi Hk]]]. exists x, y. split; auto. right. exact Hi.
Qed.

Lemma inv_fp_start m a b q :
  Inv m -> Inv (mkMemo (ops_add (m_fp m) a (fkey b) q) (m_ff m) (EvStart TFp a b q :: m_log m)).
Proof.
  intros [H1 [H2 H3]]. repeat split; cbn [m_log m_fp m_ff].
  - apply log_ok_start. exact H1.
  - intros a' b' r' Hg.
    destruct (N.eq_dec a' a) as [->|Ha]; [destruct (N.eq_dec b' b) as [->|Hb]|].
    + rewrite ops_get_add_same in Hg. inversion Hg. left. reflexivity.
    + rewrite ops_get_add_other in Hg. { right. apply H2. exact Hg. }
      intro Hc. inversion Hc. congruence.
    + rewrite ops_get_add_other in Hg. { right. apply H2. exact Hg. }
      intro Hc. inversion Hc. congruence.
  - intros a' b' r' Hg. destruct (H3 a' b' r' Hg) as [x [y [Hi Hk]]]. exists x, y. split; auto. right. exact Hi.
Qed.

Lemma inv_ff_skip m a b q :
  Inv m -> ps_has (m_ff m) (fkey a) (fkey b) q = true ->
  Inv (mkMemo (m_fp m) (m_ff m) (EvSkip TFf a b q :: m_log m)).
Proof.
  intros [H1 [H2 H3]] Hh. unfold ps_has in Hh.
  destruct (ps_get (m_ff m) (fkey a) (fkey b)) as [r|] eqn:Eg; [|discriminate].
  repeat split; cbn [m_log m_fp m_ff].
  - apply log_ok_skip; auto. destruct (H3 a b r Eg) as [x [y [Hi Hk]]].
    exists x, y, r. repeat split; auto. apply flag_covers. exact Hh.
  - intros a' b' r' Hg. right. apply H2. exact Hg.
  - intros a' b' r' Hg. destruct (H3 a' b' r' Hg) as [x [y [Hi Hk]]]. exists x, y. split; auto. right. exact Hi.
Qed.

Lemma inv_ff_start m a b q :
  Inv m -> Inv (mkMemo (m_fp m) (ps_add (m_ff m) (fkey a) (fkey b) q) (EvStart TFf a b q :: m_log m)).
Proof.
  intros [H1 [H2 H3]]. repeat split; cbn [m_log m_fp m_ff].
  - apply log_ok_start. exact H1.
  - intros a' b' r' Hg. right. apply H2. exact Hg.
  - intros a' b' r' Hg.
    destruct (order_dec (fkey a') (fkey b') (fkey a) (fkey b)) as [Ho|Ho].
    + rewrite (ps_get_order _ _ _ _ _ Ho), ps_get_add_same in Hg. inversion Hg. subst r'.
      exists a, b. split; [left; reflexivity|]. cbn. apply order_single in Ho. exact Ho.
    + rewrite ps_get_add_other in Hg by exact Ho.
      destruct (H3 a' b' r' Hg) as [x [y [Hi Hk]]]. exists x, y. split; auto. right. exact Hi.
Qed.

(* ---- lifting through the control structure ---- *)
Definition res_inv (r : result) : Prop :=
  match r with RFuel => True | RConflict m => Inv m | ROk m => Inv m end.
Definition pres (f : memo -> result) : Prop := forall m, Inv m -> res_inv (f m).

Lemma bind_pres r f : res_inv r -> pres f -> res_inv (bind r f).
Proof. destruct r; cbn; auto. Qed.

Lemma for_each_pres {A} (f : A -> memo -> result) l :
  (forall x, In x l -> pres (f x)) -> pres (for_each f l).
Proof.
  induction l as [|x r IH]; intros H m Hm; cbn [for_each].
  - exact Hm.
  - apply bind_pres.
    + apply H; [left; reflexivity | exact Hm].
    + apply IH. intros y Hy. apply H. right. exact Hy.
Qed.

Section Pres.
  Variable s : schema.
  Variable frags : list fragdef.

  Lemma between_pres rec excl fm1 fm2 :
    (forall c, pres (rec c)) -> pres (between rec excl fm1 fm2).
  Proof.
    intro Hr. unfold between. apply for_each_pres. intros grp _.
    apply for_each_pres. intros f1 _. apply for_each_pres. intros f2 _. apply Hr.
  Qed.

  Lemma exec_step_pres rec : (forall c, pres (rec c)) -> forall c, pres (exec_step s frags rec c).
  Proof.
    intros Hr c m Hm. destruct c as [pexcl a b|excl p1 id1 ss1 p2 id2 ss2|excl id fm frag|excl f1 f2];
      cbn [exec_step].
    - cbv zeta.
      match goal with |- res_inv (if ?c then _ else _) => destruct c end; [exact Hm|].
      match goal with |- res_inv (if ?c then _ else _) => destruct c end; [exact Hm|].
      match goal with |- res_inv (if ?c then _ else _) => destruct c end; [apply Hr; exact Hm | exact Hm].
    - destruct (fields_and_spreads p1 ss1 ([], [])) as [fm1 sp1].
      destruct (fields_and_spreads p2 ss2 ([], [])) as [fm2 sp2].
      apply bind_pres; [apply between_pres; auto|]. intros m1 Hm1.
      apply bind_pres; [apply for_each_pres; auto; intros; apply Hr|]. intros m2 Hm2.
      apply bind_pres; [apply for_each_pres; auto; intros; apply Hr|]. intros m3 Hm3.
      apply for_each_pres; auto. intros x _. apply for_each_pres. intros y _. apply Hr.
    - destruct (ops_has (m_fp m) (setid_code id) (fkey frag) excl) eqn:Eh.
      + apply inv_fp_skip; assumption.
      + cbv zeta. pose proof (inv_fp_start m (setid_code id) frag excl Hm) as Hm1.
        destruct (find_frag frags frag) as [fd|]; [|exact Hm1].
        destruct (setid_code id =? setid_code (IdFrag frag)); [exact Hm1|].
        destruct (fields_and_spreads (fr_type fd) (fr_body fd) ([], [])) as [fm2 sp2].
        apply bind_pres; [apply between_pres; auto|]. intros m2 Hm2.
        apply for_each_pres; auto; intros; apply Hr.
    - destruct (f1 =? f2); [exact Hm|].
      destruct (ps_has (m_ff m) (fkey f1) (fkey f2) excl) eqn:Eh.
      + apply inv_ff_skip; assumption.
      + cbv zeta. pose proof (inv_ff_start m f1 f2 excl Hm) as Hm1.
        destruct (find_frag frags f1) as [d1|]; [|exact Hm1].
        destruct (find_frag frags f2) as [d2|]; [|exact Hm1].
        destruct (fields_and_spreads (fr_type d1) (fr_body d1) ([], [])) as [fm1 sp1].
        destruct (fields_and_spreads (fr_type d2) (fr_body d2) ([], [])) as [fm2 sp2].
        apply bind_pres; [apply between_pres; auto|]. intros m2 Hm2.
        apply bind_pres; [apply for_each_pres; auto; intros; apply Hr|]. intros m3 Hm3.
        apply for_each_pres; auto; intros; apply Hr.
  Qed.

  Lemma exec_pres fuel : forall c, pres (exec s frags fuel c).
  Proof.
    induction fuel as [|f IH]; intros c m Hm; cbn [exec].
    - exact I.
    - apply exec_step_pres; assumption.
  Qed.

  Lemma within_group_pres fuel l : pres (within_group s frags fuel l).
  Proof.
    induction l as [|x r IH]; intros m Hm; cbn [within_group].
    - exact Hm.
    - apply bind_pres; [|exact IH]. apply for_each_pres; auto; intros; apply exec_pres.
  Qed.

  Lemma spreads_bc_pres fuel id fm sps : pres (spreads_bc s frags fuel id fm sps).
  Proof.
    induction sps as [|sp r IH]; intros m Hm; cbn [spreads_bc].
    - exact Hm.
    - apply bind_pres; [apply exec_pres; exact Hm|]. intros m1 Hm1.
      apply bind_pres; [|exact IH]. apply for_each_pres; auto; intros; apply exec_pres.
  Qed.

  Lemma within_set_pres fuel p id ss : pres (within_set s frags fuel p id ss).
  Proof.
    intros m Hm. unfold within_set.
    destruct (fields_and_spreads p ss ([], [])) as [fm sps].
    apply bind_pres; [|apply spreads_bc_pres].
    apply for_each_pres; auto; intros; apply within_group_pres.
  Qed.

  Lemma walk_opt_pres fuel : forall ss p, pres (walk_opt s frags fuel p ss).
  Proof.
    induction ss as [|f sub IHsub rest IHrest|iid tc sub IHsub rest IHrest|n rest IHrest];
      intros p m Hm; cbn [walk_opt].
    - exact Hm.
    - apply bind_pres; [|apply IHrest].
      assert (Hj : forall q, res_inv (bind (within_set s frags fuel q (IdField (f_id f)) sub m)
                                           (walk_opt s frags fuel q sub))).
      { intro q. apply bind_pres; [apply within_set_pres; exact Hm | apply IHsub]. }
      destruct sub; [exact Hm| | |]; apply Hj.
    - apply bind_pres; [|apply IHrest].
      apply bind_pres; [apply within_set_pres; exact Hm | apply IHsub].
    - apply IHrest. exact Hm.
  Qed.

  Lemma visit_set_pres fuel p id ss : pres (visit_set s frags fuel p id ss).
  Proof.
    intros m Hm. unfold visit_set. apply bind_pres; [apply within_set_pres; exact Hm | apply walk_opt_pres].
  Qed.
End Pres.

Lemma inv_init : Inv (mkMemo [] [] []).
Proof.
  repeat split; cbn.
  - intros l1 t a b q l2 E. destruct l1; discriminate.
  - intros a b r H. discriminate.
  - intros a b r H. unfold ps_get in H. destruct (order (fkey a) (fkey b)). discriminate.
Qed.

Theorem opt_run_inv s d order fuel : res_inv (opt_run s d order fuel).
Proof.
  unfold opt_run. apply for_each_pres; [|exact inv_init].
  intros oi _ m Hm. destruct (fst oi).
  - destruct (nth_error (d_ops d) (snd oi)) as [o|]; [apply visit_set_pres; exact Hm | exact Hm].
  - destruct (nth_error (d_frags d) (snd oi)) as [fd|]; [apply visit_set_pres; exact Hm | exact Hm].
Qed.

(* Whenever the memoised algorithm skips a comparison because of a memo hit, the same pair
   (same selection set and fragment, or the same unordered fragment pair) was started earlier
   under a flag that subsumes the queried one (non-exclusive subsumes exclusive, never the
   other way round). *)
Theorem no_hidden_comparison s d order fuel m :
  opt_run s d order fuel = ROk m \/ opt_run s d order fuel = RConflict m -> log_ok (m_log m).
Proof.
  intro H. pose proof (opt_run_inv s d order fuel) as Hi.
  destruct H as [H|H]; rewrite H in Hi; exact (proj1 Hi).
Qed.
