(* C13 / the schema-dependent validation rules imply the typing judgment execution relies on.
   Final assembly: variable definitions (vars_ok), then the theorems re-exported by
   Properties/C13rules.v. *)
From Coq Require Import Relations.
From GV Require Import Base.Prelude Lang.Ast Exec.Value Exec.Schema Exec.Spec Exec.SpecProps Exec.Typing
  Exec.Soundness Valid.StaticTyping Valid.StaticTypingProps
  Valid.Rules Valid.RulesBase Valid.RulesSpec Valid.RulesGraph Valid.RulesCycles Valid.RulesProps
  Valid.Rules13 Valid.ToExec Valid.RulesLit Valid.RulesTyping Valid.RulesTypingDoc Valid.RulesTypingGlue.

Section NoVars.
  Variable s : schema.
  Variable fl : list N -> Z * N.

  Definition nv_goal (n : node) : Prop := forall p it dflt oneof xv,
    val_of fl n = Some xv -> has_var xv = false -> uses_of (val_evs s n p it dflt oneof) = [].

  Lemma concat_all_nil {A} (ls : list (list A)) : (forall l, In l ls -> l = []) -> concat ls = [].
  Proof.
    induction ls as [|a r IH]; intro H; cbn; [reflexivity|].
    rewrite (H a) by (cbn; auto). rewrite IH; [reflexivity|]. intros l Hl. apply H. cbn. auto.
  Qed.

  Theorem no_var_uses n : nv_goal n.
  Proof.
    enough (H : nv_goal n /\ (forall a0 vn r, n = Nd KObjectField (a0 :: ANode vn :: r) -> nv_goal vn)) by apply H.
    induction n as [k attrs IH] using node_ind2. split.
    - intros p it dflt oneof xv Hv Hh. destruct k; try reflexivity.
      + (* list *)
        destruct attrs as [|[| |items| | |] r]; try reflexivity. cbn [val_of] in Hv.
        destruct (all_some (map (val_of fl) items)) as [vs|] eqn:Ea; [|discriminate]. cbn in Hv. inversion Hv; subst xv.
        cbn [has_var] in Hh. cbn [val_evs]. rewrite uses_of_concat. apply concat_all_nil. intros l Hl.
        apply in_map_iff in Hl as (evs & <- & Hl). unfold mapi in Hl. apply In_mapi_from in Hl as (j & m & Hj & ->).
        destruct (Forall2_nth_l _ _ _ (all_some_Forall2 _ _ _ Ea) j m Hj) as (xm & Hxm & Hvm).
        inversion IH as [|a l' Ha _]; subst. inversion Ha as [| |l'' Hl''| | |]; subst.
        rewrite Forall_forall in Hl''. apply (proj1 (Hl'' m (nth_error_In _ _ Hj))) with xm; [exact Hvm|].
        destruct (has_var xm) eqn:E; [|reflexivity]. exfalso.
        assert (existsb (has_var) vs = true) by (apply existsb_exists; exists xm; split; [eapply nth_error_In; eauto | exact E]).
        congruence.
      + (* object *)
        destruct attrs as [|[| |flds| | |] r]; try reflexivity. cbn [val_of] in Hv.
        assert (Hv' : option_map VObj (all_some (map (field_kv fl) flds)) = Some xv) by exact Hv.
        destruct (all_some (map (field_kv fl) flds)) as [kvs|] eqn:Ea; [|discriminate]. cbn in Hv'. inversion Hv'; subst xv.
        cbn [has_var] in Hh. cbn [val_evs]. cbv zeta. rewrite uses_of_concat. apply concat_all_nil. intros l Hl.
        apply in_map_iff in Hl as (evs & <- & Hl). unfold mapi in Hl. apply In_mapi_from in Hl as (j & f & Hj & ->).
        destruct (Forall2_nth_l _ _ _ (all_some_Forall2 _ _ _ Ea) j f Hj) as ([kf xf] & Hxf & Hkv).
        apply field_kv_inv in Hkv as (nm & vn & r' & -> & _ & Hvn).
        cbv beta iota. rewrite uses_of_app.
        assert (Hdup : forall o : option npath, uses_of (match o with
                         | Some p0 => [EErr (VE R_UINF [p0; p ++ [(O, (0 + j)%nat); (O, O)]])]
                         | None => [] end) = []) by (intros [|]; reflexivity).
        rewrite Hdup. cbn [app].
        inversion IH as [|a l' Ha _]; subst. inversion Ha as [| |l'' Hl''| | |]; subst.
        rewrite Forall_forall in Hl''.
        pose proof (proj2 (Hl'' _ (nth_error_In _ _ Hj)) (ANode nm) vn r' eq_refl) as Hg.
        assert (Hxf' : has_var xf = false).
        { destruct (has_var xf) eqn:E; [|reflexivity]. exfalso.
          assert (existsb (fun kv : Value.str * value => has_var (snd kv)) kvs = true).
          { apply existsb_exists. exists (kf, xf). split; [eapply nth_error_In; eauto | exact E]. }
          congruence. }
        destruct (match it with
                  | Some t => match lookup_type s (named_of t) with Some (TInput defs one) => Some (defs, one) | _ => None end
                  | None => None end) as [[defs one]|];
          [destruct (find_arg _ defs)|]; apply Hg with xf; assumption.
      + (* variable *)
        destruct attrs as [|[|nm| | | |] r]; try reflexivity. cbn in Hv. inversion Hv; subst. discriminate.
    - intros a0 vn r Heq. inversion Heq; subst.
      inversion IH as [|a l _ Hr]; subst. inversion Hr as [|a' l' Ha' _]; subst.
      inversion Ha' as [|m Hm| | | |]; subst. apply Hm.
  Qed.
End NoVars.

Lemma errs_of_filter l : errs_of (filter is_err l) = errs_of l.
Proof. induction l as [|[e|u] l IH]; cbn; [reflexivity | f_equal; exact IH | exact IH]. Qed.

Section Final.
  Variable vs : vschema.
  Let s := vs_s vs.
  Variable fl : list N -> Z * N.
  Hypothesis Hinputs : schema_inputs_ok s = true.
  Hypothesis Hsok : schema_ok s = true.
  Hypothesis Hdirs : dirs_std vs = true.
  Hypothesis Himpl : schema_impl_ok s = true.
  Variable d : node.
  Variable x : document.
  Hypothesis Hx : to_exec fl None d = Some x.
  Hypothesis Hlocal : local_errs vs d = [].
  Hypothesis Hvarpos : rule_variables_in_allowed_position vs d = Some [].
  Hypothesis Hundef : rule_undefined13 vs d = Some [].
  Hypothesis Hufrag : rule_unique_fragment_names d = [].
  Hypothesis Hunused : rule_no_unused_fragments d = Some [].
  Hypothesis Huvar : rule_unique_variable_names d = [].

  Lemma vars_ok_rules : vars_ok s (d_vars x) = true.
  Proof.
    destruct (to_exec_inv _ _ _ Hx) as (jo & ss & a1 & a2 & vds & a4 & o & r & Hfilt & Ejo & Evars & _ & _).
    cbv zeta in Hfilt, Ejo.
    set (opn := Nd KOperationDefinition (ANode ss :: a1 :: a2 :: vds :: a4 :: AEnum o :: r)) in *.
    unfold vars_ok. apply andb_true_iff. split.
    - (* distinct names *)
      apply nodup_names_NoDup. rewrite (vardef_names fl _ _ Evars).
      destruct (xdef_of [(O, jo)] opn) as [op| |] eqn:Exo; try discriminate Exo.
      assert (Hovdefs : o_vdefs op = vdefs_of [(O, jo)] vds) by (cbn in Exo; inversion Exo; reflexivity).
      assert (Hop : In op (ops_of (xdefs d))).
      { apply In_ops. rewrite xdefs_doc. unfold mapi. apply In_mapi_from. exists jo, opn. split; [exact Ejo|].
        symmetry. exact Exo. }
      pose proof (proj1 (unique_variable_names_nil d) Huvar op Hop) as Hu. unfold UniqueNames, var_names in Hu.
      rewrite map_map in Hu. cbn [fst] in Hu. rewrite Hovdefs in Hu.
      destruct vds as [| |nodes| | |]; try constructor. cbn [vdefs_of attr_list] in *.
      unfold mapi in Hu. rewrite map_mapi_from in Hu. cbn [vd_name] in Hu.
      assert (E : forall (L : list node) i, mapi_from (fun (_ : nat) (a : node) => vardef_name a) i L = map vardef_name L).
      { induction L as [|a L IHL]; intro i; cbn; [reflexivity | rewrite IHL; reflexivity]. }
      rewrite E in Hu. exact Hu.
    - (* input types, defaults *)
      apply forallb_forall. intros vd Hvd. apply In_nth_error in Hvd as [i Hi].
      destruct (Forall2_nth _ _ _ (all_some_Forall2 _ _ _ Evars) i vd Hi) as (n & Hn & Hvo).
      apply vardef_of_inv in Hvo as (b0 & b1 & t & dv & b4 & r' & -> & _ & Ht & Hwf & Hd).
      pose proof (defs_errs vs d Hlocal jo opn Ejo) as He. unfold opn in He. cbn [def_evs def_evs_gen] in He.
      rewrite errs_of_app in He. apply app_eq_nil in He as [He _]. unfold vardef_evs in He.
      pose proof (mapi_nth_errs _ _ _ _ He Hn) as He'. cbv beta iota zeta in He'.
      rewrite !errs_of_app in He'. apply app_eq_nil in He' as [HA He']. apply app_eq_nil in He' as [HB He'].
      apply app_eq_nil in He' as [HC _].
      unfold tfa in HA, HB, HC. fold s in HA, HB, HC.
      destruct (in_map vs (named_of (ty_of t))); [|cbn in HA; discriminate].
      destruct (is_input_type s (ty_of t)) eqn:Ei; [|cbn in HA; discriminate].
      rewrite Ht, Ei. cbn [andb].
      destruct dv as [|v| | | |]; try (rewrite Hd; reflexivity).
      destruct Hd as (xv & Hv & Hnv & ->).
      unfold as_input in HB, HC. fold s in HB, HC. rewrite Ei in HB, HC.
      rewrite errs_of_err1 in HB. apply map_eq_nil in HB. rewrite errs_of_filter in HC.
      apply (lit_sound s fl [] Hinputs Hsok v _ _ false false xv Ei Hwf Hv HB HC).
      intros u Hu. rewrite (no_var_uses s fl v _ _ _ _ xv Hv Hnv) in Hu. destruct Hu.
  Qed.

  Section Root.
    Variable rt : Value.str.
    Hypothesis Hroot : root_type s (d_kind x) = Some rt.
    Hypothesis Hobj : is_object s rt = true.

    (* rules silent => every clause of the typing judgment that does not concern merging *)
    Theorem rules_static :
      vars_ok s (d_vars x) = true /\
      sstatic_list s (d_vars x) rt (d_sels x) = true /\
      forallb (sel_dirs_ok s (d_vars x) []) (d_sels x) = true /\
      frags_static s (d_vars x) (d_frags x) = true /\
      forallb (fun f => forallb (sel_dirs_ok s (d_vars x) []) (fr_sels f)) (d_frags x) = true.
    Proof.
      split; [exact vars_ok_rules|].
      apply (doc_static vs fl Hinputs Hsok Hdirs Himpl d x Hx); [|exact Hroot | exact Hobj].
      intros j n Hj. apply (defs_ok vs fl d x Hx Hlocal Hvarpos Hundef Hufrag Hunused Huvar j n Hj).
    Qed.

    (* ... and with the merging part (OverlappingFieldsCanBeMerged's contribution): the judgment *)
    Theorem rules_set_typed :
      names_agree s (d_frags x) rt (d_sels x) ->
      set_typed s (d_frags x) (d_vars x) [] rt (d_sels x).
    Proof.
      intro Hna. destruct rules_static as (_ & Hst & _ & Hfr & _).
      apply (static_typed s (d_vars x) (d_frags x) Hfr Himpl rt (d_sels x) Hna Hobj).
      apply (lstatic_of_list s (d_vars x) rt rt); [|exact Hst].
      unfold runtime_of_b. rewrite Hobj, str_eqb_refl. reflexivity.
    Qed.

    (* rules accept => execution over conforming data has no errors *)
    Theorem rules_sound fuel vars root cv j es cs :
      names_agree s (d_frags x) rt (d_sels x) ->
      coerce_variable_values s (d_vars x) vars = Some cv -> nulls_of (d_vars x) cv = [] ->
      conforms_root s rt root = true ->
      execute_fuel fuel s x vars root = Resp j es cs ->
      es = [] /\ j <> JNull.
    Proof.
      intros Hna Hcv Hn Hconf Hex. destruct rules_static as (Hv & Hst & _ & Hfr & _).
      unfold vars_ok in Hv. apply andb_true_iff in Hv as [Hnd _].
      eapply static_sound; eauto.
    Qed.
  End Root.
End Final.

(* the ten rules never run out of fuel *)
Theorem rules13_total vs d : exists es, rules13 vs d = Some es.
Proof.
  unfold rules13.
  assert (H1 : exists es, rule_variables_in_allowed_position vs d = Some es).
  { unfold rule_variables_in_allowed_position, rule_varpos_gen. apply opt_concat_total. intros o Ho.
    apply in_map_iff in Ho as (op & <- & _). unfold varpos_op.
    destruct (refs_total (frags_of (xdefs d)) (o_spreads op)) as [rf ->]. eauto. }
  assert (H2 : exists es, rule_undefined13 vs d = Some es).
  { unfold rule_undefined13. apply opt_concat_total. intros o Ho.
    apply in_map_iff in Ho as (op & <- & _). unfold undef_op.
    destruct (refs_total (frags_of (xdefs d)) (o_spreads op)) as [rf ->]. eauto. }
  destruct H1 as [a ->]. destruct H2 as [b ->]. eauto.
Qed.

(* rules13 silent, split into its parts *)
Lemma rules13_silent vs d : rules13 vs d = Some [] ->
  local_errs vs d = [] /\ rule_variables_in_allowed_position vs d = Some [] /\ rule_undefined13 vs d = Some [].
Proof.
  unfold rules13. destruct (rule_variables_in_allowed_position vs d) as [a|]; [|discriminate].
  destruct (rule_undefined13 vs d) as [b|]; [|discriminate]. intro H. injection H as H0.
  apply app_eq_nil in H0 as [H1 H2]. apply app_eq_nil in H2 as [H2 H3]. subst a b.
  repeat split. exact H1.
Qed.
