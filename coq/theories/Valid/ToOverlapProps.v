(* Properties of the translation Valid/ToOverlap.v: interning is injective; the translated schema
   answers the specification function's queries as the execution model's schema does. *)
From GV Require Import Base.Prelude Exec.Value Exec.Schema Exec.Spec Exec.SpecProps Exec.Typing Exec.Soundness
  Valid.ToOverlap.
From GV Require Valid.Overlap Valid.OverlapProps.

(* ---- interning ---- *)
Lemma pow2_odd_inj c c' r r' : 2 ^ c * (2 * r + 1) = 2 ^ c' * (2 * r' + 1) -> c = c' /\ r = r'.
Proof.
  assert (Hlt : forall a b x y, a < b -> 2 ^ a * (2 * x + 1) = 2 ^ b * (2 * y + 1) -> False).
  { intros a b x y Hab H.
    assert (Hb : b = a + N.succ (b - a - 1)) by lia. rewrite Hb in H.
    rewrite N.pow_add_r, N.pow_succ_r' in H. rewrite <- N.mul_assoc in H.
    apply N.mul_cancel_l in H; [|apply N.pow_nonzero; discriminate].
    remember (2 ^ (b - a - 1) * (2 * y + 1)) as z. lia. }
  intro H. destruct (N.lt_trichotomy c c') as [Hc|[Hc|Hc]].
  - exfalso. eapply Hlt; eauto.
  - subst c'. split; [reflexivity|]. apply N.mul_cancel_l in H; [lia | apply N.pow_nonzero; discriminate].
  - exfalso. eapply Hlt; [exact Hc | symmetry; exact H].
Qed.

Lemma code_pos c r : code (c :: r) <> 0.
Proof.
  cbn [code]. intro H. apply N.eq_mul_0 in H as [H|H]; [|lia].
  apply N.pow_nonzero in H; [exact H | discriminate].
Qed.

Lemma code_inj a : forall b, code a = code b -> a = b.
Proof.
  induction a as [|c a IH]; intros [|c' b] H.
  - reflexivity.
  - exfalso. symmetry in H. exact (code_pos _ _ H).
  - exfalso. exact (code_pos _ _ H).
  - cbn [code] in H. apply pow2_odd_inj in H as [-> H]. f_equal. apply IH. exact H.
Qed.

Lemma intern_inj a b : intern a = intern b -> a = b.
Proof.
  unfold intern. destruct (str_eqb a n_typename) eqn:Ea, (str_eqb b n_typename) eqn:Eb.
  - apply str_eqb_eq in Ea, Eb. congruence.
  - destruct (str_eqb b n_String); intro H; [discriminate | lia].
  - destruct (str_eqb a n_String); intro H; [discriminate | lia].
  - destruct (str_eqb a n_String) eqn:Sa, (str_eqb b n_String) eqn:Sb; intro H; try lia.
    + apply str_eqb_eq in Sa, Sb. congruence.
    + apply code_inj. lia.
Qed.

Lemma intern_eqb a b : (intern a =? intern b) = str_eqb a b.
Proof.
  destruct (str_eqb a b) eqn:E.
  - apply str_eqb_eq in E. subst. apply N.eqb_refl.
  - apply N.eqb_neq. intro H. apply intern_inj in H. subst. rewrite str_eqb_refl in E. discriminate.
Qed.

Lemma str_eqb_sym a b : str_eqb a b = str_eqb b a.
Proof.
  destruct (str_eqb a b) eqn:E.
  - apply str_eqb_eq in E. subst. symmetry. apply str_eqb_refl.
  - destruct (str_eqb b a) eqn:E'; [|reflexivity]. apply str_eqb_eq in E'. subst. rewrite str_eqb_refl in E. discriminate.
Qed.

Lemma intern_typename : intern n_typename = Overlap.typename_field.
Proof. reflexivity. Qed.
Lemma intern_string : intern n_String = Overlap.string_type.
Proof. reflexivity. Qed.

Lemma intern_typename_iff x : (intern x =? Overlap.typename_field) = str_eqb x n_typename.
Proof. rewrite <- intern_typename. apply intern_eqb. Qed.

(* ---- the schema ---- *)
Definition o_tdef (n : str) (td : type_def) : Overlap.tdef :=
  match td with
  | TObject fs _ => Overlap.mkTdef (intern n) Overlap.KObject (o_fields fs)
  | TInterface fs => Overlap.mkTdef (intern n) Overlap.KInterface (o_fields fs)
  | TUnion _ => Overlap.mkTdef (intern n) Overlap.KUnion []
  | _ => Overlap.mkTdef (intern n) Overlap.KLeaf []
  end.

Lemma find_app {A} (f : A -> bool) l1 l2 :
  find f (l1 ++ l2) = match find f l1 with Some x => Some x | None => find f l2 end.
Proof. induction l1 as [|a l IH]; cbn; [reflexivity|]. destruct (f a); auto. Qed.

Lemma find_types_user n l :
  find (fun d => Overlap.td_name d =? intern n)
       (flat_map (fun e : str * type_def =>
          match snd e with
          | TObject fs _ => [Overlap.mkTdef (intern (fst e)) Overlap.KObject (o_fields fs)]
          | TInterface fs => [Overlap.mkTdef (intern (fst e)) Overlap.KInterface (o_fields fs)]
          | TUnion _ => [Overlap.mkTdef (intern (fst e)) Overlap.KUnion []]
          | TEnum _ | TScalar _ | TInput _ _ => [Overlap.mkTdef (intern (fst e)) Overlap.KLeaf []]
          end) l)
  = option_map (o_tdef n) (lookup n l).
Proof.
  induction l as [|[k td] l IH]; [reflexivity|]. cbn [flat_map lookup fst snd].
  rewrite find_app.
  assert (Hk : forall dk fl, find (fun d => Overlap.td_name d =? intern n) [Overlap.mkTdef (intern k) dk fl]
                    = if str_eqb n k then Some (Overlap.mkTdef (intern k) dk fl) else None).
  { intros dk fl. cbn. rewrite intern_eqb, (str_eqb_sym k n). reflexivity. }
  destruct td; rewrite Hk; (destruct (str_eqb n k) eqn:E; [apply str_eqb_eq in E; subst k; reflexivity | exact IH]).
Qed.

Lemma find_type_o s n :
  Overlap.find_type (o_schema s) (intern n) = option_map (o_tdef n) (lookup_type s n).
Proof.
  unfold Overlap.find_type, o_schema, lookup_type. rewrite find_app, find_types_user.
  unfold o_scalars. cbn [map find Overlap.td_name]. rewrite !intern_eqb. unfold scalar_of_name.
  rewrite (str_eqb_sym n_Int n), (str_eqb_sym n_Float n), (str_eqb_sym n_String n),
    (str_eqb_sym n_Boolean n), (str_eqb_sym n_ID n).
  destruct (str_eqb n n_Int) eqn:E1; [apply str_eqb_eq in E1; subst; reflexivity|].
  destruct (str_eqb n n_Float) eqn:E2; [apply str_eqb_eq in E2; subst; reflexivity|].
  destruct (str_eqb n n_String) eqn:E3; [apply str_eqb_eq in E3; subst; reflexivity|].
  destruct (str_eqb n n_Boolean) eqn:E4; [apply str_eqb_eq in E4; subst; reflexivity|].
  destruct (str_eqb n n_ID) eqn:E5; [apply str_eqb_eq in E5; subst; reflexivity|].
  reflexivity.
Qed.

Lemma kind_of_o s n :
  Overlap.kind_of (o_schema s) (intern n) = option_map (fun td => Overlap.td_kind (o_tdef n td)) (lookup_type s n).
Proof. unfold Overlap.kind_of. rewrite find_type_o. destruct (lookup_type s n); reflexivity. Qed.

Lemma is_object_o s n : Overlap.is_object (o_schema s) (intern n) = is_object s n.
Proof.
  unfold Overlap.is_object, is_object. rewrite kind_of_o. destruct (lookup_type s n) as [[]|]; reflexivity.
Qed.

Lemma is_composite_o s n :
  Overlap.is_composite (o_schema s) (intern n) =
  match lookup_type s n with Some td => is_composite_def td | None => false end.
Proof.
  unfold Overlap.is_composite. rewrite kind_of_o. destruct (lookup_type s n) as [[]|]; reflexivity.
Qed.

Lemma is_leaf_o s n :
  Overlap.is_leaf (o_schema s) (intern n) =
  match lookup_type s n with Some td => negb (is_composite_def td) | None => false end.
Proof.
  unfold Overlap.is_leaf. rewrite kind_of_o. destruct (lookup_type s n) as [[]|]; reflexivity.
Qed.

Lemma assoc_o_fields nm fs :
  Overlap.assoc (intern nm) (o_fields fs) = option_map (fun f => o_ty (f_type f)) (find_field nm fs).
Proof.
  induction fs as [|f fs IH]; [reflexivity|]. cbn [o_fields map Overlap.assoc find_field].
  rewrite intern_eqb, (str_eqb_sym (f_name f) nm). destruct (str_eqb nm (f_name f)); [reflexivity | exact IH].
Qed.

Lemma field_type_o s pt nm :
  Overlap.field_type (o_schema s) (intern pt) (intern nm) =
  if str_eqb nm n_typename
  then (if match lookup_type s pt with Some td => is_composite_def td | None => false end
        then Some (Overlap.TNonNull (Overlap.TNamed Overlap.string_type)) else None)
  else option_map (fun f => o_ty (f_type f)) (lookup_field s pt nm).
Proof.
  unfold Overlap.field_type. rewrite intern_typename_iff, is_composite_o.
  destruct (str_eqb nm n_typename); [reflexivity|].
  rewrite find_type_o. unfold lookup_field. destruct (lookup_type s pt) as [[]|]; cbn; try reflexivity;
    apply assoc_o_fields.
Qed.

Lemma named_o_ty t : Overlap.named (o_ty t) = intern (named_of t).
Proof. induction t; cbn; auto. Qed.

(* ---- the document ---- *)
Section SelInd.
  Variable P : selection -> Prop.
  Hypothesis Hf : forall al nm args dirs sub, Forall P sub -> P (SField al nm args dirs sub).
  Hypothesis Hs : forall nm dirs, P (SSpread nm dirs).
  Hypothesis Hi : forall tc dirs sub, Forall P sub -> P (SInline tc dirs sub).
  Fixpoint selection_ind2 (x : selection) : P x :=
    let all := fix go (l : list selection) : Forall P l :=
      match l with [] => Forall_nil _ | y :: r => Forall_cons y (selection_ind2 y) (go r) end in
    match x with
    | SField al nm args dirs sub => Hf al nm args dirs sub (all sub)
    | SSpread nm dirs => Hs nm dirs
    | SInline tc dirs sub => Hi tc dirs sub (all sub)
    end.
End SelInd.

Lemma o_sel_list : forall l c,
  (fix go (l : list selection) (c : N) {struct l} : Overlap.sels * N :=
     match l with
     | [] => (Overlap.SelNil, c)
     | y :: r => let '(h, c1) := o_sel y c in
                 let '(orest, c2) := go r c1 in (o_cons h orest, c2)
     end) l c = o_sels c l.
Proof. induction l as [|y r IH]; intro c; simpl; [reflexivity|]. destruct (o_sel y c) as [h c1]. rewrite IH. reflexivity. Qed.

Lemma o_sel_field al nm args dirs sub c :
  o_sel (SField al nm args dirs sub) c =
  let '(osub, c1) := o_sels (c + 1) sub in
  (HField (Overlap.mkFld c (intern (response_key al nm)) (intern nm) (o_args args)) osub, c1).
Proof. cbn [o_sel]. rewrite o_sel_list. reflexivity. Qed.

Lemma o_sel_inline tc dirs sub c :
  o_sel (SInline tc dirs sub) c =
  let '(osub, c1) := o_sels (c + 1) sub in (HInline c (option_map intern tc) osub, c1).
Proof. cbn [o_sel]. rewrite o_sel_list. reflexivity. Qed.

Lemma o_sel_spread nm dirs c : o_sel (SSpread nm dirs) c = (HSpread (intern nm), c).
Proof. reflexivity. Qed.

(* ---- occurrence numbers are distinct ---- *)
Definition in_range (c c' : N) (l : list N) : Prop := forall i, In i l -> c <= i < c'.

Lemma NoDup_app_ranges (l1 l2 : list N) a b c :
  NoDup l1 -> NoDup l2 -> in_range a b l1 -> in_range b c l2 -> NoDup (l1 ++ l2).
Proof.
  intros H1 H2 R1 R2. induction H1 as [|x l Hx Hl IH]; cbn; [exact H2|].
  constructor.
  - rewrite in_app_iff. intros [H|H]; [contradiction|].
    pose proof (R1 x (or_introl eq_refl)). pose proof (R2 x H). lia.
  - apply IH. intros i Hi. apply R1. right. exact Hi.
Qed.

Definition hfids (h : ohead) : list N := Overlap.fids_sels (o_cons h Overlap.SelNil).

Lemma fids_cons h rest : Overlap.fids_sels (o_cons h rest) = hfids h ++ Overlap.fids_sels rest.
Proof.
  destruct h as [f sub|i tc sub|n]; unfold hfids; cbn [o_cons Overlap.fids_sels]; rewrite ?app_nil_r; reflexivity.
Qed.

Definition ids_ok (c c' : N) (l : list N) : Prop := c <= c' /\ NoDup l /\ in_range c c' l.

Lemma o_sels_ids_from L :
  Forall (fun x => forall c h c', o_sel x c = (h, c') -> ids_ok c c' (hfids h)) L ->
  forall c O c', o_sels c L = (O, c') -> ids_ok c c' (Overlap.fids_sels O).
Proof.
  induction 1 as [|y r Hy Hr IH]; intros c O c' H; cbn [o_sels] in H.
  - inversion H; subst. cbn. split; [lia | split; [constructor | intros i []]].
  - destruct (o_sel y c) as [h c1] eqn:Ey. destruct (o_sels c1 r) as [orest c2] eqn:Er. inversion H; subst.
    destruct (Hy _ _ _ Ey) as (L1 & N1 & R1). destruct (IH _ _ _ Er) as (L2 & N2 & R2).
    rewrite fids_cons. split; [lia|]. split; [eapply NoDup_app_ranges; eauto|].
    intros i Hi. apply in_app_iff in Hi as [Hi|Hi]; [pose proof (R1 i Hi) | pose proof (R2 i Hi)]; lia.
Qed.

Lemma o_sel_ids x : forall c h c', o_sel x c = (h, c') -> ids_ok c c' (hfids h).
Proof.
  induction x as [al nm args dirs sub IH|nm dirs|tc dirs sub IH] using selection_ind2; intros c h c' H.
  - rewrite o_sel_field in H. destruct (o_sels (c + 1) sub) as [osub c1] eqn:Es. inversion H; subst.
    destruct (o_sels_ids_from sub IH _ _ _ Es) as (L1 & N1 & R1).
    unfold hfids. cbn [o_cons Overlap.fids_sels Overlap.f_id]. rewrite app_nil_r.
    split; [lia|]. split.
    + constructor; [|exact N1]. intro Hi. pose proof (R1 _ Hi). lia.
    + intros i [<-|Hi]; [lia | pose proof (R1 _ Hi); lia].
  - rewrite o_sel_spread in H. inversion H; subst. unfold hfids. cbn. split; [lia | split; [constructor | intros i []]].
  - rewrite o_sel_inline in H. destruct (o_sels (c + 1) sub) as [osub c1] eqn:Es. inversion H; subst.
    destruct (o_sels_ids_from sub IH _ _ _ Es) as (L1 & N1 & R1).
    unfold hfids. cbn [o_cons Overlap.fids_sels]. rewrite app_nil_r.
    split; [lia|]. split; [exact N1|]. intros i Hi. pose proof (R1 _ Hi). lia.
Qed.

Lemma o_sels_ids L c O c' : o_sels c L = (O, c') -> ids_ok c c' (Overlap.fids_sels O).
Proof.
  apply o_sels_ids_from. apply Forall_forall. intros x _. apply o_sel_ids.
Qed.

Lemma o_frags_ids l : forall c ofr c', o_frags c l = (ofr, c') ->
  ids_ok c c' (flat_map (fun fd => Overlap.fids_sels (Overlap.fr_body fd)) ofr).
Proof.
  induction l as [|f l IH]; intros c ofr c' H; cbn [o_frags] in H.
  - inversion H; subst. cbn. split; [lia | split; [constructor | intros i []]].
  - destruct (o_sels c (fr_sels f)) as [body c1] eqn:Eb. destruct (o_frags c1 l) as [rest c2] eqn:Er.
    inversion H; subst. cbn [flat_map Overlap.fr_body].
    destruct (o_sels_ids _ _ _ _ Eb) as (L1 & N1 & R1). destruct (IH _ _ _ Er) as (L2 & N2 & R2).
    split; [lia|]. split; [eapply NoDup_app_ranges; eauto|].
    intros i Hi. apply in_app_iff in Hi as [Hi|Hi]; [pose proof (R1 i Hi) | pose proof (R2 i Hi)]; lia.
Qed.

Lemma NoDup_nodupb l : NoDup l -> Overlap.nodupb l = true.
Proof.
  induction 1 as [|x l Hx Hl IH]; cbn; [reflexivity|]. rewrite IH, andb_true_r.
  apply negb_true_iff. destruct (Overlap.mem x l) eqn:E; [|reflexivity].
  apply OverlapProps.mem_In in E. contradiction.
Qed.

Theorem o_doc_ids rt d : Overlap.nodupb (Overlap.doc_fids (o_doc rt d)) = true.
Proof.
  apply NoDup_nodupb. unfold o_doc.
  destruct (o_sels 1 (d_sels d)) as [osels c1] eqn:Es. destruct (o_frags c1 (d_frags d)) as [ofr c2] eqn:Ef.
  unfold Overlap.doc_fids. cbn [Overlap.d_ops Overlap.d_frags flat_map snd]. rewrite app_nil_r.
  destruct (o_sels_ids _ _ _ _ Es) as (L1 & N1 & R1). destruct (o_frags_ids _ _ _ _ Ef) as (L2 & N2 & R2).
  eapply NoDup_app_ranges; eauto.
Qed.
