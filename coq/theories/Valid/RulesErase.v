(* Descriptions: every piece of data the rules read from the tree (Valid/Rules.v, extraction
   layer) is unchanged by erase_descriptions; hence so is every rule. *)
From GV Require Import Base.Prelude Lang.Ast Valid.Rules Valid.RulesBase.

Notation E := erase_descriptions.

Definition erase_attr (a : attr) : attr :=
  match a with
  | ANode m => ANode (E m)
  | AList l => AList (map E l)
  | _ => a
  end.

Definition is_desc (k : nkind) (i : nat) : bool :=
  match desc_index k with Some j => (i =? j)%nat | None => false end.

Lemma erase_unfold k attrs :
  E (Nd k attrs) = Nd k (mapi (fun i a => if is_desc k i then ANone else erase_attr a) attrs).
Proof.
  cbn [erase_descriptions]. f_equal. unfold mapi, is_desc. apply mapi_from_ext. intros j a _.
  destruct (desc_index k); [destruct (_ =? _)%nat|]; destruct a; reflexivity.
Qed.

Lemma desc_not_key k i : is_desc k i = true -> ~ In i (vkeys k).
Proof.
  unfold is_desc. destruct k; cbn; try discriminate; intro H; apply Nat.eqb_eq in H; subst; cbn;
    intuition discriminate.
Qed.

Lemma kind_of_erase n : kind_of (E n) = kind_of n.
Proof. destruct n. reflexivity. Qed.

Lemma name_str_erase n : name_str (E n) = name_str n.
Proof.
  destruct n as [k attrs]. destruct k; try reflexivity.
  destruct attrs as [|[] attrs]; reflexivity.
Qed.

Lemma arg_name_erase n : arg_name (E n) = arg_name n.
Proof.
  destruct n as [k attrs]. destruct k; try reflexivity;
    (destruct attrs as [|[] attrs]; try reflexivity; cbn; apply name_str_erase).
Qed.

Lemma vardef_name_erase n : vardef_name (E n) = vardef_name n.
Proof.
  destruct n as [k attrs]. destruct k; try reflexivity.
  destruct attrs as [|a0 [|[] attrs]]; try reflexivity.
  cbn. destruct n as [k' attrs']. destruct k'; try reflexivity.
  destruct attrs' as [|[] attrs']; try reflexivity. cbn. apply name_str_erase.
Qed.

Lemma spread_of_erase p n : spread_of p (E n) = spread_of p n.
Proof.
  destruct n as [k attrs]. destruct k; try reflexivity.
  destruct attrs as [|a0 [|[] attrs]]; try reflexivity. cbn. rewrite name_str_erase. reflexivity.
Qed.

(* ---- the traversal ---- *)
Definition erase_sibs (s : list (path * node)) : list (path * node) :=
  map (fun pn => (fst pn, E (snd pn))) s.
Definition erase_item (it : item) : item :=
  It (it_path it) (E (it_node it)) (erase_sibs (it_sibs it)).

Lemma pick_map {A B} (f : list A -> list B) keys ls :
  f [] = [] -> pick keys (map f ls) = map f (pick keys ls).
Proof.
  intro H0. unfold pick. rewrite map_map. apply map_ext. intro i.
  revert i; induction ls as [|x ls IH]; intros [|i]; cbn; auto.
Qed.

Lemma pick_ext {A} keys (l1 l2 : list (list A)) :
  (forall i, In i keys -> nth i l1 [] = nth i l2 []) -> pick keys l1 = pick keys l2.
Proof. intro H. unfold pick. apply map_ext_in. exact H. Qed.

Lemma nth_error_mapi_from {A B} (f : nat -> A -> B) i l j :
  nth_error (mapi_from f i l) j = option_map (f (i + j)%nat) (nth_error l j).
Proof.
  revert i j; induction l as [|a l IH]; intros i [|j]; cbn; try reflexivity.
  - rewrite Nat.add_0_r. reflexivity.
  - rewrite IH. replace (S i + j)%nat with (i + S j)%nat by lia. reflexivity.
Qed.

Lemma sibs_erase (q : nat -> path) pre :
  mapi (fun j' m' => (q j', m')) (map E pre) = erase_sibs (mapi (fun j' m' => (q j', m')) pre).
Proof. unfold mapi, erase_sibs. rewrite mapi_from_map, map_mapi_from. reflexivity. Qed.

Section WalkErase.
  Variable stop : nkind -> bool.
  Let P (n : node) : Prop := forall p sibs,
    walk stop p (erase_sibs sibs) (E n) = map erase_item (walk stop p sibs n).

  Lemma walk_list_erase (p : path) (i : nat) l : Forall P l -> forall j pre,
    mapi_pre (fun j pre m => walk stop (p ++ [(i, j)]) (mapi (fun j' m' => (p ++ [(i, j')], m')) pre) m)
             j (map E pre) (map E l) =
    map (map erase_item)
      (mapi_pre (fun j pre m => walk stop (p ++ [(i, j)]) (mapi (fun j' m' => (p ++ [(i, j')], m')) pre) m)
                j pre l).
  Proof.
    induction 1 as [|m l Hm Hl IH]; intros j pre; cbn [mapi_pre map]; [reflexivity|].
    f_equal.
    - rewrite (sibs_erase (fun j' => p ++ [(i, j')])). apply Hm.
    - specialize (IH (S j) (pre ++ [m])). rewrite map_app in IH. exact IH.
  Qed.

  Lemma walk_erase n : P n.
  Proof.
    induction n as [k attrs IH] using node_ind2. intros p sibs.
    rewrite erase_unfold. cbn [walk map]. f_equal.
    { unfold erase_item. cbn [it_path it_node it_sibs]. rewrite erase_unfold. reflexivity. }
    destruct (stop k); [reflexivity|].
    rewrite <- concat_map_map. f_equal.
    rewrite <- pick_map by reflexivity.
    apply pick_ext. intros i Hi.
    unfold mapi. rewrite map_mapi_from, !mapi_from_nth, nth_error_mapi_from. cbn [plus].
    destruct (nth_error attrs i) as [a|] eqn:Ea; cbn [option_map]; [|reflexivity].
    assert (Hd : is_desc k i = false).
    { destruct (is_desc k i) eqn:Hd; [|reflexivity]. exfalso. exact (desc_not_key k i Hd Hi). }
    rewrite Hd.
    assert (Ha : attr_all P a).
    { rewrite Forall_forall in IH. apply IH. eapply nth_error_In; eauto. }
    destruct Ha as [|m Hm|l Hl| | |]; cbn [erase_attr]; try reflexivity.
    - apply (Hm (p ++ [(i, O)]) []).
    - rewrite <- concat_map_map. f_equal. apply (walk_list_erase p i l Hl O []).
  Qed.
End WalkErase.

Lemma flat_map_erase_items {B} (f : item -> list B) its :
  (forall it, f (erase_item it) = f it) ->
  flat_map f (map erase_item its) = flat_map f its.
Proof. intro H. rewrite flat_map_map. apply flat_map_ext'. intros; apply H. Qed.

Lemma doc_items_erase d : doc_items (E d) = map erase_item (doc_items d).
Proof. apply (walk_erase no_stop d [] []). Qed.

(* ---- spreads of a selection set ---- *)
Definition sel_part (p : path) (j : nat) (sel : node) : list spread * list spread :=
  match sel with
  | Nd KFragmentSpread _ => ([spread_of (p ++ [(0, j)]) sel], [])
  | Nd KField (_ :: _ :: _ :: _ :: ANode s' :: _) => ([], set_spreads (p ++ [(0, j); (4, O)]) s')
  | Nd KInlineFragment (_ :: ANode s' :: _) => ([], set_spreads (p ++ [(0, j); (1, O)]) s')
  | _ => ([], [])
  end%nat.

Lemma set_spreads_unfold p sels r :
  set_spreads p (Nd KSelectionSet (AList sels :: r)) =
  let parts := mapi (sel_part p) sels in
  concat (map fst parts) ++ concat (rev (map snd parts)).
Proof. reflexivity. Qed.

Lemma set_spreads_erase s :
  (forall p, set_spreads p (E s) = set_spreads p s) /\
  (forall p j, sel_part p j (E s) = sel_part p j s).
Proof.
  induction s as [k attrs IH] using node_ind2. split.
  - intro p. destruct k; try reflexivity.
    destruct attrs as [|[| |sels| | |] r]; try reflexivity.
    rewrite erase_unfold. cbn [mapi mapi_from is_desc desc_index erase_attr].
    rewrite !set_spreads_unfold. cbv zeta.
    inversion IH as [|a l Ha Hl]; subst. inversion Ha as [| |l' Hs| | |]; subst.
    assert (Eq : mapi (sel_part p) (map E sels) = mapi (sel_part p) sels).
    { unfold mapi. rewrite mapi_from_map. apply mapi_from_ext. intros j a Hj.
      rewrite Forall_forall in Hs. apply (Hs a). eapply nth_error_In; eauto. }
    rewrite Eq. reflexivity.
  - intros p j. destruct k; try reflexivity.
    + (* Field *)
      destruct attrs as [|a0 [|a1 [|a2 [|a3 [|[| s'| | | |] r]]]]]; try reflexivity.
      rewrite erase_unfold. cbn [mapi mapi_from is_desc desc_index erase_attr sel_part].
      repeat (inversion IH as [|? ? ? IH']; subst; clear IH; rename IH' into IH).
      match goal with H : attr_all _ (ANode s') |- _ => inversion H as [|? Hs| | | |]; subst end.
      f_equal. apply Hs.
    + (* FragmentSpread *)
      cbn [sel_part]. rewrite erase_unfold at 1. cbn [sel_part].
      f_equal. f_equal. rewrite <- erase_unfold. apply spread_of_erase.
    + (* InlineFragment *)
      destruct attrs as [|a0 [|[| s'| | | |] r]]; try reflexivity.
      rewrite erase_unfold. cbn [mapi mapi_from is_desc desc_index erase_attr sel_part].
      repeat (inversion IH as [|? ? ? IH']; subst; clear IH; rename IH' into IH).
      match goal with H : attr_all _ (ANode s') |- _ => inversion H as [|? Hs| | | |]; subst end.
      f_equal. apply Hs.
Qed.

Lemma sel_spreads_erase p a : sel_spreads p (erase_attr a) = sel_spreads p a.
Proof. destruct a; try reflexivity. cbn. apply set_spreads_erase. Qed.

Lemma vdefs_of_erase p a : vdefs_of p (erase_attr a) = vdefs_of p a.
Proof.
  destruct a; try reflexivity. cbn. unfold mapi. rewrite mapi_from_map.
  apply mapi_from_ext. intros. rewrite vardef_name_erase. reflexivity.
Qed.

Lemma usages_of_erase p n : usages_of p (E n) = usages_of p n.
Proof.
  unfold usages_of.
  replace (walk stop_vardef p [] (E n)) with (map erase_item (walk stop_vardef p [] n))
    by (symmetry; apply (walk_erase stop_vardef n p [])).
  apply flat_map_erase_items. intros [q m sb]. cbn [erase_item it_node it_path].
  destruct m as [k attrs]. destruct k; try reflexivity.
  destruct attrs as [|[] attrs]; try reflexivity. cbn. rewrite name_str_erase. reflexivity.
Qed.

Lemma opt_name_erase (nm : attr) :
  match erase_attr nm with ANode m => Some (name_str m) | _ => None end =
  match nm with ANode m => Some (name_str m) | _ => None end.
Proof. destruct nm; try reflexivity. cbn. rewrite name_str_erase. reflexivity. Qed.

Lemma def_name_erase (nm : attr) :
  match erase_attr nm with ANode m => name_str m | _ => [] end =
  match nm with ANode m => name_str m | _ => [] end.
Proof. destruct nm; try reflexivity. cbn. rewrite name_str_erase. reflexivity. Qed.

Lemma xdef_of_erase p n : xdef_of p (E n) = xdef_of p n.
Proof.
  destruct n as [k attrs]. destruct k; try reflexivity.
  - (* fragment definition *)
    destruct attrs as [|s [|dsc [|nm [|vs r]]]]; try reflexivity.
    pose proof (usages_of_erase p (Nd KFragmentDefinition (s :: dsc :: nm :: vs :: r))) as Hu.
    rewrite erase_unfold in *. cbn [mapi mapi_from is_desc desc_index Nat.eqb xdef_of] in *.
    rewrite def_name_erase, vdefs_of_erase, sel_spreads_erase, Hu. reflexivity.
  - (* operation definition *)
    destruct attrs as [|s [|dsc [|nm [|vs r]]]]; try reflexivity.
    pose proof (usages_of_erase p (Nd KOperationDefinition (s :: dsc :: nm :: vs :: r))) as Hu.
    rewrite erase_unfold in *. cbn [mapi mapi_from is_desc desc_index Nat.eqb xdef_of] in *.
    rewrite opt_name_erase, vdefs_of_erase, sel_spreads_erase, Hu. reflexivity.
Qed.

Theorem xdefs_erase d : xdefs (E d) = xdefs d.
Proof.
  destruct d as [k attrs]. destruct k; try reflexivity.
  destruct attrs as [|[| |l| | |] r]; try reflexivity.
  rewrite erase_unfold. cbn [mapi mapi_from is_desc desc_index erase_attr xdefs].
  unfold mapi. rewrite mapi_from_map. apply mapi_from_ext. intros. apply xdef_of_erase.
Qed.

Theorem all_spreads_erase d : all_spreads (E d) = all_spreads d.
Proof.
  unfold all_spreads. rewrite doc_items_erase. apply flat_map_erase_items.
  intros [q m sb]. cbn [erase_item it_node it_path].
  pose proof (spread_of_erase q m) as Hs. destruct m as [k attrs].
  destruct k; try reflexivity. rewrite erase_unfold in *. cbn. cbn in Hs. rewrite Hs. reflexivity.
Qed.

Lemma named_args_erase p i a : named_args p i (erase_attr a) = named_args p i a.
Proof.
  destruct a; try reflexivity. cbn. unfold mapi. rewrite mapi_from_map.
  apply mapi_from_ext. intros. rewrite arg_name_erase. reflexivity.
Qed.

Theorem arg_lists_erase d : arg_lists (E d) = arg_lists d.
Proof.
  unfold arg_lists. rewrite doc_items_erase. apply flat_map_erase_items.
  intros [q m sb]. cbn [erase_item it_node it_path].
  destruct m as [k attrs]. destruct k; try reflexivity.
  - destruct attrs as [|a0 [|a1 r]]; try reflexivity.
    rewrite erase_unfold. cbn [mapi mapi_from is_desc desc_index].
    rewrite named_args_erase. reflexivity.
  - destruct attrs as [|a0 [|a1 [|a2 [|a3 r]]]]; try reflexivity.
    rewrite erase_unfold. cbn [mapi mapi_from is_desc desc_index].
    rewrite named_args_erase. reflexivity.
Qed.

Theorem object_fields_erase d : object_fields (E d) = object_fields d.
Proof.
  unfold object_fields. rewrite doc_items_erase. apply flat_map_erase_items.
  intros [q m sb]. cbn [erase_item it_node it_path it_sibs].
  pose proof (arg_name_erase m) as Hm.
  destruct m as [k attrs]. destruct k; try reflexivity.
  rewrite erase_unfold in *. cbn [mapi mapi_from is_desc desc_index] in *.
  cbn [arg_name] in *. f_equal. f_equal.
  - unfold erase_sibs. rewrite map_map. apply map_ext. intros [q' m']. cbn [fst snd].
    rewrite arg_name_erase. reflexivity.
  - f_equal. exact Hm.
Qed.
