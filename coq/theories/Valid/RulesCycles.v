(* NoFragmentCyclesRule: the depth-first search of Valid/Rules.detect.
   - fuel S (number of fragment definitions) is always sufficient (cyclic graphs included);
   - every reported error is a closed chain of fragment spreads (RulesSpec.IsCycle);
   - with unique fragment names: no error is reported iff no fragment is cyclic. *)
From Coq Require Import Relations.
From GV Require Import Base.Prelude Lang.Ast Valid.Rules Valid.RulesBase Valid.RulesSpec
  Valid.RulesGraph.

Lemma filter_len_mono {A} (p q : A -> bool) L :
  (forall x, p x = true -> q x = true) -> (length (filter p L) <= length (filter q L))%nat.
Proof.
  intro H. induction L as [|a L IH]; cbn; [lia|].
  destruct (p a) eqn:Ep; [rewrite (H a Ep); cbn; lia | destruct (q a); cbn; lia].
Qed.

Section Cycles.
  Variable fs : list fraginfo.

  Definition mono (st st' : cstate) : Prop :=
    (exists new, snd st' = snd st ++ new) /\ incl (fst st) (fst st').

  Lemma mono_refl st : mono st st.
  Proof. split; [exists []; rewrite app_nil_r; reflexivity | apply incl_refl]. Qed.

  Lemma mono_trans a b c : mono a b -> mono b c -> mono a c.
  Proof.
    intros [[n1 H1] I1] [[n2 H2] I2]. split.
    - exists (n1 ++ n2). rewrite H2, H1, app_assoc. reflexivity.
    - eapply incl_tran; eauto.
  Qed.

  Lemma uncol_mono st st' : mono st st' -> (uncol fs (fst st') <= uncol fs (fst st))%nat.
  Proof.
    intros [_ H]. apply filter_len_mono. intros x Hx. apply negb_true_iff in Hx. apply negb_true_iff.
    apply mem_false. apply mem_false in Hx. intro Hin. apply Hx. apply H. exact Hin.
  Qed.

  Section Loop.
    Variable rec : fraginfo -> list spread -> cstate -> option cstate.
    Variable spath : list spread.
    Variable index' : list (str * nat).
    Hypothesis rec_mono : forall g sp st st', rec g sp st = Some st' -> mono st st'.

    Lemma dloop_mono sps : forall st st',
      dloop rec fs spath index' sps st = Some st' -> mono st st'.
    Proof.
      induction sps as [|s r IH]; intros st st' H; cbn in H.
      - inversion H. apply mono_refl.
      - destruct (lookup (sp_name s) index') as [ci|].
        + apply IH in H. eapply mono_trans; [|exact H]. split; [cbn; eauto | apply incl_refl].
        + destruct (get_fragment fs (sp_name s)) as [g|]; [|apply IH; exact H].
          destruct (rec g (spath ++ [s]) st) as [st1|] eqn:Er; [|discriminate].
          eapply mono_trans; [eapply rec_mono; eauto | apply IH; exact H].
    Qed.

    Variable bound : nat.
    Hypothesis rec_total : forall g sp st, In g fs -> (uncol fs (fst st) < bound)%nat ->
      exists st', rec g sp st = Some st'.

    Lemma dloop_total sps : forall st, (uncol fs (fst st) < bound)%nat ->
      exists st', dloop rec fs spath index' sps st = Some st'.
    Proof.
      induction sps as [|s r IH]; intros st Hb; cbn; [eauto|].
      destruct (lookup (sp_name s) index') as [ci|]; [apply IH; exact Hb|].
      destruct (get_fragment fs (sp_name s)) as [g|] eqn:Eg; [|apply IH; exact Hb].
      apply get_fragment_Some in Eg as [Hg _].
      destruct (rec_total g (spath ++ [s]) st Hg Hb) as [st1 E1]. rewrite E1.
      apply IH. pose proof (uncol_mono _ _ (rec_mono _ _ _ _ E1)). lia.
    Qed.
  End Loop.

  Lemma detect_mono fuel : forall f spath index st st',
    detect fuel fs f spath index st = Some st' -> mono st st' /\ In (f_name f) (fst st').
  Proof.
    induction fuel as [|fuel IH]; intros f spath index st st' H; [discriminate|].
    cbn [detect] in H. destruct (mem (f_name f) (fst st)) eqn:Em.
    - inversion H; subst. split; [apply mono_refl | apply mem_In; exact Em].
    - set (st1 := (f_name f :: fst st, snd st)) in *.
      assert (M1 : mono st st1).
      { split; [exists []; cbn; rewrite app_nil_r; reflexivity | cbn; apply incl_tl, incl_refl]. }
      destruct (f_spreads f) as [|s0 sps0] eqn:Es.
      + inversion H; subst. split; [exact M1 | cbn; auto].
      + apply dloop_mono in H; [|intros g sp a b Hr; apply (IH _ _ _ _ _ Hr)].
        split; [eapply mono_trans; eauto|]. destruct H as [_ Hi]. apply Hi. cbn. auto.
  Qed.

  Lemma detect_total fuel : forall f spath index st, In f fs -> (uncol fs (fst st) < fuel)%nat ->
    exists st', detect fuel fs f spath index st = Some st'.
  Proof.
    induction fuel as [|fuel IH]; intros f spath index st Hf Hb; [lia|].
    cbn [detect]. destruct (mem (f_name f) (fst st)) eqn:Em; [eauto|].
    destruct (f_spreads f) as [|s0 sps0]; [eauto|].
    apply dloop_total with (bound := fuel).
    - intros g sp a b Hr. apply (detect_mono _ _ _ _ _ _ Hr).
    - intros g sp a Hg Ha. apply IH; assumption.
    - cbn [fst]. assert (In (f_name f) (map f_name fs)) by (apply in_map; exact Hf).
      pose proof (uncol_lt fs (f_name f) (fst st) H Em). lia.
  Qed.

  Lemma uncol_bound col : (uncol fs col <= length fs)%nat.
  Proof.
    unfold uncol. rewrite <- (map_length f_name fs). generalize (map f_name fs). intro L.
    induction L as [|a L IH]; cbn; [lia|]. destruct (negb (mem a col)); cbn; lia.
  Qed.

  Lemma detect_all_total todo : forall st, incl todo fs ->
    exists st', detect_all (cycles_fuel fs) fs todo st = Some st'.
  Proof.
    induction todo as [|f r IH]; intros st Hi; cbn [detect_all]; [eauto|].
    destruct (detect_total (cycles_fuel fs) f [] [] st) as [st1 E1].
    - apply Hi. cbn. auto.
    - unfold cycles_fuel. pose proof (uncol_bound (fst st)). lia.
    - rewrite E1. apply IH. intros x Hx. apply Hi. cbn. auto.
  Qed.

  (* ---------------------------------------------------------------- soundness *)
  (* the fragments being explored, outermost first, with the spread taken in each *)
  Fixpoint WfPath (gs : list fraginfo) (sp : list spread) (cur : fraginfo) : Prop :=
    match gs, sp with
    | [], [] => True
    | g :: gs', s :: sp' =>
      In g fs /\ In s (f_spreads g) /\ Resolves fs (sp_name s) (hd cur gs') /\ WfPath gs' sp' cur
    | _, _ => False
    end.

  Definition index_of (gs : list fraginfo) : list (str * nat) :=
    rev (mapi (fun i g => (f_name g, i)) gs).

  Lemma WfPath_length gs : forall sp cur, WfPath gs sp cur -> length gs = length sp.
  Proof.
    induction gs as [|g gs IH]; intros [|s sp] cur H; cbn in H; try tauto.
    destruct H as (_ & _ & _ & H). cbn. f_equal. eapply IH; eauto.
  Qed.

  Lemma WfPath_in gs : forall sp cur, WfPath gs sp cur -> forall g, In g gs -> In g fs.
  Proof.
    induction gs as [|g0 gs IH]; intros [|s sp] cur H g Hg; cbn in H; try tauto; [destruct Hg|].
    destruct H as (H0 & _ & _ & H). destruct Hg as [<-|Hg]; [exact H0 | eapply IH; eauto].
  Qed.

  Lemma WfPath_snoc gs : forall sp f s g,
    WfPath gs sp f -> In f fs -> In s (f_spreads f) -> Resolves fs (sp_name s) g ->
    WfPath (gs ++ [f]) (sp ++ [s]) g.
  Proof.
    induction gs as [|g0 gs IH]; intros [|s0 sp] f s g H Hf Hs Hr; cbn in H; try tauto.
    - cbn. tauto.
    - destruct H as (H0 & H1 & H2 & H3). cbn [app WfPath].
      split; [exact H0|]. split; [exact H1|].
      split; [destruct gs; cbn in *; exact H2 | apply IH; auto].
  Qed.

  Lemma index_of_snoc gs f : index_of (gs ++ [f]) = (f_name f, length gs) :: index_of gs.
  Proof.
    unfold index_of, mapi. rewrite mapi_from_app, rev_app_distr. reflexivity.
  Qed.

  Lemma WfPath_skipn n : forall gs sp cur, WfPath gs sp cur -> WfPath (skipn n gs) (skipn n sp) cur.
  Proof.
    induction n as [|n IH]; intros gs sp cur H; [exact H|].
    destruct gs as [|g gs], sp as [|s sp]; cbn in H; try tauto. cbn [skipn]. apply IH. tauto.
  Qed.

  Lemma chain_all gs : forall sp cur s, WfPath gs sp cur -> In s (f_spreads cur) ->
    Chain fs (hd cur gs) (sp ++ [s]) (sp_name s).
  Proof.
    induction gs as [|g gs IH]; intros [|s0 sp] cur s H Hs; cbn in H; try tauto.
    - cbn. apply Chain_last. exact Hs.
    - destruct H as (H0 & H1 & H2 & H3). cbn [hd app].
      eapply Chain_step; [exact H1 | exact H2 | apply IH; assumption].
  Qed.

  Lemma hd_skipn n : forall gs (cur g : fraginfo),
    nth_error (gs ++ [cur]) n = Some g -> hd cur (skipn n gs) = g.
  Proof.
    induction n as [|n IH]; intros [|g0 gs] cur g H; cbn in *; try (inversion H; reflexivity).
    - destruct n; discriminate.
    - apply IH. exact H.
  Qed.

  Lemma lookup_index_of G name ci : lookup name (index_of G) = Some ci ->
    exists g, nth_error G ci = Some g /\ f_name g = name.
  Proof.
    intro H. apply lookup_Some_In in H. unfold index_of in H. apply in_rev in H.
    apply In_mapi_from in H as (j & g & Hj & He). inversion He; subst. exists g. auto.
  Qed.

  Lemma back_edge_cycle gs sp f s ci :
    WfPath gs sp f -> In f fs -> In s (f_spreads f) ->
    lookup (sp_name s) (index_of (gs ++ [f])) = Some ci ->
    IsCycle fs (skipn ci (sp ++ [s])).
  Proof.
    intros Hw Hf Hs Hl. apply lookup_index_of in Hl as (g & Hn & Hg).
    pose proof (WfPath_length _ _ _ Hw) as Hlen.
    assert (Hci : (ci <= length gs)%nat).
    { assert (ci < length (gs ++ [f]))%nat by (apply nth_error_Some; congruence).
      rewrite app_length in H. cbn in H. lia. }
    rewrite skipn_app. replace (ci - length sp)%nat with O by lia. cbn [skipn].
    exists g. split.
    - apply nth_error_In in Hn. apply in_app_iff in Hn as [Hn|[<-|[]]]; [eapply WfPath_in; eauto | exact Hf].
    - rewrite Hg, <- (hd_skipn ci gs f g Hn).
      apply chain_all; [apply WfPath_skipn; exact Hw | exact Hs].
  Qed.

  Definition good (st : cstate) : Prop := forall c, In c (snd st) -> IsCycle fs c.

  Lemma dloop_sound rec gs spath f
    (Hrec : forall g s st st', rec g (spath ++ [s]) st = Some st' ->
            WfPath (gs ++ [f]) (spath ++ [s]) g -> In g fs -> good st -> good st')
    (Hw : WfPath gs spath f) (Hf : In f fs) sps : forall st st',
    dloop rec fs spath (index_of (gs ++ [f])) sps st = Some st' ->
    incl sps (f_spreads f) -> good st -> good st'.
  Proof.
    induction sps as [|s r IH]; intros st st' H Hi Hg; cbn in H; [inversion H; subst; exact Hg|].
    assert (Hs : In s (f_spreads f)) by (apply Hi; cbn; auto).
    assert (Hi' : incl r (f_spreads f)) by (intros x Hx; apply Hi; cbn; auto).
    destruct (lookup (sp_name s) (index_of (gs ++ [f]))) as [ci|] eqn:El.
    - apply (IH _ _ H Hi'). intros c Hc. cbn in Hc. apply in_app_iff in Hc as [Hc|[<-|[]]]; [auto|].
      eapply back_edge_cycle; eauto.
    - destruct (get_fragment fs (sp_name s)) as [g|] eqn:Eg; [|apply (IH _ _ H Hi' Hg)].
      destruct (rec g (spath ++ [s]) st) as [st1|] eqn:Er; [|discriminate].
      apply (IH _ _ H Hi'). eapply Hrec; eauto.
      + apply WfPath_snoc; auto.
      + apply get_fragment_Some in Eg. tauto.
  Qed.

  Lemma detect_sound fuel : forall f spath gs st st',
    detect fuel fs f spath (index_of gs) st = Some st' ->
    WfPath gs spath f -> In f fs -> good st -> good st'.
  Proof.
    induction fuel as [|fuel IH]; intros f spath gs st st' H Hw Hf Hg; [discriminate|].
    cbn [detect] in H. destruct (mem (f_name f) (fst st)); [inversion H; subst; exact Hg|].
    destruct (f_spreads f) as [|s0 sps0] eqn:Es; [inversion H; subst; exact Hg|].
    rewrite (eq_sym (WfPath_length _ _ _ Hw)), <- index_of_snoc in H.
    refine (dloop_sound _ gs spath f _ Hw Hf (s0 :: sps0) _ _ H _ _).
    - intros g s st0 st0' Hr Hw' Hg' Hgood. eapply IH; eauto.
    - rewrite Es. apply incl_refl.
    - exact Hg.
  Qed.

  Lemma detect_all_sound todo : forall st st',
    detect_all (cycles_fuel fs) fs todo st = Some st' -> incl todo fs -> good st -> good st'.
  Proof.
    induction todo as [|f r IH]; intros st st' H Hi Hg; cbn [detect_all] in H; [inversion H; subst; exact Hg|].
    destruct (detect (cycles_fuel fs) fs f [] [] st) as [st1|] eqn:E1; [|discriminate].
    apply (IH _ _ H); [intros x Hx; apply Hi; cbn; auto|].
    apply (detect_sound _ f [] [] st st1 E1); [exact I | apply Hi; cbn; auto | exact Hg].
  Qed.

  (* a closed chain is a cycle of the "spreads" relation on names *)
  Lemma chain_trans g c t : In g fs -> Chain fs g c t -> clos_trans str (Spreads fs) (f_name g) t.
  Proof.
    intros Hg H. induction H as [g s Hs | g s g' c t Hs Hr Hc IH].
    - apply t_step. exists g, s. auto.
    - apply get_fragment_Some in Hr as [Hg' Hn].
      apply t_trans with (sp_name s); [apply t_step; exists g, s; auto|]. rewrite <- Hn. apply IH. exact Hg'.
  Qed.

  Lemma IsCycle_cyclic c : IsCycle fs c -> exists a, Cyclic fs a.
  Proof. intros (g & Hg & Hc). exists (f_name g). apply (chain_trans g c); assumption. Qed.

  (* ---------------------------------------------------------------- completeness *)
  Lemma detect_all_mono fuel todo : forall st st',
    detect_all fuel fs todo st = Some st' ->
    mono st st' /\ (forall f, In f todo -> In (f_name f) (fst st')).
  Proof.
    induction todo as [|f r IH]; intros st st' H; cbn [detect_all] in H.
    - inversion H; subst. split; [apply mono_refl | intros f []].
    - destruct (detect fuel fs f [] [] st) as [st1|] eqn:E1; [|discriminate].
      apply detect_mono in E1 as [M1 V1]. apply IH in H as [M2 V2].
      split; [eapply mono_trans; eauto|]. intros g [<-|Hg]; [apply M2; exact V1 | auto].
  Qed.

  Lemma app_same_nil {A} (l x : list A) : l ++ x = l -> x = [].
  Proof. intro H. apply (app_inv_head l). rewrite app_nil_r. exact H. Qed.

  Lemma mono_same a b c : mono a b -> mono b c -> snd c = snd a -> snd b = snd a /\ snd c = snd b.
  Proof.
    intros [[n1 H1] _] [[n2 H2] _] H. rewrite H2, H1, <- app_assoc in H.
    apply app_same_nil in H. apply app_eq_nil in H as [-> ->]. rewrite app_nil_r in *. split; congruence.
  Qed.

  Definition Spreads' (a b : str) : Prop := Spreads fs a b /\ Defined fs b.

  (* finished fragments, most recently finished first: every defined fragment a finished fragment
     spreads was finished before it *)
  Inductive Closed : list str -> Prop :=
  | Closed_nil : Closed []
  | Closed_cons a fin : Closed fin -> ~ In a fin -> (forall b, Spreads' a b -> In b fin) ->
                        Closed (a :: fin).

  Lemma closed_succ fin : Closed fin -> forall x y, In x fin -> Spreads' x y -> In y fin.
  Proof.
    induction 1 as [|a fin Hc IH Ha Hs]; intros x y Hx Hxy; [destruct Hx|].
    destruct Hx as [<-|Hx]; [right; apply Hs; exact Hxy | right; eapply IH; eauto].
  Qed.

  Lemma closed_reach fin : Closed fin -> forall x y, clos_trans str Spreads' x y -> In x fin -> In y fin.
  Proof.
    intros Hc x y H. induction H as [x y H | x y z _ IH1 _ IH2]; intro Hx.
    - eapply closed_succ; eauto.
    - auto.
  Qed.

  Lemma closed_acyclic fin : Closed fin -> forall x, In x fin -> ~ clos_trans str Spreads' x x.
  Proof.
    induction 1 as [|a fin Hc IH Ha Hs]; intros x Hx Hcyc; [destruct Hx|].
    destruct Hx as [<-|Hx]; [|apply (IH x Hx Hcyc)].
    apply clos_trans_t1n in Hcyc. inversion Hcyc as [y Hy | y z Hy Hyz]; subst.
    - apply Ha. apply Hs. exact Hy.
    - apply Ha. apply (closed_reach fin Hc y a); [apply clos_t1n_trans; exact Hyz | apply Hs; exact Hy].
  Qed.

  Lemma ct_src_defined a b : clos_trans str (Spreads fs) a b -> Defined fs a.
  Proof.
    induction 1 as [a b (f & s & Hf & Hn & _) | a b c _ IH _ _]; [exists f; auto | exact IH].
  Qed.

  Lemma ct_defined a b : clos_trans str (Spreads fs) a b -> Defined fs b -> clos_trans str Spreads' a b.
  Proof.
    induction 1 as [a b H | a b c H1 IH1 H2 IH2]; intro Hd.
    - apply t_step. split; assumption.
    - apply t_trans with b; [apply IH1; eapply ct_src_defined; eauto | apply IH2; exact Hd].
  Qed.

  Hypothesis Huniq : NoDup (map f_name fs).

  Lemma name_inj f f' : In f fs -> In f' fs -> f_name f = f_name f' -> f = f'.
  Proof.
    revert Huniq. induction fs as [|g l IH]; [intros _ []|]. intros Hnd Hf Hf' He.
    inversion Hnd as [|? ? Hg Hl]; subst. destruct Hf as [<-|Hf], Hf' as [<-|Hf']; auto.
    - exfalso. apply Hg. rewrite He. apply in_map. exact Hf'.
    - exfalso. apply Hg. rewrite <- He. apply in_map. exact Hf.
  Qed.

  Definition gray (index : list (str * nat)) : list str := map fst index.

  Lemma in_cons_iff {A} (x a : A) l : In x (a :: l) <-> a = x \/ In x l.
  Proof. reflexivity. Qed.
  Lemma gray_cons a n index : gray ((a, n) :: index) = a :: gray index.
  Proof. reflexivity. Qed.

  Record CInv (vis : list str) (index : list (str * nat)) (fin : list str) : Prop := {
    ci_closed : Closed fin;
    ci_vis : forall x, In x vis <-> In x fin \/ In x (gray index);
    ci_disj : forall x, In x fin -> ~ In x (gray index)
  }.

  Definition complete_post (st st' : cstate) (index : list (str * nat)) (fin fin' : list str) : Prop :=
    CInv (fst st') index fin' /\ incl fin fin' /\ (forall x, In x fin' -> In x fin \/ ~ In x (fst st)).

  Section LoopC.
    Variable rec : fraginfo -> list spread -> cstate -> option cstate.
    Variable spath : list spread.
    Variable index' : list (str * nat).
    Hypothesis rec_mono : forall g sp st st', rec g sp st = Some st' -> mono st st'.
    Hypothesis rec_visits : forall g sp st st', rec g sp st = Some st' -> In (f_name g) (fst st').
    Hypothesis rec_complete : forall g sp st st' fin,
      rec g sp st = Some st' -> snd st' = snd st -> In g fs -> CInv (fst st) index' fin ->
      exists fin', complete_post st st' index' fin fin'.

    Lemma dloop_complete sps : forall st st' fin,
      dloop rec fs spath index' sps st = Some st' -> snd st' = snd st -> CInv (fst st) index' fin ->
      exists fin', complete_post st st' index' fin fin' /\
                   (forall s, In s sps -> Defined fs (sp_name s) -> In (sp_name s) fin').
    Proof.
      induction sps as [|s r IH]; intros st st' fin H He HI; cbn in H.
      - inversion H; subst. exists fin. split; [|intros s []].
        split; [exact HI|]. split; [apply incl_refl | auto].
      - destruct (lookup (sp_name s) index') as [ci|] eqn:El.
        + exfalso. apply (dloop_mono rec spath index' rec_mono) in H as [[new Hn] _]. cbn in Hn.
          rewrite He, <- app_assoc in Hn. symmetry in Hn. apply app_same_nil in Hn. discriminate.
        + apply lookup_None in El.
          destruct (get_fragment fs (sp_name s)) as [g|] eqn:Eg.
          * destruct (rec g (spath ++ [s]) st) as [st1|] eqn:Er; [|discriminate].
            pose proof (rec_mono _ _ _ _ Er) as M1.
            pose proof (dloop_mono rec spath index' rec_mono _ _ _ H) as M2.
            destruct (mono_same _ _ _ M1 M2 He) as [E1 E2].
            pose proof (get_fragment_Some _ _ _ Eg) as [Hg Hgn].
            destruct (rec_complete _ _ _ _ fin Er E1 Hg HI) as (fin1 & HI1 & Hi1 & Hn1).
            destruct (IH _ _ fin1 H E2 HI1) as (fin' & (HI' & Hi' & Hn') & Hs').
            exists fin'. split; [split; [exact HI'|]; split|].
            -- eapply incl_tran; eauto.
            -- intros x Hx. destruct (Hn' x Hx) as [Hx1|Hx1].
               ++ apply Hn1. exact Hx1.
               ++ right. intro Hv. apply Hx1. apply M1. exact Hv.
            -- intros s' [<-|Hs''] Hd; [|apply Hs'; assumption].
               apply Hi'. pose proof (rec_visits _ _ _ _ Er) as Hv. rewrite Hgn in Hv.
               apply (ci_vis _ _ _ HI1) in Hv as [Hv|Hv]; [exact Hv | contradiction].
          * destruct (IH _ _ fin H He HI) as (fin' & Hp & Hs'). exists fin'. split; [exact Hp|].
            intros s' [<-|Hs''] Hd; [|apply Hs'; assumption].
            apply get_fragment_None in Eg. contradiction.
    Qed.
  End LoopC.

  Lemma detect_complete fuel : forall f spath index st st' fin,
    detect fuel fs f spath index st = Some st' -> snd st' = snd st -> In f fs ->
    CInv (fst st) index fin -> exists fin', complete_post st st' index fin fin'.
  Proof.
    induction fuel as [|fuel IH]; intros f spath index st st' fin H He Hf HI; [discriminate|].
    cbn [detect] in H. destruct (mem (f_name f) (fst st)) eqn:Em.
    { inversion H; subst. exists fin. split; [exact HI|]. split; [apply incl_refl | auto]. }
    apply mem_false in Em. set (a := f_name f) in *.
    destruct HI as [Hc Hv Hd].
    assert (Hafin : ~ In a fin) by (intro Hx; apply Em; apply Hv; auto).
    assert (Hagray : ~ In a (gray index)) by (intro Hx; apply Em; apply Hv; auto).
    destruct (f_spreads f) as [|s0 sps0] eqn:Es.
    - inversion H; subst. exists (a :: fin). split; [constructor|split].
      + constructor; [exact Hc | exact Hafin|].
        intros b [(f' & s & Hf' & Hn & Hs & _) _]. rewrite (name_inj f' f Hf' Hf Hn), Es in Hs. destruct Hs.
      + intro x. cbn [fst]. rewrite !in_cons_iff, Hv. tauto.
      + intros x [<-|Hx]; [exact Hagray | apply Hd; exact Hx].
      + apply incl_tl, incl_refl.
      + intros x [<-|Hx]; auto.
    - set (index' := (a, length spath) :: index) in *.
      set (st1 := (a :: fst st, snd st)) in *.
      assert (HI1 : CInv (fst st1) index' fin).
      { constructor; [exact Hc| |].
        - intro x. unfold st1, index'. cbn [fst]. rewrite gray_cons, !in_cons_iff, Hv. tauto.
        - intros x Hx [<-|Hg]; [contradiction | apply (Hd x Hx Hg)]. }
      destruct (dloop_complete (fun g sp st' => detect fuel fs g sp index' st') spath index'
                  (fun g sp a0 b Hr => proj1 (detect_mono fuel g sp index' a0 b Hr))
                  (fun g sp a0 b Hr => proj2 (detect_mono fuel g sp index' a0 b Hr))
                  (fun g sp a0 b fin0 Hr Hs Hg Hi => IH g sp index' a0 b fin0 Hr Hs Hg Hi)
                  (s0 :: sps0) st1 st' fin H He HI1)
        as (fe & ([Hce Hve Hde] & Hie & Hne) & Hse).
      exists (a :: fe). split; [constructor|split].
      + constructor; [exact Hce| |].
        * intro Hx. apply (Hde a Hx). cbn. auto.
        * intros b [(f' & s & Hf' & Hn & Hs & Hb) Hdef]. rewrite (name_inj f' f Hf' Hf Hn), Es in Hs.
          rewrite <- Hb. apply Hse; [exact Hs | rewrite Hb; exact Hdef].
      + intro x. rewrite Hve. unfold index'. rewrite gray_cons, !in_cons_iff. tauto.
      + intros x [<-|Hx]; [exact Hagray|]. intro Hg. apply (Hde x Hx). cbn. auto.
      + apply incl_tl. exact Hie.
      + intros x [<-|Hx]; [auto|]. destruct (Hne x Hx) as [H1|H1]; [auto|].
        right. intro Hx'. apply H1. cbn. auto.
  Qed.

  Lemma detect_all_complete todo : forall st st' fin,
    detect_all (cycles_fuel fs) fs todo st = Some st' -> snd st' = snd st -> incl todo fs ->
    CInv (fst st) [] fin -> exists fin', CInv (fst st') [] fin'.
  Proof.
    induction todo as [|f r IH]; intros st st' fin H He Hi HI; cbn [detect_all] in H.
    - inversion H; subst. eauto.
    - destruct (detect (cycles_fuel fs) fs f [] [] st) as [st1|] eqn:E1; [|discriminate].
      pose proof (proj1 (detect_mono _ _ _ _ _ _ E1)) as M1.
      pose proof (proj1 (detect_all_mono _ _ _ _ H)) as M2.
      destruct (mono_same _ _ _ M1 M2 He) as [Ea Eb].
      destruct (detect_complete _ _ _ _ _ _ fin E1 Ea (Hi f (or_introl eq_refl)) HI) as (fin1 & HI1 & _).
      apply (IH _ _ fin1 H Eb); [intros x Hx; apply Hi; cbn; auto | exact HI1].
  Qed.

  Theorem no_error_acyclic st' :
    detect_all (cycles_fuel fs) fs fs ([], []) = Some st' -> snd st' = [] ->
    forall a, ~ Cyclic fs a.
  Proof.
    intros H He a Hcyc.
    destruct (detect_all_complete fs ([], []) st' [] H He (incl_refl _)) as (fin & [Hc Hv Hd]).
    { constructor; [constructor | cbn; tauto | cbn; tauto]. }
    pose proof (ct_src_defined _ _ Hcyc) as (f & Hf & Hn).
    apply (closed_acyclic fin Hc a).
    - assert (Hin : In a (fst st')).
      { rewrite <- Hn. apply (proj2 (detect_all_mono _ _ _ _ H)). exact Hf. }
      apply Hv in Hin as [Hin|[]]. exact Hin.
    - apply ct_defined; [exact Hcyc | exists f; auto].
  Qed.
End Cycles.
