(* Proofs about Valid/RulesStream.v (27 StreamDirectiveOnListField): the reported paths are exactly
   the directive occurrences, with the TypeInfo context they are entered with, that fail the test. *)
From GV Require Import Base.Prelude Lang.Ast Exec.Value Exec.Schema Exec.Spec Exec.Typing Exec.SpecProps
  Valid.Rules Valid.RulesBase Valid.RulesPaths Valid.Rules13 Valid.RulesStream.

(* ---- the test ---- *)
Lemma listish_spec t :
  listish t = true <-> (exists u, t = TList u) \/ (exists u, t = TNonNull (TList u)).
Proof.
  split.
  - destruct t as [n|u|u]; cbn; try discriminate; [eauto|].
    destruct u; try discriminate. eauto.
  - intros [[u ->]|[u ->]]; reflexivity.
Qed.

Lemma violb_spec fd pt dn :
  violb fd pt dn = true <->
  exists nm rest f t, dn = Nd KDirective (ANode nm :: rest) /\ fd = Some f /\ pt = Some t /\
                      name_str nm = n_stream /\ listish (f_type f) = false.
Proof.
  split.
  - destruct dn as [k attrs]. destruct k; cbn; try discriminate.
    destruct attrs as [|[| nm | | | |] rest]; try discriminate.
    destruct fd as [f|]; [|discriminate]. destruct pt as [t|]; [|discriminate].
    intro H. apply andb_true_iff in H. destruct H as [H1 H2].
    apply str_eqb_eq in H1. apply negb_true_iff in H2.
    exists nm, rest, f, t. auto.
  - intros (nm & rest & f & t & -> & -> & -> & Hn & Hl). cbn.
    rewrite Hn, Hl. rewrite str_eqb_refl. reflexivity.
Qed.

Lemma stream_dirs_In p i ds fd pt q :
  In q (stream_dirs p i ds fd pt) <->
  exists j dn, nth_error ds j = Some dn /\ violb fd pt dn = true /\ q = p ++ [(i, j)].
Proof.
  unfold stream_dirs, mapi. rewrite In_concat. split.
  - intros (l & Hl & Hq). apply In_mapi_from in Hl. destruct Hl as (j & dn & Hn & ->).
    cbn in Hq. destruct (violb fd pt dn) eqn:E; [|contradiction].
    destruct Hq as [<-|[]]. exists j, dn. auto.
  - intros (j & dn & Hn & Hv & ->).
    exists (if violb fd pt dn then [p ++ [(i, j)]] else []). split.
    + apply In_mapi_from. exists j, dn. auto.
    + rewrite Hv. left. reflexivity.
Qed.

(* ---- the directive occurrences of a selection set, with their context ---- *)
Section Occ.
  Variable vs : vschema.

  (* Occ p ss ct fd q dn fd' pt': in the selection set ss at p, entered with type-stack top ct and
     field-stack top fd, the directive node dn sits at path q and is entered with
     get_field_def() = fd' and get_parent_type() = pt' *)
  Inductive Occ : npath -> node -> option Value.str -> option field_def ->
                  npath -> node -> option field_def -> option Value.str -> Prop :=
  | Occ_sel p sels r ct fd j sel q dn fd' pt' :
      nth_error sels j = Some sel -> Occ1 (p ++ [(O, j)]) sel ct fd q dn fd' pt' ->
      Occ p (Nd KSelectionSet (AList sels :: r)) ct fd q dn fd' pt'
  with Occ1 : npath -> node -> option Value.str -> option field_def ->
              npath -> node -> option field_def -> option Value.str -> Prop :=
  | Occ1_field_dir sp d nm a3 a4 sset rest ct fd i dn :
      nth_error (attr_list d) i = Some dn ->
      Occ1 sp (Nd KField (d :: ANode nm :: a3 :: a4 :: sset :: rest)) ct fd
           (sp ++ [(O, i)]) dn (fdef_at vs ct nm) (composite_of (vs_s vs) ct)
  | Occ1_field_sub sp d nm a3 a4 s' rest ct fd q dn fd' pt' :
      Occ (sp ++ [(4, O)]%nat) s' (sub_ct vs (fdef_at vs ct nm)) (fdef_at vs ct nm) q dn fd' pt' ->
      Occ1 sp (Nd KField (d :: ANode nm :: a3 :: a4 :: ANode s' :: rest)) ct fd q dn fd' pt'
  | Occ1_spread_dir sp d nm rest ct fd i dn :
      nth_error (attr_list d) i = Some dn ->
      Occ1 sp (Nd KFragmentSpread (d :: ANode nm :: rest)) ct fd
           (sp ++ [(O, i)]) dn fd (composite_of (vs_s vs) ct)
  | Occ1_inline_dir sp d s' tc rest ct fd i dn :
      nth_error (attr_list d) i = Some dn ->
      Occ1 sp (Nd KInlineFragment (d :: ANode s' :: tc :: rest)) ct fd
           (sp ++ [(O, i)]) dn fd (composite_of (vs_s vs) ct)
  | Occ1_inline_sub sp d s' tc rest ct fd q dn fd' pt' :
      Occ (sp ++ [(1, O)]%nat) s' (inline_ct vs tc ct) fd q dn fd' pt' ->
      Occ1 sp (Nd KInlineFragment (d :: ANode s' :: tc :: rest)) ct fd q dn fd' pt'.

  Scheme Occ_mut := Minimality for Occ Sort Prop
    with Occ1_mut := Minimality for Occ1 Sort Prop.

  Lemma stream_sel_unfold p sels r ct fd :
    stream_sel vs p (Nd KSelectionSet (AList sels :: r)) ct fd =
    concat (mapi (fun j sel => stream_sel1 vs (p ++ [(O, j)]) sel ct fd) sels).
  Proof. reflexivity. Qed.

  Definition Viol q (o : npath -> node -> option field_def -> option Value.str -> Prop) : Prop :=
    exists dn fd' pt', o q dn fd' pt' /\ violb fd' pt' dn = true.

  (* reported => a failing occurrence *)
  Lemma stream_sound n :
    (forall p ct fd q, In q (stream_sel vs p n ct fd) -> Viol q (Occ p n ct fd)) /\
    (forall sp ct fd q, In q (stream_sel1 vs sp n ct fd) -> Viol q (Occ1 sp n ct fd)).
  Proof.
    induction n as [k attrs IH] using node_ind2. split.
    - intros p ct fd q H.
      destruct k; try contradiction.
      destruct attrs as [|[| | sels | | |] r]; try contradiction.
      rewrite stream_sel_unfold in H. apply In_concat in H. destruct H as (l & Hl & Hq).
      unfold mapi in Hl. apply In_mapi_from in Hl. destruct Hl as (j & sel & Hn & ->). cbn in Hq.
      inversion IH as [|a0 r0 Ha _]; subst. inversion Ha as [| |l0 Hall| | |]; subst.
      rewrite Forall_forall in Hall. pose proof (Hall sel (nth_error_In _ _ Hn)) as [_ H1].
      destruct (H1 _ _ _ _ Hq) as (dn & fd' & pt' & Ho & Hv).
      exists dn, fd', pt'. split; [|exact Hv]. eapply Occ_sel; eauto.
    - intros sp ct fd q H.
      destruct k; try contradiction.
      + (* field *)
        destruct attrs as [|d [|[| nm | | | |] [|a3 [|a4 [|sset rest]]]]]; try contradiction.
        cbn [stream_sel1] in H. apply in_app_iff in H. destruct H as [H|H].
        * apply stream_dirs_In in H. destruct H as (i & dn & Hn & Hv & ->).
          exists dn, (fdef_at vs ct nm), (composite_of (vs_s vs) ct). split; [|exact Hv].
          apply Occ1_field_dir. exact Hn.
        * destruct sset as [| s' | | | |]; try contradiction.
          inversion IH as [|? ? _ IH1]; subst. inversion IH1 as [|? ? _ IH2]; subst.
          inversion IH2 as [|? ? _ IH3]; subst. inversion IH3 as [|? ? _ IH4]; subst.
          inversion IH4 as [|? ? Ha _]; subst. inversion Ha as [|m Hm| | | |]; subst.
          destruct Hm as [Hm _]. destruct (Hm _ _ _ _ H) as (dn & fd' & pt' & Ho & Hv).
          exists dn, fd', pt'. split; [|exact Hv]. apply Occ1_field_sub. exact Ho.
      + (* fragment spread *)
        destruct attrs as [|d [|[| nm | | | |] rest]]; try contradiction.
        cbn [stream_sel1] in H. apply stream_dirs_In in H. destruct H as (i & dn & Hn & Hv & ->).
        exists dn, fd, (composite_of (vs_s vs) ct). split; [|exact Hv].
        apply Occ1_spread_dir. exact Hn.
      + (* inline fragment *)
        destruct attrs as [|d [|[| s' | | | |] [|tc rest]]]; try contradiction.
        cbn [stream_sel1] in H. apply in_app_iff in H. destruct H as [H|H].
        * apply stream_dirs_In in H. destruct H as (i & dn & Hn & Hv & ->).
          exists dn, fd, (composite_of (vs_s vs) ct). split; [|exact Hv].
          apply Occ1_inline_dir. exact Hn.
        * inversion IH as [|? ? _ IH1]; subst. inversion IH1 as [|? ? Ha _]; subst.
          inversion Ha as [|m Hm| | | |]; subst.
          destruct Hm as [Hm _]. destruct (Hm _ _ _ _ H) as (dn & fd' & pt' & Ho & Hv).
          exists dn, fd', pt'. split; [|exact Hv]. apply Occ1_inline_sub. exact Ho.
  Qed.

  (* a failing occurrence => reported *)
  Lemma stream_complete_mut :
    (forall p n ct fd q dn fd' pt', Occ p n ct fd q dn fd' pt' ->
       violb fd' pt' dn = true -> In q (stream_sel vs p n ct fd)) /\
    (forall sp n ct fd q dn fd' pt', Occ1 sp n ct fd q dn fd' pt' ->
       violb fd' pt' dn = true -> In q (stream_sel1 vs sp n ct fd)).
  Proof.
    split.
    - apply (Occ_mut
        (fun p n ct fd q dn fd' pt' => violb fd' pt' dn = true -> In q (stream_sel vs p n ct fd))
        (fun sp n ct fd q dn fd' pt' => violb fd' pt' dn = true -> In q (stream_sel1 vs sp n ct fd))).
      + intros p sels r ct fd j sel q dn fd' pt' Hn _ IH Hv.
        rewrite stream_sel_unfold. apply In_concat.
        exists (stream_sel1 vs (p ++ [(O, j)]) sel ct fd). split; [|auto].
        unfold mapi. apply In_mapi_from. exists j, sel. auto.
      + intros sp d nm a3 a4 sset rest ct fd i dn Hn Hv. cbn [stream_sel1].
        apply in_app_iff. left. apply stream_dirs_In. exists i, dn. auto.
      + intros sp d nm a3 a4 s' rest ct fd q dn fd' pt' _ IH Hv. cbn [stream_sel1].
        apply in_app_iff. right. auto.
      + intros sp d nm rest ct fd i dn Hn Hv. cbn [stream_sel1].
        apply stream_dirs_In. exists i, dn. auto.
      + intros sp d s' tc rest ct fd i dn Hn Hv. cbn [stream_sel1].
        apply in_app_iff. left. apply stream_dirs_In. exists i, dn. auto.
      + intros sp d s' tc rest ct fd q dn fd' pt' _ IH Hv. cbn [stream_sel1].
        apply in_app_iff. right. auto.
    - apply (Occ1_mut
        (fun p n ct fd q dn fd' pt' => violb fd' pt' dn = true -> In q (stream_sel vs p n ct fd))
        (fun sp n ct fd q dn fd' pt' => violb fd' pt' dn = true -> In q (stream_sel1 vs sp n ct fd))).
      + intros p sels r ct fd j sel q dn fd' pt' Hn _ IH Hv.
        rewrite stream_sel_unfold. apply In_concat.
        exists (stream_sel1 vs (p ++ [(O, j)]) sel ct fd). split; [|auto].
        unfold mapi. apply In_mapi_from. exists j, sel. auto.
      + intros sp d nm a3 a4 sset rest ct fd i dn Hn Hv. cbn [stream_sel1].
        apply in_app_iff. left. apply stream_dirs_In. exists i, dn. auto.
      + intros sp d nm a3 a4 s' rest ct fd q dn fd' pt' _ IH Hv. cbn [stream_sel1].
        apply in_app_iff. right. auto.
      + intros sp d nm rest ct fd i dn Hn Hv. cbn [stream_sel1].
        apply stream_dirs_In. exists i, dn. auto.
      + intros sp d s' tc rest ct fd i dn Hn Hv. cbn [stream_sel1].
        apply in_app_iff. left. apply stream_dirs_In. exists i, dn. auto.
      + intros sp d s' tc rest ct fd q dn fd' pt' _ IH Hv. cbn [stream_sel1].
        apply in_app_iff. right. auto.
  Qed.

  Theorem stream_sel_In p n ct fd q :
    In q (stream_sel vs p n ct fd) <-> Viol q (Occ p n ct fd).
  Proof.
    split.
    - apply (proj1 (stream_sound n)).
    - intros (dn & fd' & pt' & Ho & Hv). eapply (proj1 stream_complete_mut); eauto.
  Qed.

  (* the occurrence relation names real nodes: q extends p by a path that leads, inside the
     selection set, to the directive node *)
  Lemma occ_get_mut :
    (forall p n ct fd q dn fd' pt', Occ p n ct fd q dn fd' pt' ->
       exists tail, q = p ++ tail /\ get n tail = Some dn) /\
    (forall sp n ct fd q dn fd' pt', Occ1 sp n ct fd q dn fd' pt' ->
       exists tail, q = sp ++ tail /\ get n tail = Some dn).
  Proof.
    assert (Hd : forall d i dn, nth_error (attr_list d) i = Some dn ->
                 forall k rest, get (Nd k (d :: rest)) [(O, i)] = Some dn).
    { intros d i dn Hn k rest. destruct d; cbn in Hn; try (destruct i; discriminate).
      cbn. rewrite Hn. reflexivity. }
    split.
    - apply (Occ_mut
        (fun p n ct fd q dn fd' pt' => exists tail, q = p ++ tail /\ get n tail = Some dn)
        (fun sp n ct fd q dn fd' pt' => exists tail, q = sp ++ tail /\ get n tail = Some dn)).
      + intros p sels r ct fd j sel q dn fd' pt' Hn _ (tail & -> & Hg).
        exists ((O, j) :: tail). split; [rewrite <- app_assoc; reflexivity|].
        cbn. rewrite Hn. exact Hg.
      + intros sp d nm a3 a4 sset rest ct fd i dn Hn. exists [(O, i)]. split; [reflexivity|]. apply Hd, Hn.
      + intros sp d nm a3 a4 s' rest ct fd q dn fd' pt' _ (tail & -> & Hg).
        exists ((4, O)%nat :: tail). split; [rewrite <- app_assoc; reflexivity|]. cbn. exact Hg.
      + intros sp d nm rest ct fd i dn Hn. exists [(O, i)]. split; [reflexivity|]. apply Hd, Hn.
      + intros sp d s' tc rest ct fd i dn Hn. exists [(O, i)]. split; [reflexivity|]. apply Hd, Hn.
      + intros sp d s' tc rest ct fd q dn fd' pt' _ (tail & -> & Hg).
        exists ((1, O)%nat :: tail). split; [rewrite <- app_assoc; reflexivity|]. cbn. exact Hg.
    - apply (Occ1_mut
        (fun p n ct fd q dn fd' pt' => exists tail, q = p ++ tail /\ get n tail = Some dn)
        (fun sp n ct fd q dn fd' pt' => exists tail, q = sp ++ tail /\ get n tail = Some dn)).
      + intros p sels r ct fd j sel q dn fd' pt' Hn _ (tail & -> & Hg).
        exists ((O, j) :: tail). split; [rewrite <- app_assoc; reflexivity|].
        cbn. rewrite Hn. exact Hg.
      + intros sp d nm a3 a4 sset rest ct fd i dn Hn. exists [(O, i)]. split; [reflexivity|]. apply Hd, Hn.
      + intros sp d nm a3 a4 s' rest ct fd q dn fd' pt' _ (tail & -> & Hg).
        exists ((4, O)%nat :: tail). split; [rewrite <- app_assoc; reflexivity|]. cbn. exact Hg.
      + intros sp d nm rest ct fd i dn Hn. exists [(O, i)]. split; [reflexivity|]. apply Hd, Hn.
      + intros sp d s' tc rest ct fd i dn Hn. exists [(O, i)]. split; [reflexivity|]. apply Hd, Hn.
      + intros sp d s' tc rest ct fd q dn fd' pt' _ (tail & -> & Hg).
        exists ((1, O)%nat :: tail). split; [rewrite <- app_assoc; reflexivity|]. cbn. exact Hg.
  Qed.

  (* ---- definitions and the document ---- *)
  (* the selection set of a definition with the context TypeInfo enters it with *)
  Definition def_sel (n : node) : option (node * option Value.str) :=
    match n with
    | Nd KOperationDefinition (ANode ss :: _ :: _ :: _ :: _ :: o :: _) => Some (ss, op_root (vs_s vs) o)
    | Nd KFragmentDefinition (ANode ss :: _ :: _ :: _ :: _ :: ANode tc :: _) => Some (ss, cond_type vs tc)
    | _ => None
    end.

  Lemma stream_def_eq p n :
    stream_def vs p n =
    match def_sel n with Some (ss, ct) => stream_sel vs (p ++ [(O, O)]) ss ct None | None => [] end.
  Proof.
    destruct n as [k attrs]. destruct k; try reflexivity.
    - destruct attrs as [|[| ss | | | |] [|? [|? [|? [|? [|[| tc | | | |] ?]]]]]]; reflexivity.
    - destruct attrs as [|[| ss | | | |] [|? [|? [|? [|? [|[| tc | | | |] ?]]]]]]; reflexivity.
  Qed.

  Theorem stream_rule_In d e :
    In e (rule_stream_on_list_field vs d) <->
    exists j n ss ct q, nth_error (doc_defs d) j = Some n /\ def_sel n = Some (ss, ct) /\
                        Viol q (Occ [(O, j); (O, O)] ss ct None) /\ e = VE R_STREAM [q].
  Proof.
    unfold rule_stream_on_list_field, stream_paths. rewrite in_map_iff. split.
    - intros (q & <- & H). apply In_concat in H. destruct H as (l & Hl & Hq).
      unfold mapi in Hl. apply In_mapi_from in Hl. destruct Hl as (j & n & Hn & ->). cbn in Hq.
      rewrite stream_def_eq in Hq. destruct (def_sel n) as [[ss ct]|] eqn:E; [|contradiction].
      apply stream_sel_In in Hq. exists j, n, ss, ct, q. auto.
    - intros (j & n & ss & ct & q & Hn & Hd & Hv & ->). exists q. split; [reflexivity|].
      apply In_concat. exists (stream_def vs [(O, j)] n). split.
      + unfold mapi. apply In_mapi_from. exists j, n. auto.
      + rewrite stream_def_eq, Hd. apply stream_sel_In. exact Hv.
  Qed.

  Theorem stream_rule_silent d :
    rule_stream_on_list_field vs d = [] <->
    forall j n ss ct q dn fd' pt',
      nth_error (doc_defs d) j = Some n -> def_sel n = Some (ss, ct) ->
      Occ [(O, j); (O, O)] ss ct None q dn fd' pt' -> violb fd' pt' dn = false.
  Proof.
    split.
    - intros H j n ss ct q dn fd' pt' Hn Hd Ho.
      destruct (violb fd' pt' dn) eqn:E; [|reflexivity]. exfalso.
      assert (Hi : In (VE R_STREAM [q]) (rule_stream_on_list_field vs d)).
      { apply stream_rule_In. exists j, n, ss, ct, q. repeat split; auto. exists dn, fd', pt'. auto. }
      rewrite H in Hi. exact Hi.
    - intros H. destruct (rule_stream_on_list_field vs d) as [|e l] eqn:E; [reflexivity|]. exfalso.
      assert (Hi : In e (rule_stream_on_list_field vs d)) by (rewrite E; left; reflexivity).
      apply stream_rule_In in Hi. destruct Hi as (j & n & ss & ct & q & Hn & Hd & (dn & fd' & pt' & Ho & Hv) & _).
      rewrite (H _ _ _ _ _ _ _ _ Hn Hd Ho) in Hv. discriminate.
  Qed.

  (* every error points at a directive node of the document that is named `stream` *)
  Theorem stream_rule_points_at_stream d e :
    In e (rule_stream_on_list_field vs d) ->
    exists q nm rest, e = VE R_STREAM [q] /\ get d q = Some (Nd KDirective (ANode nm :: rest)) /\
                      name_str nm = n_stream.
  Proof.
    intro H. apply stream_rule_In in H.
    destruct H as (j & n & ss & ct & q & Hn & Hd & (dn & fd' & pt' & Ho & Hv) & ->).
    apply violb_spec in Hv. destruct Hv as (nm & rest & f & t & -> & _ & _ & Hnm & _).
    exists q, nm, rest. split; [reflexivity|]. split; [|exact Hnm].
    destruct (proj1 occ_get_mut _ _ _ _ _ _ _ _ Ho) as (tail & -> & Hg).
    destruct d as [k attrs]. unfold doc_defs in Hn.
    destruct k; try (destruct j; discriminate).
    destruct attrs as [|[| | defs | | |] r]; try (destruct j; discriminate).
    cbn. rewrite Hn.
    destruct n as [kn an]. unfold def_sel in Hd. destruct kn; try discriminate.
    - destruct an as [|[| ss0 | | | |] [|? [|? [|? [|? [|[| tc | | | |] ?]]]]]]; try discriminate;
        inversion Hd; subst; cbn; exact Hg.
    - destruct an as [|[| ss0 | | | |] [|? [|? [|? [|? [|[| tc | | | |] ?]]]]]]; try discriminate;
        inversion Hd; subst; cbn; exact Hg.
  Qed.
End Occ.
