(* Paths identify nodes: every visited node is found at its path, and the traversal visits
   pairwise different paths (so an error's node list identifies AST nodes, and the reported
   lists of the node-by-node rules have no repetitions). *)
From GV Require Import Base.Prelude Lang.Ast Valid.Rules Valid.RulesBase.

Definition attrs_of (n : node) : list attr := match n with Nd _ a => a end.

(* the node at a path *)
Fixpoint get (n : node) (p : path) : option node :=
  match p with
  | [] => Some n
  | (i, j) :: r =>
    match nth i (attrs_of n) ANone with
    | ANode m => if (j =? 0)%nat then get m r else None
    | AList l => match nth_error l j with Some m => get m r | None => None end
    | _ => None
    end
  end.

Lemma In_concat {A} (x : A) ls : In x (concat ls) <-> exists l, In l ls /\ In x l.
Proof.
  induction ls as [|l ls IH]; cbn; [split; [tauto | intros (l & [] & _)]|].
  rewrite in_app_iff, IH. split.
  - intros [H|(l' & H1 & H2)]; [exists l; auto | exists l'; auto].
  - intros (l' & [<-|H1] & H2); [auto | right; eauto].
Qed.

Lemma In_mapi_pre {A B} (f : nat -> list A -> A -> B) l : forall j0 pre b,
  In b (mapi_pre f j0 pre l) ->
  exists j m, nth_error l j = Some m /\ b = f (j0 + j)%nat (pre ++ firstn j l) m.
Proof.
  induction l as [|a l IH]; intros j0 pre b H; cbn in H; [destruct H|].
  destruct H as [<-|H].
  - exists O, a. cbn. rewrite Nat.add_0_r, app_nil_r. auto.
  - apply IH in H as (j & m & H1 & H2). exists (S j), m. cbn. split; [exact H1|].
    rewrite H2, <- app_assoc. cbn. f_equal. lia.
Qed.

Section Walk.
  Variable stop : nkind -> bool.

  (* what a child contributes *)
  Definition child_items (p : path) (i : nat) (a : attr) : list item :=
    match a with
    | ANode m => walk stop (p ++ [(i, O)]) [] m
    | AList l =>
      concat (mapi_pre (fun j pre m =>
                walk stop (p ++ [(i, j)]) (mapi (fun j' m' => (p ++ [(i, j')], m')) pre) m) O [] l)
    | _ => []
    end.

  Lemma walk_unfold p sibs k attrs :
    walk stop p sibs (Nd k attrs) =
    It p (Nd k attrs) sibs ::
    (if stop k then [] else concat (pick (vkeys k) (mapi (child_items p) attrs))).
  Proof. reflexivity. Qed.

  Lemma In_pick {A} (x : A) keys ls :
    In x (concat (pick keys ls)) <-> exists i, In i keys /\ In x (nth i ls []).
  Proof.
    unfold pick. rewrite In_concat. split.
    - intros (l & Hl & Hx). apply in_map_iff in Hl as (i & <- & Hi). eauto.
    - intros (i & Hi & Hx). exists (nth i ls []). split; [exact (in_map (fun i => nth i ls []) keys i Hi) | exact Hx].
  Qed.

  Lemma nth_child_items p attrs i :
    nth i (mapi (child_items p) attrs) [] =
    match nth_error attrs i with Some a => child_items p i a | None => [] end.
  Proof. unfold mapi. rewrite mapi_from_nth. reflexivity. Qed.

  Lemma nth_error_nth_attr attrs i a : nth_error attrs i = Some a -> nth i attrs ANone = a.
  Proof. intro H. apply nth_error_nth. exact H. Qed.

  (* every visited node sits at its path, below the start *)
  Theorem walk_get n : forall p sibs it, In it (walk stop p sibs n) ->
    exists r, it_path it = p ++ r /\ get n r = Some (it_node it).
  Proof.
    induction n as [k attrs IH] using node_ind2. intros p sibs it H.
    rewrite walk_unfold in H. destruct H as [<-|H].
    { exists []. cbn. rewrite app_nil_r. auto. }
    destruct (stop k); [destruct H|].
    apply In_pick in H as (i & Hi & H). rewrite nth_child_items in H.
    destruct (nth_error attrs i) as [a|] eqn:Ea; [|destruct H].
    assert (Ha : attr_all (fun n => forall p sibs it, In it (walk stop p sibs n) ->
                   exists r, it_path it = p ++ r /\ get n r = Some (it_node it)) a).
    { rewrite Forall_forall in IH. apply IH. eapply nth_error_In; eauto. }
    pose proof (nth_error_nth_attr _ _ _ Ea) as En.
    destruct Ha as [|m Hm|l Hl| | |]; cbn [child_items] in H; try destruct H.
    - apply Hm in H as (r & H1 & H2). exists ((i, O) :: r). rewrite H1, <- app_assoc. split; [reflexivity|].
      cbn [get attrs_of]. rewrite En. cbn. exact H2.
    - apply In_concat in H as (its & Hits & H). apply In_mapi_pre in Hits as (j & m & Hj & ->).
      rewrite Forall_forall in Hl. apply (Hl m (nth_error_In _ _ Hj)) in H as (r & H1 & H2).
      exists ((i, j) :: r). cbn [plus] in H1. rewrite H1, <- app_assoc. split; [reflexivity|].
      cbn [get attrs_of]. rewrite En, Hj. exact H2.
  Qed.

  (* ---- pairwise different paths ---- *)
  Lemma app_cons_neq {A} (p : list A) x r : p <> p ++ x :: r.
  Proof.
    intro H. apply (f_equal (@length A)) in H. rewrite app_length in H. cbn in H. lia.
  Qed.

  Lemma NoDup_app_disj {A} (l1 l2 : list A) :
    NoDup l1 -> NoDup l2 -> (forall x, In x l1 -> ~ In x l2) -> NoDup (l1 ++ l2).
  Proof.
    induction 1 as [|a l1 Ha H1 IH]; intros H2 Hd; cbn; [exact H2|].
    constructor.
    - rewrite in_app_iff. intros [H|H]; [contradiction | apply (Hd a); cbn; auto].
    - apply IH; [exact H2 | intros x Hx; apply Hd; cbn; auto].
  Qed.

  Lemma NoDup_concat_map {A} (g : nat -> list A) keys :
    NoDup keys -> (forall i, In i keys -> NoDup (g i)) ->
    (forall i i' x, In i keys -> In i' keys -> i <> i' -> In x (g i) -> ~ In x (g i')) ->
    NoDup (concat (map g keys)).
  Proof.
    induction 1 as [|i keys Hi Hk IH]; intros Hn Hd; cbn; [constructor|].
    apply NoDup_app_disj.
    - apply Hn. cbn. auto.
    - apply IH; [intros; apply Hn; cbn; auto | intros a b x Ha Hb Hab Hx; apply (Hd a b x); cbn; auto].
    - intros x Hx Hx'. apply In_concat in Hx' as (l & Hl & Hx'). apply in_map_iff in Hl as (i' & <- & Hi').
      apply (Hd i i' x); [cbn; auto | cbn; auto | intro; subst; contradiction | exact Hx | exact Hx'].
  Qed.

  Lemma vkeys_NoDup k : NoDup (vkeys k).
  Proof. destruct k; cbn; repeat constructor; cbn; intuition discriminate. Qed.

  Lemma child_paths p i a it : In it (child_items p i a) -> exists j r, it_path it = p ++ (i, j) :: r.
  Proof.
    destruct a as [|m|l| | |]; cbn [child_items]; intro H; try destruct H.
    - apply walk_get in H as (r & H & _). exists O, r. rewrite H, <- app_assoc. reflexivity.
    - apply In_concat in H as (its & Hits & H). apply In_mapi_pre in Hits as (j & m & _ & ->).
      apply walk_get in H as (r & H & _). exists (0 + j)%nat, r. rewrite H, <- app_assoc. reflexivity.
  Qed.

  Definition PN (n : node) : Prop := forall p sibs, NoDup (map it_path (walk stop p sibs n)).

  Lemma list_items_NoDup p i l : Forall PN l -> forall j0 pre,
    NoDup (map it_path (concat (mapi_pre (fun j pre m =>
             walk stop (p ++ [(i, j)]) (mapi (fun j' m' => (p ++ [(i, j')], m')) pre) m) j0 pre l))) /\
    (forall it, In it (concat (mapi_pre (fun j pre m =>
             walk stop (p ++ [(i, j)]) (mapi (fun j' m' => (p ++ [(i, j')], m')) pre) m) j0 pre l)) ->
       exists j r, (j0 <= j)%nat /\ it_path it = p ++ (i, j) :: r).
  Proof.
    induction 1 as [|m l Hm Hl IH]; intros j0 pre; cbn [mapi_pre concat map]; [split; [constructor | intros it []]|].
    destruct (IH (S j0) (pre ++ [m])) as [IH1 IH2]. split.
    - rewrite map_app. apply NoDup_app_disj; [apply Hm | exact IH1|].
      intros x Hx Hx'. apply in_map_iff in Hx as (it & <- & Hit). apply in_map_iff in Hx' as (it' & He & Hit').
      apply walk_get in Hit as (r & Hr & _). apply IH2 in Hit' as (j & r' & Hj & Hr').
      rewrite Hr, Hr', <- app_assoc in He. apply app_inv_head in He. inversion He. lia.
    - intros it Hit. apply in_app_iff in Hit as [Hit|Hit].
      + apply walk_get in Hit as (r & Hr & _). exists j0, r. split; [lia|]. rewrite Hr, <- app_assoc. reflexivity.
      + apply IH2 in Hit as (j & r & Hj & Hr). exists j, r. split; [lia | exact Hr].
  Qed.

  Lemma child_items_NoDup p i a : attr_all PN a -> NoDup (map it_path (child_items p i a)).
  Proof.
    intros [|m Hm|l Hl| | |]; cbn [child_items map]; try constructor.
    - apply Hm.
    - apply (list_items_NoDup p i l Hl O []).
  Qed.

  Theorem walk_NoDup n : PN n.
  Proof.
    induction n as [k attrs IH] using node_ind2. intros p sibs.
    rewrite walk_unfold. cbn [map it_path]. destruct (stop k); [repeat constructor; intros []|].
    assert (Hc : forall i it, In it (nth i (mapi (child_items p) attrs) []) ->
                 exists j r, it_path it = p ++ (i, j) :: r).
    { intros i it H. rewrite nth_child_items in H. destruct (nth_error attrs i); [|destruct H].
      eapply child_paths; eauto. }
    constructor.
    - intro H. apply in_map_iff in H as (it & He & H). apply In_pick in H as (i & _ & H).
      apply Hc in H as (j & r & Hr). rewrite Hr in He. symmetry in He. exact (app_cons_neq _ _ _ He).
    - unfold pick. rewrite <- concat_map_map, map_map.
      apply NoDup_concat_map.
      + apply vkeys_NoDup.
      + intros i _. rewrite nth_child_items. destruct (nth_error attrs i) as [a|] eqn:Ea; [|constructor].
        apply child_items_NoDup. rewrite Forall_forall in IH. apply IH. eapply nth_error_In; eauto.
      + intros i i' x _ _ Hne Hx Hx'.
        apply in_map_iff in Hx as (it & <- & Hit). apply in_map_iff in Hx' as (it' & He & Hit').
        apply Hc in Hit as (j & r & Hr). apply Hc in Hit' as (j' & r' & Hr').
        rewrite Hr, Hr' in He. apply app_inv_head in He. inversion He. congruence.
  Qed.
End Walk.

(* the visited nodes of a document: found at their paths, no path twice *)
Theorem doc_items_get d it : In it (doc_items d) -> get d (it_path it) = Some (it_node it).
Proof.
  intro H. apply walk_get in H as (r & H1 & H2). cbn in H1. rewrite H1. exact H2.
Qed.

Theorem doc_items_NoDup d : NoDup (map it_path (doc_items d)).
Proof. apply walk_NoDup. Qed.

(* generic: mapping a partial, path-preserving function over items keeps paths distinct *)
Lemma flat_map_paths_NoDup {B} (f : item -> list B) (key : B -> path) its :
  NoDup (map it_path its) ->
  (forall it b, In b (f it) -> f it = [b] /\ key b = it_path it) ->
  NoDup (map key (flat_map f its)).
Proof.
  induction its as [|it its IH]; intros Hn Hf; cbn; [constructor|].
  inversion Hn as [|? ? Hi Hn']; subst. rewrite map_app. apply NoDup_app_disj.
  - destruct (f it) as [|b l] eqn:Ef; [constructor|].
    destruct (Hf it b) as [E _]; [rewrite Ef; cbn; auto|]. rewrite Ef in E. inversion E; subst. repeat constructor. intros [].
  - apply IH; auto.
  - intros x Hx Hx'. apply in_map_iff in Hx as (b & <- & Hb). apply in_map_iff in Hx' as (b' & He & Hb').
    apply in_flat_map in Hb' as (it' & Hit' & Hb'). destruct (Hf it b Hb) as [_ K]. destruct (Hf it' b' Hb') as [_ K'].
    apply Hi. rewrite <- K, <- He, K'. apply in_map. exact Hit'.
Qed.

Theorem all_spreads_NoDup d : NoDup (map sp_path (all_spreads d)).
Proof.
  unfold all_spreads. apply flat_map_paths_NoDup; [apply doc_items_NoDup|].
  intros [q m sb] b Hb. cbn [it_node it_path] in *. destruct m as [k attrs]. destruct k; try destruct Hb.
  - subst. split; [reflexivity|]. destruct attrs as [|a0 [|[] r]]; reflexivity.
  - destruct H.
Qed.

Theorem object_fields_NoDup d : NoDup (map (fun e => snd (snd e)) (object_fields d)).
Proof.
  unfold object_fields.
  assert (H : NoDup (map (fun e : list (str * path) * (str * path) => removelast (snd (snd e)))
                         (flat_map (fun it =>
    match it_node it with
    | Nd KObjectField _ =>
      [(map (fun pn => (arg_name (snd pn), fst pn ++ [(0, O)]))%nat (it_sibs it),
        (arg_name (it_node it), it_path it ++ [(0, O)]%nat))]
    | _ => []
    end) (doc_items d)))).
  { apply flat_map_paths_NoDup; [apply doc_items_NoDup|].
    intros [q m sb] b Hb. cbn [it_node it_path it_sibs] in *. destruct m as [k attrs]. destruct k; try destruct Hb.
    - subst. split; [reflexivity|]. cbn [snd]. apply removelast_last.
    - destruct H. }
  revert H. generalize (flat_map (fun it =>
    match it_node it with
    | Nd KObjectField _ =>
      [(map (fun pn => (arg_name (snd pn), fst pn ++ [(0, O)]))%nat (it_sibs it),
        (arg_name (it_node it), it_path it ++ [(0, O)]%nat))]
    | _ => []
    end) (doc_items d)). intro L.
  induction L as [|e L IH]; cbn; intro H; [constructor|]. inversion H as [|? ? Hi Hn]; subst.
  constructor; [|apply IH; exact Hn]. intro Hin. apply Hi.
  apply in_map_iff in Hin as (e' & He & Hin). apply in_map_iff. exists e'. rewrite He. auto.
Qed.

(* ---- the elements of a visited node's tuple are visited, each with the elements in front of it ---- *)
Lemma mapi_pre_In {A B} (f : nat -> list A -> A -> B) l : forall j0 pre j m,
  nth_error l j = Some m -> In (f (j0 + j)%nat (pre ++ firstn j l) m) (mapi_pre f j0 pre l).
Proof.
  induction l as [|a l IH]; intros j0 pre [|j] m H; cbn in H; try discriminate.
  - inversion H; subst. cbn. rewrite Nat.add_0_r, app_nil_r. auto.
  - cbn [mapi_pre firstn]. right. specialize (IH (S j0) (pre ++ [a]) j m H).
    rewrite <- app_assoc in IH. cbn in IH. replace (j0 + S j)%nat with (S j0 + j)%nat by lia. exact IH.
Qed.

Lemma walk_head stop p sibs n : In (It p n sibs) (walk stop p sibs n).
Proof. destruct n. rewrite walk_unfold. cbn. auto. Qed.

Theorem walk_child_list stop n : forall p sibs q k attrs sb i l j m,
  In (It q (Nd k attrs) sb) (walk stop p sibs n) -> stop k = false -> In i (vkeys k) ->
  nth_error attrs i = Some (AList l) -> nth_error l j = Some m ->
  In (It (q ++ [(i, j)]) m (mapi (fun j' m' => (q ++ [(i, j')], m')) (firstn j l))) (walk stop p sibs n).
Proof.
  induction n as [k0 attrs0 IH] using node_ind2.
  intros p sibs q k attrs sb i l j m H Hs Hi Ha Hj.
  rewrite walk_unfold in *. destruct H as [H|H].
  - inversion H; subst. right. rewrite Hs. apply In_pick. exists i. split; [exact Hi|].
    rewrite nth_child_items, Ha. cbn [child_items]. apply In_concat.
    eexists. split.
    + apply (mapi_pre_In _ l O [] j m Hj).
    + cbn [plus app]. apply walk_head.
  - right. destruct (stop k0); [destruct H|].
    apply In_pick in H as (i0 & Hi0 & H). apply In_pick. exists i0. split; [exact Hi0|].
    rewrite nth_child_items in *. destruct (nth_error attrs0 i0) as [a0|] eqn:Ea0; [|destruct H].
    assert (Ha0 : attr_all (fun n => forall p sibs q k attrs sb i l j m,
      In (It q (Nd k attrs) sb) (walk stop p sibs n) -> stop k = false -> In i (vkeys k) ->
      nth_error attrs i = Some (AList l) -> nth_error l j = Some m ->
      In (It (q ++ [(i, j)]) m (mapi (fun j' m' => (q ++ [(i, j')], m')) (firstn j l))) (walk stop p sibs n)) a0).
    { rewrite Forall_forall in IH. apply IH. eapply nth_error_In; eauto. }
    destruct Ha0 as [|m0 Hm0|l0 Hl0| | |]; cbn [child_items] in *; try destruct H.
    + eapply Hm0; eauto.
    + apply In_concat in H as (its & Hits & H). apply In_concat. exists its. split; [exact Hits|].
      apply In_mapi_pre in Hits as (j0 & m0 & Hj0 & ->).
      rewrite Forall_forall in Hl0. eapply (Hl0 m0 (nth_error_In _ _ Hj0)); eauto.
Qed.
