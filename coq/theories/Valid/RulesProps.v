(* The twelve rules of Valid/Rules.v against their declarative specifications (Valid/RulesSpec.v):
   what exactly is reported, when nothing is reported, fuel sufficiency, description
   independence.  Proof files: RulesNames (duplicate names), RulesGraph (reachable fragments),
   RulesCycles (fragment cycles), RulesErase (descriptions). *)
From Coq Require Import Relations.
From GV Require Import Base.Prelude Lang.Ast Valid.Rules Valid.RulesBase Valid.RulesSpec
  Valid.RulesNames Valid.RulesGraph Valid.RulesCycles Valid.RulesErase.

(* ---- option lists ---- *)
Lemma opt_concat_total {A} (l : list (option (list A))) :
  (forall o, In o l -> exists x, o = Some x) -> exists es, opt_concat l = Some es.
Proof.
  induction l as [|o l IH]; intro H; cbn; [eauto|].
  destruct (H o (or_introl eq_refl)) as [x ->].
  destruct IH as [es ->]; [intros; apply H; cbn; auto | eauto].
Qed.

Lemma opt_concat_In {A} (l : list (option (list A))) : forall es e,
  opt_concat l = Some es -> (In e es <-> exists x, In (Some x) l /\ In e x).
Proof.
  induction l as [|o l IH]; intros es e H; cbn in H.
  - inversion H; subst. split; [intros [] | intros (x & [] & _)].
  - destruct o as [x|]; [|discriminate]. destruct (opt_concat l) as [y|] eqn:E; [|discriminate].
    inversion H; subst. rewrite in_app_iff, (IH y e eq_refl). split.
    + intros [Hx|(z & Hz & He)]; [exists x; cbn; auto | exists z; cbn; auto].
    + intros (z & [Hz|Hz] & He); [inversion Hz; subst; auto | right; eauto].
Qed.

Lemma opt_concat_nil {A} (l : list (option (list A))) es :
  opt_concat l = Some es -> (es = [] <-> forall x, In (Some x) l -> x = []).
Proof.
  intro H. split.
  - intros -> x Hx. destruct x as [|e x]; [reflexivity|]. exfalso.
    apply (proj2 (opt_concat_In l [] e H)). exists (e :: x). cbn. auto.
  - intro Hn. destruct es as [|e es]; [reflexivity|]. exfalso.
    destruct (proj1 (opt_concat_In l (e :: es) e H) (or_introl eq_refl)) as (x & Hx & He).
    rewrite (Hn x Hx) in He. destruct He.
Qed.

Section Document.
  Variable d : node.
  Let xs := xdefs d.
  Let fs := frags_of xs.
  Let os := ops_of xs.

  (* ---------------------------------------------------------------- 1 ExecutableDefinitions *)
  Theorem executable_definitions_In e :
    In e (rule_executable_definitions d) <-> exists p, NonExecutable d p /\ e = VE R_EXEC [p].
  Proof.
    unfold rule_executable_definitions, NonExecutable. rewrite in_flat_map. split.
    - intros (x & Hx & He). destruct x; cbn in He; try tauto. destruct He as [<-|[]]. eauto.
    - intros (p & Hp & ->). exists (XOther p). cbn. auto.
  Qed.

  Theorem executable_definitions_nil :
    rule_executable_definitions d = [] <-> forall p, ~ NonExecutable d p.
  Proof.
    unfold rule_executable_definitions, NonExecutable. rewrite flat_map_nil. split.
    - intros H p Hp. specialize (H _ Hp). discriminate.
    - intros H x Hx. destruct x; try reflexivity. exfalso. apply (H p Hx).
  Qed.

  (* ---------------------------------------------------------------- 2 UniqueOperationNames *)
  Theorem unique_operation_names_In e :
    In e (rule_unique_operation_names d) <->
    exists p0 p, Dup (named_ops xs) p0 p /\ e = VE R_UOPN [p0; p].
  Proof.
    unfold rule_unique_operation_names. rewrite in_map_iff. split.
    - intros ([p0 p] & <- & H). apply dup_scan_In in H. eauto.
    - intros (p0 & p & H & ->). exists (p0, p). split; [reflexivity | apply dup_scan_In; exact H].
  Qed.

  Theorem unique_operation_names_nil :
    rule_unique_operation_names d = [] <-> UniqueNames (named_ops xs).
  Proof.
    unfold rule_unique_operation_names. rewrite <- dup_scan_nil. fold xs.
    split; [apply map_eq_nil | intro H; rewrite H; reflexivity].
  Qed.

  (* ---------------------------------------------------------------- 3 LoneAnonymousOperation *)
  Theorem lone_anonymous_In e :
    In e (rule_lone_anonymous_operation d) <->
    exists o, In o os /\ o_name o = None /\ (1 < length os)%nat /\ e = VE R_LONE [o_path o].
  Proof.
    unfold rule_lone_anonymous_operation. rewrite in_flat_map. fold xs. fold os. split.
    - intros (o & Ho & He). destruct (o_name o) eqn:En; [destruct He|].
      destruct (1 <? length os)%nat eqn:El; [|destruct He]. destruct He as [<-|[]].
      apply Nat.ltb_lt in El. exists o. auto.
    - intros (o & Ho & En & El & ->). exists o. split; [exact Ho|]. rewrite En.
      apply Nat.ltb_lt in El. rewrite El. cbn. auto.
  Qed.

  Theorem lone_anonymous_nil : rule_lone_anonymous_operation d = [] <-> LoneAnonymous os.
  Proof.
    unfold rule_lone_anonymous_operation, LoneAnonymous. rewrite flat_map_nil. fold xs. fold os. split.
    - intros H o Ho En. specialize (H o Ho). rewrite En in H.
      destruct (1 <? length os)%nat eqn:El; [discriminate|]. apply Nat.ltb_ge in El.
      destruct os; [destruct Ho | cbn in *; lia].
    - intros H o Ho. destruct (o_name o) eqn:En; [reflexivity|].
      rewrite (H o Ho En). reflexivity.
  Qed.

  (* ---------------------------------------------------------------- 4 KnownFragmentNames *)
  Theorem known_fragment_names_In e :
    In e (rule_known_fragment_names d) <->
    exists s, UnknownSpread d s /\ e = VE R_KFRAG [sp_path s ++ name_step].
  Proof.
    unfold rule_known_fragment_names, UnknownSpread. rewrite in_flat_map. fold xs. fold fs. split.
    - intros (s & Hs & He). destruct (get_fragment fs (sp_name s)) eqn:Eg; [destruct He|].
      destruct He as [<-|[]]. apply get_fragment_None in Eg. eauto.
    - intros (s & [Hs Hn] & ->). exists s. split; [exact Hs|].
      apply get_fragment_None in Hn. rewrite Hn. cbn. auto.
  Qed.

  Theorem known_fragment_names_nil :
    rule_known_fragment_names d = [] <-> forall s, In s (all_spreads d) -> Defined fs (sp_name s).
  Proof.
    unfold rule_known_fragment_names. rewrite flat_map_nil. fold xs. fold fs. split.
    - intros H s Hs. specialize (H s Hs). destruct (get_fragment fs (sp_name s)) eqn:Eg; [|discriminate].
      apply get_fragment_Some in Eg as [H1 H2]. exists f. auto.
    - intros H s Hs. destruct (get_fragment_defined fs _ (H s Hs)) as [f ->]. reflexivity.
  Qed.

  (* ---------------------------------------------------------------- 5 UniqueFragmentNames *)
  Theorem unique_fragment_names_In e :
    In e (rule_unique_fragment_names d) <->
    exists p0 p, Dup (named_frags xs) p0 p /\ e = VE R_UFRAG [p0; p].
  Proof.
    unfold rule_unique_fragment_names. rewrite in_map_iff. split.
    - intros ([p0 p] & <- & H). apply dup_scan_In in H. eauto.
    - intros (p0 & p & H & ->). exists (p0, p). split; [reflexivity | apply dup_scan_In; exact H].
  Qed.

  Theorem unique_fragment_names_nil :
    rule_unique_fragment_names d = [] <-> UniqueNames (named_frags xs).
  Proof.
    unfold rule_unique_fragment_names. rewrite <- dup_scan_nil. fold xs.
    split; [apply map_eq_nil | intro H; rewrite H; reflexivity].
  Qed.

  Lemma named_frags_names : map fst (named_frags xs) = map f_name fs.
  Proof. unfold named_frags. rewrite map_map. reflexivity. Qed.

  (* ---------------------------------------------------------------- 6 NoUnusedFragments *)
  Lemma used_names_total l : exists u, used_names fs l = Some u.
  Proof.
    induction l as [|o l [u IH]]; cbn [used_names]; [eauto|].
    destruct (refs_total fs (o_spreads o)) as [r ->]. rewrite IH. eauto.
  Qed.

  Lemma used_names_spec l : forall u, used_names fs l = Some u -> forall n, In n u <-> Used fs l n.
  Proof.
    induction l as [|o l IH]; intros u H n; cbn [used_names] in H.
    - inversion H; subst. split; [intros [] | intros (o & f & [] & _)].
    - destruct (refs fs (o_spreads o)) as [rf|] eqn:Er; [|discriminate].
      destruct (used_names fs l) as [u'|] eqn:Eu; [|discriminate]. inversion H; subst.
      destruct (refs_spec fs _ _ Er) as [Hr _].
      rewrite in_app_iff, in_map_iff, (IH u' eq_refl n). split.
      + intros [(f & Hn & Hf)|(o' & f & Ho & Hf & Hn)].
        * exists o, f. split; [cbn; auto|]. split; [apply Hr; exact Hf | exact Hn].
        * exists o', f. split; [cbn; auto | auto].
      + intros (o' & f & [<-|Ho] & Hf & Hn).
        * left. exists f. split; [exact Hn | apply Hr; exact Hf].
        * right. exists o', f. auto.
  Qed.

  Theorem no_unused_fragments_total : exists es, rule_no_unused_fragments d = Some es.
  Proof.
    unfold rule_no_unused_fragments. fold xs. fold fs. fold os.
    destruct (used_names_total os) as [u ->]. eauto.
  Qed.

  Theorem no_unused_fragments_In es e : rule_no_unused_fragments d = Some es ->
    (In e es <-> exists f, In f fs /\ ~ Used fs os (f_name f) /\ e = VE R_UNUSEDF [f_path f]).
  Proof.
    unfold rule_no_unused_fragments. fold xs. fold fs. fold os.
    destruct (used_names fs os) as [u|] eqn:Eu; [|discriminate]. intro H. inversion H; subst. clear H.
    pose proof (used_names_spec os u Eu) as Hu. rewrite in_flat_map. split.
    - intros (f & Hf & He). destruct (mem (f_name f) u) eqn:Em; [destruct He|]. destruct He as [<-|[]].
      apply mem_false in Em. exists f. split; [exact Hf|]. split; [|reflexivity]. intro H. apply Em. apply Hu. exact H.
    - intros (f & Hf & Hn & ->). exists f. split; [exact Hf|].
      assert (Em : mem (f_name f) u = false) by (apply mem_false; intro H; apply Hn; apply Hu; exact H).
      rewrite Em. cbn. auto.
  Qed.

  Theorem no_unused_fragments_nil es : rule_no_unused_fragments d = Some es ->
    (es = [] <-> forall f, In f fs -> Used fs os (f_name f)).
  Proof.
    intro H. split.
    - intros -> f Hf. destruct (used_names_total os) as [u Eu].
      pose proof (used_names_spec os u Eu (f_name f)) as Hu. apply Hu.
      apply mem_In. destruct (mem (f_name f) u) eqn:Em; [reflexivity|]. exfalso.
      apply (proj2 (no_unused_fragments_In [] (VE R_UNUSEDF [f_path f]) H)).
      exists f. split; [exact Hf|]. split; [|reflexivity]. apply mem_false in Em. intro Hx. apply Em. apply Hu. exact Hx.
    - intro Hall. destruct es as [|e es]; [reflexivity|]. exfalso.
      destruct (proj1 (no_unused_fragments_In (e :: es) e H) (or_introl eq_refl)) as (f & Hf & Hn & _).
      apply Hn. apply Hall. exact Hf.
  Qed.

  (* ---------------------------------------------------------------- 7 NoFragmentCycles *)
  Theorem no_fragment_cycles_total : exists es, rule_no_fragment_cycles d = Some es.
  Proof.
    unfold rule_no_fragment_cycles. fold xs. fold fs.
    destruct (detect_all_total fs fs ([], []) (incl_refl _)) as [st ->]. eauto.
  Qed.

  (* every error points at a closed chain of fragment spreads *)
  Theorem no_fragment_cycles_sound es e : rule_no_fragment_cycles d = Some es -> In e es ->
    exists c, IsCycle fs c /\ e = VE R_CYCLES (map sp_path c).
  Proof.
    unfold rule_no_fragment_cycles. fold xs. fold fs.
    destruct (detect_all (cycles_fuel fs) fs fs ([], [])) as [st|] eqn:Ed; [|discriminate].
    intro H. inversion H; subst. clear H. rewrite in_map_iff. intros (c & <- & Hc).
    exists c. split; [|reflexivity].
    apply (detect_all_sound fs fs _ _ Ed (incl_refl _)); [intros c' [] | exact Hc].
  Qed.

  (* with unique fragment names: silent iff no fragment spreads itself, directly or indirectly *)
  Theorem no_fragment_cycles_nil es : NoDup (map f_name fs) -> rule_no_fragment_cycles d = Some es ->
    (es = [] <-> forall a, ~ Cyclic fs a).
  Proof.
    intros Hu H. split.
    - intros ->. unfold rule_no_fragment_cycles in H. fold xs in H. fold fs in H.
      destruct (detect_all (cycles_fuel fs) fs fs ([], [])) as [st|] eqn:Ed; [|discriminate].
      inversion H as [Hm]. apply map_eq_nil in Hm. apply (no_error_acyclic fs Hu st Ed Hm).
    - intro Hac. destruct es as [|e es]; [reflexivity|]. exfalso.
      destruct (no_fragment_cycles_sound _ e H (or_introl eq_refl)) as (c & Hc & _).
      destruct (IsCycle_cyclic fs c Hc) as [a Ha]. apply (Hac a Ha).
  Qed.

  (* ---------------------------------------------------------------- 8 UniqueVariableNames *)
  Definition var_names (o : opinfo) : list (str * path) :=
    map (fun v => (vd_name v, vd_name_path v)) (o_vdefs o).

  Theorem unique_variable_names_In e :
    In e (rule_unique_variable_names d) <->
    exists o s, In o os /\ In s (map fst (var_names o)) /\
                e = VE R_UVAR (occ s (var_names o)) /\ (2 <= length (occ s (var_names o)))%nat.
  Proof.
    unfold rule_unique_variable_names. rewrite in_flat_map. fold xs. fold os. split.
    - intros (o & Ho & He). apply dup_groups_In in He as (s & H1 & H2 & H3). exists o, s. auto.
    - intros (o & s & Ho & H1 & H2 & H3). exists o. split; [exact Ho|]. apply dup_groups_In. eauto.
  Qed.

  Theorem unique_variable_names_nil :
    rule_unique_variable_names d = [] <-> forall o, In o os -> UniqueNames (var_names o).
  Proof.
    unfold rule_unique_variable_names. rewrite flat_map_nil. fold xs. fold os.
    split; intros H o Ho.
    - apply (proj1 (dup_groups_nil R_UVAR (var_names o))). apply H. exact Ho.
    - apply (proj2 (dup_groups_nil R_UVAR (var_names o))). apply H. exact Ho.
  Qed.

  (* ---------------------------------------------------------------- 9 NoUndefinedVariables *)
  Lemma op_usages_total o : exists us, op_usages fs o = Some us.
  Proof. unfold op_usages. destruct (refs_total fs (o_spreads o)) as [r ->]. eauto. Qed.

  Lemma op_usages_spec o us : op_usages fs o = Some us -> forall u, In u us <-> InScope fs o u.
  Proof.
    unfold op_usages, InScope. destruct (refs fs (o_spreads o)) as [rf|] eqn:Er; [|discriminate].
    intro H. inversion H; subst. clear H. destruct (refs_spec fs _ _ Er) as [Hr _]. intro u.
    rewrite in_app_iff, in_flat_map. split.
    - intros [Hu|(f & Hf & Hu)]; [auto|]. apply filter_In in Hu as [Hu Hl].
      right. exists f. split; [apply Hr; exact Hf|]. split; [exact Hu|].
      apply negb_true_iff in Hl. exact Hl.
    - intros [Hu|(f & Hf & Hu & Hl)]; [auto|]. right. exists f. split; [apply Hr; exact Hf|].
      apply filter_In. split; [exact Hu | rewrite Hl; reflexivity].
  Qed.

  Theorem no_undefined_variables_total : exists es, rule_no_undefined_variables d = Some es.
  Proof.
    unfold rule_no_undefined_variables. apply opt_concat_total. intros o Ho.
    apply in_map_iff in Ho as (op & <- & _). unfold undefined_in. fold xs. fold fs.
    destruct (op_usages_total op) as [us ->]. eauto.
  Qed.

  Theorem no_undefined_variables_In es e : rule_no_undefined_variables d = Some es ->
    (In e es <-> exists o u, In o os /\ UndefinedUse fs o u /\ e = VE R_UNDEFV [us_path u; o_path o]).
  Proof.
    unfold rule_no_undefined_variables. fold xs. fold fs. fold os. intro H.
    rewrite (opt_concat_In _ es e H). split.
    - intros (x & Hx & He). apply in_map_iff in Hx as (o & Ho & Hin). unfold undefined_in in Ho.
      destruct (op_usages fs o) as [us|] eqn:Eu; [|discriminate]. inversion Ho; subst. clear Ho.
      apply in_flat_map in He as (u & Hu & He).
      destruct (mem (us_name u) (map vd_name (o_vdefs o))) eqn:Em; [destruct He|]. destruct He as [<-|[]].
      exists o, u. split; [exact Hin|]. split; [|reflexivity]. split.
      + apply (op_usages_spec o us Eu). exact Hu.
      + apply mem_false in Em. exact Em.
    - intros (o & u & Ho & [Hs Hn] & ->). destruct (op_usages_total o) as [us Eu].
      exists (flat_map (fun u => if mem (us_name u) (map vd_name (o_vdefs o)) then []
                                 else [VE R_UNDEFV [us_path u; o_path o]]) us). split.
      + apply in_map_iff. exists o. split; [|exact Ho]. unfold undefined_in. rewrite Eu. reflexivity.
      + apply in_flat_map. exists u. split; [apply (op_usages_spec o us Eu); exact Hs|].
        apply mem_false in Hn. unfold DefinesVar in *. rewrite Hn. cbn. auto.
  Qed.

  Theorem no_undefined_variables_nil es : rule_no_undefined_variables d = Some es ->
    (es = [] <-> forall o u, In o os -> ~ UndefinedUse fs o u).
  Proof.
    intro H. split.
    - intros -> o u Ho Hu.
      apply (proj2 (no_undefined_variables_In [] (VE R_UNDEFV [us_path u; o_path o]) H)). eauto.
    - intro Hn. destruct es as [|e es]; [reflexivity|]. exfalso.
      destruct (proj1 (no_undefined_variables_In (e :: es) e H) (or_introl eq_refl)) as (o & u & Ho & Hu & _).
      apply (Hn o u Ho Hu).
  Qed.

  (* ---------------------------------------------------------------- 10 NoUnusedVariables *)
  Theorem no_unused_variables_total : exists es, rule_no_unused_variables d = Some es.
  Proof.
    unfold rule_no_unused_variables. apply opt_concat_total. intros o Ho.
    apply in_map_iff in Ho as (x & <- & _). unfold unused_in. fold xs. fold fs.
    destruct x as [op|f|p]; [|eauto|eauto]. destruct (op_usages_total op) as [us ->]. eauto.
  Qed.

  Lemma In_ops o : In o os <-> In (XOp o) xs.
  Proof.
    unfold os, ops_of. rewrite in_flat_map. split.
    - intros (x & Hx & Ho). destruct x; cbn in Ho; try tauto. destruct Ho as [<-|[]]. exact Hx.
    - intro H. exists (XOp o). cbn. auto.
  Qed.

  Lemma In_frags f : In f fs <-> In (XFrag f) xs.
  Proof.
    unfold fs, frags_of. rewrite in_flat_map. split.
    - intros (x & Hx & Ho). destruct x; cbn in Ho; try tauto. destruct Ho as [<-|[]]. exact Hx.
    - intro H. exists (XFrag f). cbn. auto.
  Qed.

  Theorem no_unused_variables_In es e : rule_no_unused_variables d = Some es ->
    (In e es <->
     (exists o v, In o os /\ UnusedVar fs o v /\ e = VE R_UNUSEDV [vd_path v]) \/
     (exists f v, In f fs /\ UnusedFragVar f v /\ e = VE R_UNUSEDV [vd_path v])).
  Proof.
    unfold rule_no_unused_variables. fold xs. fold fs. intro H.
    rewrite (opt_concat_In _ es e H). split.
    - intros (x & Hx & He). apply in_map_iff in Hx as (xd & Hxd & Hin). destruct xd as [o|f|p]; cbn in Hxd.
      + destruct (op_usages fs o) as [us|] eqn:Eu; [|discriminate]. inversion Hxd; subst. clear Hxd.
        apply in_flat_map in He as (v & Hv & He).
        destruct (mem (vd_name v) (map us_name us)) eqn:Em; [destruct He|]. destruct He as [<-|[]].
        left. exists o, v. split; [apply In_ops; exact Hin|]. split; [|reflexivity]. split; [exact Hv|].
        apply mem_false in Em. intros (u & Hu & Hn). apply Em. rewrite <- Hn. apply in_map.
        apply (op_usages_spec o us Eu). exact Hu.
      + inversion Hxd; subst. clear Hxd. apply in_flat_map in He as (v & Hv & He).
        destruct (mem (vd_name v) (map us_name (f_usages f))) eqn:Em; [destruct He|]. destruct He as [<-|[]].
        right. exists f, v. split; [apply In_frags; exact Hin|]. split; [|reflexivity]. split; [exact Hv|].
        apply mem_false in Em. intros (u & Hu & Hn). apply Em. rewrite <- Hn. apply in_map. exact Hu.
      + inversion Hxd; subst. destruct He.
    - intros [(o & v & Ho & [Hv Hn] & ->)|(f & v & Hf & [Hv Hn] & ->)].
      + destruct (op_usages_total o) as [us Eu].
        exists (flat_map (fun v => if mem (vd_name v) (map us_name us) then [] else [VE R_UNUSEDV [vd_path v]])
                         (o_vdefs o)). split.
        * apply in_map_iff. exists (XOp o). split; [cbn; rewrite Eu; reflexivity | apply In_ops; exact Ho].
        * apply in_flat_map. exists v. split; [exact Hv|].
          assert (Em : mem (vd_name v) (map us_name us) = false).
          { apply mem_false. intro Hin. apply in_map_iff in Hin as (u & Hu1 & Hu2). apply Hn. exists u.
            split; [apply (op_usages_spec o us Eu); exact Hu2 | exact Hu1]. }
          rewrite Em. cbn. auto.
      + exists (flat_map (fun v => if mem (vd_name v) (map us_name (f_usages f)) then []
                                   else [VE R_UNUSEDV [vd_path v]]) (f_vdefs f)). split.
        * apply in_map_iff. exists (XFrag f). split; [reflexivity | apply In_frags; exact Hf].
        * apply in_flat_map. exists v. split; [exact Hv|].
          assert (Em : mem (vd_name v) (map us_name (f_usages f)) = false).
          { apply mem_false. intro Hin. apply in_map_iff in Hin as (u & Hu1 & Hu2). apply Hn. eauto. }
          rewrite Em. cbn. auto.
  Qed.

  Theorem no_unused_variables_nil es : rule_no_unused_variables d = Some es ->
    (es = [] <-> (forall o v, In o os -> ~ UnusedVar fs o v) /\ (forall f v, In f fs -> ~ UnusedFragVar f v)).
  Proof.
    intro H. split.
    - intros ->. split; intros a v Ha Hu;
        apply (proj2 (no_unused_variables_In [] (VE R_UNUSEDV [vd_path v]) H)); [left|right]; eauto.
    - intros [H1 H2]. destruct es as [|e es]; [reflexivity|]. exfalso.
      destruct (proj1 (no_unused_variables_In (e :: es) e H) (or_introl eq_refl))
        as [(o & v & Ho & Hu & _)|(f & v & Hf & Hu & _)]; [apply (H1 o v Ho Hu) | apply (H2 f v Hf Hu)].
  Qed.

  (* ---------------------------------------------------------------- 11 UniqueArgumentNames *)
  Theorem unique_argument_names_In e :
    In e (rule_unique_argument_names d) <->
    exists args s, In args (arg_lists d) /\ In s (map fst args) /\
                   e = VE R_UARG (occ s args) /\ (2 <= length (occ s args))%nat.
  Proof.
    unfold rule_unique_argument_names. rewrite in_flat_map. split.
    - intros (a & Ha & He). apply dup_groups_In in He as (s & H1 & H2 & H3). exists a, s. auto.
    - intros (a & s & Ha & H1 & H2 & H3). exists a. split; [exact Ha|]. apply dup_groups_In. eauto.
  Qed.

  Theorem unique_argument_names_nil :
    rule_unique_argument_names d = [] <-> forall args, In args (arg_lists d) -> UniqueNames args.
  Proof.
    unfold rule_unique_argument_names. rewrite flat_map_nil.
    split; intros H a Ha.
    - apply (proj1 (dup_groups_nil R_UARG a)). apply H. exact Ha.
    - apply (proj2 (dup_groups_nil R_UARG a)). apply H. exact Ha.
  Qed.

  (* ---------------------------------------------------------------- 12 UniqueInputFieldNames *)
  (* an input object field is reported iff a field in front of it in the same object value has
     its name; the error points at the first such field and at the field itself *)
  Theorem unique_input_field_names_In e :
    In e (rule_unique_input_field_names d) <->
    exists before s p pre p0 post,
      In (before, (s, p)) (object_fields d) /\ before = pre ++ (s, p0) :: post /\
      ~ In s (map fst pre) /\ e = VE R_UINF [p0; p].
  Proof.
    unfold rule_unique_input_field_names. rewrite in_flat_map. split.
    - intros ([before [s p]] & Hin & He). cbn [fst snd] in He.
      destruct (lookup s before) as [p0|] eqn:El; [|destruct He]. destruct He as [<-|[]].
      apply lookup_first in El as (pre & post & Hb & Hn). exists before, s, p, pre, p0, post. auto.
    - intros (before & s & p & pre & p0 & post & Hin & Hb & Hn & ->).
      exists (before, (s, p)). split; [exact Hin|]. cbn [fst snd].
      assert (El : lookup s before = Some p0) by (apply lookup_first; eauto).
      rewrite El. cbn. auto.
  Qed.

  Theorem unique_input_field_names_nil :
    rule_unique_input_field_names d = [] <->
    forall before s p, In (before, (s, p)) (object_fields d) -> ~ In s (map fst before).
  Proof.
    unfold rule_unique_input_field_names. rewrite flat_map_nil. split.
    - intros H before s p Hin. specialize (H _ Hin). cbn [fst snd] in H.
      apply lookup_None. destruct (lookup s before); [discriminate | reflexivity].
    - intros H [before [s p]] Hin. cbn [fst snd]. apply H in Hin. apply lookup_None in Hin.
      rewrite Hin. reflexivity.
  Qed.

  (* ---------------------------------------------------------------- all rules: fuel *)
  Theorem all_rules_total : exists es, all_rules d = Some es.
  Proof.
    unfold all_rules. apply opt_concat_total. intros o Ho. cbn in Ho.
    repeat (destruct Ho as [<-|Ho]; [try (eexists; reflexivity)|]); try destruct Ho.
    - apply no_unused_fragments_total.
    - apply no_fragment_cycles_total.
    - apply no_undefined_variables_total.
    - apply no_unused_variables_total.
  Qed.
End Document.

Lemma op_usages_spec_gen fs o us : op_usages fs o = Some us -> forall u, In u us <-> InScope fs o u.
Proof.
  unfold op_usages, InScope. destruct (refs fs (o_spreads o)) as [rf|] eqn:Er; [|discriminate].
  intro H. inversion H; subst. clear H. destruct (refs_spec fs _ _ Er) as [Hr _]. intro u.
  rewrite in_app_iff, in_flat_map. split.
  - intros [Hu|(f & Hf & Hu)]; [auto|]. apply filter_In in Hu as [Hu Hl].
    right. exists f. split; [apply Hr; exact Hf|]. split; [exact Hu|].
    apply negb_true_iff in Hl. exact Hl.
  - intros [Hu|(f & Hf & Hu & Hl)]; [auto|]. right. exists f. split; [apply Hr; exact Hf|].
    apply filter_In. split; [exact Hu | rewrite Hl; reflexivity].
Qed.

(* ---------------------------------------------------------------- descriptions *)
Section Erase.
  Variable d : node.
  Notation E := erase_descriptions.

  Theorem erase_executable_definitions : rule_executable_definitions (E d) = rule_executable_definitions d.
  Proof. unfold rule_executable_definitions. rewrite xdefs_erase. reflexivity. Qed.
  Theorem erase_unique_operation_names : rule_unique_operation_names (E d) = rule_unique_operation_names d.
  Proof. unfold rule_unique_operation_names. rewrite xdefs_erase. reflexivity. Qed.
  Theorem erase_lone_anonymous_operation : rule_lone_anonymous_operation (E d) = rule_lone_anonymous_operation d.
  Proof. unfold rule_lone_anonymous_operation. rewrite xdefs_erase. reflexivity. Qed.
  Theorem erase_known_fragment_names : rule_known_fragment_names (E d) = rule_known_fragment_names d.
  Proof. unfold rule_known_fragment_names. rewrite xdefs_erase, all_spreads_erase. reflexivity. Qed.
  Theorem erase_unique_fragment_names : rule_unique_fragment_names (E d) = rule_unique_fragment_names d.
  Proof. unfold rule_unique_fragment_names. rewrite xdefs_erase. reflexivity. Qed.
  Theorem erase_no_unused_fragments : rule_no_unused_fragments (E d) = rule_no_unused_fragments d.
  Proof. unfold rule_no_unused_fragments. rewrite xdefs_erase. reflexivity. Qed.
  Theorem erase_no_fragment_cycles : rule_no_fragment_cycles (E d) = rule_no_fragment_cycles d.
  Proof. unfold rule_no_fragment_cycles. rewrite xdefs_erase. reflexivity. Qed.
  Theorem erase_unique_variable_names : rule_unique_variable_names (E d) = rule_unique_variable_names d.
  Proof. unfold rule_unique_variable_names. rewrite xdefs_erase. reflexivity. Qed.
  Theorem erase_no_undefined_variables : rule_no_undefined_variables (E d) = rule_no_undefined_variables d.
  Proof. unfold rule_no_undefined_variables. rewrite xdefs_erase. reflexivity. Qed.
  Theorem erase_no_unused_variables : rule_no_unused_variables (E d) = rule_no_unused_variables d.
  Proof. unfold rule_no_unused_variables. rewrite xdefs_erase. reflexivity. Qed.
  Theorem erase_unique_argument_names : rule_unique_argument_names (E d) = rule_unique_argument_names d.
  Proof. unfold rule_unique_argument_names. rewrite arg_lists_erase. reflexivity. Qed.
  Theorem erase_unique_input_field_names : rule_unique_input_field_names (E d) = rule_unique_input_field_names d.
  Proof. unfold rule_unique_input_field_names. rewrite object_fields_erase. reflexivity. Qed.

  Theorem erase_all_rules : all_rules (E d) = all_rules d.
  Proof.
    unfold all_rules.
    rewrite erase_executable_definitions, erase_unique_operation_names, erase_lone_anonymous_operation,
      erase_known_fragment_names, erase_unique_fragment_names, erase_no_unused_fragments,
      erase_no_fragment_cycles, erase_unique_variable_names, erase_no_undefined_variables,
      erase_no_unused_variables, erase_unique_argument_names, erase_unique_input_field_names.
    reflexivity.
  Qed.
End Erase.
