(* Translation of a parsed document (Lang/Ast.v) into the document type of the execution model
   (Exec/Schema.v): the single operation of the document with its variable definitions, and all
   fragment definitions.  None = outside the execution model's fragment (no or several operations,
   subscriptions, fragment arguments / variables, malformed nodes).
   [fl] is the denotation of a float literal (exact ratio of the binary64 value); no theorem
   depends on it (typing looks at the kind of a literal only). *)
From GV Require Import Base.Prelude Lang.Ast Exec.Value Exec.Schema Exec.Spec Exec.Wire Valid.Rules Valid.Rules13.

Fixpoint all_some {A} (l : list (option A)) : option (list A) :=
  match l with
  | [] => Some []
  | Some a :: r => option_map (cons a) (all_some r)
  | None :: _ => None
  end.

Section ToExec.
  Variable fl : list N -> Z * N.

  Fixpoint val_of (n : node) : option value :=
    match n with
    | Nd KNullValue _ => Some VNull
    | Nd KIntValue (AStr t :: _) => option_map VInt (int_of_text t)
    | Nd KFloatValue (AStr t :: _) => Some (VFloat (fst (fl t)) (snd (fl t)))
    | Nd KStringValue (AStr t :: _) => Some (VStr t)
    | Nd KBooleanValue (ABool b :: _) => Some (VBool b)
    | Nd KEnumValue (AStr t :: _) => Some (VEnum t)
    | Nd KVariable (ANode nm :: _) => Some (VVar (name_str nm))
    | Nd KListValue (AList l :: _) => option_map VList (all_some (map val_of l))
    | Nd KObjectValue (AList fs :: _) =>
      option_map VObj (all_some (map (fun f =>
        match f with
        | Nd KObjectField (ANode nm :: ANode v :: _) => option_map (pair (name_str nm)) (val_of v)
        | _ => None
        end) fs))
    | _ => None
    end.

  Definition args_of (a : attr) : option (list (str * value)) :=
    all_some (map (fun x =>
      match x with
      | Nd KArgument (ANode nm :: ANode v :: _) => option_map (pair (name_str nm)) (val_of v)
      | _ => None
      end) (attr_list a)).

  Definition dirs_of (a : attr) : option (list directive) :=
    all_some (map (fun x =>
      match x with
      | Nd KDirective (ANode nm :: ar :: _) => option_map (pair (name_str nm)) (args_of ar)
      | _ => None
      end) (attr_list a)).

  Definition opt_name (a : attr) : option str :=
    match a with ANode nm => Some (name_str nm) | _ => None end.

  Fixpoint sels_of (ss : node) {struct ss} : option (list selection) :=
    match ss with
    | Nd KSelectionSet (AList sels :: _) =>
      all_some (map (fun sel =>
        match sel with
        | Nd KField (d :: ANode nm :: al :: a :: sset :: _) =>
          match args_of a, dirs_of d,
                match sset with ANode s' => sels_of s' | _ => Some [] end with
          | Some args, Some dirs, Some sub => Some (SField (opt_name al) (name_str nm) args dirs sub)
          | _, _, _ => None
          end
        | Nd KFragmentSpread (d :: ANode nm :: ANone :: _) =>
          option_map (SSpread (name_str nm)) (dirs_of d)
        | Nd KInlineFragment (d :: ANode s' :: tc :: _) =>
          match dirs_of d, sels_of s',
                match tc with
                | ANode (Nd KNamedType (ANode nm :: _)) => Some (Some (name_str nm))
                | ANode _ => None
                | _ => Some None
                end with
          | Some dirs, Some sub, Some c => Some (SInline c dirs sub)
          | _, _, _ => None
          end
        | _ => None
        end) sels)
    | _ => None
    end.

  (* a constant: no variable inside (defaults of variable definitions) *)
  Fixpoint has_var (v : value) : bool :=
    match v with
    | VVar _ => true
    | VList l => existsb has_var l
    | VObj fs => existsb (fun kv => has_var (snd kv)) fs
    | _ => false
    end.

  (* no non-null directly under non-null *)
  Fixpoint ty_norm (t : ty) : bool :=
    match t with
    | TNonNull (TNonNull _) => false
    | TNonNull t' => ty_norm t'
    | TList t' => ty_norm t'
    | TNamed _ => true
    end.

  Definition vardef_of (vd : node) : option var_def :=
    match vd with
    | Nd KVariableDefinition (_ :: _ :: ANode t :: dv :: _ :: _) =>
      if ty_norm (ty_of t) then
        match dv with
        | ANode v =>
          match val_of v with
          | Some x => if has_var x then None else Some (mkVar (vardef_name vd) (ty_of t) (Some x))
          | None => None
          end
        | _ => Some (mkVar (vardef_name vd) (ty_of t) None)
        end
      else None
    | _ => None
    end.

  Definition frag_of (n : node) : option fragment :=
    match n with
    | Nd KFragmentDefinition (ANode ss :: _ :: ANode nm :: AList [] :: _ :: ANode (Nd KNamedType (ANode tn :: _)) :: _) =>
      option_map (mkFrag (name_str nm) (name_str tn)) (sels_of ss)
    | _ => None
    end.

  Definition is_op (n : node) : bool := match n with Nd KOperationDefinition _ => true | _ => false end.
  Definition is_frag (n : node) : bool := match n with Nd KFragmentDefinition _ => true | _ => false end.

  (* the operation named [sel] (None: the only operation of the document) *)
  Variable sel : option str.

  Definition op_selected (n : node) : bool :=
    match n with
    | Nd KOperationDefinition (_ :: _ :: nm :: _) =>
      match sel with
      | None => true
      | Some x => match nm with ANode m => str_eqb (name_str m) x | _ => false end
      end
    | _ => false
    end.

  Definition to_exec (d : node) : option document :=
    match filter op_selected (doc_defs d) with
    | [Nd KOperationDefinition (ANode ss :: _ :: _ :: vds :: _ :: AEnum o :: _)] =>
      match (if o =? 0 then Some OpQuery else if o =? 1 then Some OpMutation else None),
            all_some (map vardef_of (attr_list vds)), sels_of ss,
            all_some (map frag_of (filter is_frag (doc_defs d))) with
      | Some k, Some vars, Some sels, Some frags => Some (mkDoc k vars sels frags)
      | _, _, _, _ => None
      end
    | _ => None
    end.
End ToExec.

(* ---- writer for the execution model's document wire (harness/gen_exec.enc_doc) ---- *)
Definition w_str (x : str) : wtree := W 0 x [].
Definition w_opt (o : option wtree) : wtree := match o with Some x => W 21 [] [x] | None => W 20 [] [] end.
Definition w_list (l : list wtree) : wtree := W 5 [] l.

Fixpoint of_ty (t : ty) : wtree :=
  match t with
  | TNamed n => W 1 [] [w_str n]
  | TList t' => W 2 [] [of_ty t']
  | TNonNull t' => W 3 [] [of_ty t']
  end.

Definition of_args (a : list (str * value)) : wtree :=
  w_list (map (fun kv => W 51 [] [w_str (fst kv); of_value (snd kv)]) a).
Definition of_dirs (ds : list directive) : wtree :=
  w_list (map (fun d : directive => W 50 [] [w_str (fst d); of_args (snd d)]) ds).

Fixpoint of_sel (x : selection) : wtree :=
  match x with
  | SField al nm args dirs sub =>
    W 52 [] [w_opt (option_map w_str al); w_str nm; of_args args; of_dirs dirs; w_list (map of_sel sub)]
  | SSpread nm dirs => W 53 [] [w_str nm; of_dirs dirs]
  | SInline tc dirs sub => W 54 [] [w_opt (option_map w_str tc); of_dirs dirs; w_list (map of_sel sub)]
  end.

Definition of_doc (d : document) : wtree :=
  W 57 [match d_kind d with OpQuery => 0 | OpMutation => 1 end]
    [w_list (map (fun v => W 55 [] [w_str (v_name v); of_ty (v_type v);
                                    w_opt (option_map of_value (v_default v))]) (d_vars d));
     w_list (map of_sel (d_sels d));
     w_list (map (fun f => W 56 [] [w_str (fr_name f); w_str (fr_cond f); w_list (map of_sel (fr_sels f))])
                 (d_frags d))].
