(* C12 (rules, continued) - 28 DeferStreamDirectiveOnRootField
   (rules/defer_stream_directive_on_root_field.py) as a function of the parser's AST and the
   presence of the root operation types.

   enter_operation_definition, for a mutation or subscription whose root type exists:
   forbid_defer_stream walks the ROOT level of the operation - the selections of its selection set,
   of inline fragments in it and of the fragments spread in it, never below a field - with ONE set
   of visited fragment names per operation: a field is reported at its first `stream` directive;
   an inline fragment at its first `defer` directive; a spread whose name was seen before is
   skipped, otherwise the name is recorded (defined or not) and, when the fragment is defined
   (fragments dict: the LAST definition wins), the spread is reported at its first `defer`
   directive and the fragment's selection set is walked.  So a second spread of the same fragment
   is never examined.  Recursion: structural through inline fragments, fuel through spreads
   (None = out of fuel; Valid/RulesRootProps.v: never with rf_fuel).  Definitions only. *)
From GV Require Import Base.Prelude Lang.Ast Valid.Rules Valid.RulesDir.

Definition R_ROOT : N := 28.

(* fragments = {definition.name.value: definition}: path of the selection set, selection set *)
Definition rf_frags (d : node) : list (str * (path * node)) :=
  rev (concat (mapi (fun j n =>
    match n with
    | Nd KFragmentDefinition (ANode ss :: _ :: ANode nm :: _) => [(name_str nm, ([(O, j); (O, O)], ss))]
    | _ => []
    end) (ddefs d))).

(* get_directive(node, name): the first one; its path (directives = attribute 0 of the selection at sp) *)
Fixpoint first_dir (nm : str) (sp : path) (j : nat) (ds : list node) : option path :=
  match ds with
  | [] => None
  | dn :: r => if streq (dir_name dn) nm then Some (sp ++ [(O, j)]) else first_dir nm sp (S j) r
  end.

Definition sel_dirs (sel : node) : list node :=
  match sel with Nd _ (AList ds :: _) => ds | _ => [] end.

(* visited fragment names, errors reported so far *)
Definition rstate := (list str * list verr)%type.

Definition report (o : option path) (st : rstate) : rstate :=
  match o with Some q => (fst st, snd st ++ [VE R_ROOT [q]]) | None => st end.

(* for j, a in enumerate(l, j): st = f(j, a, st), stopping at None *)
Section Foldi.
  Context {A T : Type} (f : nat -> A -> T -> option T).
  Fixpoint foldi (j : nat) (l : list A) (st : T) : option T :=
    match l with
    | [] => Some st
    | a :: r => match f j a st with Some st' => foldi (S j) r st' | None => None end
    end.
End Foldi.

Section Walk.
  (* what a spread (at sp, node sel, fragment name) does to the state *)
  Variable spread : path -> node -> str -> rstate -> option rstate.

  Fixpoint wsel (p : path) (ss : node) (st : rstate) {struct ss} : option rstate :=
    match ss with
    | Nd KSelectionSet (AList sels :: _) =>
      foldi (fun j sel st =>
        let sp := p ++ [(O, j)] in
        match sel with
        | Nd KField _ => Some (report (first_dir n_stream sp 0 (sel_dirs sel)) st)
        | Nd KFragmentSpread (_ :: ANode nm :: _) => spread sp sel (name_str nm) st
        | Nd KInlineFragment (_ :: ANode s' :: _) =>
          wsel (sp ++ [(1, O)]%nat) s' (report (first_dir n_defer sp 0 (sel_dirs sel)) st)
        | _ => Some st
        end) O sels st
    | _ => Some st
    end.
End Walk.

Fixpoint rf (fuel : nat) (fr : list (str * (path * node))) : path -> node -> rstate -> option rstate :=
  wsel (fun sp sel name st =>
    if mem name (fst st) then Some st
    else
      let st1 := (name :: fst st, snd st) in
      match lookup name fr with
      | Some (fp, fss) =>
        match fuel with
        | O => None
        | S f => rf f fr fp fss (report (first_dir n_defer sp 0 (sel_dirs sel)) st1)
        end
      | None => Some st1
      end).

Definition rf_fuel (fr : list (str * (path * node))) : nat := S (length fr).

Definition rule_root_field (ds : dschema) (d : node) : option (list verr) :=
  let fr := rf_frags d in
  opt_concat (mapi (fun j n =>
    match n with
    | Nd KOperationDefinition (ANode ss :: _) =>
      match op_code n with
      | Some o =>
        if ((o =? 1) || (o =? 2)) && has_root ds o
        then option_map snd (rf (rf_fuel fr) fr [(O, j); (O, O)] ss ([], []))
        else Some []
      | None => Some []
      end
    | _ => Some []
    end) (ddefs d)).
