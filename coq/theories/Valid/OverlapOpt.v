(* C14 - the memoised algorithm of validation/rules/overlapping_fields_can_be_merged.py
   (steps A-J) over the document model of Valid/Overlap.v, with the two memo tables of
   Valid/PairSet.v.  Shaped like the code: "within"/"between" comparisons, field maps per
   selection set (identified by the selection set: the cache of field maps is keyed by the
   identity of the selection set node and stores a pure function of it), memo lookups before
   every fields-vs-fragment and fragment-vs-fragment comparison, selection sets visited in
   document order with the memo tables shared by the whole document.
   The search stops at the first conflict (the observable is "at least one conflict").
   Out of the modelled fragment as in Overlap.v (no fragment arguments, no @stream). *)
From GV Require Import Base.Prelude Valid.Overlap Valid.PairSet.

(* identity of a selection set: the operation, fragment, field or inline fragment owning it *)
Inductive setid := IdOp (i : N) | IdFrag (n : N) | IdField (fid : N) | IdInline (iid : N).

Definition setid_code (i : setid) : N :=
  match i with IdOp n => 4 * n | IdFrag n => 4 * n + 1 | IdField n => 4 * n + 2 | IdInline n => 4 * n + 3 end.

Definition fkey (n : N) : text := [n].          (* fragment spread key = fragment name *)

(* trace of memo decisions (latest first): a comparison was started (has = False, then add) or
   skipped (has = True).  TFp: fields-vs-fragment table, a = selection set, b = fragment;
   TFf: fragment-vs-fragment table. *)
Inductive tbl := TFp | TFf.
Inductive ev := EvStart (t : tbl) (a b : N) (flag : bool) | EvSkip (t : tbl) (a b : N) (flag : bool).

Record memo := mkMemo { m_fp : opairset; m_ff : pairset; m_log : list ev }.

Inductive result := RFuel | RConflict (m : memo) | ROk (m : memo).

Definition bind (r : result) (f : memo -> result) : result :=
  match r with ROk m => f m | _ => r end.

Fixpoint for_each {A} (f : A -> memo -> result) (l : list A) (m : memo) : result :=
  match l with
  | [] => ROk m
  | x :: r => bind (f x m) (for_each f r)
  end.

(* ---- get_fields_and_fragment_spreads: field map (in order) and spread names (first occurrence order) *)
Fixpoint fields_and_spreads (parent : N) (ss : sels) (acc : list entry * list N) : list entry * list N :=
  match ss with
  | SelNil => acc
  | SelField f sub rest =>
      fields_and_spreads parent rest (fst acc ++ [mkEntry parent f sub], snd acc)
  | SelInline _ tc sub rest =>
      fields_and_spreads parent rest
        (fields_and_spreads (match tc with Some t => t | None => parent end) sub acc)
  | SelSpread n rest =>
      fields_and_spreads parent rest (fst acc, if mem n (snd acc) then snd acc else snd acc ++ [n])
  end.

(* the field map as a dict: response name -> fields, keys in first-occurrence order *)
Fixpoint group_add (e : entry) (g : list (N * list entry)) : list (N * list entry) :=
  match g with
  | [] => [(f_rname (e_fld e), [e])]
  | (k, l) :: r => if k =? f_rname (e_fld e) then (k, l ++ [e]) :: r else (k, l) :: group_add e r
  end.

Definition groups (es : list entry) : list (N * list entry) :=
  fold_left (fun g e => group_add e g) es [].

Fixpoint group_get (k : N) (g : list (N * list entry)) : list entry :=
  match g with
  | [] => []
  | (k', l) :: r => if k' =? k then l else group_get k r
  end.

(* do_types_conflict, in the order of the code: lists first, then non-null, then leaves *)
Fixpoint do_types_conflict (s : schema) (a b : ty) : bool :=
  match a, b with
  | TList a', TList b' => do_types_conflict s a' b'
  | TList _, _ => true
  | _, TList _ => true
  | TNonNull a', TNonNull b' => do_types_conflict s a' b'
  | TNonNull _, _ => true
  | _, TNonNull _ => true
  | TNamed x, TNamed y => if is_leaf s x || is_leaf s y then negb (x =? y) else false
  end.

Definition has_sub (ss : sels) : bool := match ss with SelNil => false | _ => true end.

Inductive call :=
| CFindConflict (excl : bool) (a b : entry)
| CBetweenSubs (excl : bool) (p1 : N) (id1 : setid) (ss1 : sels) (p2 : N) (id2 : setid) (ss2 : sels)
| CFieldsFrag (excl : bool) (id : setid) (fm : list entry) (frag : N)
| CFragFrag (excl : bool) (f1 f2 : N).

Section Exec.
  Variable s : schema.
  Variable frags : list fragdef.

  (* collect_conflicts_between *)
  Definition between (rec : call -> memo -> result) (excl : bool) (fm1 fm2 : list entry) : memo -> result :=
    let g2 := groups fm2 in
    for_each (fun grp =>
                let fields2 := group_get (fst grp) g2 in
                for_each (fun f1 => for_each (fun f2 => rec (CFindConflict excl f1 f2)) fields2) (snd grp))
             (groups fm1).

  Definition exec_step (rec : call -> memo -> result) (c : call) (m : memo) : result :=
    match c with
    | CFindConflict pexcl a b =>
      let excl := pexcl || (negb (e_parent a =? e_parent b)
                            && is_object s (e_parent a) && is_object s (e_parent b)) in
      if negb excl && (negb (f_name (e_fld a) =? f_name (e_fld b))
                       || negb (args_same (f_args (e_fld a)) (f_args (e_fld b))))
      then RConflict m
      else
        let t1 := field_type s (e_parent a) (f_name (e_fld a)) in
        let t2 := field_type s (e_parent b) (f_name (e_fld b)) in
        if match t1, t2 with Some x, Some y => do_types_conflict s x y | _, _ => false end
        then RConflict m
        else if has_sub (e_sub a) && has_sub (e_sub b) then
          rec (CBetweenSubs excl
                 (match t1 with Some x => named x | None => 0 end) (IdField (f_id (e_fld a))) (e_sub a)
                 (match t2 with Some y => named y | None => 0 end) (IdField (f_id (e_fld b))) (e_sub b)) m
        else ROk m
    | CBetweenSubs excl p1 id1 ss1 p2 id2 ss2 =>
      let '(fm1, sp1) := fields_and_spreads p1 ss1 ([], []) in
      let '(fm2, sp2) := fields_and_spreads p2 ss2 ([], []) in
      bind (between rec excl fm1 fm2 m) (fun m =>
      bind (for_each (fun sp => rec (CFieldsFrag excl id1 fm1 sp)) sp2 m) (fun m =>
      bind (for_each (fun sp => rec (CFieldsFrag excl id2 fm2 sp)) sp1 m) (fun m =>
      for_each (fun s1 => for_each (fun s2 => rec (CFragFrag excl s1 s2)) sp2) sp1 m)))
    | CFieldsFrag excl id fm frag =>
      if ops_has (m_fp m) (setid_code id) (fkey frag) excl
      then ROk (mkMemo (m_fp m) (m_ff m) (EvSkip TFp (setid_code id) frag excl :: m_log m))
      else
        let m1 := mkMemo (ops_add (m_fp m) (setid_code id) (fkey frag) excl) (m_ff m)
                         (EvStart TFp (setid_code id) frag excl :: m_log m) in
        match find_frag frags frag with
        | None => ROk m1
        | Some fd =>
          if setid_code id =? setid_code (IdFrag frag) then ROk m1   (* field_map is field_map2 *)
          else
            let '(fm2, sp2) := fields_and_spreads (fr_type fd) (fr_body fd) ([], []) in
            bind (between rec excl fm fm2 m1) (fun m =>
            for_each (fun sp => rec (CFieldsFrag excl id fm sp)) sp2 m)
        end
    | CFragFrag excl f1 f2 =>
      if f1 =? f2 then ROk m
      else if ps_has (m_ff m) (fkey f1) (fkey f2) excl
      then ROk (mkMemo (m_fp m) (m_ff m) (EvSkip TFf f1 f2 excl :: m_log m))
      else
        let m1 := mkMemo (m_fp m) (ps_add (m_ff m) (fkey f1) (fkey f2) excl)
                         (EvStart TFf f1 f2 excl :: m_log m) in
        match find_frag frags f1, find_frag frags f2 with
        | Some d1, Some d2 =>
          let '(fm1, sp1) := fields_and_spreads (fr_type d1) (fr_body d1) ([], []) in
          let '(fm2, sp2) := fields_and_spreads (fr_type d2) (fr_body d2) ([], []) in
          bind (between rec excl fm1 fm2 m1) (fun m =>
          bind (for_each (fun sp => rec (CFragFrag excl f1 sp)) sp2 m) (fun m =>
          for_each (fun sp => rec (CFragFrag excl sp f2)) sp1 m))
        | _, _ => ROk m1
        end
    end.

  Fixpoint exec (fuel : nat) : call -> memo -> result :=
    match fuel with
    | O => fun _ _ => RFuel
    | S f => exec_step (exec f)
    end.

  (* collect_conflicts_within: every pair inside one response-name group *)
  Fixpoint within_group (fuel : nat) (l : list entry) : memo -> result :=
    match l with
    | [] => ROk
    | x :: r => fun m => bind (for_each (fun y => exec fuel (CFindConflict false x y)) r m)
                              (within_group fuel r)
    end.

  Fixpoint spreads_bc (fuel : nat) (id : setid) (fm : list entry) (sps : list N) : memo -> result :=
    match sps with
    | [] => ROk
    | sp :: r => fun m =>
      bind (exec fuel (CFieldsFrag false id fm sp) m) (fun m =>
      bind (for_each (fun other => exec fuel (CFragFrag false sp other)) r m)
           (spreads_bc fuel id fm r))
    end.

  (* find_conflicts_within_selection_set *)
  Definition within_set (fuel : nat) (parent : N) (id : setid) (ss : sels) (m : memo) : result :=
    let '(fm, sps) := fields_and_spreads parent ss ([], []) in
    bind (for_each (fun grp => within_group fuel (snd grp)) (groups fm) m)
         (spreads_bc fuel id fm sps).

  (* enter_selection_set on every selection set, in document (pre-)order *)
  Fixpoint walk_opt (fuel : nat) (parent : N) (ss : sels) (m : memo) : result :=
    match ss with
    | SelNil => ROk m
    | SelField f sub rest =>
      bind (match sub with
            | SelNil => ROk m
            | _ => let p := match field_type s parent (f_name f) with Some t => named t | None => 0 end in
                   bind (within_set fuel p (IdField (f_id f)) sub m) (walk_opt fuel p sub)
            end)
           (walk_opt fuel parent rest)
    | SelInline iid tc sub rest =>
      let p := match tc with Some t => t | None => parent end in
      bind (bind (within_set fuel p (IdInline iid) sub m) (walk_opt fuel p sub))
           (walk_opt fuel parent rest)
    | SelSpread _ rest => walk_opt fuel parent rest m
    end.

  Definition visit_set (fuel : nat) (parent : N) (id : setid) (ss : sels) (m : memo) : result :=
    bind (within_set fuel parent id ss m) (walk_opt fuel parent ss).
End Exec.

(* definitions in document order: (true, i) = i-th operation, (false, i) = i-th fragment *)
Definition opt_run (s : schema) (d : document) (order : list (bool * nat)) (fuel : nat) : result :=
  for_each (fun (oi : bool * nat) (m : memo) =>
              if fst oi then
                match nth_error (d_ops d) (snd oi) with
                | Some o => visit_set s (d_frags d) fuel (fst o) (IdOp (N.of_nat (snd oi))) (snd o) m
                | None => ROk m
                end
              else
                match nth_error (d_frags d) (snd oi) with
                | Some fd => visit_set s (d_frags d) fuel (fr_type fd) (IdFrag (fr_name fd)) (fr_body fd) m
                | None => ROk m
                end)
           order (mkMemo [] [] []).

Definition default_order (d : document) : list (bool * nat) :=
  map (fun i => (true, i)) (seq 0 (length (d_ops d))) ++ map (fun i => (false, i)) (seq 0 (length (d_frags d))).

Definition opt_conflicts (s : schema) (d : document) (order : list (bool * nat)) (fuel : nat) : option bool :=
  match opt_run s d order fuel with
  | RFuel => None
  | RConflict _ => Some true
  | ROk _ => Some false
  end.

(* ids of fields and inline fragments: must identify selection sets (checked by the executable entry) *)
Fixpoint all_ids_sels (ss : sels) : list N :=
  match ss with
  | SelNil => []
  | SelField f sub rest => f_id f :: all_ids_sels sub ++ all_ids_sels rest
  | SelInline iid _ sub rest => iid :: all_ids_sels sub ++ all_ids_sels rest
  | SelSpread _ rest => all_ids_sels rest
  end.

Definition doc_all_ids (d : document) : list N :=
  flat_map (fun o => all_ids_sels (snd o)) (d_ops d) ++ flat_map (fun fd => all_ids_sels (fr_body fd)) (d_frags d).
