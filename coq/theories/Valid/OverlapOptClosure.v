(* When the traced memoised algorithm (Valid/OverlapOptTrace.v) completes without reporting a
   conflict, its final log is closed: every logged comparison has been carried out completely
   (its own sub-comparisons are in the log, possibly under a subsuming flag). *)
From GV Require Import Base.Prelude Valid.Overlap Valid.OverlapProps Valid.PairSet Valid.PairSetProps
  Valid.OverlapOpt Valid.OverlapOptProps Valid.OverlapOptTrace Valid.OverlapAdequacy Valid.OverlapEquiv.

Section Closure.
  Variable s : schema.
  Variable frags : list fragdef.

  (* the field map of a selection set identity *)
  Variable FM : N -> list entry -> Prop.
  Hypothesis FM_fun : forall id fm fm', FM id fm -> FM id fm' -> fm = fm'.

  Definition sub_parent (e : entry) : N :=
    match field_type s (e_parent e) (f_name (e_fld e)) with Some t => named t | None => 0 end.
  Definition Dsub (e : entry) : list entry := fst (fields_and_spreads (sub_parent e) (e_sub e) ([], [])).
  Definition Ssub (e : entry) : list N := snd (fields_and_spreads (sub_parent e) (e_sub e) ([], [])).
  Definition Dfrag (fd : fragdef) : list entry := fst (fields_and_spreads (fr_type fd) (fr_body fd) ([], [])).
  Definition Sfrag (fd : fragdef) : list N := snd (fields_and_spreads (fr_type fd) (fr_body fd) ([], [])).

  (* (only entries with a sub-selection own a field map) *)
  Definition ewf (e : entry) : Prop :=
    has_sub (e_sub e) = true -> FM (setid_code (IdField (f_id (e_fld e)))) (Dsub e).
  Hypothesis FM_closed : forall id fm x, FM id fm -> In x fm -> ewf x.
  Hypothesis frag_closed : forall fd x, In fd frags -> In x (Dfrag fd) -> ewf x.

  (* ---- what the log says ---- *)
  Definition Cmp (L : list tev) (e : bool) (x y : entry) : Prop := In (TvCmp e x y) L.
  Definition covFF (L : list tev) (e : bool) (id : N) (fm : list entry) (F : N) : Prop :=
    exists r, OverlapOptProps.covers r e /\ In (TvFp id fm F r) L.
  Definition covGG (L : list tev) (e : bool) (F G : N) : Prop :=
    F = G \/ exists r, OverlapOptProps.covers r e /\ (In (TvGg F G r) L \/ In (TvGg G F r) L).
  Definition crossCmp (L : list tev) (e : bool) (fm1 fm2 : list entry) : Prop :=
    forall u v, In u fm1 -> In v fm2 -> same_rname u v = true -> Cmp L e u v.

  Definition OblBetween (L : list tev) (e : bool) (id1 : N) (fm1 : list entry) (sp1 : list N)
             (id2 : N) (fm2 : list entry) (sp2 : list N) : Prop :=
    crossCmp L e fm1 fm2 /\
    (forall sp, In sp sp2 -> covFF L e id1 fm1 sp) /\
    (forall sp, In sp sp1 -> covFF L e id2 fm2 sp) /\
    (forall s1 s2, In s1 sp1 -> In s2 sp2 -> covGG L e s1 s2).

  Definition nodirect (e : bool) (a b : entry) : Prop :=
    negb (excl_of s e a b) && (negb (f_name (e_fld a) =? f_name (e_fld b))
                               || negb (args_same (f_args (e_fld a)) (f_args (e_fld b)))) = false /\
    match ft s a, ft s b with Some x, Some y => do_types_conflict s x y | _, _ => false end = false.

  (* the obligation a log entry carries *)
  Definition OblEv (L : list tev) (ev : tev) : Prop :=
    match ev with
    | TvCmp e a b =>
      nodirect e a b /\
      (has_sub (e_sub a) && has_sub (e_sub b) = true ->
       OblBetween L (excl_of s e a b)
                  (setid_code (IdField (f_id (e_fld a)))) (Dsub a) (Ssub a)
                  (setid_code (IdField (f_id (e_fld b)))) (Dsub b) (Ssub b))
    | TvFp id fm F e =>
      forall fd, find_frag frags F = Some fd -> (id =? setid_code (IdFrag F)) = false ->
        crossCmp L e fm (Dfrag fd) /\ forall sp, In sp (Sfrag fd) -> covFF L e id fm sp
    | TvGg F G e =>
      forall d1 d2, find_frag frags F = Some d1 -> find_frag frags G = Some d2 ->
        crossCmp L e (Dfrag d1) (Dfrag d2) /\
        (forall sp, In sp (Sfrag d2) -> covGG L e F sp) /\
        (forall sp, In sp (Sfrag d1) -> covGG L e sp G)
    end.

  Definition mono (Q : list tev -> Prop) : Prop := forall L D, Q L -> Q (D ++ L).

  Lemma Cmp_mono e x y : mono (fun L => Cmp L e x y).
  Proof. intros L D H. unfold Cmp in *. apply in_or_app. right. exact H. Qed.
  Lemma covFF_mono e id fm F : mono (fun L => covFF L e id fm F).
  Proof. intros L D [r [H1 H2]]. exists r. split; auto. apply in_or_app. right. exact H2. Qed.
  Lemma covGG_mono e F G : mono (fun L => covGG L e F G).
  Proof.
    intros L D [H|[r [H1 [H2|H2]]]]; [left; exact H| |]; right; exists r; split; auto;
      [left|right]; apply in_or_app; right; exact H2.
  Qed.
  Lemma crossCmp_mono e fm1 fm2 : mono (fun L => crossCmp L e fm1 fm2).
  Proof. intros L D H u v Hu Hv Hr. apply Cmp_mono. apply H; assumption. Qed.
  Lemma OblBetween_mono e id1 fm1 sp1 id2 fm2 sp2 :
    mono (fun L => OblBetween L e id1 fm1 sp1 id2 fm2 sp2).
  Proof.
    intros L D [H1 [H2 [H3 H4]]]. repeat split.
    - apply crossCmp_mono. exact H1.
    - intros sp Hs. apply covFF_mono. auto.
    - intros sp Hs. apply covFF_mono. auto.
    - intros s1 s2 Hs1 Hs2. apply covGG_mono. auto.
  Qed.
  Lemma OblEv_mono ev : mono (fun L => OblEv L ev).
  Proof.
    intros L D H. destruct ev as [e a b|id fm F e|F G e]; cbn [OblEv] in *.
    - destruct H as [H1 H2]. split; auto. intro Hs. apply OblBetween_mono. auto.
    - intros fd Hf Hn. destruct (H fd Hf Hn) as [H1 H2]. split.
      + apply crossCmp_mono. exact H1.
      + intros sp Hs. apply covFF_mono. auto.
    - intros d1 d2 Hf1 Hf2. destruct (H d1 d2 Hf1 Hf2) as [H1 [H2 H3]]. repeat split.
      + apply crossCmp_mono. exact H1.
      + intros sp Hs. apply covGG_mono. auto.
      + intros sp Hs. apply covGG_mono. auto.
  Qed.

  (* ---- invariants of the state ---- *)
  Definition InvT (m : tstate) : Prop :=
    (forall id F r, ops_get (t_fp m) id (fkey F) = Some r -> exists fm, In (TvFp id fm F r) (t_log m)) /\
    (forall F G r, ps_get (t_ff m) (fkey F) (fkey G) = Some r ->
                   In (TvGg F G r) (t_log m) \/ In (TvGg G F r) (t_log m)) /\
    (forall id fm F r, In (TvFp id fm F r) (t_log m) -> FM id fm).

  (* m' extends m; the obligations of all new entries hold in the log of m' *)
  Definition extends (m m' : tstate) : Prop :=
    exists D, t_log m' = D ++ t_log m /\ forall ev, In ev D -> OblEv (t_log m') ev.

  Lemma extends_refl m : extends m m.
  Proof. exists []. split; [reflexivity | intros ev []]. Qed.

  Lemma extends_trans m m1 m2 : extends m m1 -> extends m1 m2 -> extends m m2.
  Proof.
    intros [D1 [E1 O1]] [D2 [E2 O2]]. exists (D2 ++ D1). split.
    - rewrite E2, E1, app_assoc. reflexivity.
    - intros ev Hev. apply in_app_or in Hev as [Hev|Hev]; auto.
      rewrite E2. apply OblEv_mono. auto.
  Qed.

  Lemma extends_log m m' : extends m m' -> exists D, t_log m' = D ++ t_log m.
  Proof. intros [D [E _]]. exists D. exact E. Qed.

  (* Hoare-style triple for computations that return TOk *)
  Definition triple (P : tstate -> Prop) (f : tstate -> tresult) (Q : list tev -> Prop) : Prop :=
    forall m m', InvT m -> P m -> f m = TOk m' -> extends m m' /\ InvT m' /\ Q (t_log m').

  Definition ttrue (_ : tstate) : Prop := True.

  Lemma triple_bind f g Q1 Q2 : mono Q1 ->
    triple ttrue f Q1 -> triple ttrue g Q2 ->
    triple ttrue (fun m => tbind (f m) g) (fun L => Q1 L /\ Q2 L).
  Proof.
    intros M1 Hf Hg m m' Hi _ H. destruct (f m) as [| |m1] eqn:E; cbn [tbind] in H; try discriminate.
    destruct (Hf m m1 Hi I E) as [X1 [I1 P1]]. destruct (Hg m1 m' I1 I H) as [X2 [I2 P2]].
    split; [eapply extends_trans; eauto|]. split; auto. split; auto.
    destruct (extends_log _ _ X2) as [D ->]. apply M1. exact P1.
  Qed.

  Lemma triple_for_each {A} (f : A -> tstate -> tresult) (Q : A -> list tev -> Prop) l :
    (forall x, In x l -> mono (Q x)) -> (forall x, In x l -> triple ttrue (f x) (Q x)) ->
    triple ttrue (tfor_each f l) (fun L => forall x, In x l -> Q x L).
  Proof.
    induction l as [|x r IH]; intros HM Hf m m' Hi _ H; cbn [tfor_each] in H.
    - inversion H; subst. split; [apply extends_refl|]. split; auto. intros ? [].
    - destruct (f x m) as [| |m1] eqn:E; cbn [tbind] in H; try discriminate.
      destruct (Hf x (or_introl eq_refl) m m1 Hi I E) as [X1 [I1 P1]].
      destruct (IH (fun y Hy => HM y (or_intror Hy)) (fun y Hy => Hf y (or_intror Hy)) m1 m' I1 I H)
        as [X2 [I2 P2]].
      split; [eapply extends_trans; eauto|]. split; auto.
      intros y [<-|Hy]; [|apply P2; exact Hy].
      destruct (extends_log _ _ X2) as [D ->]. apply (HM x (or_introl eq_refl)). exact P1.
  Qed.

  Lemma triple_weaken f (Q Q' : list tev -> Prop) :
    (forall L, Q L -> Q' L) -> triple ttrue f Q -> triple ttrue f Q'.
  Proof. intros H Hf m m' Hi Hp E. destruct (Hf m m' Hi Hp E) as [X [I1 P]]. auto. Qed.

  (* ---- well-formed calls ---- *)
  Definition cwf (c : call) : Prop :=
    match c with
    | CFindConflict _ a b => ewf a /\ ewf b
    | CBetweenSubs _ p1 id1 ss1 p2 id2 ss2 =>
      FM (setid_code id1) (fst (fields_and_spreads p1 ss1 ([], []))) /\
      FM (setid_code id2) (fst (fields_and_spreads p2 ss2 ([], [])))
    | CFieldsFrag _ id fm _ => FM (setid_code id) fm
    | CFragFrag _ _ _ => True
    end.

  Definition post (c : call) (L : list tev) : Prop :=
    match c with
    | CFindConflict e a b => Cmp L e a b
    | CBetweenSubs e p1 id1 ss1 p2 id2 ss2 =>
      OblBetween L e (setid_code id1) (fst (fields_and_spreads p1 ss1 ([], []))) (snd (fields_and_spreads p1 ss1 ([], [])))
                 (setid_code id2) (fst (fields_and_spreads p2 ss2 ([], []))) (snd (fields_and_spreads p2 ss2 ([], [])))
    | CFieldsFrag e id fm F => covFF L e (setid_code id) fm F
    | CFragFrag e F G => covGG L e F G
    end.

  Lemma post_mono c : mono (post c).
  Proof.
    destruct c; cbn [post].
    - apply Cmp_mono. - apply OblBetween_mono. - apply covFF_mono. - apply covGG_mono.
  Qed.

  Definition rec_ok (rec : call -> tstate -> tresult) : Prop :=
    forall c, cwf c -> triple ttrue (rec c) (post c).

  Lemma between_triple rec excl fm1 fm2 :
    rec_ok rec -> (forall x, In x fm1 -> ewf x) -> (forall y, In y fm2 -> ewf y) ->
    triple ttrue (tbetween rec excl fm1 fm2) (fun L => crossCmp L excl fm1 fm2).
  Proof.
    intros Hrec H1 H2. unfold tbetween.
    eapply triple_weaken;
      [|apply (triple_for_each _
                 (fun grp L => forall f1, In f1 (snd grp) ->
                               forall f2, In f2 (group_get (fst grp) (groups fm2)) -> Cmp L excl f1 f2))].
    - intros L H u v Hu Hv Hr.
      destruct (groups_cover fm1 u Hu) as [l [Hg Hul]].
      apply (H (rn u, l) Hg u Hul). cbn [fst]. rewrite group_get_groups. apply filter_In. split; auto.
      unfold same_rname in Hr. fold (rn u) (rn v) in Hr. rewrite N.eqb_sym. exact Hr.
    - intros grp _ L D H f1 Hf1 f2 Hf2. apply Cmp_mono. auto.
    - intros [k l] Hg. cbn [fst snd].
      apply (triple_for_each _ (fun f1 L => forall f2, In f2 (group_get k (groups fm2)) -> Cmp L excl f1 f2)).
      + intros f1 _ L D H f2 Hf2. apply Cmp_mono. auto.
      + intros f1 Hf1.
        apply (triple_for_each _ (fun f2 L => Cmp L excl f1 f2)).
        * intros f2 _. apply Cmp_mono.
        * intros f2 Hf2. apply (Hrec (CFindConflict excl f1 f2)). cbn [cwf]. split.
          -- apply H1. apply in_groups_iff in Hg. subst l. apply filter_In in Hf1. tauto.
          -- apply H2. rewrite group_get_groups in Hf2. apply filter_In in Hf2. tauto.
  Qed.

  (* ---- one step of the algorithm ---- *)
  Lemma extends_cons m m1 m' ev :
    t_log m1 = ev :: t_log m -> extends m1 m' -> OblEv (t_log m') ev -> extends m m'.
  Proof.
    intros E [D [E1 O1]] Ho. exists (D ++ [ev]). split.
    - rewrite E1, E, <- app_assoc. reflexivity.
    - intros x Hx. apply in_app_or in Hx as [Hx|[<-|[]]]; auto.
  Qed.

  Lemma InvT_cmp m e a b : InvT m -> InvT (mkT (t_fp m) (t_ff m) (TvCmp e a b :: t_log m)).
  Proof.
    intros [H1 [H2 H3]]. repeat split; cbn [t_fp t_ff t_log].
    - intros id F r Hg. destruct (H1 id F r Hg) as [fm Hi]. exists fm. right. exact Hi.
    - intros F G r Hg. destruct (H2 F G r Hg) as [Hi|Hi]; [left|right]; right; exact Hi.
    - intros id fm F r [Hc|Hi]; [discriminate | eauto].
  Qed.

  Lemma InvT_fp m id fm F e : InvT m -> FM id fm ->
    InvT (mkT (ops_add (t_fp m) id (fkey F) e) (t_ff m) (TvFp id fm F e :: t_log m)).
  Proof.
    intros [H1 [H2 H3]] Hfm. repeat split; cbn [t_fp t_ff t_log].
    - intros id' F' r Hg.
      destruct (N.eq_dec id' id) as [->|Hn]; [destruct (N.eq_dec F' F) as [->|Hn]|].
      + rewrite ops_get_add_same in Hg. inversion Hg; subst. exists fm. left. reflexivity.
      + rewrite ops_get_add_other in Hg; [|intro Hc; inversion Hc; contradiction].
        destruct (H1 _ _ _ Hg) as [fm' Hi]. exists fm'. right. exact Hi.
      + rewrite ops_get_add_other in Hg; [|intro Hc; inversion Hc; contradiction].
        destruct (H1 _ _ _ Hg) as [fm' Hi]. exists fm'. right. exact Hi.
    - intros F' G r Hg. destruct (H2 F' G r Hg) as [Hi|Hi]; [left|right]; right; exact Hi.
    - intros id' fm' F' r [Hc|Hi]; [inversion Hc; subst; exact Hfm | eauto].
  Qed.

  Lemma InvT_gg m F G e : InvT m ->
    InvT (mkT (t_fp m) (ps_add (t_ff m) (fkey F) (fkey G) e) (TvGg F G e :: t_log m)).
  Proof.
    intros [H1 [H2 H3]]. repeat split; cbn [t_fp t_ff t_log].
    - intros id F' r Hg. destruct (H1 id F' r Hg) as [fm Hi]. exists fm. right. exact Hi.
    - intros F' G' r Hg.
      destruct (order_dec (fkey F') (fkey G') (fkey F) (fkey G)) as [Ho|Ho].
      + rewrite (ps_get_order _ _ _ _ _ Ho), ps_get_add_same in Hg. inversion Hg; subst.
        apply order_single in Ho as [[-> ->]|[-> ->]]; [left|right]; left; reflexivity.
      + rewrite ps_get_add_other in Hg by exact Ho.
        destruct (H2 F' G' r Hg) as [Hi|Hi]; [left|right]; right; exact Hi.
    - intros id fm F' r [Hc|Hi]; [discriminate | eauto].
  Qed.

  Lemma texec_step_ok rec : rec_ok rec -> rec_ok (texec_step s frags rec).
  Proof.
    intros Hrec c Hc m m' Hi _ H.
    destruct c as [pexcl a b|excl p1 id1 ss1 p2 id2 ss2|excl id fm frag|excl f1 f2];
      cbn [texec_step cwf post] in *.
    - (* find_conflict *)
      destruct Hc as [Wa Wb]. cbv zeta in H.
      set (m1 := mkT (t_fp m) (t_ff m) (TvCmp pexcl a b :: t_log m)) in *.
      pose proof (InvT_cmp m pexcl a b Hi) as Hi1. fold m1 in Hi1.
      fold (excl_of s pexcl a b) in H.
      destruct (negb (excl_of s pexcl a b) && _) eqn:E1; [discriminate|].
      destruct (match field_type s (e_parent a) (f_name (e_fld a)) with
                | Some x => match field_type s (e_parent b) (f_name (e_fld b)) with
                            | Some y => do_types_conflict s x y | None => false end
                | None => false end) eqn:E2; [discriminate|].
      assert (Hnd : nodirect pexcl a b) by (split; [exact E1 | exact E2]).
      destruct (has_sub (e_sub a) && has_sub (e_sub b)) eqn:E3.
      + apply andb_true_iff in E3 as [E3a E3b].
        destruct (Hrec _ (conj (Wa E3a) (Wb E3b) : cwf (CBetweenSubs (excl_of s pexcl a b) (sub_parent a)
                                              (IdField (f_id (e_fld a))) (e_sub a) (sub_parent b)
                                              (IdField (f_id (e_fld b))) (e_sub b))) m1 m' Hi1 I H)
          as [X [I' P]].
        cbn [post] in P.
        split; [|split; [exact I'|]].
        * eapply (extends_cons m m1 m'); [reflexivity | exact X |]. cbn [OblEv]. split; auto.
        * destruct (extends_log _ _ X) as [D ->]. apply in_or_app. right. left. reflexivity.
      + rename E3 into E3'. inversion H; subst m'. split; [|split; [exact Hi1|left; reflexivity]].
        eapply (extends_cons m m1 m1); [reflexivity | apply extends_refl |].
        cbn [OblEv]. split; auto. intro Hc. rewrite Hc in E3'. discriminate.
    - (* between two sub-selection sets *)
      destruct Hc as [W1 W2].
      destruct (fields_and_spreads p1 ss1 ([], [])) as [fm1 sp1].
      destruct (fields_and_spreads p2 ss2 ([], [])) as [fm2 sp2]. cbn [fst snd] in *.
      pose proof (triple_bind _ _ _ _ (crossCmp_mono excl fm1 fm2)
                    (between_triple rec excl fm1 fm2 Hrec (fun x Hx => FM_closed _ _ x W1 Hx)
                                    (fun y Hy => FM_closed _ _ y W2 Hy))
                    (triple_bind _ _ _ _
                       (fun L D (Hq : forall sp, In sp sp2 -> covFF L excl (setid_code id1) fm1 sp) sp Hs =>
                          covFF_mono _ _ _ _ L D (Hq sp Hs))
                       (triple_for_each (fun sp => rec (CFieldsFrag excl id1 fm1 sp))
                                        (fun sp L => covFF L excl (setid_code id1) fm1 sp) sp2
                                        (fun sp _ => covFF_mono _ _ _ _)
                                        (fun sp _ => Hrec (CFieldsFrag excl id1 fm1 sp) W1))
                       (triple_bind _ _ _ _
                          (fun L D (Hq : forall sp, In sp sp1 -> covFF L excl (setid_code id2) fm2 sp) sp Hs =>
                             covFF_mono _ _ _ _ L D (Hq sp Hs))
                          (triple_for_each (fun sp => rec (CFieldsFrag excl id2 fm2 sp))
                                           (fun sp L => covFF L excl (setid_code id2) fm2 sp) sp1
                                           (fun sp _ => covFF_mono _ _ _ _)
                                           (fun sp _ => Hrec (CFieldsFrag excl id2 fm2 sp) W2))
                          (triple_for_each
                             (fun s1 => tfor_each (fun s2 => rec (CFragFrag excl s1 s2)) sp2)
                             (fun s1 L => forall s2, In s2 sp2 -> covGG L excl s1 s2) sp1
                             (fun s1 _ L D Hq s2 Hs2 => covGG_mono _ _ _ L D (Hq s2 Hs2))
                             (fun s1 _ => triple_for_each (fun s2 => rec (CFragFrag excl s1 s2))
                                                          (fun s2 L => covGG L excl s1 s2) sp2
                                                          (fun s2 _ => covGG_mono _ _ _)
                                                          (fun s2 _ => Hrec (CFragFrag excl s1 s2) I))))))
        as T.
      destruct (T m m' Hi I H) as [X [I' [Q1 [Q2 [Q3 Q4]]]]].
      split; auto. split; auto. repeat split; auto.
    - (* fields vs fragment *)
      destruct (ops_has (t_fp m) (setid_code id) (fkey frag) excl) eqn:Eh.
      + inversion H; subst m'. split; [apply extends_refl|]. split; auto.
        unfold ops_has in Eh. destruct (ops_get (t_fp m) (setid_code id) (fkey frag)) as [r|] eqn:Eg; [|discriminate].
        destruct Hi as [H1 [H2 H3]]. destruct (H1 _ _ _ Eg) as [fm' Hin].
        rewrite (FM_fun _ _ _ Hc (H3 _ _ _ _ Hin)). exists r. split; [apply flag_covers; exact Eh | exact Hin].
      + cbv zeta in H.
        set (m1 := mkT (ops_add (t_fp m) (setid_code id) (fkey frag) excl) (t_ff m)
                       (TvFp (setid_code id) fm frag excl :: t_log m)) in *.
        pose proof (InvT_fp m (setid_code id) fm frag excl Hi Hc) as Hi1. fold m1 in Hi1.
        assert (Hpost : forall L D, L = D ++ t_log m1 -> covFF L excl (setid_code id) fm frag).
        { intros L D ->. exists excl. split; [right; reflexivity|]. apply in_or_app. right. left. reflexivity. }
        destruct (find_frag frags frag) as [fd|] eqn:Ef.
        2:{ inversion H; subst m'. split; [|split; [exact Hi1 | apply (Hpost _ []); reflexivity]].
            eapply (extends_cons m m1 m1); [reflexivity | apply extends_refl |].
            cbn [OblEv]. intros fd' Hf'. rewrite Ef in Hf'. discriminate. }
        destruct (setid_code id =? setid_code (IdFrag frag)) eqn:Es.
        { inversion H; subst m'. split; [|split; [exact Hi1 | apply (Hpost _ []); reflexivity]].
          eapply (extends_cons m m1 m1); [reflexivity | apply extends_refl |].
          cbn [OblEv]. intros fd' _ Hn. rewrite Es in Hn. discriminate. }
        pose proof (find_frag_some _ _ _ Ef) as [Hfd _].
        assert (EDf : Dfrag fd = fst (fields_and_spreads (fr_type fd) (fr_body fd) ([], []))) by reflexivity.
        assert (ESf : Sfrag fd = snd (fields_and_spreads (fr_type fd) (fr_body fd) ([], []))) by reflexivity.
        destruct (fields_and_spreads (fr_type fd) (fr_body fd) ([], [])) as [fm2 sp2]. cbn [fst snd] in *.
        pose proof (triple_bind _ _ _ _ (crossCmp_mono excl fm fm2)
                      (between_triple rec excl fm fm2 Hrec (fun x Hx => FM_closed _ _ x Hc Hx)
                                      (fun y Hy => frag_closed fd y Hfd ltac:(rewrite EDf; exact Hy)))
                      (triple_for_each (fun sp => rec (CFieldsFrag excl id fm sp))
                                       (fun sp L => covFF L excl (setid_code id) fm sp) sp2
                                       (fun sp _ => covFF_mono _ _ _ _)
                                       (fun sp _ => Hrec (CFieldsFrag excl id fm sp) Hc))) as T.
        destruct (T m1 m' Hi1 I H) as [X [I' [Q1 Q2]]].
        split; [|split; [exact I'|]].
        * eapply (extends_cons m m1 m'); [reflexivity | exact X |].
          cbn [OblEv]. intros fd' Hf' _. rewrite Ef in Hf'. inversion Hf'; subst fd'.
          rewrite EDf, ESf. split; auto.
        * destruct (extends_log _ _ X) as [D E]. apply (Hpost _ D). exact E.
    - (* fragment vs fragment *)
      destruct (f1 =? f2) eqn:E12.
      { inversion H; subst m'. apply N.eqb_eq in E12. split; [apply extends_refl|]. split; auto. left. exact E12. }
      destruct (ps_has (t_ff m) (fkey f1) (fkey f2) excl) eqn:Eh.
      + inversion H; subst m'. split; [apply extends_refl|]. split; auto.
        unfold ps_has in Eh. destruct (ps_get (t_ff m) (fkey f1) (fkey f2)) as [r|] eqn:Eg; [|discriminate].
        destruct Hi as [H1 [H2 H3]]. right. exists r. split; [apply flag_covers; exact Eh | exact (H2 _ _ _ Eg)].
      + cbv zeta in H.
        set (m1 := mkT (t_fp m) (ps_add (t_ff m) (fkey f1) (fkey f2) excl) (TvGg f1 f2 excl :: t_log m)) in *.
        pose proof (InvT_gg m f1 f2 excl Hi) as Hi1. fold m1 in Hi1.
        assert (Hpost : forall L D, L = D ++ t_log m1 -> covGG L excl f1 f2).
        { intros L D ->. right. exists excl. split; [right; reflexivity|]. left.
          apply in_or_app. right. left. reflexivity. }
        destruct (find_frag frags f1) as [d1|] eqn:Ef1.
        2:{ inversion H; subst m'. split; [|split; [exact Hi1 | apply (Hpost _ []); reflexivity]].
            eapply (extends_cons m m1 m1); [reflexivity | apply extends_refl |].
            cbn [OblEv]. intros d1' d2' Hf' _. rewrite Ef1 in Hf'. discriminate. }
        destruct (find_frag frags f2) as [d2|] eqn:Ef2.
        2:{ inversion H; subst m'. split; [|split; [exact Hi1 | apply (Hpost _ []); reflexivity]].
            eapply (extends_cons m m1 m1); [reflexivity | apply extends_refl |].
            cbn [OblEv]. intros d1' d2' _ Hf'. rewrite Ef2 in Hf'. discriminate. }
        pose proof (find_frag_some _ _ _ Ef1) as [Hd1 _]. pose proof (find_frag_some _ _ _ Ef2) as [Hd2 _].
        assert (ED1 : Dfrag d1 = fst (fields_and_spreads (fr_type d1) (fr_body d1) ([], []))) by reflexivity.
        assert (ES1 : Sfrag d1 = snd (fields_and_spreads (fr_type d1) (fr_body d1) ([], []))) by reflexivity.
        assert (ED2 : Dfrag d2 = fst (fields_and_spreads (fr_type d2) (fr_body d2) ([], []))) by reflexivity.
        assert (ES2 : Sfrag d2 = snd (fields_and_spreads (fr_type d2) (fr_body d2) ([], []))) by reflexivity.
        destruct (fields_and_spreads (fr_type d1) (fr_body d1) ([], [])) as [fm1 sp1].
        destruct (fields_and_spreads (fr_type d2) (fr_body d2) ([], [])) as [fm2 sp2]. cbn [fst snd] in *.
        pose proof (triple_bind _ _ _ _ (crossCmp_mono excl fm1 fm2)
                      (between_triple rec excl fm1 fm2 Hrec
                                      (fun x Hx => frag_closed d1 x Hd1 ltac:(rewrite ED1; exact Hx))
                                      (fun y Hy => frag_closed d2 y Hd2 ltac:(rewrite ED2; exact Hy)))
                      (triple_bind _ _ _ _
                         (fun L D (Hq : forall sp, In sp sp2 -> covGG L excl f1 sp) sp Hs =>
                            covGG_mono _ _ _ L D (Hq sp Hs))
                         (triple_for_each (fun sp => rec (CFragFrag excl f1 sp))
                                          (fun sp L => covGG L excl f1 sp) sp2
                                          (fun sp _ => covGG_mono _ _ _)
                                          (fun sp _ => Hrec (CFragFrag excl f1 sp) I))
                         (triple_for_each (fun sp => rec (CFragFrag excl sp f2))
                                          (fun sp L => covGG L excl sp f2) sp1
                                          (fun sp _ => covGG_mono _ _ _)
                                          (fun sp _ => Hrec (CFragFrag excl sp f2) I)))) as T.
        destruct (T m1 m' Hi1 I H) as [X [I' [Q1 [Q2 Q3]]]].
        split; [|split; [exact I'|]].
        * eapply (extends_cons m m1 m'); [reflexivity | exact X |].
          cbn [OblEv]. intros d1' d2' Hf1' Hf2'. rewrite Ef1 in Hf1'. rewrite Ef2 in Hf2'.
          inversion Hf1'; inversion Hf2'; subst d1' d2'.
          rewrite ED1, ES1, ED2, ES2. repeat split; auto.
        * destruct (extends_log _ _ X) as [D E]. apply (Hpost _ D). exact E.
  Qed.

  Lemma texec_ok fuel : rec_ok (texec s frags fuel).
  Proof.
    induction fuel as [|f IH]; cbn [texec].
    - intros c _ m m' _ _ H. discriminate.
    - apply texec_step_ok. exact IH.
  Qed.

  (* ---- the top level ---- *)
  (* what visiting one selection set establishes (steps A, B, C) *)
  Definition WithinPost (L : list tev) (id : N) (fm : list entry) (sps : list N) : Prop :=
    (forall x y, before x y fm -> same_rname x y = true -> Cmp L false x y) /\
    (forall sp, In sp sps -> covFF L false id fm sp) /\
    (forall s1 s2, before s1 s2 sps -> covGG L false s1 s2).

  Lemma WithinPost_mono id fm sps : mono (fun L => WithinPost L id fm sps).
  Proof.
    intros L D [H1 [H2 H3]]. repeat split.
    - intros x y Hb Hr. apply Cmp_mono. auto.
    - intros sp Hs. apply covFF_mono. auto.
    - intros s1 s2 Hb. apply covGG_mono. auto.
  Qed.

  Lemma twithin_group_triple fuel : forall l, (forall x, In x l -> ewf x) ->
    triple ttrue (twithin_group s frags fuel l) (fun L => forall x y, before x y l -> Cmp L false x y).
  Proof.
    induction l as [|x r IH]; intro Hl; cbn [twithin_group].
    - intros m m' Hi _ H. inversion H; subst. split; [apply extends_refl|]. split; auto.
      intros x y Hb. inversion Hb.
    - eapply triple_weaken;
        [|apply (triple_bind _ _ (fun L => forall y, In y r -> Cmp L false x y)
                             (fun L => forall a b, before a b r -> Cmp L false a b))].
      + intros L [H1 H2] a b Hb. apply before_cons_inv in Hb as [[-> Hy]|Hb]; auto.
      + intros L D H y Hy. apply Cmp_mono. auto.
      + apply (triple_for_each _ (fun y L => Cmp L false x y)).
        * intros y _. apply Cmp_mono.
        * intros y Hy. apply (texec_ok fuel (CFindConflict false x y)). cbn [cwf].
          split; apply Hl; [left; reflexivity | right; exact Hy].
      + apply IH. intros y Hy. apply Hl. right. exact Hy.
  Qed.

  Lemma tspreads_bc_triple fuel id fm : FM (setid_code id) fm -> forall sps,
    triple ttrue (tspreads_bc s frags fuel id fm sps)
           (fun L => (forall sp, In sp sps -> covFF L false (setid_code id) fm sp) /\
                     (forall s1 s2, before s1 s2 sps -> covGG L false s1 s2)).
  Proof.
    intros Hfm. induction sps as [|sp r IH]; cbn [tspreads_bc].
    - intros m m' Hi _ H. inversion H; subst. split; [apply extends_refl|]. split; auto.
      split; [intros ? [] | intros ? ? Hb; inversion Hb].
    - eapply triple_weaken;
        [|apply (triple_bind _ _ (fun L => covFF L false (setid_code id) fm sp)
                   (fun L => (forall o, In o r -> covGG L false sp o) /\
                             ((forall sp', In sp' r -> covFF L false (setid_code id) fm sp') /\
                              (forall s1 s2, before s1 s2 r -> covGG L false s1 s2))))].
      + intros L [H1 [H2 [H3 H4]]]. split.
        * intros sp' [<-|Hs]; auto.
        * intros s1 s2 Hb. apply before_cons_inv in Hb as [[-> Hy]|Hb]; auto.
      + apply covFF_mono.
      + apply (texec_ok fuel (CFieldsFrag false id fm sp)). exact Hfm.
      + apply triple_bind.
        * intros L D H o Ho. apply covGG_mono. auto.
        * apply (triple_for_each _ (fun o L => covGG L false sp o)).
          -- intros o _. apply covGG_mono.
          -- intros o _. apply (texec_ok fuel (CFragFrag false sp o)). exact I.
        * exact IH.
  Qed.

  Lemma twithin_set_triple fuel p id ss :
    FM (setid_code id) (fst (fields_and_spreads p ss ([], []))) ->
    triple ttrue (twithin_set s frags fuel p id ss)
           (fun L => WithinPost L (setid_code id) (fst (fields_and_spreads p ss ([], [])))
                                (snd (fields_and_spreads p ss ([], [])))).
  Proof.
    intro Hfm. unfold twithin_set.
    destruct (fields_and_spreads p ss ([], [])) as [fm sps]. cbn [fst snd] in *.
    eapply triple_weaken;
      [|apply (triple_bind _ _ (fun L => forall grp, In grp (groups fm) ->
                                                     forall x y, before x y (snd grp) -> Cmp L false x y)
                           (fun L => (forall sp, In sp sps -> covFF L false (setid_code id) fm sp) /\
                                     (forall s1 s2, before s1 s2 sps -> covGG L false s1 s2)))].
    - intros L [H1 [H2 H3]]. split; [|split; assumption].
      intros x y Hb Hr. destruct (before_in _ _ _ Hb) as [Hx Hy].
      destruct (groups_cover fm x Hx) as [l [Hg Hxl]].
      apply (H1 (rn x, l) Hg). cbn [snd]. pose proof (in_groups_iff _ _ _ Hg) as ->.
      apply before_filter; auto; [apply N.eqb_refl|].
      unfold same_rname in Hr. fold (rn x) (rn y) in Hr. rewrite N.eqb_sym. exact Hr.
    - intros L D H grp Hg x y Hb. apply Cmp_mono. eauto.
    - apply (triple_for_each _ (fun grp L => forall x y, before x y (snd grp) -> Cmp L false x y)).
      + intros grp _ L D H x y Hb. apply Cmp_mono. auto.
      + intros [k l] Hg. cbn [snd]. apply twithin_group_triple.
        intros x Hx. apply (FM_closed _ _ x Hfm). apply in_groups_iff in Hg. subst l.
        apply filter_In in Hx. tauto.
    - apply tspreads_bc_triple. exact Hfm.
  Qed.

  (* the selection sets below (p, ss) that the walk visits, with their identities *)
  Fixpoint opt_sets (p : N) (ss : sels) : list (N * setid * sels) :=
    match ss with
    | SelNil => []
    | SelField f sub rest =>
      (match sub with
       | SelNil => []
       | _ => let q := match field_type s p (f_name f) with Some t => named t | None => 0 end in
              (q, IdField (f_id f), sub) :: opt_sets q sub
       end) ++ opt_sets p rest
    | SelInline iid tc sub rest =>
      let q := match tc with Some t => t | None => p end in
      ((q, IdInline iid, sub) :: opt_sets q sub) ++ opt_sets p rest
    | SelSpread _ rest => opt_sets p rest
    end.

  Definition set_wf (x : N * setid * sels) : Prop :=
    FM (setid_code (snd (fst x))) (fst (fields_and_spreads (fst (fst x)) (snd x) ([], []))).
  Definition set_post (L : list tev) (x : N * setid * sels) : Prop :=
    WithinPost L (setid_code (snd (fst x))) (fst (fields_and_spreads (fst (fst x)) (snd x) ([], [])))
               (snd (fields_and_spreads (fst (fst x)) (snd x) ([], []))).

  Lemma set_post_mono x : mono (fun L => set_post L x).
  Proof. apply WithinPost_mono. Qed.

  Lemma twalk_opt_triple fuel : forall ss p, (forall x, In x (opt_sets p ss) -> set_wf x) ->
    triple ttrue (twalk_opt s frags fuel p ss) (fun L => forall x, In x (opt_sets p ss) -> set_post L x).
  Proof.
    induction ss as [|f sub IHsub rest IHrest|iid tc sub IHsub rest IHrest|n rest IHrest];
      intros p Hwf; cbn [twalk_opt opt_sets] in *.
    - intros m m' Hi _ H. inversion H; subst. split; [apply extends_refl|]. split; auto. intros ? [].
    - set (q := match field_type s p (f_name f) with Some t => named t | None => 0 end) in *.
      eapply triple_weaken;
        [|apply (triple_bind _ _
                   (fun L => forall x, In x (match sub with
                                             | SelNil => []
                                             | _ => (q, IdField (f_id f), sub) :: opt_sets q sub
                                             end) -> set_post L x)
                   (fun L => forall x, In x (opt_sets p rest) -> set_post L x))].
      + intros L [H1 H2] x Hx. apply in_app_or in Hx as [Hx|Hx]; auto.
      + intros L D H x Hx. apply set_post_mono. auto.
      + assert (Hj : (forall x, In x ((q, IdField (f_id f), sub) :: opt_sets q sub) -> set_wf x) ->
                     triple ttrue (fun m => tbind (twithin_set s frags fuel q (IdField (f_id f)) sub m)
                                                  (twalk_opt s frags fuel q sub))
                            (fun L => forall x, In x ((q, IdField (f_id f), sub) :: opt_sets q sub) -> set_post L x)).
        { intro Hw. eapply triple_weaken;
            [|apply (triple_bind _ _ (fun L => set_post L (q, IdField (f_id f), sub))
                                 (fun L => forall x, In x (opt_sets q sub) -> set_post L x))].
          - intros L [H1 H2] x [<-|Hx]; auto.
          - apply set_post_mono.
          - apply twithin_set_triple. apply (Hw (q, IdField (f_id f), sub)). left. reflexivity.
          - apply IHsub. intros x Hx. apply Hw. right. exact Hx. }
        destruct sub.
        * intros m m' Hi _ H. inversion H; subst. split; [apply extends_refl|]. split; auto. intros ? [].
        * apply Hj. intros x Hx. apply Hwf. apply in_or_app. left. exact Hx.
        * apply Hj. intros x Hx. apply Hwf. apply in_or_app. left. exact Hx.
        * apply Hj. intros x Hx. apply Hwf. apply in_or_app. left. exact Hx.
      + apply IHrest. intros x Hx. apply Hwf. apply in_or_app. right. exact Hx.
    - set (q := match tc with Some t => t | None => p end) in *.
      eapply triple_weaken;
        [|apply (triple_bind _ _
                   (fun L => set_post L (q, IdInline iid, sub) /\ forall x, In x (opt_sets q sub) -> set_post L x)
                   (fun L => forall x, In x (opt_sets p rest) -> set_post L x))].
      + intros L [[H0 H1] H2] x Hx. apply in_app_or in Hx as [[<-|Hx]|Hx]; auto.
      + intros L D [H0 H1]. split; [apply set_post_mono; exact H0|]. intros x Hx. apply set_post_mono. auto.
      + apply triple_bind.
        * apply set_post_mono.
        * apply twithin_set_triple. apply (Hwf (q, IdInline iid, sub)). apply in_or_app. left. left. reflexivity.
        * apply IHsub. intros x Hx. apply Hwf. apply in_or_app. left. right. exact Hx.
      + apply IHrest. intros x Hx. apply Hwf. apply in_or_app. right. exact Hx.
    - apply IHrest. exact Hwf.
  Qed.

  Lemma tvisit_set_triple fuel p id ss :
    (forall x, In x ((p, id, ss) :: opt_sets p ss) -> set_wf x) ->
    triple ttrue (tvisit_set s frags fuel p id ss)
           (fun L => forall x, In x ((p, id, ss) :: opt_sets p ss) -> set_post L x).
  Proof.
    intro Hwf. unfold tvisit_set.
    eapply triple_weaken;
      [|apply (triple_bind _ _ (fun L => set_post L (p, id, ss))
                           (fun L => forall x, In x (opt_sets p ss) -> set_post L x))].
    - intros L [H1 H2] x [<-|Hx]; auto.
    - apply set_post_mono.
    - apply twithin_set_triple. apply (Hwf (p, id, ss)). left. reflexivity.
    - apply twalk_opt_triple. intros x Hx. apply Hwf. right. exact Hx.
  Qed.
End Closure.

(* ---------------------------------------------------------------- the whole run *)
Section Run.
  Variable s : schema.
  Variable d : document.
  Variable FM : N -> list entry -> Prop.
  Hypothesis FM_fun : forall id fm fm', FM id fm -> FM id fm' -> fm = fm'.
  Hypothesis FM_closed : forall id fm x, FM id fm -> In x fm -> ewf s FM x.
  Hypothesis frag_closed : forall fd x, In fd (d_frags d) -> In x (Dfrag fd) -> ewf s FM x.

  (* every selection set the run visits, with its identity *)
  Definition order_sets (oi : bool * nat) : list (N * setid * sels) :=
    if fst oi then
      match nth_error (d_ops d) (snd oi) with
      | Some o => (fst o, IdOp (N.of_nat (snd oi)), snd o) :: opt_sets s (fst o) (snd o)
      | None => []
      end
    else
      match nth_error (d_frags d) (snd oi) with
      | Some fd => (fr_type fd, IdFrag (fr_name fd), fr_body fd) :: opt_sets s (fr_type fd) (fr_body fd)
      | None => []
      end.

  Definition run_sets (ord : list (bool * nat)) : list (N * setid * sels) := flat_map order_sets ord.

  Theorem topt_run_closed ord fuel m :
    (forall x, In x (run_sets ord) -> set_wf FM x) ->
    topt_run s d ord fuel = TOk m ->
    (forall ev, In ev (t_log m) -> OblEv s (d_frags d) (t_log m) ev) /\
    (forall x, In x (run_sets ord) -> set_post (t_log m) x).
  Proof.
    intros Hwf H. unfold topt_run in H.
    assert (Hinit : InvT FM (mkT [] [] [])).
    { repeat split; cbn.
      - intros id F r Hg. discriminate.
      - intros F G r Hg. unfold ps_get in Hg. destruct (PairSet.order (fkey F) (fkey G)). discriminate.
      - intros id fm F r []. }
    pose proof (triple_for_each s (d_frags d) FM
                  (fun (oi : bool * nat) (m : tstate) =>
                     if fst oi then
                       match nth_error (d_ops d) (snd oi) with
                       | Some o => tvisit_set s (d_frags d) fuel (fst o) (IdOp (N.of_nat (snd oi))) (snd o) m
                       | None => TOk m
                       end
                     else
                       match nth_error (d_frags d) (snd oi) with
                       | Some fd => tvisit_set s (d_frags d) fuel (fr_type fd) (IdFrag (fr_name fd)) (fr_body fd) m
                       | None => TOk m
                       end)
                  (fun oi L => forall x, In x (order_sets oi) -> set_post L x) ord) as T.
    destruct (T (fun oi _ L D Hq x Hx => set_post_mono _ L D (Hq x Hx))) with (m := mkT [] [] []) (m' := m)
      as [[D [E O]] [_ P]]; auto.
    - intros [isop i] Hoi. unfold order_sets. cbn [fst snd].
      assert (Hw : forall x, In x (order_sets (isop, i)) -> set_wf FM x).
      { intros x Hx. apply Hwf. unfold run_sets. apply in_flat_map. exists (isop, i). auto. }
      unfold order_sets in Hw. cbn [fst snd] in Hw.
      destruct isop.
      + destruct (nth_error (d_ops d) i) as [o|].
        * apply tvisit_set_triple; auto.
        * intros m0 m' Hi _ H0. inversion H0; subst. split; [apply extends_refl|]. split; auto. intros ? [].
      + destruct (nth_error (d_frags d) i) as [fd|].
        * apply tvisit_set_triple; auto.
        * intros m0 m' Hi _ H0. inversion H0; subst. split; [apply extends_refl|]. split; auto. intros ? [].
    - exact I.
    - cbn [t_log] in E. rewrite app_nil_r in E. split.
      + intros ev Hev. apply O. rewrite <- E. exact Hev.
      + intros x Hx. unfold run_sets in Hx. apply in_flat_map in Hx as [oi [Hoi Hx]]. eapply P; eauto.
  Qed.
End Run.
