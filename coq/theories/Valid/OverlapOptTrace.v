(* The memoised algorithm with a trace of everything it compares (for the proof that the memo
   never hides a conflict).  [exec_t] is [OverlapOpt.exec] with the same memo tables and an
   additional log of: every evaluated field pair, every started fields-vs-fragment comparison
   (with its field map) and every started fragment-vs-fragment comparison.  A simulation lemma
   shows both compute the same verdict. *)
From GV Require Import Base.Prelude Valid.Overlap Valid.OverlapProps Valid.PairSet Valid.PairSetProps
  Valid.OverlapOpt.

Inductive tev :=
| TvCmp (excl : bool) (a b : entry)                       (* find_conflict evaluated on (a, b) *)
| TvFp (id : N) (fm : list entry) (frag : N) (flag : bool) (* fields of set [id] vs fragment: started *)
| TvGg (f1 f2 : N) (flag : bool).                          (* fragment vs fragment: started *)

Record tstate := mkT { t_fp : opairset; t_ff : pairset; t_log : list tev }.

Inductive tresult := TFuel | TConflict | TOk (m : tstate).

Definition tbind (r : tresult) (f : tstate -> tresult) : tresult :=
  match r with TOk m => f m | _ => r end.

Fixpoint tfor_each {A} (f : A -> tstate -> tresult) (l : list A) (m : tstate) : tresult :=
  match l with
  | [] => TOk m
  | x :: r => tbind (f x m) (tfor_each f r)
  end.

Section ExecT.
  Variable s : schema.
  Variable frags : list fragdef.

  Definition tbetween (rec : call -> tstate -> tresult) (excl : bool) (fm1 fm2 : list entry)
    : tstate -> tresult :=
    let g2 := groups fm2 in
    tfor_each (fun grp =>
                 let fields2 := group_get (fst grp) g2 in
                 tfor_each (fun f1 => tfor_each (fun f2 => rec (CFindConflict excl f1 f2)) fields2) (snd grp))
              (groups fm1).

  Definition texec_step (rec : call -> tstate -> tresult) (c : call) (m0 : tstate) : tresult :=
    match c with
    | CFindConflict pexcl a b =>
      let m := mkT (t_fp m0) (t_ff m0) (TvCmp pexcl a b :: t_log m0) in
      let excl := pexcl || (negb (e_parent a =? e_parent b)
                            && is_object s (e_parent a) && is_object s (e_parent b)) in
      if negb excl && (negb (f_name (e_fld a) =? f_name (e_fld b))
                       || negb (args_same (f_args (e_fld a)) (f_args (e_fld b))))
      then TConflict
      else
        let t1 := field_type s (e_parent a) (f_name (e_fld a)) in
        let t2 := field_type s (e_parent b) (f_name (e_fld b)) in
        if match t1, t2 with Some x, Some y => do_types_conflict s x y | _, _ => false end
        then TConflict
        else if has_sub (e_sub a) && has_sub (e_sub b) then
          rec (CBetweenSubs excl
                 (match t1 with Some x => named x | None => 0 end) (IdField (f_id (e_fld a))) (e_sub a)
                 (match t2 with Some y => named y | None => 0 end) (IdField (f_id (e_fld b))) (e_sub b)) m
        else TOk m
    | CBetweenSubs excl p1 id1 ss1 p2 id2 ss2 =>
      let m := m0 in
      let '(fm1, sp1) := fields_and_spreads p1 ss1 ([], []) in
      let '(fm2, sp2) := fields_and_spreads p2 ss2 ([], []) in
      tbind (tbetween rec excl fm1 fm2 m) (fun m =>
      tbind (tfor_each (fun sp => rec (CFieldsFrag excl id1 fm1 sp)) sp2 m) (fun m =>
      tbind (tfor_each (fun sp => rec (CFieldsFrag excl id2 fm2 sp)) sp1 m) (fun m =>
      tfor_each (fun s1 => tfor_each (fun s2 => rec (CFragFrag excl s1 s2)) sp2) sp1 m)))
    | CFieldsFrag excl id fm frag =>
      let m := m0 in
      if ops_has (t_fp m) (setid_code id) (fkey frag) excl then TOk m
      else
        let m1 := mkT (ops_add (t_fp m) (setid_code id) (fkey frag) excl) (t_ff m)
                      (TvFp (setid_code id) fm frag excl :: t_log m) in
        match find_frag frags frag with
        | None => TOk m1
        | Some fd =>
          if setid_code id =? setid_code (IdFrag frag) then TOk m1
          else
            let '(fm2, sp2) := fields_and_spreads (fr_type fd) (fr_body fd) ([], []) in
            tbind (tbetween rec excl fm fm2 m1) (fun m =>
            tfor_each (fun sp => rec (CFieldsFrag excl id fm sp)) sp2 m)
        end
    | CFragFrag excl f1 f2 =>
      let m := m0 in
      if f1 =? f2 then TOk m
      else if ps_has (t_ff m) (fkey f1) (fkey f2) excl then TOk m
      else
        let m1 := mkT (t_fp m) (ps_add (t_ff m) (fkey f1) (fkey f2) excl) (TvGg f1 f2 excl :: t_log m) in
        match find_frag frags f1, find_frag frags f2 with
        | Some d1, Some d2 =>
          let '(fm1, sp1) := fields_and_spreads (fr_type d1) (fr_body d1) ([], []) in
          let '(fm2, sp2) := fields_and_spreads (fr_type d2) (fr_body d2) ([], []) in
          tbind (tbetween rec excl fm1 fm2 m1) (fun m =>
          tbind (tfor_each (fun sp => rec (CFragFrag excl f1 sp)) sp2 m) (fun m =>
          tfor_each (fun sp => rec (CFragFrag excl sp f2)) sp1 m))
        | _, _ => TOk m1
        end
    end.

  Fixpoint texec (fuel : nat) : call -> tstate -> tresult :=
    match fuel with
    | O => fun _ _ => TFuel
    | S f => texec_step (texec f)
    end.

  Fixpoint twithin_group (fuel : nat) (l : list entry) : tstate -> tresult :=
    match l with
    | [] => TOk
    | x :: r => fun m => tbind (tfor_each (fun y => texec fuel (CFindConflict false x y)) r m)
                               (twithin_group fuel r)
    end.

  Fixpoint tspreads_bc (fuel : nat) (id : setid) (fm : list entry) (sps : list N) : tstate -> tresult :=
    match sps with
    | [] => TOk
    | sp :: r => fun m =>
      tbind (texec fuel (CFieldsFrag false id fm sp) m) (fun m =>
      tbind (tfor_each (fun other => texec fuel (CFragFrag false sp other)) r m)
            (tspreads_bc fuel id fm r))
    end.

  Definition twithin_set (fuel : nat) (parent : N) (id : setid) (ss : sels) (m : tstate) : tresult :=
    let '(fm, sps) := fields_and_spreads parent ss ([], []) in
    tbind (tfor_each (fun grp => twithin_group fuel (snd grp)) (groups fm) m)
          (tspreads_bc fuel id fm sps).

  Fixpoint twalk_opt (fuel : nat) (parent : N) (ss : sels) (m : tstate) : tresult :=
    match ss with
    | SelNil => TOk m
    | SelField f sub rest =>
      tbind (match sub with
             | SelNil => TOk m
             | _ => let p := match field_type s parent (f_name f) with Some t => named t | None => 0 end in
                    tbind (twithin_set fuel p (IdField (f_id f)) sub m) (twalk_opt fuel p sub)
             end)
            (twalk_opt fuel parent rest)
    | SelInline iid tc sub rest =>
      let p := match tc with Some t => t | None => parent end in
      tbind (tbind (twithin_set fuel p (IdInline iid) sub m) (twalk_opt fuel p sub))
            (twalk_opt fuel parent rest)
    | SelSpread _ rest => twalk_opt fuel parent rest m
    end.

  Definition tvisit_set (fuel : nat) (parent : N) (id : setid) (ss : sels) (m : tstate) : tresult :=
    tbind (twithin_set fuel parent id ss m) (twalk_opt fuel parent ss).
End ExecT.

Definition topt_run (s : schema) (d : document) (order : list (bool * nat)) (fuel : nat) : tresult :=
  tfor_each (fun (oi : bool * nat) (m : tstate) =>
               if fst oi then
                 match nth_error (d_ops d) (snd oi) with
                 | Some o => tvisit_set s (d_frags d) fuel (fst o) (IdOp (N.of_nat (snd oi))) (snd o) m
                 | None => TOk m
                 end
               else
                 match nth_error (d_frags d) (snd oi) with
                 | Some fd => tvisit_set s (d_frags d) fuel (fr_type fd) (IdFrag (fr_name fd)) (fr_body fd) m
                 | None => TOk m
                 end)
            order (mkT [] [] []).

(* ---------------------------------------------------------------- simulation *)
Definition msim (mt : tstate) (m : memo) : Prop := t_fp mt = m_fp m /\ t_ff mt = m_ff m.

Definition rsim (rt : tresult) (r : result) : Prop :=
  match rt, r with
  | TFuel, RFuel => True
  | TConflict, RConflict _ => True
  | TOk mt, ROk m => msim mt m
  | _, _ => False
  end.

Lemma bind_sim rt r ft f :
  rsim rt r -> (forall mt m, msim mt m -> rsim (ft mt) (f m)) -> rsim (tbind rt ft) (bind r f).
Proof. destruct rt, r; cbn; auto; contradiction. Qed.

Lemma for_each_sim {A} (ft : A -> tstate -> tresult) (f : A -> memo -> result) l :
  (forall x mt m, In x l -> msim mt m -> rsim (ft x mt) (f x m)) ->
  forall mt m, msim mt m -> rsim (tfor_each ft l mt) (for_each f l m).
Proof.
  induction l as [|x r IH]; intros H mt m Hm; cbn [tfor_each for_each].
  - exact Hm.
  - apply bind_sim; [apply H; [left; reflexivity | exact Hm]|].
    intros mt' m' Hm'. apply IH; auto. intros y mt2 m2 Hy. apply H. right. exact Hy.
Qed.

Section Sim.
  Variable s : schema.
  Variable frags : list fragdef.

  Definition rec_sim (rt : call -> tstate -> tresult) (r : call -> memo -> result) : Prop :=
    forall c mt m, msim mt m -> rsim (rt c mt) (r c m).

  Lemma between_sim rt r excl fm1 fm2 : rec_sim rt r ->
    forall mt m, msim mt m -> rsim (tbetween rt excl fm1 fm2 mt) (between r excl fm1 fm2 m).
  Proof.
    intros Hr. unfold tbetween, between. apply for_each_sim. intros grp mt m _ Hm.
    revert mt m Hm. apply for_each_sim. intros f1 mt m _ Hm.
    revert mt m Hm. apply for_each_sim. intros f2 mt m _ Hm. apply Hr. exact Hm.
  Qed.

  Lemma exec_step_sim rt r : rec_sim rt r -> rec_sim (texec_step s frags rt) (exec_step s frags r).
  Proof.
    intros Hr c mt m [Hfp Hff].
    destruct c as [pexcl a b|excl p1 id1 ss1 p2 id2 ss2|excl id fm frag|excl f1 f2];
      cbn [texec_step exec_step].
    - cbv zeta.
      match goal with |- rsim (if ?c then _ else _) _ => destruct c end; [exact I|].
      match goal with |- rsim (if ?c then _ else _) _ => destruct c end; [exact I|].
      match goal with |- rsim (if ?c then _ else _) _ => destruct c end.
      + apply Hr. split; assumption.
      + split; assumption.
    - cbv zeta.
      destruct (fields_and_spreads p1 ss1 ([], [])) as [fm1 sp1].
      destruct (fields_and_spreads p2 ss2 ([], [])) as [fm2 sp2].
      apply bind_sim; [apply between_sim; [exact Hr | split; assumption]|]. intros mt1 m1 H1.
      apply bind_sim; [revert mt1 m1 H1; apply for_each_sim; intros; apply Hr; assumption|]. intros mt2 m2 H2.
      apply bind_sim; [revert mt2 m2 H2; apply for_each_sim; intros; apply Hr; assumption|]. intros mt3 m3 H3.
      revert mt3 m3 H3. apply for_each_sim. intros s1 mt4 m4 _ H4.
      revert mt4 m4 H4. apply for_each_sim. intros; apply Hr; assumption.
    - cbv zeta. rewrite Hfp.
      destruct (ops_has (m_fp m) (setid_code id) (fkey frag) excl); [split; assumption|].
      assert (Hm1 : msim (mkT (ops_add (m_fp m) (setid_code id) (fkey frag) excl) (t_ff mt)
                              (TvFp (setid_code id) fm frag excl :: t_log mt))
                         (mkMemo (ops_add (m_fp m) (setid_code id) (fkey frag) excl) (m_ff m)
                                 (EvStart TFp (setid_code id) frag excl :: m_log m)))
        by (split; cbn; auto).
      destruct (find_frag frags frag) as [fd|]; [|exact Hm1].
      destruct (setid_code id =? setid_code (IdFrag frag)); [exact Hm1|].
      destruct (fields_and_spreads (fr_type fd) (fr_body fd) ([], [])) as [fm2 sp2].
      apply bind_sim; [apply between_sim; [exact Hr | exact Hm1]|]. intros mt1 m1 H1.
      revert mt1 m1 H1. apply for_each_sim. intros; apply Hr; assumption.
    - cbv zeta. destruct (f1 =? f2); [split; assumption|]. rewrite Hff.
      destruct (ps_has (m_ff m) (fkey f1) (fkey f2) excl); [split; assumption|].
      assert (Hm1 : msim (mkT (t_fp mt) (ps_add (m_ff m) (fkey f1) (fkey f2) excl) (TvGg f1 f2 excl :: t_log mt))
                         (mkMemo (m_fp m) (ps_add (m_ff m) (fkey f1) (fkey f2) excl)
                                 (EvStart TFf f1 f2 excl :: m_log m)))
        by (split; cbn; auto).
      destruct (find_frag frags f1) as [d1|]; [|exact Hm1].
      destruct (find_frag frags f2) as [d2|]; [|exact Hm1].
      destruct (fields_and_spreads (fr_type d1) (fr_body d1) ([], [])) as [fm1 sp1].
      destruct (fields_and_spreads (fr_type d2) (fr_body d2) ([], [])) as [fm2 sp2].
      apply bind_sim; [apply between_sim; [exact Hr | exact Hm1]|]. intros mt1 m1 H1.
      apply bind_sim; [revert mt1 m1 H1; apply for_each_sim; intros; apply Hr; assumption|]. intros mt2 m2 H2.
      revert mt2 m2 H2. apply for_each_sim. intros; apply Hr; assumption.
  Qed.

  Lemma exec_sim fuel : rec_sim (texec s frags fuel) (exec s frags fuel).
  Proof.
    induction fuel as [|f IH]; cbn [texec exec].
    - intros c mt m _. exact I.
    - apply exec_step_sim. exact IH.
  Qed.

  Lemma within_group_sim fuel l : forall mt m, msim mt m ->
    rsim (twithin_group s frags fuel l mt) (within_group s frags fuel l m).
  Proof.
    induction l as [|x r IH]; intros mt m Hm; cbn [twithin_group within_group].
    - exact Hm.
    - apply bind_sim; [|exact IH]. revert mt m Hm. apply for_each_sim. intros; apply exec_sim; assumption.
  Qed.

  Lemma spreads_bc_sim fuel id fm sps : forall mt m, msim mt m ->
    rsim (tspreads_bc s frags fuel id fm sps mt) (spreads_bc s frags fuel id fm sps m).
  Proof.
    induction sps as [|sp r IH]; intros mt m Hm; cbn [tspreads_bc spreads_bc].
    - exact Hm.
    - apply bind_sim; [apply exec_sim; exact Hm|]. intros mt1 m1 H1.
      apply bind_sim; [|exact IH]. revert mt1 m1 H1. apply for_each_sim. intros; apply exec_sim; assumption.
  Qed.

  Lemma within_set_sim fuel p id ss mt m : msim mt m ->
    rsim (twithin_set s frags fuel p id ss mt) (within_set s frags fuel p id ss m).
  Proof.
    intro Hm. unfold twithin_set, within_set.
    destruct (fields_and_spreads p ss ([], [])) as [fm sps].
    apply bind_sim; [|apply spreads_bc_sim].
    revert mt m Hm. apply for_each_sim. intros; apply within_group_sim; assumption.
  Qed.

  Lemma walk_opt_sim fuel : forall ss p mt m, msim mt m ->
    rsim (twalk_opt s frags fuel p ss mt) (walk_opt s frags fuel p ss m).
  Proof.
    induction ss as [|f sub IHsub rest IHrest|iid tc sub IHsub rest IHrest|n rest IHrest];
      intros p mt m Hm; cbn [twalk_opt walk_opt].
    - exact Hm.
    - apply bind_sim; [|intros; apply IHrest; assumption].
      assert (Hj : forall q, rsim (tbind (twithin_set s frags fuel q (IdField (f_id f)) sub mt)
                                         (twalk_opt s frags fuel q sub))
                                  (bind (within_set s frags fuel q (IdField (f_id f)) sub m)
                                        (walk_opt s frags fuel q sub))).
      { intro q. apply bind_sim; [apply within_set_sim; exact Hm | intros; apply IHsub; assumption]. }
      destruct sub; [exact Hm| | |]; apply Hj.
    - apply bind_sim; [|intros; apply IHrest; assumption].
      apply bind_sim; [apply within_set_sim; exact Hm | intros; apply IHsub; assumption].
    - apply IHrest. exact Hm.
  Qed.

  Lemma visit_set_sim fuel p id ss mt m : msim mt m ->
    rsim (tvisit_set s frags fuel p id ss mt) (visit_set s frags fuel p id ss m).
  Proof.
    intro Hm. unfold tvisit_set, visit_set.
    apply bind_sim; [apply within_set_sim; exact Hm | intros; apply walk_opt_sim; assumption].
  Qed.
End Sim.

(* the traced run and the memoised model give the same verdict *)
Theorem opt_run_sim s d order fuel : rsim (topt_run s d order fuel) (opt_run s d order fuel).
Proof.
  unfold topt_run, opt_run. apply for_each_sim; [|split; reflexivity].
  intros [isop i] mt m _ Hm. cbn [fst snd]. destruct isop.
  - destruct (nth_error (d_ops d) i) as [o|]; [apply visit_set_sim; exact Hm | exact Hm].
  - destruct (nth_error (d_frags d) i) as [fd|]; [apply visit_set_sim; exact Hm | exact Hm].
Qed.
