(* The two duplicate-name algorithms of the rules (dictionary scan reporting [first, this];
   group_by reporting whole groups) against their declarative characterisations. *)
From GV Require Import Base.Prelude Lang.Ast Valid.Rules Valid.RulesBase Valid.RulesSpec.

(* ---------------------------------------------------------------- dictionary scan *)

(* state-free formulation: an element is reported iff its name occurs in front of it *)
Fixpoint dup_spec (done l : list (str * path)) : list (path * path) :=
  match l with
  | [] => []
  | (s, p) :: r =>
    (match lookup s done with Some p0 => [(p0, p)] | None => [] end) ++ dup_spec (done ++ [(s, p)]) r
  end.

Lemma lookup_snoc {V} s (m : list (str * V)) k v :
  lookup s (m ++ [(k, v)]) =
  match lookup s m with Some x => Some x | None => if streq s k then Some v else None end.
Proof.
  induction m as [|[k' v'] m IH]; cbn; [reflexivity|]. destruct (streq s k'); auto.
Qed.

Lemma dup_scan_spec l : forall known done,
  (forall s, lookup s known = lookup s done) -> dup_scan known l = dup_spec done l.
Proof.
  induction l as [|[s p] l IH]; intros known done H; cbn; [reflexivity|].
  rewrite <- H. destruct (lookup s known) as [p0|] eqn:El.
  - cbn. f_equal. apply IH. intro s'. rewrite lookup_snoc, <- H.
    destruct (lookup s' known) eqn:E'; [reflexivity|].
    destruct (streq s' s) eqn:Es; [|reflexivity]. apply streq_eq in Es. congruence.
  - cbn. apply IH. intro s'. cbn. rewrite lookup_snoc, <- H.
    destruct (streq s' s) eqn:Es.
    + apply streq_eq in Es. subst. rewrite El. reflexivity.
    + destruct (lookup s' known); reflexivity.
Qed.

Lemma lookup_app {V} s (a b : list (str * V)) :
  lookup s (a ++ b) = match lookup s a with Some x => Some x | None => lookup s b end.
Proof. induction a as [|[k v] a IH]; cbn; [reflexivity|]. destruct (streq s k); auto. Qed.

Lemma dup_spec_In l : forall done p0 p,
  In (p0, p) (dup_spec done l) <->
  exists pre s post, l = pre ++ (s, p) :: post /\ lookup s (done ++ pre) = Some p0.
Proof.
  induction l as [|[s q] l IH]; intros done p0 p; cbn.
  - split; [tauto | intros (pre & s & post & H & _); destruct pre; discriminate].
  - rewrite in_app_iff, IH. split.
    + intros [H | (pre & s' & post & H1 & H2)].
      * destruct (lookup s done) as [x|] eqn:El; cbn in H; [|tauto].
        destruct H as [H|[]]. inversion H; subst. exists [], s, l. rewrite app_nil_r. auto.
      * exists ((s, q) :: pre), s', post. subst. split; [reflexivity|].
        rewrite <- app_assoc in H2. exact H2.
    + intros (pre & s' & post & H1 & H2). destruct pre as [|[s0 q0] pre]; cbn in H1; inversion H1; subst.
      * left. rewrite app_nil_r in H2. rewrite H2. cbn. auto.
      * right. exists pre, s', post. split; [reflexivity|]. rewrite <- app_assoc. exact H2.
Qed.

Theorem dup_scan_In l p0 p : In (p0, p) (dup_scan [] l) <-> Dup l p0 p.
Proof.
  rewrite (dup_scan_spec l [] []) by reflexivity. rewrite dup_spec_In. cbn [app]. split.
  - intros (pre & s & post & H1 & H2). apply lookup_first in H2 as (pre0 & mid & H2 & Hn).
    subst. apply (Dup_intro _ _ _ pre0 s mid post); [|exact Hn]. rewrite <- app_assoc. reflexivity.
  - intros [pre s mid post H Hn]. exists (pre ++ (s, p0) :: mid), s, post. split.
    + rewrite H, <- app_assoc. reflexivity.
    + apply lookup_first. exists pre, mid. auto.
Qed.

Lemma dup_spec_nil l : forall done,
  dup_spec done l = [] <->
  NoDup (map fst l) /\ (forall s, In s (map fst l) -> ~ In s (map fst done)).
Proof.
  induction l as [|[s p] l IH]; intro done; cbn.
  - split; [intros _; split; [constructor | tauto] | reflexivity].
  - split.
    + intro H. apply app_eq_nil in H as [H1 H2]. apply IH in H2 as [Hnd Hfr].
      assert (Hl : lookup s done = None) by (destruct (lookup s done); [discriminate | reflexivity]).
      apply lookup_None in Hl. split.
      * constructor; [|exact Hnd]. intro Hin. apply (Hfr s Hin). rewrite map_app, in_app_iff. cbn. auto.
      * intros s' [<-|Hs']; [exact Hl|]. intro Hd. apply (Hfr s' Hs'). rewrite map_app, in_app_iff. auto.
    + intros [Hnd Hfr]. inversion Hnd as [|? ? Hn Hnd']; subst.
      assert (Hl : lookup s done = None) by (apply lookup_None; apply Hfr; auto).
      rewrite Hl. cbn. apply IH. split; [exact Hnd'|].
      intros s' Hs'. rewrite map_app, in_app_iff. cbn. intros [H|[H|[]]].
      * apply (Hfr s'); auto.
      * subst. contradiction.
Qed.

Theorem dup_scan_nil l : dup_scan [] l = [] <-> UniqueNames l.
Proof.
  rewrite (dup_scan_spec l [] []) by reflexivity. rewrite dup_spec_nil. unfold UniqueNames.
  split; [tauto | intro H; split; [exact H | cbn; tauto]].
Qed.

(* ---------------------------------------------------------------- group_by *)

Lemma group_by_snoc {V} (l : list (str * V)) k v :
  group_by (l ++ [(k, v)]) = group_insert k v (group_by l).
Proof. unfold group_by. rewrite fold_left_app. reflexivity. Qed.

Lemma distinct_snoc l k :
  distinct (l ++ [k]) = if mem k (distinct l) then distinct l else distinct l ++ [k].
Proof. unfold distinct. rewrite fold_left_app. reflexivity. Qed.

Lemma distinct_In l : forall s, In s (distinct l) <-> In s l.
Proof.
  induction l as [|k l IH] using rev_ind; intro s; [cbn; tauto|].
  rewrite distinct_snoc, in_app_iff. cbn [In].
  destruct (mem k (distinct l)) eqn:Em.
  - rewrite IH. apply mem_In in Em. rewrite IH in Em. split; [auto|]. intros [H|[<-|[]]]; auto.
  - rewrite in_app_iff, IH. cbn [In]. tauto.
Qed.

Lemma NoDup_app_snoc {A} (l : list A) k : NoDup l -> ~ In k l -> NoDup (l ++ [k]).
Proof.
  induction 1 as [|x l Hx Hl IH]; cbn; intro Hk.
  - constructor; [tauto | constructor].
  - constructor.
    + rewrite in_app_iff. cbn. intros [H|[H|[]]]; [tauto | subst; tauto].
    + apply IH. tauto.
Qed.

Lemma distinct_NoDup l : NoDup (distinct l).
Proof.
  induction l as [|k l IH] using rev_ind; [constructor|].
  rewrite distinct_snoc. destruct (mem k (distinct l)) eqn:Em; [exact IH|].
  apply mem_false in Em. apply NoDup_app_snoc; assumption.
Qed.

Definition occv {V} (s : str) (l : list (str * V)) : list V :=
  map snd (filter (fun e => streq (fst e) s) l).

Lemma occv_snoc {V} s (l : list (str * V)) k v :
  occv s (l ++ [(k, v)]) = occv s l ++ (if streq k s then [v] else []).
Proof.
  unfold occv. rewrite filter_app, map_app. cbn [filter fst]. destruct (streq k s); reflexivity.
Qed.

Lemma occv_nil {V} (l : list (str * V)) k : occv k l = [] <-> ~ In k (map fst l).
Proof.
  unfold occv. induction l as [|[k' v] l IH]; cbn [filter map fst snd In]; [tauto|].
  destruct (streq k' k) eqn:E; cbn [filter map fst snd In].
  - apply streq_eq in E. subst. split; [discriminate | intro H; exfalso; apply H; auto].
  - apply streq_neq in E. rewrite IH. split; [intros H [H'|H']; [congruence | auto] | auto].
Qed.

Lemma group_insert_map {V} k (v : V) (g : str -> list V) D : NoDup D ->
  group_insert k v (map (fun s => (s, g s)) D) =
  map (fun s => (s, g s ++ if streq k s then [v] else [])) D ++ (if mem k D then [] else [(k, [v])]).
Proof.
  induction 1 as [|s D Hs HD IH]; cbn [map group_insert mem app]; [reflexivity|].
  destruct (streq k s) eqn:E; cbn [orb app].
  - apply streq_eq in E. subst s. rewrite app_nil_r. f_equal. apply map_ext_in. intros s' Hs'.
    destruct (streq k s') eqn:E'; [apply streq_eq in E'; subst; contradiction|].
    rewrite app_nil_r. reflexivity.
  - rewrite app_nil_r, IH. reflexivity.
Qed.

Theorem group_by_spec {V} (l : list (str * V)) :
  group_by l = map (fun s => (s, occv s l)) (distinct (map fst l)).
Proof.
  induction l as [|[k v] l IH] using rev_ind; [reflexivity|].
  rewrite group_by_snoc, IH, map_app. cbn [map fst]. rewrite distinct_snoc.
  rewrite group_insert_map by apply distinct_NoDup.
  destruct (mem k (distinct (map fst l))) eqn:Em.
  - rewrite app_nil_r. apply map_ext. intro s. rewrite occv_snoc. reflexivity.
  - rewrite map_app. cbn [map]. f_equal.
    + apply map_ext. intro s. rewrite occv_snoc. reflexivity.
    + rewrite occv_snoc, streq_refl.
      apply mem_false in Em. rewrite distinct_In in Em. apply occv_nil in Em. rewrite Em. reflexivity.
Qed.

Lemma occv_occ s l : occv s l = occ s l.
Proof. reflexivity. Qed.

(* one error per name that occurs more than once, in order of first occurrence, pointing at
   all its occurrences in order *)
Theorem dup_groups_spec r l :
  dup_groups r l =
  flat_map (fun s => match occ s l with _ :: _ :: _ => [VE r (occ s l)] | _ => [] end)
           (distinct (map fst l)).
Proof. unfold dup_groups. rewrite group_by_spec, flat_map_map. reflexivity. Qed.

Lemma occ_cons s k v l : occ s ((k, v) :: l) = if streq k s then v :: occ s l else occ s l.
Proof. unfold occ. cbn [filter fst]. destruct (streq k s); reflexivity. Qed.

Lemma occ_len_NoDup l : NoDup (map fst l) <-> forall s, (length (occ s l) <= 1)%nat.
Proof.
  induction l as [|[k v] l IH]; cbn [map fst].
  - split; [intros _ s; cbn; lia | constructor].
  - split.
    + intros H s. inversion H as [|? ? Hk Hl]; subst. rewrite occ_cons.
      destruct (streq k s) eqn:E.
      * apply streq_eq in E. subst. apply (occv_nil l) in Hk. rewrite occv_occ in Hk. rewrite Hk. cbn. lia.
      * apply IH. exact Hl.
    + intro H. constructor.
      * specialize (H k). rewrite occ_cons, streq_refl in H. cbn in H.
        apply (occv_nil l). rewrite occv_occ. destruct (occ k l); [reflexivity | cbn in H; lia].
      * apply IH. intro s. specialize (H s). rewrite occ_cons in H.
        destruct (streq k s); cbn in H; lia.
Qed.

Theorem dup_groups_nil r l : dup_groups r l = [] <-> UniqueNames l.
Proof.
  rewrite dup_groups_spec, flat_map_nil. unfold UniqueNames. rewrite occ_len_NoDup. split.
  - intros H s. destruct (in_dec (list_eq_dec N.eq_dec) s (map fst l)) as [Hi|Hn].
    + specialize (H s (proj2 (distinct_In _ s) Hi)).
      destruct (occ s l) as [|a [|b t]]; cbn; try lia. discriminate.
    + apply (occv_nil l) in Hn. rewrite occv_occ in Hn. rewrite Hn. cbn. lia.
  - intros H s _. specialize (H s). destruct (occ s l) as [|a [|b t]]; try reflexivity. cbn in H. lia.
Qed.

(* every reported group: all occurrences of a name occurring at least twice *)
Theorem dup_groups_In r l e :
  In e (dup_groups r l) <->
  exists s, In s (map fst l) /\ e = VE r (occ s l) /\ (2 <= length (occ s l))%nat.
Proof.
  rewrite dup_groups_spec, in_flat_map. split.
  - intros (s & Hs & He). apply (proj1 (distinct_In _ s)) in Hs. exists s. split; [exact Hs|].
    destruct (occ s l) as [|a [|b t]]; cbn in He; try tauto. destruct He as [<-|[]]. cbn. split; [reflexivity | lia].
  - intros (s & Hs & -> & Hl). exists s. split; [apply distinct_In; exact Hs|].
    destruct (occ s l) as [|a [|b t]]; cbn in Hl; try lia. cbn. auto.
Qed.
