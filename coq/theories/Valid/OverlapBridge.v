(* From "the field-merge specification function (C14) finds no conflict on the translated
   operation" to the merging clause of C13's typing judgment (StaticTyping.names_agree). *)
From GV Require Import Base.Prelude Exec.Value Exec.Schema Exec.Spec Exec.SpecProps Exec.Typing Exec.Soundness
  Valid.StaticTyping Valid.StaticTypingProps Valid.ToOverlap Valid.ToOverlapProps.
From GV Require Valid.Overlap Valid.OverlapProps.
From GV Require Import Valid.OverlapAdequacy Valid.OverlapEquiv Valid.OverlapMemoSound Valid.OverlapCollect
  Valid.OverlapGood.

Notation oentry := Overlap.entry.

Section Bridge.
  Variable s : schema.
  Variable vdefs : list var_def.
  Variable frags : list fragment.
  Variable ofr : list Overlap.fragdef.
  Hypothesis Hofr : forall name fr, find_frag name frags = Some fr ->
    exists fd c c', Overlap.find_frag ofr (intern name) = Some fd /\
                    Overlap.fr_type fd = intern (fr_cond fr) /\
                    o_sels c (fr_sels fr) = (Overlap.fr_body fd, c').
  Hypothesis Hfrags : frags_static s vdefs frags = true.

  (* what one selection contributes *)
  Definition HExp (q : N) (h : ohead) (u : oentry) : Prop :=
    match h with
    | HField f sub => u = Overlap.mkEntry q f sub
    | HInline _ tc sub => Exp ofr (match tc with Some t => t | None => q end) sub u
    | HSpread n => exists fd, Overlap.find_frag ofr n = Some fd /\ Exp ofr (Overlap.fr_type fd) (Overlap.fr_body fd) u
    end.

  Lemma hexp_cons q h rest u : HExp q h u -> Exp ofr q (o_cons h rest) u.
  Proof.
    destruct h as [f sub|i tc sub|n]; cbn [HExp o_cons].
    - intros ->. left. cbn. auto.
    - apply Exp_inline_sub.
    - intros (fd & Hf & [Hu|(F & fd' & Hr & Hf' & Hu)]).
      + right. exists n, fd. split; [apply Reach_here; cbn; auto|]. auto.
      + right. exists F, fd'. split; [|auto]. eapply Reach_step; [cbn; left; reflexivity | exact Hf | exact Hr].
  Qed.

  Lemma exp_rest q h rest u : Exp ofr q rest u -> Exp ofr q (o_cons h rest) u.
  Proof.
    destruct h as [f sub|i tc sub|n]; cbn [o_cons];
      [apply Exp_field | apply Exp_inline_rest | apply Exp_spread_rest].
  Qed.

  Lemma exp_member L : forall c O c', o_sels c L = (O, c') -> forall x, In x L ->
    exists cx h cx', o_sel x cx = (h, cx') /\ forall q u, HExp q h u -> Exp ofr q O u.
  Proof.
    induction L as [|y r IH]; intros c O c' H x Hx; [destruct Hx|].
    cbn [o_sels] in H. destruct (o_sel y c) as [h c1] eqn:Ey. destruct (o_sels c1 r) as [orest c2] eqn:Er.
    inversion H; subst. destruct Hx as [<-|Hx].
    - exists c, h, c1. split; [exact Ey|]. intros q u. apply hexp_cons.
    - destruct (IH _ _ _ Er x Hx) as (cx & hx & cx' & Hs & Hl). exists cx, hx, cx'. split; [exact Hs|].
      intros q u Hu. apply exp_rest. apply Hl. exact Hu.
  Qed.

  (* a field reached at run time is a field the specification function collects *)
  Lemma reach_entry rt : is_object s rt = true -> forall L k f, reach s frags rt L k f ->
    forall c O c' pt, o_sels c L = (O, c') -> forallb (sstatic s vdefs pt) L = true ->
      runtime_of_b s pt rt = true ->
    exists u pu al dirs cu cu',
      Exp ofr (intern pt) O u /\ Overlap.e_parent u = intern pu /\ runtime_of_b s pu rt = true /\
      sstatic s vdefs pu (SField al (fs_name f) (fs_args f) dirs (fs_sels f)) = true /\
      k = response_key al (fs_name f) /\
      Overlap.f_rname (Overlap.e_fld u) = intern k /\ Overlap.f_name (Overlap.e_fld u) = intern (fs_name f) /\
      o_sels cu (fs_sels f) = (Overlap.e_sub u, cu').
  Proof.
    intros Ho L k f H. induction H as [sels al name args dirs sub Hin
                                    | sels tc dirs sub k f Hin Hc Hr IH
                                    | sels name dirs fr k f Hin Hf Hc Hr IH]; intros c O c' pt Hos Hst Hrt.
    - destruct (exp_member _ _ _ _ Hos _ Hin) as (cx & h & cx' & Hs & Hl).
      rewrite o_sel_field in Hs. destruct (o_sels (cx + 1) sub) as [osub c1] eqn:Esub. inversion Hs; subst h cx'.
      rewrite forallb_forall in Hst.
      eexists (Overlap.mkEntry (intern pt) _ osub), pt, al, dirs, (cx + 1), c1.
      split; [apply Hl; cbn; reflexivity|]. cbn [Overlap.e_parent Overlap.e_fld Overlap.e_sub Overlap.f_rname Overlap.f_name fs_name fs_args fs_sels].
      repeat split; auto.
    - destruct (exp_member _ _ _ _ Hos _ Hin) as (cx & h & cx' & Hs & Hl).
      rewrite o_sel_inline in Hs. destruct (o_sels (cx + 1) sub) as [osub c1] eqn:Esub. inversion Hs; subst h cx'.
      rewrite forallb_forall in Hst. pose proof (Hst _ Hin) as Hx. rewrite sstatic_inline in Hx.
      set (pt' := match tc with Some c0 => c0 | None => pt end) in *.
      assert (Hrt' : runtime_of_b s pt' rt = true).
      { unfold pt'. destruct tc as [c0|]; [apply cond_runtime; assumption | exact Hrt]. }
      destruct (IH _ _ _ pt' Esub Hx Hrt') as (u & pu & al & dirs' & cu & cu' & Hu & Hrest).
      exists u, pu, al, dirs', cu, cu'. split; [|exact Hrest].
      apply Hl. cbn [HExp]. unfold pt' in Hu. destruct tc; exact Hu.
    - destruct (exp_member _ _ _ _ Hos _ Hin) as (cx & h & cx' & Hs & Hl).
      rewrite o_sel_spread in Hs. inversion Hs; subst h cx'.
      destruct (Hofr _ _ Hf) as (fd & cf & cf' & Hfind & Hty & Hbody).
      assert (Hin' : In fr frags).
      { clear -Hf. induction frags as [|g r IHr]; cbn in Hf; [discriminate|].
        destruct (str_eqb name (fr_name g)); [inversion Hf; cbn; auto | right; auto]. }
      pose proof (cond_runtime s _ _ Ho Hc) as Hrt'.
      destruct (runtime_composite_def s _ _ Hrt') as (td & Etd & Hcomp).
      pose proof Hfrags as Hfs. unfold frags_static in Hfs. rewrite forallb_forall in Hfs. specialize (Hfs _ Hin').
      rewrite Etd, Hcomp in Hfs. cbn in Hfs.
      destruct (IH _ _ _ (fr_cond fr) Hbody Hfs Hrt') as (u & pu & al & dirs' & cu & cu' & Hu & Hrest).
      exists u, pu, al, dirs', cu, cu'. split; [|exact Hrest].
      apply Hl. cbn [HExp]. exists fd. split; [exact Hfind|]. rewrite Hty. exact Hu.
  Qed.
End Bridge.

(* ---- the selection sets of a document on which the specification function is silent ---- *)
Section DSet.
  Variable os : Overlap.schema.
  Variable od : Overlap.document.
  Notation ofr := (Overlap.d_frags od).
  Let chk := Overlap.check_set os ofr (Overlap.collect_fuel od) (Overlap.depth_fuel od).

  Definition DSet (q : N) (t : Overlap.sels) : Prop :=
    InDoc os od q t /\ chk q t = Overlap.VNo /\ Overlap.walk os chk q t = Overlap.VNo.

  Lemma walk_flat : forall t q, InDoc os od q t -> Overlap.walk os chk q t = Overlap.VNo ->
    forall u, In u (flat q t) ->
    exists tu, ft os u = Some tu /\ EntryOk os od u /\
               (Overlap.e_sub u <> Overlap.SelNil -> DSet (Overlap.named tu) (Overlap.e_sub u)).
  Proof.
    induction t as [|f sub IHsub rest IHrest|iid tc sub IHsub rest IHrest|n rest IHrest];
      intros q Hin Hw u Hu; cbn [flat Overlap.walk] in *.
    - destruct Hu.
    - apply vjoin_no in Hw as [H1 H2]. destruct Hu as [<-|Hu].
      + unfold ft. cbn [Overlap.e_parent Overlap.e_fld Overlap.e_sub].
        destruct (Overlap.field_type os q (Overlap.f_name f)) as [ty|] eqn:Et; [|discriminate].
        exists ty. split; [reflexivity|]. split; [exists rest; exact Hin|].
        intro Hne. split; [eapply ID_field_sub; eauto|].
        destruct sub; [contradiction| | |]; apply vjoin_no in H1; exact H1.
      + apply (IHrest q); [eapply ID_field_rest; eauto | exact H2 | exact Hu].
    - apply vjoin_no in Hw as [H1 H2]. apply in_app_or in Hu as [Hu|Hu].
      + destruct (Overlap.is_composite os match tc with Some t0 => t0 | None => q end); [|discriminate].
        apply vjoin_no in H1 as [_ H1]. apply (IHsub _ (ID_inline_sub _ _ _ _ _ _ _ Hin) H1 u Hu).
      + apply (IHrest q); [eapply ID_inline_rest; eauto | exact H2 | exact Hu].
    - apply (IHrest q); [eapply ID_spread_rest; eauto | exact Hw | exact Hu].
  Qed.

  Hypothesis Hfr : forall fd, In fd ofr -> DSet (Overlap.fr_type fd) (Overlap.fr_body fd).

  Lemma dset_exp q t u : DSet q t -> Exp ofr q t u ->
    exists tu, ft os u = Some tu /\ EntryOk os od u /\
               (Overlap.e_sub u <> Overlap.SelNil -> DSet (Overlap.named tu) (Overlap.e_sub u)).
  Proof.
    intros (Hi & _ & Hw) [Hu|(F & fd & _ & Hf & Hu)]; [eapply walk_flat; eauto|].
    apply OverlapProps.find_frag_some in Hf as [Hf _]. destruct (Hfr fd Hf) as (Hi' & _ & Hw').
    eapply walk_flat; eauto.
  Qed.

  Hypothesis Hid : forall e e', EntryOk os od e -> EntryOk os od e' ->
    Overlap.f_id (Overlap.e_fld e) = Overlap.f_id (Overlap.e_fld e') -> e = e'.

  Lemma dset_no_conf q t : DSet q t -> ~ SetConf os od q t.
  Proof.
    intros (Hi & Hc & _) Hs. apply (check_set_complete os od Hid q t Hi Hs). exact Hc.
  Qed.
End DSet.

(* the verdict VNo makes every operation and fragment a silent set *)
Lemma verdict_no_sets os od : Overlap.spec_verdict os od = Overlap.VNo ->
  (forall o, In o (Overlap.d_ops od) -> DSet os od (fst o) (snd o)) /\
  (forall fd, In fd (Overlap.d_frags od) -> DSet os od (Overlap.fr_type fd) (Overlap.fr_body fd)).
Proof.
  unfold Overlap.spec_verdict. intro H. apply vjoin_no in H as [H1 H2].
  set (chk := Overlap.check_set os (Overlap.d_frags od) (Overlap.collect_fuel od) (Overlap.depth_fuel od)) in *.
  split.
  - intros o Ho. pose proof (fold_vjoin_no (fun o => Overlap.check_root os chk (fst o) (snd o)) _ H1 o Ho) as Hr.
    unfold Overlap.check_root in Hr. destruct (Overlap.is_composite os (fst o)); [|discriminate].
    apply vjoin_no in Hr as [Ha Hb]. split; [apply ID_op; exact Ho|]. split; assumption.
  - intros fd Hf. pose proof (fold_vjoin_no (fun fd => Overlap.check_root os chk (Overlap.fr_type fd) (Overlap.fr_body fd)) _ H2 fd Hf) as Hr.
    unfold Overlap.check_root in Hr. destruct (Overlap.is_composite os (Overlap.fr_type fd)); [|discriminate].
    apply vjoin_no in Hr as [Ha Hb]. split; [apply ID_frag; exact Hf|]. split; assumption.
Qed.

(* ---- finite expansion of a selection list through fragment spreads ---- *)
Section Height.
  Variable frags : list fragment.

  Fixpoint hb (n : nat) (L : list selection) : Prop :=
    match n with
    | O => L = []
    | S m => forall x, In x L ->
        match x with
        | SField _ _ _ _ sub => hb m sub
        | SInline _ _ sub => hb m sub
        | SSpread name _ => forall fr, find_frag name frags = Some fr -> hb m (fr_sels fr)
        end
    end.

  Lemma hb_nil n : hb n [].
  Proof. destruct n; cbn; [reflexivity | intros x []]. Qed.

  Lemma hb_mono n : forall L, hb n L -> hb (S n) L.
  Proof.
    induction n as [|m IH]; intros L H.
    - cbn in H. subst L. apply hb_nil.
    - cbn [hb] in *. intros x Hx. specialize (H x Hx).
      destruct x as [al nm args dirs sub|nm dirs|tc dirs sub]; [apply IH; exact H | | apply IH; exact H].
      intros fr Hf. apply IH. apply H. exact Hf.
  Qed.

  Lemma hb_le n m L : (n <= m)%nat -> hb n L -> hb m L.
  Proof. induction 1 as [|m' Hle IH]; [auto | intro Hn; apply hb_mono; auto]. Qed.

  Lemma hb_app n L1 L2 : hb n L1 -> hb n L2 -> hb n (L1 ++ L2).
  Proof.
    destruct n; cbn [hb].
    - intros -> ->. reflexivity.
    - intros H1 H2 x Hx. apply in_app_iff in Hx as [Hx|Hx]; [apply H1; exact Hx | apply H2; exact Hx].
  Qed.

  Lemma hb_concat n Ls : (forall L, In L Ls -> hb n L) -> hb n (concat Ls).
  Proof.
    induction Ls as [|L Ls IH]; intro H; cbn; [apply hb_nil|].
    apply hb_app; [apply H; cbn; auto | apply IH; intros; apply H; cbn; auto].
  Qed.

  Lemma hb_sub n L L' : (forall x, In x L' -> In x L) -> hb n L -> hb n L'.
  Proof.
    destruct n; cbn [hb]; intros Hi H.
    - subst L. destruct L' as [|x r]; [reflexivity | destruct (Hi x (or_introl eq_refl))].
    - intros x Hx. apply H. apply Hi. exact Hx.
  Qed.

  Lemma reach_nil s rt k f : ~ reach s frags rt [] k f.
  Proof. intro H. inversion H; subst; match goal with H0 : In _ [] |- _ => destruct H0 end. Qed.

  Lemma reach_hb s rt L k f : reach s frags rt L k f -> forall m, hb (S m) L -> hb m (fs_sels f).
  Proof.
    induction 1 as [sels al name args dirs sub Hin
                   | sels tc dirs sub k f Hin Hc Hr IH
                   | sels name dirs fr k f Hin Hf Hc Hr IH]; intros m H; cbn [hb] in H.
    - exact (H _ Hin).
    - pose proof (H _ Hin) as Hs. cbn in Hs. destruct m as [|m'].
      + cbn in Hs. subst sub. exfalso. eapply reach_nil; eauto.
      + apply hb_mono. apply IH. exact Hs.
    - pose proof (H _ Hin fr Hf) as Hs. destruct m as [|m'].
      + cbn in Hs. rewrite Hs in Hr. exfalso. eapply reach_nil; eauto.
      + apply hb_mono. apply IH. exact Hs.
  Qed.

  Lemma reach_incl s rt L L' k f : (forall x, In x L -> In x L') -> reach s frags rt L k f -> reach s frags rt L' k f.
  Proof.
    intros Hi H. inversion H; subst.
    - apply r_field with dirs. auto.
    - eapply r_inline; eauto.
    - eapply r_spread; eauto.
  Qed.

  Lemma reach_concat s rt Ls k f : reach s frags rt (concat Ls) k f -> exists L, In L Ls /\ reach s frags rt L k f.
  Proof.
    intro H. inversion H; subst.
    - apply in_concat in H0 as (L & HL & Hx). exists L. split; [exact HL|]. apply r_field with dirs. exact Hx.
    - apply in_concat in H0 as (L & HL & Hx). exists L. split; [exact HL|]. eapply r_inline; eauto.
    - apply in_concat in H0 as (L & HL & Hx). exists L. split; [exact HL|]. eapply r_spread; eauto.
  Qed.
End Height.

(* ---- the merging clause ---- *)
Section Names.
  Variable s : schema.
  Variable vdefs : list var_def.
  Variable frags : list fragment.
  Variable od : Overlap.document.
  Notation os := (o_schema s).
  Notation ofr := (Overlap.d_frags od).
  Hypothesis Hofr : forall name fr, find_frag name frags = Some fr ->
    exists fd c c', Overlap.find_frag ofr (intern name) = Some fd /\
                    Overlap.fr_type fd = intern (fr_cond fr) /\
                    o_sels c (fr_sels fr) = (Overlap.fr_body fd, c').
  Hypothesis Hfrags : frags_static s vdefs frags = true.
  Hypothesis Himpl : schema_impl_ok s = true.
  Hypothesis Hfr : forall fd, In fd ofr -> DSet os od (Overlap.fr_type fd) (Overlap.fr_body fd).
  Hypothesis Hid : forall e e', EntryOk os od e -> EntryOk os od e' ->
    Overlap.f_id (Overlap.e_fld e) = Overlap.f_id (Overlap.e_fld e') -> e = e'.

  Record piece := PC { pc_sels : list selection; pc_pt : str; pc_o : Overlap.sels }.

  Definition piece_ok (rt : str) (pc : piece) : Prop :=
    (exists c c', o_sels c (pc_sels pc) = (pc_o pc, c')) /\
    forallb (sstatic s vdefs (pc_pt pc)) (pc_sels pc) = true /\
    runtime_of_b s (pc_pt pc) rt = true /\
    DSet os od (intern (pc_pt pc)) (pc_o pc).

  Definition pc_exp (pc : piece) (u : oentry) : Prop := Exp ofr (intern (pc_pt pc)) (pc_o pc) u.

  Definition pieces_good (P : list piece) : Prop :=
    forall p1 p2 u v, In p1 P -> In p2 P -> pc_exp p1 u -> pc_exp p2 v ->
      Overlap.same_rname u v = true -> Good os od u v.

  (* two static parents with a common runtime type are not different object types *)
  Lemma not_exclusive rt pu pv (u v : oentry) :
    Overlap.e_parent u = intern pu -> Overlap.e_parent v = intern pv ->
    runtime_of_b s pu rt = true -> runtime_of_b s pv rt = true ->
    excl_of os false u v = false.
  Proof.
    intros Hu Hv Ru Rv. unfold excl_of. rewrite Hu, Hv, !is_object_o. cbn [orb].
    destruct (is_object s pu) eqn:Ou; [|rewrite andb_false_r; reflexivity].
    destruct (is_object s pv) eqn:Ov; [|rewrite andb_false_r; reflexivity].
    assert (Hobj : forall p, is_object s p = true -> runtime_of_b s p rt = true -> rt = p).
    { intros p Hp Hr. destruct (runtime_cases s _ _ Hr) as [[_ E]|[_ Hposs]]; [exact E|].
      exfalso. unfold possible, is_object in *. destruct (lookup_type s p) as [[]|]; discriminate. }
    rewrite <- (Hobj pu Ou Ru), <- (Hobj pv Ov Rv), N.eqb_refl. reflexivity.
  Qed.

  (* what a reached field is on the other side *)
  Lemma reached rt pc k f : is_object s rt = true -> piece_ok rt pc -> reach s frags rt (pc_sels pc) k f ->
    exists u pu al dirs cu cu' tu,
      pc_exp pc u /\ Overlap.e_parent u = intern pu /\ runtime_of_b s pu rt = true /\
      sstatic s vdefs pu (SField al (fs_name f) (fs_args f) dirs (fs_sels f)) = true /\
      Overlap.f_rname (Overlap.e_fld u) = intern k /\ Overlap.f_name (Overlap.e_fld u) = intern (fs_name f) /\
      o_sels cu (fs_sels f) = (Overlap.e_sub u, cu') /\
      ft os u = Some tu /\
      (Overlap.e_sub u <> Overlap.SelNil -> DSet os od (Overlap.named tu) (Overlap.e_sub u)).
  Proof.
    intros Ho ((c & c' & Hos) & Hst & Hrt & Hds) Hr.
    destruct (reach_entry s vdefs frags ofr Hofr Hfrags rt Ho _ _ _ Hr _ _ _ _ Hos Hst Hrt)
      as (u & pu & al & dirs & cu & cu' & Hu & Hp & Hrp & Hss & _ & Hrn & Hn & Hsub).
    destruct (dset_exp os od Hfr _ _ u Hds Hu) as (tu & Htu & _ & Hd).
    exists u, pu, al, dirs, cu, cu', tu. unfold pc_exp. repeat (split; [assumption|]). exact Hd.
  Qed.

  Lemma o_sels_nonnil c L O c' : o_sels c L = (O, c') -> L <> [] -> O <> Overlap.SelNil.
  Proof.
    destruct L as [|y r]; [contradiction|]. intros H _. cbn [o_sels] in H.
    destruct (o_sel y c) as [h c1]. destruct (o_sels c1 r) as [orest c2]. inversion H.
    destruct h; discriminate.
  Qed.

  Theorem names_from_pieces n : forall rt P, is_object s rt = true ->
    (forall pc, In pc P -> piece_ok rt pc) -> pieces_good P ->
    hb frags n (concat (map pc_sels P)) ->
    names_agree s frags rt (concat (map pc_sels P)).
  Proof.
    induction n as [|n IH]; intros rt P Ho Hok Hgood Hh.
    { cbn in Hh. rewrite Hh. constructor.
      - intros k f1 f2 H. exfalso. eapply reach_nil; eauto.
      - intros k fs f1 fd rt' Hall Hin. exfalso. eapply reach_nil. apply (Hall _ Hin). }
    (* every reached field, as seen by the specification function *)
    assert (Hreach : forall k f, reach s frags rt (concat (map pc_sels P)) k f ->
              exists pc, In pc P /\ reach s frags rt (pc_sels pc) k f).
    { intros k f H. apply reach_concat in H as (L & HL & H). apply in_map_iff in HL as (pc & <- & Hpc). eauto. }
    constructor.
    - (* one response key, one field name *)
      intros k f1 f2 H1 H2.
      destruct (Hreach _ _ H1) as (p1 & Hp1 & R1). destruct (Hreach _ _ H2) as (p2 & Hp2 & R2).
      destruct (reached rt p1 k f1 Ho (Hok _ Hp1) R1) as (u & pu & al1 & d1 & cu & cu' & tu & Eu & Pu & Ru & _ & Nu & Fu & _ & Tu & _).
      destruct (reached rt p2 k f2 Ho (Hok _ Hp2) R2) as (v & pv & al2 & d2 & cv & cv' & tv & Ev & Pv & Rv & _ & Nv & Fv & _ & Tv & _).
      assert (Hrn : Overlap.same_rname u v = true) by (unfold Overlap.same_rname; rewrite Nu, Nv; apply N.eqb_refl).
      assert (Hex : excl_of os false u v = false) by (eapply not_exclusive; eauto).
      assert (Hex' : excl_of os false v u = false) by (eapply not_exclusive; eauto).
      apply intern_inj. rewrite <- Fu, <- Fv.
      destruct (Hgood p1 p2 u v Hp1 Hp2 Eu Ev Hrn) as [->|[Hc|Hc]]; [reflexivity| |].
      + eapply good_names; eauto.
      + symmetry. eapply good_names; eauto.
    - (* the merged sub-selections *)
      intros k fs f1 fd rt' Hall Hin1 Hfd Hrt'.
      assert (Ho' : is_object s rt' = true) by (eapply runtime_object; eauto).
      (* a piece for every field with a sub-selection *)
      assert (Hpieces : forall f, In f fs -> fs_sels f <> [] ->
                exists pc u, pc_sels pc = fs_sels f /\ piece_ok rt' pc /\ hb frags n (pc_sels pc) /\
                  (exists p0, In p0 P /\ pc_exp p0 u) /\ Overlap.f_rname (Overlap.e_fld u) = intern k /\
                  (exists pu, Overlap.e_parent u = intern pu /\ runtime_of_b s pu rt = true) /\
                  (exists tu, ft os u = Some tu /\ intern (pc_pt pc) = Overlap.named tu) /\
                  pc_o pc = Overlap.e_sub u).
      { intros f Hf Hne. destruct (Hreach _ _ (Hall _ Hf)) as (p0 & Hp0 & R0).
        destruct (reached rt p0 k f Ho (Hok _ Hp0) R0)
          as (u & pu & al & dirs & cu & cu' & tu & Eu & Pu & Ru & Su & Nu & Fu & Osub & Tu & Du).
        destruct f as [name args sub]. cbn [fs_name fs_args fs_sels] in *.
        destruct (field_transfer s vdefs Himpl _ _ _ _ _ _ _ Ru Su) as [_ Hex].
        assert (Ht : str_eqb name n_typename = false).
        { destruct (str_eqb name n_typename) eqn:Et; [|reflexivity]. exfalso.
          rewrite sstatic_field, Et in Su. apply andb_true_iff in Su as [_ Su]. apply is_nil_true in Su. contradiction. }
        destruct (Hex Ht) as (fi & fo & Ei & Eo & Hout & Hsub).
        (* all fields of the group have f1's name, so fo is the field of rt' *)
        assert (Hname : name = fs_name f1).
        { destruct (Hreach _ _ (Hall _ Hin1)) as (p1 & Hp1 & R1).
          destruct (reached rt p1 k f1 Ho (Hok _ Hp1) R1) as (v & pv & al2 & d2 & cv & cv' & tv & Ev & Pv & Rv & _ & Nv & Fv & _ & Tv & _).
          assert (Hrn : Overlap.same_rname u v = true) by (unfold Overlap.same_rname; rewrite Nu, Nv; apply N.eqb_refl).
          assert (Hx1 : excl_of os false u v = false) by (eapply not_exclusive; eauto).
          assert (Hx2 : excl_of os false v u = false) by (eapply not_exclusive; eauto).
          apply intern_inj. rewrite <- Fu, <- Fv.
          destruct (Hgood p0 p1 u v Hp0 Hp1 Eu Ev Hrn) as [->|[Hc|Hc]]; [reflexivity| |].
          - eapply good_names; eauto.
          - symmetry. eapply good_names; eauto. }
        rewrite Hname, Hfd in Eo. inversion Eo; subst fo.
        assert (Htu : tu = o_ty (f_type fi)).
        { unfold ft in Tu. rewrite Pu, Fu, field_type_o, Ht, Ei in Tu. cbn in Tu. congruence. }
        assert (Hon : Overlap.e_sub u <> Overlap.SelNil) by (eapply o_sels_nonnil; eauto).
        exists (PC sub (named_of (f_type fi)) (Overlap.e_sub u)), u. cbn [pc_sels pc_pt pc_o].
        split; [reflexivity|]. split.
        { unfold piece_ok. cbn [pc_sels pc_pt pc_o].
          split; [eauto|]. split; [apply Hsub; exact Hne|]. split; [eapply out_compat_runtime; eauto|].
          rewrite <- named_o_ty, <- Htu. apply Du. exact Hon. }
        assert (Hhp : hb frags (S n) (pc_sels p0)).
        { apply (hb_sub frags (S n) (concat (map pc_sels P))); [|exact Hh].
          intros x0 Hx0. apply in_concat. exists (pc_sels p0). split; [apply in_map; exact Hp0 | exact Hx0]. }
        split; [exact (reach_hb frags s rt _ k (mkFS name args sub) R0 n Hhp)|].
        split; [eauto|]. split; [exact Nu|]. split; [eauto|]. split; [|reflexivity].
        exists tu. split; [exact Tu|]. rewrite Htu, named_o_ty. reflexivity. }
      set (Q := fun pc : piece => exists u,
                  piece_ok rt' pc /\ hb frags n (pc_sels pc) /\
                  (exists p0, In p0 P /\ pc_exp p0 u) /\ Overlap.f_rname (Overlap.e_fld u) = intern k /\
                  (exists pu, Overlap.e_parent u = intern pu /\ runtime_of_b s pu rt = true) /\
                  (exists tu, ft os u = Some tu /\ intern (pc_pt pc) = Overlap.named tu) /\
                  pc_o pc = Overlap.e_sub u).
      assert (HP : forall l, incl l fs -> exists P', concat (map pc_sels P') = flat_map fs_sels l /\ Forall Q P').
      { induction l as [|f l IHl]; intro Hi; [exists []; split; [reflexivity | constructor]|].
        destruct IHl as (P' & Hc & HQ); [intros z Hz; apply Hi; right; exact Hz|].
        cbn [flat_map]. destruct (fs_sels f) as [|y0 r0] eqn:Ef.
        - exists P'. split; [exact Hc | exact HQ].
        - destruct (Hpieces f (Hi f (or_introl eq_refl))) as (pc & u & Hs & Hrest); [rewrite Ef; discriminate|].
          exists (pc :: P'). split; [cbn; rewrite Hs, Ef, Hc; reflexivity|]. constructor; [|exact HQ].
          exists u. rewrite Hs in Hrest. rewrite Hs. exact Hrest. }
      destruct (HP fs (incl_refl _)) as (P' & Hconcat & HQ). rewrite Forall_forall in HQ.
      unfold merged_sels. rewrite <- Hconcat. apply IH; [exact Ho'| | |].
      + intros pc Hpc. destruct (HQ pc Hpc) as (u & Hk & _). exact Hk.
      + intros pc1 pc2 x y H1 H2 Hx Hy Hr.
        destruct (HQ pc1 H1) as (u1 & Ok1 & _ & (p01 & Hp01 & E1) & N1 & (pu1 & Pu1 & Ru1) & (tu1 & T1 & I1) & O1).
        destruct (HQ pc2 H2) as (u2 & Ok2 & _ & (p02 & Hp02 & E2) & N2 & (pu2 & Pu2 & Ru2) & (tu2 & T2 & I2) & O2).
        unfold pc_exp in Hx, Hy. rewrite I1, O1 in Hx. rewrite I2, O2 in Hy.
        assert (Hrn : Overlap.same_rname u1 u2 = true) by (unfold Overlap.same_rname; rewrite N1, N2; apply N.eqb_refl).
        assert (Hx1 : excl_of os false u1 u2 = false) by (eapply not_exclusive; eauto).
        assert (Hx2 : excl_of os false u2 u1 = false) by (eapply not_exclusive; eauto).
        destruct (Hgood p01 p02 u1 u2 Hp01 Hp02 E1 E2 Hrn) as [Heq|[Hc|Hc]].
        * subst u2. rewrite T1 in T2. inversion T2; subst tu2.
          destruct Ok1 as (_ & _ & _ & Hd). rewrite I1, O1 in Hd.
          apply (set_good os od _ _ (dset_no_conf os od Hid _ _ Hd) x y Hx Hy Hr).
        * eapply (children_good os od u1 u2 tu1 tu2); eauto.
        * apply Good_sym. eapply (children_good os od u2 u1 tu2 tu1); eauto.
          rewrite same_rname_sym. exact Hr.
      + apply hb_concat. intros L HL. apply in_map_iff in HL as (pc & <- & Hpc).
        destruct (HQ pc Hpc) as (u & _ & Hh' & _). exact Hh'.
  Qed.
End Names.

Lemma o_frags_find l : forall c ofr c' name fr,
  o_frags c l = (ofr, c') -> find_frag name l = Some fr ->
  exists fd cb cb', Overlap.find_frag ofr (intern name) = Some fd /\
                    Overlap.fr_type fd = intern (fr_cond fr) /\
                    o_sels cb (fr_sels fr) = (Overlap.fr_body fd, cb').
Proof.
  induction l as [|f l IH]; intros c ofr c' name fr H Hf; [discriminate|].
  cbn [o_frags] in H. destruct (o_sels c (fr_sels f)) as [body c1] eqn:Eb.
  destruct (o_frags c1 l) as [rest c2] eqn:Er. inversion H; subst. cbn [find_frag] in Hf.
  unfold Overlap.find_frag. cbn [find Overlap.fr_name]. rewrite intern_eqb, (str_eqb_sym (fr_name f) name).
  destruct (str_eqb name (fr_name f)).
  - inversion Hf; subst. eexists _, c, c1. split; [reflexivity|]. split; [reflexivity | exact Eb].
  - apply (IH _ _ _ _ _ Er Hf).
Qed.

(* no conflict found by the specification function on the translated operation => the merging
   clause of the typing judgment *)
Theorem overlap_names_agree s (x : document) rt n :
  schema_impl_ok s = true ->
  frags_static s (d_vars x) (d_frags x) = true -> sstatic_list s (d_vars x) rt (d_sels x) = true ->
  is_object s rt = true ->
  overlap_verdict s rt x = Overlap.VNo ->
  Overlap.nodupb (Overlap.doc_fids (o_doc rt x)) = true ->
  hb (d_frags x) n (d_sels x) ->
  names_agree s (d_frags x) rt (d_sels x).
Proof.
  intros Himpl Hfr Hst Ho Hv Hids Hh. unfold overlap_verdict in Hv.
  unfold o_doc in *. destruct (o_sels 1 (d_sels x)) as [osels c1] eqn:Es.
  destruct (o_frags c1 (d_frags x)) as [ofr c2] eqn:Ef.
  set (od := Overlap.mkDoc [(intern rt, osels)] ofr) in *.
  destruct (verdict_no_sets _ _ Hv) as [Hops Hfrs].
  pose proof (unique_ids_identify (o_schema s) od Hids) as Hid.
  assert (Hofr : forall name fr, find_frag name (d_frags x) = Some fr ->
            exists fd c c', Overlap.find_frag (Overlap.d_frags od) (intern name) = Some fd /\
                            Overlap.fr_type fd = intern (fr_cond fr) /\
                            o_sels c (fr_sels fr) = (Overlap.fr_body fd, c')).
  { intros name fr H. apply (o_frags_find _ _ _ _ _ _ Ef H). }
  set (root := PC (d_sels x) rt osels).
  assert (Hroot : piece_ok s (d_vars x) od rt root).
  { unfold piece_ok, root. cbn [pc_sels pc_pt pc_o]. split; [eauto|]. split; [exact Hst|]. split.
    - unfold runtime_of_b. rewrite Ho, str_eqb_refl. reflexivity.
    - apply (Hops (intern rt, osels)). cbn. auto. }
  pose proof (names_from_pieces s (d_vars x) (d_frags x) od Hofr Hfr Himpl Hfrs Hid n rt [root] Ho) as H.
  cbn [map concat pc_sels root] in H. rewrite app_nil_r in H. apply H.
  - intros pc [<-|[]]. exact Hroot.
  - intros p1 p2 u v [<-|[]] [<-|[]] Hu Hv' Hr.
    destruct Hroot as (_ & _ & _ & Hd).
    apply (set_good (o_schema s) od _ _ (dset_no_conf _ od Hid _ _ Hd) u v Hu Hv' Hr).
  - exact Hh.
Qed.
