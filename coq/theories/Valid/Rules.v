(* C12 / concrete validation rules that do not consult the schema, over the parser AST Lang/Ast.v
   (src/graphql/validation/rules/*.py, validation_context.py).  Definitions only; declarative
   specifications in Valid/RulesSpec.v, proofs in Valid/RulesProps*.v.

   Two layers.
   (1) extraction: from the generic tree to the data a rule reads - definitions, operations and
       fragments with their names, variable definitions, fragment spreads (in the order of
       ASTValidationContext.get_fragment_spreads) and variable usages (VariableUsageVisitor), and
       the depth-first node sequence of visit() under validate()'s key table (descriptions
       excluded).  AST nodes are identified by their PATH from the document root: a list of
       (attribute index, element index) steps, attribute indices as in Lang/Ast.v (the order of
       dataclasses.fields of the node class), element index 0 for a single child.
   (2) the rule algorithms on that data, written as the code is: dictionary scans, group_by,
       the work list of get_recursively_referenced_fragments, the depth-first search of
       NoFragmentCyclesRule with visited_frags / spread_path / spread_path_index_by_name.
   An error is (rule number, the paths of the AST nodes the GraphQLError points at); message
   wording is not modelled. *)
From GV Require Import Base.Prelude Lang.Ast.

Definition str := list N.
Definition streq (a b : str) : bool := nat_list_eqb a b.
Definition step := (nat * nat)%type.
Definition path := list step.

Record verr := VE { ve_rule : N; ve_nodes : list path }.

(* ------------------------------------------------------------------------------------------ *)
(* generic helpers                                                                             *)

Section Mapi.
  Context {A B : Type} (f : nat -> A -> B).
  Fixpoint mapi_from (i : nat) (l : list A) : list B :=
    match l with [] => [] | a :: r => f i a :: mapi_from (S i) r end.
End Mapi.
Definition mapi {A B} (f : nat -> A -> B) (l : list A) : list B := mapi_from f O l.

(* f index (earlier elements) element *)
Section MapiPre.
  Context {A B : Type} (f : nat -> list A -> A -> B).
  Fixpoint mapi_pre (i : nat) (pre : list A) (l : list A) : list B :=
    match l with [] => [] | a :: r => f i pre a :: mapi_pre (S i) (pre ++ [a]) r end.
End MapiPre.

Definition pick {A} (keys : list nat) (ls : list (list A)) : list (list A) :=
  map (fun i => nth i ls []) keys.

Fixpoint mem (s : str) (l : list str) : bool :=
  match l with [] => false | x :: r => streq s x || mem s r end.

Fixpoint lookup {V} (s : str) (m : list (str * V)) : option V :=
  match m with [] => None | (k, v) :: r => if streq s k then Some v else lookup s r end.

(* ------------------------------------------------------------------------------------------ *)
(* the traversal of visit() with query_document_keys_to_validate                               *)

(* attribute indices of the visitor keys of a kind, in QUERY_DOCUMENT_KEYS order, the
   description key removed (validate.py: query_document_keys_to_validate).  Checked against the
   implementation's tables by harness/crules.py on every run. *)
Definition vkeys (k : nkind) : list nat :=
  match k with
  | KArgument => [0; 1] | KArgumentCoordinate => [0; 1; 2] | KDirective => [0; 1]
  | KDirectiveArgumentCoordinate => [0; 1] | KDirectiveCoordinate => [0]
  | KDirectiveDefinition => [0; 3; 4; 1] | KDirectiveExtension => [0; 1] | KDocument => [0]
  | KEnumTypeDefinition => [0; 2; 3] | KEnumTypeExtension => [0; 1; 2]
  | KEnumValueDefinition => [0; 2] | KField => [2; 1; 3; 0; 4] | KFieldDefinition => [0; 3; 1; 4]
  | KFragmentArgument => [0; 1] | KFragmentDefinition => [2; 3; 5; 4; 0]
  | KFragmentSpread => [1; 2; 0] | KInlineFragment => [2; 0; 1]
  | KInputObjectTypeDefinition => [0; 2; 3] | KInputObjectTypeExtension => [0; 1; 2]
  | KInputValueDefinition => [0; 1; 3; 4] | KInterfaceTypeDefinition => [0; 3; 2; 4]
  | KInterfaceTypeExtension => [0; 2; 1; 3] | KListType => [0] | KListValue => [0]
  | KMemberCoordinate => [0; 1] | KNamedType => [0] | KNonNullType => [0]
  | KObjectField => [0; 1] | KObjectTypeDefinition => [0; 3; 2; 4]
  | KObjectTypeExtension => [0; 2; 1; 3] | KObjectValue => [0]
  | KOperationDefinition => [2; 3; 4; 0] | KOperationTypeDefinition => [1]
  | KScalarTypeDefinition => [0; 2] | KScalarTypeExtension => [0; 1]
  | KSchemaDefinition => [1; 2] | KSchemaExtension => [0; 1] | KSelectionSet => [0]
  | KTypeCoordinate => [0] | KUnionTypeDefinition => [0; 2; 3] | KUnionTypeExtension => [0; 1; 2]
  | KVariable => [0] | KVariableDefinition => [1; 2; 3; 4]
  | KBooleanValue | KEnumValue | KFloatValue | KIntValue | KName | KNullValue | KStringValue => []
  end%nat.

(* the attribute holding the description of a node of this kind *)
Definition desc_index (k : nkind) : option nat :=
  match k with
  | KOperationDefinition | KFragmentDefinition | KEnumTypeDefinition | KEnumValueDefinition
  | KInputObjectTypeDefinition | KInterfaceTypeDefinition | KObjectTypeDefinition
  | KScalarTypeDefinition | KUnionTypeDefinition => Some 1
  | KVariableDefinition | KSchemaDefinition => Some 0
  | KDirectiveDefinition | KFieldDefinition | KInputValueDefinition => Some 2
  | _ => None
  end%nat.

(* a visited node: its path, the node, and the elements in front of it when it sits in a tuple *)
Record item := It { it_path : path; it_node : node; it_sibs : list (path * node) }.

Section Walk.
  (* kinds whose children are not visited (the visitor answers SKIP on entering them) *)
  Variable stop : nkind -> bool.

  Fixpoint walk (p : path) (sibs : list (path * node)) (n : node) {struct n} : list item :=
    match n with
    | Nd k attrs =>
      It p n sibs ::
      (if stop k then [] else
       concat (pick (vkeys k)
         (mapi (fun i a =>
            match a with
            | ANode m => walk (p ++ [(i, O)]) [] m
            | AList l =>
              concat (mapi_pre (fun j pre m =>
                        walk (p ++ [(i, j)]) (mapi (fun j' m' => (p ++ [(i, j')], m')) pre) m) O [] l)
            | _ => []
            end) attrs)))
    end.
End Walk.

Definition no_stop (_ : nkind) : bool := false.
Definition stop_vardef (k : nkind) : bool := match k with KVariableDefinition => true | _ => false end.

(* all nodes of the document in the order validate() enters them *)
Definition doc_items (d : node) : list item := walk no_stop [] [] d.

(* ------------------------------------------------------------------------------------------ *)
(* extraction                                                                                  *)

Definition kind_of (n : node) : nkind := match n with Nd k _ => k end.
Definition name_str (n : node) : str := match n with Nd KName (AStr s :: _) => s | _ => [] end.

(* name attribute of an Argument / ObjectField / Directive (attribute 0) *)
Definition arg_name (n : node) : str :=
  match n with
  | Nd KArgument (ANode m :: _) | Nd KObjectField (ANode m :: _) => name_str m
  | _ => []
  end.

Record vdef := VD { vd_name : str; vd_path : path; vd_name_path : path }.
Record spread := SP { sp_name : str; sp_path : path }.
Record usage := US { us_name : str; us_path : path }.

Definition name_step : path := [(1, O)]%nat.          (* FragmentSpread.name *)
Definition defname_step : path := [(2, O)]%nat.       (* Operation/FragmentDefinition.name *)

(* VariableDefinition.variable.name.value *)
Definition vardef_name (n : node) : str :=
  match n with
  | Nd KVariableDefinition (_ :: ANode (Nd KVariable (ANode m :: _)) :: _) => name_str m
  | _ => []
  end.

Definition vdefs_of (p : path) (a : attr) : list vdef :=
  match a with
  | AList l => mapi (fun j m => VD (vardef_name m) (p ++ [(3, j)]) (p ++ [(3, j); (1, O); (0, O)]))%nat l
  | _ => []
  end.

Definition spread_of (p : path) (n : node) : spread :=
  match n with
  | Nd KFragmentSpread (_ :: ANode m :: _) => SP (name_str m) p
  | _ => SP [] p
  end.

(* ASTValidationContext.get_fragment_spreads: a stack of selection sets, popped from the end;
   the spreads standing directly in a set are appended in order, the sets of its fields and inline
   fragments are pushed in order - hence visited last first, each with everything below it before
   the next.  Structural formulation of that order. *)
Fixpoint set_spreads (p : path) (s : node) {struct s} : list spread :=
  match s with
  | Nd KSelectionSet (AList sels :: _) =>
    let parts :=
      mapi (fun j sel =>
        match sel with
        | Nd KFragmentSpread _ => ([spread_of (p ++ [(0, j)]) sel], [])
        | Nd KField (_ :: _ :: _ :: _ :: ANode s' :: _) =>
          ([], set_spreads (p ++ [(0, j); (4, O)]) s')
        | Nd KInlineFragment (_ :: ANode s' :: _) =>
          ([], set_spreads (p ++ [(0, j); (1, O)]) s')
        | _ => ([], [])
        end)%nat sels in
    concat (map fst parts) ++ concat (rev (map snd parts))
  | _ => []
  end.

(* VariableUsageVisitor: every Variable node below the definition, variable definitions skipped *)
Definition usages_of (p : path) (n : node) : list usage :=
  flat_map (fun it =>
    match it_node it with
    | Nd KVariable (ANode m :: _) => [US (name_str m) (it_path it)]
    | _ => []
    end) (walk stop_vardef p [] n).

Record opinfo := OP { o_path : path; o_name : option str; o_vdefs : list vdef;
                      o_spreads : list spread; o_usages : list usage }.
Record fraginfo := FR { f_path : path; f_name : str; f_vdefs : list vdef;
                        f_spreads : list spread; f_usages : list usage }.

Inductive xdef := XOp (o : opinfo) | XFrag (f : fraginfo) | XOther (p : path).

Definition sel_spreads (p : path) (a : attr) : list spread :=
  match a with ANode s => set_spreads (p ++ [(0, O)]%nat) s | _ => [] end.

Definition xdef_of (p : path) (n : node) : xdef :=
  match n with
  | Nd KOperationDefinition (s :: _ :: nm :: vs :: _) =>
    XOp (OP p (match nm with ANode m => Some (name_str m) | _ => None end)
            (vdefs_of p vs) (sel_spreads p s) (usages_of p n))
  | Nd KFragmentDefinition (s :: _ :: nm :: vs :: _) =>
    XFrag (FR p (match nm with ANode m => name_str m | _ => [] end)
              (vdefs_of p vs) (sel_spreads p s) (usages_of p n))
  | _ => XOther p
  end.

Definition xdefs (d : node) : list xdef :=
  match d with
  | Nd KDocument (AList l :: _) => mapi (fun j m => xdef_of [(0, j)]%nat m) l
  | _ => []
  end.

Definition ops_of (xs : list xdef) : list opinfo :=
  flat_map (fun x => match x with XOp o => [o] | _ => [] end) xs.
Definition frags_of (xs : list xdef) : list fraginfo :=
  flat_map (fun x => match x with XFrag f => [f] | _ => [] end) xs.

(* every fragment spread of the document in traversal order *)
Definition all_spreads (d : node) : list spread :=
  flat_map (fun it =>
    match it_node it with
    | Nd KFragmentSpread _ => [spread_of (it_path it) (it_node it)]
    | _ => []
    end) (doc_items d).

(* argument lists: one per Field and per Directive, in traversal order; (name, path of the name) *)
Definition named_args (p : path) (i : nat) (a : attr) : list (str * path) :=
  match a with
  | AList l => mapi (fun j m => (arg_name m, p ++ [(i, j); (0, O)]))%nat l
  | _ => []
  end.

Definition arg_lists (d : node) : list (list (str * path)) :=
  flat_map (fun it =>
    match it_node it with
    | Nd KField (_ :: _ :: _ :: a :: _) => [named_args (it_path it) 3 a]
    | Nd KDirective (_ :: a :: _) => [named_args (it_path it) 1 a]
    | _ => []
    end) (doc_items d).

(* input object fields in traversal order: the (name, name path) of the fields in front of it
   in the same object value - the content of known_names when the field is entered - and its own *)
Definition object_fields (d : node) : list (list (str * path) * (str * path)) :=
  flat_map (fun it =>
    match it_node it with
    | Nd KObjectField _ =>
      [(map (fun pn => (arg_name (snd pn), fst pn ++ [(0, O)]))%nat (it_sibs it),
        (arg_name (it_node it), it_path it ++ [(0, O)]%nat))]
    | _ => []
    end) (doc_items d).

(* ------------------------------------------------------------------------------------------ *)
(* rule algorithms on the extracted data                                                       *)

(* `if name in known: report [known[name], node] else: known[name] = node` *)
Fixpoint dup_scan (known : list (str * path)) (l : list (str * path)) : list (path * path) :=
  match l with
  | [] => []
  | (s, p) :: r =>
    match lookup s known with
    | Some p0 => (p0, p) :: dup_scan known r
    | None => dup_scan ((s, p) :: known) r
    end
  end.

(* pyutils.group_by: groups in order of first occurrence, members in order *)
Fixpoint group_insert {V} (k : str) (v : V) (g : list (str * list V)) : list (str * list V) :=
  match g with
  | [] => [(k, [v])]
  | (k', vs) :: r => if streq k k' then (k', vs ++ [v]) :: r else (k', vs) :: group_insert k v r
  end.
Definition group_by {V} (l : list (str * V)) : list (str * list V) :=
  fold_left (fun g kv => group_insert (fst kv) (snd kv) g) l [].

(* one error per group with more than one member, pointing at all members *)
Definition dup_groups (rule : N) (l : list (str * path)) : list verr :=
  flat_map (fun g => match snd g with _ :: _ :: _ => [VE rule (snd g)] | _ => [] end) (group_by l).

(* context.get_fragment: a dict built from the definitions in order - the LAST definition of a
   name wins *)
Fixpoint get_fragment (fs : list fraginfo) (s : str) : option fraginfo :=
  match fs with
  | [] => None
  | f :: r => match get_fragment r s with
              | Some g => Some g
              | None => if streq s (f_name f) then Some f else None
              end
  end.

(* one pass of the inner loop of get_recursively_referenced_fragments over the spreads of the
   popped selection set: (collected names, fragments found, selection sets to push) *)
Fixpoint refs_step (fs : list fraginfo) (sps : list spread)
         (st : list str * list fraginfo * list (list spread))
  : list str * list fraginfo * list (list spread) :=
  match sps with
  | [] => st
  | s :: r =>
    let '(col, acc, push) := st in
    if mem (sp_name s) col then refs_step fs r st
    else match get_fragment fs (sp_name s) with
         | Some f => refs_step fs r (sp_name s :: col, acc ++ [f], push ++ [f_spreads f])
         | None => refs_step fs r (sp_name s :: col, acc, push)
         end
  end.

(* the outer loop; the stack's top is the head.  None = out of fuel *)
Fixpoint refs_loop (fuel : nat) (fs : list fraginfo) (stack : list (list spread))
         (col : list str) (acc : list fraginfo) : option (list fraginfo) :=
  match fuel with
  | O => None
  | S fuel' =>
    match stack with
    | [] => Some acc
    | sps :: stack' =>
      let '(col', acc', push) := refs_step fs sps (col, acc, []) in
      refs_loop fuel' fs (rev push ++ stack') col' acc'
    end
  end.

Definition refs_fuel (fs : list fraginfo) : nat := S (S (length fs)).

(* get_recursively_referenced_fragments(operation), from the spreads of its selection set *)
Definition refs (fs : list fraginfo) (start : list spread) : option (list fraginfo) :=
  refs_loop (refs_fuel fs) fs [start] [] [].

(* usage.fragment_variable_definition is not None: the usage stands in a fragment whose signature
   (looked up by the fragment's NAME) defines a variable of that name *)
Definition frag_local (fs : list fraginfo) (f : fraginfo) (u : usage) : bool :=
  match get_fragment fs (f_name f) with
  | Some g => mem (us_name u) (map vd_name (f_vdefs g))
  | None => false
  end.

(* get_recursive_variable_usages(operation) without the usages bound by a fragment's own
   variable definitions (both variable rules skip those) *)
Definition op_usages (fs : list fraginfo) (o : opinfo) : option (list usage) :=
  match refs fs (o_spreads o) with
  | Some rf =>
    Some (o_usages o ++
          flat_map (fun f => filter (fun u => negb (frag_local fs f u)) (f_usages f)) rf)
  | None => None
  end.

(* ---- NoFragmentCyclesRule.detect_cycle_recursive ----
   state threaded through the whole search: (visited_frags, errors so far); spread_path and
   spread_path_index_by_name are restored on return, hence passed down.  An error is the list of
   spreads spread_path[cycle_index:]. *)
Definition cstate := (list str * list (list spread))%type.

Section DLoop.
  (* the recursive call: fragment, spread_path, state *)
  Variable rec : fraginfo -> list spread -> cstate -> option cstate.
  Variable fs : list fraginfo.
  Variable spath : list spread.
  Variable index' : list (str * nat).
  (* `for spread_node in spread_nodes:` *)
  Fixpoint dloop (sps : list spread) (st : cstate) {struct sps} : option cstate :=
    match sps with
    | [] => Some st
    | s :: r =>
      match lookup (sp_name s) index' with
      | None =>
        match get_fragment fs (sp_name s) with
        | Some g =>
          match rec g (spath ++ [s]) st with
          | Some st' => dloop r st'
          | None => None
          end
        | None => dloop r st
        end
      | Some ci => dloop r (fst st, snd st ++ [skipn ci (spath ++ [s])])
      end
    end.
End DLoop.

Fixpoint detect (fuel : nat) (fs : list fraginfo) (f : fraginfo) (spath : list spread)
         (index : list (str * nat)) (st : cstate) : option cstate :=
  match fuel with
  | O => None
  | S fuel' =>
    if mem (f_name f) (fst st) then Some st
    else
      let st1 := (f_name f :: fst st, snd st) in
      match f_spreads f with
      | [] => Some st1
      | sps =>
        let index' := (f_name f, length spath) :: index in
        dloop (fun g sp st' => detect fuel' fs g sp index' st') fs spath index' sps st1
      end
  end.

Definition cycles_fuel (fs : list fraginfo) : nat := S (length fs).

Fixpoint detect_all (fuel : nat) (fs todo : list fraginfo) (st : cstate) : option cstate :=
  match todo with
  | [] => Some st
  | f :: r => match detect fuel fs f [] [] st with
              | Some st' => detect_all fuel fs r st'
              | None => None
              end
  end.

(* ------------------------------------------------------------------------------------------ *)
(* the twelve rules: document -> errors (None = out of fuel, proved unreachable)                *)

Definition R_EXEC : N := 1.      Definition R_UOPN : N := 2.     Definition R_LONE : N := 3.
Definition R_KFRAG : N := 4.     Definition R_UFRAG : N := 5.    Definition R_UNUSEDF : N := 6.
Definition R_CYCLES : N := 7.    Definition R_UVAR : N := 8.     Definition R_UNDEFV : N := 9.
Definition R_UNUSEDV : N := 10.  Definition R_UARG : N := 11.    Definition R_UINF : N := 12.

Definition rule_executable_definitions (d : node) : list verr :=
  flat_map (fun x => match x with XOther p => [VE R_EXEC [p]] | _ => [] end) (xdefs d).

Definition named_ops (xs : list xdef) : list (str * path) :=
  flat_map (fun o => match o_name o with Some s => [(s, o_path o ++ defname_step)] | None => [] end)
           (ops_of xs).

Definition rule_unique_operation_names (d : node) : list verr :=
  map (fun pq => VE R_UOPN [fst pq; snd pq]) (dup_scan [] (named_ops (xdefs d))).

Definition rule_lone_anonymous_operation (d : node) : list verr :=
  let os := ops_of (xdefs d) in
  flat_map (fun o => match o_name o with
                     | None => if (1 <? length os)%nat then [VE R_LONE [o_path o]] else []
                     | Some _ => []
                     end) os.

Definition rule_known_fragment_names (d : node) : list verr :=
  let fs := frags_of (xdefs d) in
  flat_map (fun s => match get_fragment fs (sp_name s) with
                     | None => [VE R_KFRAG [sp_path s ++ name_step]]
                     | Some _ => []
                     end) (all_spreads d).

Definition named_frags (xs : list xdef) : list (str * path) :=
  map (fun f => (f_name f, f_path f ++ defname_step)) (frags_of xs).

Definition rule_unique_fragment_names (d : node) : list verr :=
  map (fun pq => VE R_UFRAG [fst pq; snd pq]) (dup_scan [] (named_frags (xdefs d))).

Fixpoint used_names (fs : list fraginfo) (os : list opinfo) : option (list str) :=
  match os with
  | [] => Some []
  | o :: r => match refs fs (o_spreads o), used_names fs r with
              | Some rf, Some u => Some (map f_name rf ++ u)
              | _, _ => None
              end
  end.

Definition rule_no_unused_fragments (d : node) : option (list verr) :=
  let xs := xdefs d in
  let fs := frags_of xs in
  match used_names fs (ops_of xs) with
  | Some used =>
    Some (flat_map (fun f => if mem (f_name f) used then [] else [VE R_UNUSEDF [f_path f]]) fs)
  | None => None
  end.

Definition rule_no_fragment_cycles (d : node) : option (list verr) :=
  let fs := frags_of (xdefs d) in
  match detect_all (cycles_fuel fs) fs fs ([], []) with
  | Some st => Some (map (fun c => VE R_CYCLES (map sp_path c)) (snd st))
  | None => None
  end.

Definition rule_unique_variable_names (d : node) : list verr :=
  flat_map (fun o => dup_groups R_UVAR (map (fun v => (vd_name v, vd_name_path v)) (o_vdefs o)))
           (ops_of (xdefs d)).

Fixpoint opt_concat {A} (l : list (option (list A))) : option (list A) :=
  match l with
  | [] => Some []
  | Some x :: r => match opt_concat r with Some y => Some (x ++ y) | None => None end
  | None :: _ => None
  end.

Definition undefined_in (fs : list fraginfo) (o : opinfo) : option (list verr) :=
  match op_usages fs o with
  | Some us =>
    Some (flat_map (fun u => if mem (us_name u) (map vd_name (o_vdefs o)) then []
                             else [VE R_UNDEFV [us_path u; o_path o]]) us)
  | None => None
  end.

Definition rule_no_undefined_variables (d : node) : option (list verr) :=
  let xs := xdefs d in
  opt_concat (map (undefined_in (frags_of xs)) (ops_of xs)).

Definition unused_in (fs : list fraginfo) (x : xdef) : option (list verr) :=
  match x with
  | XOp o =>
    match op_usages fs o with
    | Some us =>
      Some (flat_map (fun v => if mem (vd_name v) (map us_name us) then []
                               else [VE R_UNUSEDV [vd_path v]]) (o_vdefs o))
    | None => None
    end
  | XFrag f =>
    Some (flat_map (fun v => if mem (vd_name v) (map us_name (f_usages f)) then []
                             else [VE R_UNUSEDV [vd_path v]]) (f_vdefs f))
  | XOther _ => Some []
  end.

Definition rule_no_unused_variables (d : node) : option (list verr) :=
  let xs := xdefs d in
  opt_concat (map (unused_in (frags_of xs)) xs).

Definition rule_unique_argument_names (d : node) : list verr :=
  flat_map (dup_groups R_UARG) (arg_lists d).

Definition rule_unique_input_field_names (d : node) : list verr :=
  flat_map (fun e =>
    match lookup (fst (snd e)) (fst e) with
    | Some p0 => [VE R_UINF [p0; snd (snd e)]]
    | None => []
    end) (object_fields d).

(* all twelve, rule by rule *)
Definition all_rules (d : node) : option (list verr) :=
  opt_concat
    [Some (rule_executable_definitions d); Some (rule_unique_operation_names d);
     Some (rule_lone_anonymous_operation d); Some (rule_known_fragment_names d);
     Some (rule_unique_fragment_names d); rule_no_unused_fragments d; rule_no_fragment_cycles d;
     Some (rule_unique_variable_names d); rule_no_undefined_variables d;
     rule_no_unused_variables d; Some (rule_unique_argument_names d);
     Some (rule_unique_input_field_names d)].

(* ------------------------------------------------------------------------------------------ *)
(* descriptions                                                                                *)

Fixpoint erase_descriptions (n : node) : node :=
  match n with
  | Nd k attrs =>
    Nd k (mapi (fun i a =>
            match desc_index k with
            | Some j => if (i =? j)%nat then ANone else
                match a with
                | ANode m => ANode (erase_descriptions m)
                | AList l => AList (map erase_descriptions l)
                | _ => a
                end
            | None =>
                match a with
                | ANode m => ANode (erase_descriptions m)
                | AList l => AList (map erase_descriptions l)
                | _ => a
                end
            end) attrs)
  end.
