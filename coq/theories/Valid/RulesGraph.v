(* Fragment table and the work list of get_recursively_referenced_fragments (Valid/Rules.refs):
   fuel is always sufficient; the result is exactly the set of fragments reachable through
   fragment spreads (RulesSpec.Reach), each once. *)
From GV Require Import Base.Prelude Lang.Ast Valid.Rules Valid.RulesBase Valid.RulesSpec.

(* ---- get_fragment ---- *)
Lemma get_fragment_Some fs s f : get_fragment fs s = Some f -> In f fs /\ f_name f = s.
Proof.
  induction fs as [|g fs IH]; cbn; [discriminate|].
  destruct (get_fragment fs s) as [h|] eqn:E.
  - intro H. inversion H; subst. destruct (IH eq_refl). auto.
  - destruct (streq s (f_name g)) eqn:Es; [|discriminate].
    intro H. inversion H; subst. apply streq_eq in Es. auto.
Qed.

Lemma get_fragment_None fs s : get_fragment fs s = None <-> ~ Defined fs s.
Proof.
  unfold Defined. induction fs as [|g fs IH]; cbn.
  - split; [intros _ (f & [] & _) | reflexivity].
  - destruct (get_fragment fs s) as [h|] eqn:E.
    + split; [discriminate|]. intro H. exfalso. apply H. apply get_fragment_Some in E as [E1 E2].
      exists h. auto.
    + destruct (streq s (f_name g)) eqn:Es.
      * apply streq_eq in Es. split; [discriminate|]. intro H. exfalso. apply H. exists g. auto.
      * apply streq_neq in Es. split; [|reflexivity]. intros _ (f & [<-|Hf] & Hn); [congruence|].
        apply (proj1 IH eq_refl). exists f. auto.
Qed.

Lemma get_fragment_defined fs s : Defined fs s -> exists f, get_fragment fs s = Some f.
Proof.
  intro H. destruct (get_fragment fs s) eqn:E; [eauto|]. apply get_fragment_None in E. contradiction.
Qed.

(* with unique fragment names a name resolves to THE definition of that name *)
Lemma resolves_unique fs s f : NoDup (map f_name fs) ->
  (Resolves fs s f <-> In f fs /\ f_name f = s).
Proof.
  unfold Resolves. intro Hnd. split; [apply get_fragment_Some|]. intros [Hin Hn].
  induction fs as [|g fs IH]; [destruct Hin|]. cbn in *. inversion Hnd as [|? ? Hg Hnd']; subst.
  destruct Hin as [<-|Hin].
  - destruct (get_fragment fs (f_name g)) eqn:E.
    + apply get_fragment_Some in E as [E1 E2]. exfalso. apply Hg. rewrite <- E2. apply in_map. exact E1.
    + rewrite streq_refl. reflexivity.
  - rewrite (IH Hnd' Hin). reflexivity.
Qed.

(* ---- fuel ---- *)
Definition uncol (fs : list fraginfo) (col : list str) : nat :=
  length (filter (fun n => negb (mem n col)) (map f_name fs)).

Lemma filter_len_le (L : list str) x col :
  (length (filter (fun n => negb (mem n (x :: col))) L) <=
   length (filter (fun n => negb (mem n col)) L))%nat.
Proof.
  induction L as [|a L IH]; cbn [filter]; [lia|].
  change (mem a (x :: col)) with (streq a x || mem a col).
  destruct (streq a x); cbn [orb negb]; destruct (mem a col); cbn [negb length]; lia.
Qed.

Lemma filter_len_lt (L : list str) x col : In x L -> mem x col = false ->
  (length (filter (fun n => negb (mem n (x :: col))) L) <
   length (filter (fun n => negb (mem n col)) L))%nat.
Proof.
  induction L as [|a L IH]; [intros []|]. intros [<-|Hin] Hm; cbn [filter];
    change (mem a (x :: col)) with (streq a x || mem a col) || change (mem a (a :: col)) with (streq a a || mem a col).
  - rewrite streq_refl, Hm. cbn [orb negb length]. pose proof (filter_len_le L a col). lia.
  - specialize (IH Hin Hm). destruct (streq a x); cbn [orb negb]; destruct (mem a col); cbn [negb length]; lia.
Qed.

Lemma uncol_le fs x col : (uncol fs (x :: col) <= uncol fs col)%nat.
Proof. apply filter_len_le. Qed.

Lemma uncol_lt fs x col : In x (map f_name fs) -> mem x col = false ->
  (uncol fs (x :: col) < uncol fs col)%nat.
Proof. apply filter_len_lt. Qed.

Lemma uncol_nil fs : uncol fs [] = length fs.
Proof.
  unfold uncol. rewrite <- (map_length f_name fs). induction (map f_name fs); cbn; auto.
Qed.

Lemma refs_step_measure fs sps : forall col acc push col' acc' push',
  refs_step fs sps (col, acc, push) = (col', acc', push') ->
  (length push' + uncol fs col' <= length push + uncol fs col)%nat.
Proof.
  induction sps as [|s r IH]; intros col acc push col' acc' push' H; cbn in H.
  - inversion H; subst. lia.
  - destruct (mem (sp_name s) col) eqn:Em; [eapply IH; eauto|].
    destruct (get_fragment fs (sp_name s)) as [f|] eqn:Eg.
    + apply IH in H. rewrite app_length in H. cbn in H.
      apply get_fragment_Some in Eg as [Hin Hn].
      assert (In (sp_name s) (map f_name fs)) by (rewrite <- Hn; apply in_map; exact Hin).
      pose proof (uncol_lt fs (sp_name s) col H0 Em). lia.
    + apply IH in H. pose proof (uncol_le fs (sp_name s) col). lia.
Qed.

Lemma refs_loop_total fuel fs : forall stack col acc,
  (length stack + uncol fs col < fuel)%nat ->
  exists r, refs_loop fuel fs stack col acc = Some r.
Proof.
  induction fuel as [|fuel IH]; intros stack col acc H; [lia|].
  cbn. destruct stack as [|sps stack]; [eauto|].
  destruct (refs_step fs sps (col, acc, [])) as [[col' acc'] push] eqn:Es.
  apply IH. apply refs_step_measure in Es. rewrite app_length, rev_length. cbn in *. lia.
Qed.

Theorem refs_total fs start : exists r, refs fs start = Some r.
Proof.
  unfold refs, refs_fuel. apply refs_loop_total. rewrite uncol_nil. cbn. lia.
Qed.

(* ---- the result is the reachable set ---- *)
Section Reach.
  Variable fs : list fraginfo.
  Variable start : list spread.

  Definition origin (s : spread) : Prop :=
    In s start \/ exists g, Reach fs start g /\ In s (f_spreads g).

  Record Inv (pend : list (list spread)) (col : list str) (acc : list fraginfo) : Prop := {
    inv_sound : forall f, In f acc -> Reach fs start f;
    inv_pend : forall sps s, In sps pend -> In s sps -> origin s;
    inv_col : forall s f, In s col -> Resolves fs s f -> In f acc;
    inv_todo : forall s, (In s start \/ exists g, In g acc /\ In s (f_spreads g)) ->
                         (exists sps, In sps pend /\ In s sps) \/ In (sp_name s) col;
    inv_names : forall f, In f acc -> In (f_name f) col;
    inv_nodup : NoDup (map f_name acc)
  }.

  Lemma Inv_equiv P P' col acc : (forall x, In x P <-> In x P') -> Inv P col acc -> Inv P' col acc.
  Proof.
    intros He [H1 H2 H3 H4 H5 H6]. constructor; auto.
    - intros sps s Hs. apply (H2 sps s). apply He. exact Hs.
    - intros s Hs. destruct (H4 s Hs) as [(sps & Ha & Hb)|Hc]; [left; exists sps; split; [apply He|]; auto | auto].
  Qed.

  Lemma origin_reach s f : origin s -> Resolves fs (sp_name s) f -> Reach fs start f.
  Proof.
    intros [Hs|(g & Hg & Hs)] Hr; [eapply Reach_start; eauto | eapply Reach_step; eauto].
  Qed.

  Lemma refs_step_inv sps : forall col acc push Q col' acc' push',
    refs_step fs sps (col, acc, push) = (col', acc', push') ->
    Inv (sps :: push ++ Q) col acc -> Inv (push' ++ Q) col' acc'.
  Proof.
    induction sps as [|s r IH]; intros col acc push Q col' acc' push' H HI; cbn in H.
    - inversion H; subst. destruct HI as [H1 H2 H3 H4 H5 H6]. constructor; auto.
      + intros sps s Hs. apply (H2 sps s). right. exact Hs.
      + intros s Hs. destruct (H4 s Hs) as [(sps & [<-|Ha] & Hb)|Hc]; [destruct Hb | left; eauto | auto].
    - destruct (mem (sp_name s) col) eqn:Em.
      + apply (IH _ _ _ Q _ _ _ H). apply mem_In in Em.
        destruct HI as [H1 H2 H3 H4 H5 H6]. constructor; auto.
        * intros sps s' [<-|Hs] Hin; [apply (H2 (s :: r) s'); cbn; auto | apply (H2 sps s'); cbn; auto].
        * intros s' Hs'. destruct (H4 s' Hs') as [(sps & [<-|Ha] & Hb)|Hc]; auto.
          -- destruct Hb as [<-|Hb]; [auto | left; exists r; cbn; auto].
          -- left. exists sps. cbn. auto.
      + apply mem_false in Em.
        assert (Ho : origin s) by (apply (inv_pend _ _ _ HI (s :: r) s); cbn; auto).
        destruct (get_fragment fs (sp_name s)) as [f|] eqn:Eg.
        * apply (IH _ _ _ Q _ _ _ H). rewrite <- app_assoc. cbn [app].
          pose proof (get_fragment_Some _ _ _ Eg) as [Hfin Hfn].
          destruct HI as [H1 H2 H3 H4 H5 H6]. constructor.
          -- intros f' Hf'. apply in_app_iff in Hf' as [Hf'|[<-|[]]]; [auto | eapply origin_reach; eauto].
          -- intros sps s' Hin Hs'. destruct Hin as [<-|Hin]; [apply (H2 (s :: r) s'); cbn; auto|].
             apply in_app_iff in Hin as [Hin|Hin].
             ++ apply (H2 sps s'); [right; apply in_app_iff; auto | exact Hs'].
             ++ destruct Hin as [<-|Hin].
                ** right. exists f. split; [eapply origin_reach; eauto | exact Hs'].
                ** apply (H2 sps s'); [right; apply in_app_iff; auto | exact Hs'].
          -- intros s' f' [<-|Hs'] Hr.
             ++ unfold Resolves in Hr. rewrite Eg in Hr. inversion Hr; subst. apply in_app_iff. cbn. auto.
             ++ apply in_app_iff. left. eapply H3; eauto.
          -- intros s' Hs'.
             assert (Hc : (In s' start \/ exists g, In g acc /\ In s' (f_spreads g)) \/ In s' (f_spreads f)).
             { destruct Hs' as [Hs'|(g & Hg & Hs')]; [auto|].
               apply in_app_iff in Hg as [Hg|[<-|[]]]; [left; right; eauto | auto]. }
             destruct Hc as [Hc|Hc].
             ++ destruct (H4 s' Hc) as [(sps & [<-|Ha] & Hb)|Hd].
                ** destruct Hb as [<-|Hb]; [right; cbn; auto | left; exists r; cbn; auto].
                ** left. exists sps. split; [|exact Hb]. right.
                   apply in_app_iff in Ha as [Ha|Ha]; apply in_app_iff; [auto | right; cbn; auto].
                ** right. cbn. auto.
             ++ left. exists (f_spreads f). split; [|exact Hc]. right. apply in_app_iff. right. cbn. auto.
          -- intros f' Hf'. apply in_app_iff in Hf' as [Hf'|[<-|[]]]; cbn; [auto | left; auto].
          -- rewrite map_app. cbn [map]. apply NoDup_snoc; [exact H6|].
             intro Hin. apply Em. rewrite <- Hfn. apply in_map_iff in Hin as (g & Hg1 & Hg2).
             rewrite <- Hg1. apply H5. exact Hg2.
        * apply (IH _ _ _ Q _ _ _ H).
          destruct HI as [H1 H2 H3 H4 H5 H6]. constructor; auto.
          -- intros sps s' [<-|Hs] Hin; [apply (H2 (s :: r) s'); cbn; auto | apply (H2 sps s'); cbn; auto].
          -- intros s' f' [<-|Hs'] Hr; [unfold Resolves in Hr; congruence | eauto].
          -- intros s' Hs'. destruct (H4 s' Hs') as [(sps & [<-|Ha] & Hb)|Hc].
             ++ destruct Hb as [<-|Hb]; [right; cbn; auto | left; exists r; cbn; auto].
             ++ left. exists sps. cbn. auto.
             ++ right. cbn. auto.
          -- intros f' Hf'. cbn. auto.
  Qed.

  Lemma refs_loop_inv fuel : forall stack col acc r,
    refs_loop fuel fs stack col acc = Some r -> Inv stack col acc -> exists col', Inv [] col' r.
  Proof.
    induction fuel as [|fuel IH]; intros stack col acc r H HI; [discriminate|].
    cbn in H. destruct stack as [|sps stack]; [inversion H; subst; eauto|].
    destruct (refs_step fs sps (col, acc, [])) as [[col' acc'] push] eqn:Es.
    apply (IH _ _ _ _ H). apply (refs_step_inv sps col acc [] stack col' acc' push Es) in HI.
    eapply Inv_equiv; [|exact HI]. intro x. rewrite !in_app_iff, <- in_rev. tauto.
  Qed.

  Lemma Inv_init : Inv [start] [] [].
  Proof.
    constructor; try (intros; cbn in *; tauto).
    - intros sps s [<-|[]] Hs. left. exact Hs.
    - intros s [Hs|(g & [] & _)]. left. exists start. cbn. auto.
    - constructor.
  Qed.

  Theorem refs_spec r : refs fs start = Some r ->
    (forall f, In f r <-> Reach fs start f) /\ NoDup (map f_name r).
  Proof.
    intro H. destruct (refs_loop_inv _ _ _ _ _ H Inv_init) as (col & [H1 H2 H3 H4 H5 H6]).
    split; [|exact H6]. intro f. split; [apply H1|].
    induction 1 as [s f Hs Hr | g s f Hg IH Hs Hr].
    - destruct (H4 s (or_introl Hs)) as [(sps & [] & _)|Hc]. eapply H3; eauto.
    - destruct (H4 s (or_intror (ex_intro _ g (conj IH Hs)))) as [(sps & [] & _)|Hc]. eapply H3; eauto.
  Qed.
End Reach.
