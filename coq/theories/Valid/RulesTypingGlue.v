(* From the rules' verdicts on the whole document to the per-definition facts of RulesTypingDoc:
   no error in any definition, and every variable usage of the operation and of every fragment
   accepted (VariablesInAllowedPosition + NoUndefinedVariables over get_recursive_variable_usages;
   NoUnusedFragments + UniqueFragmentNames make every fragment one of the operation's). *)
From Coq Require Import Relations.
From GV Require Import Base.Prelude Lang.Ast Exec.Value Exec.Schema Exec.Spec Exec.SpecProps Exec.Typing
  Exec.Soundness Valid.StaticTyping Valid.StaticTypingProps
  Valid.Rules Valid.RulesBase Valid.RulesSpec Valid.RulesGraph Valid.RulesCycles Valid.RulesProps
  Valid.Rules13 Valid.ToExec Valid.RulesLit Valid.RulesTyping Valid.RulesTypingDoc.

Lemma path_eqb_def a b : path_eqb [(O, a)] [(O, b)] = (a =? b)%nat.
Proof. cbn. rewrite andb_true_r. reflexivity. Qed.

Lemma evs_at_from (E : nat -> node -> list ev) l : forall i j n,
  nth_error l j = Some n ->
  evs_at (mapi_from (fun k m => ([(O, k)], E k m)) i l) [(O, (i + j)%nat)] = E (i + j)%nat n.
Proof.
  unfold evs_at. induction l as [|m l IH]; intros i [|j] n H; cbn in H; try discriminate.
  - inversion H; subst. cbn [mapi_from find fst]. rewrite path_eqb_def, Nat.add_0_r, Nat.eqb_refl. reflexivity.
  - cbn [mapi_from find fst]. rewrite path_eqb_def.
    replace (i =? i + S j)%nat with false by (symmetry; apply Nat.eqb_neq; lia).
    replace (i + S j)%nat with (S i + j)%nat by lia. apply IH. exact H.
Qed.

Lemma evs_at_nth (E : nat -> node -> list ev) l j n :
  nth_error l j = Some n -> evs_at (mapi (fun k m => ([(O, k)], E k m)) l) [(O, j)] = E j n.
Proof. intro H. apply (evs_at_from E l O j n H). Qed.

Lemma filter_single_index {A} (f : A -> bool) l a : filter f l = [a] ->
  forall i b i' b', nth_error l i = Some b -> f b = true -> nth_error l i' = Some b' -> f b' = true -> i = i'.
Proof.
  revert a. induction l as [|x l IH]; intros a Hf i b i' b' Hi Hb Hi' Hb'; [destruct i; discriminate|].
  cbn in Hf. destruct (f x) eqn:Ex.
  - inversion Hf as [[Ha Hr]].
    assert (Hnone : forall k c, nth_error l k = Some c -> f c = false).
    { intros k c Hk. destruct (f c) eqn:Ec; [|reflexivity]. exfalso.
      assert (Hin : In c (filter f l)) by (apply filter_In; split; [eapply nth_error_In; eauto | exact Ec]).
      rewrite Hr in Hin. destruct Hin. }
    destruct i as [|i], i' as [|i']; cbn in Hi, Hi'; try reflexivity.
    + rewrite (Hnone _ _ Hi') in Hb'. discriminate.
    + rewrite (Hnone _ _ Hi) in Hb. discriminate.
    + rewrite (Hnone _ _ Hi) in Hb. discriminate.
  - destruct i as [|i], i' as [|i']; cbn in Hi, Hi'.
    + reflexivity.
    + inversion Hi; subst. congruence.
    + inversion Hi'; subst. congruence.
    + f_equal. eapply IH; eauto.
Qed.

(* ---- variable definitions: the rules' table and the translation ---- *)
Definition vd_rel (vi : vdinfo) (vd : var_def) : Prop :=
  v_name vd = vi_name vi /\ v_type vd = ty_of (vi_type vi) /\
  has_nonnull_default (v_default vd) = vi_nonnull_default vi.

Section Vars.
  Variable fl : list N -> Z * N.

  Lemma ty_norm_wf t : ty_norm t = ty_wf t.
  Proof. induction t as [n|t IH|t IH]; cbn; [reflexivity | exact IH|]. destruct t; auto. Qed.

  (* what a translated variable definition looks like *)
  Lemma vardef_of_inv n vd : vardef_of fl n = Some vd ->
    exists a0 a1 t dv a4 r, n = Nd KVariableDefinition (a0 :: a1 :: ANode t :: dv :: a4 :: r) /\
      v_name vd = vardef_name n /\ v_type vd = ty_of t /\ ty_wf (ty_of t) = true /\
      match dv with
      | ANode v => exists xv, val_of fl v = Some xv /\ has_var xv = false /\ v_default vd = Some xv
      | _ => v_default vd = None
      end.
  Proof.
    destruct n as [k attrs]. destruct k; try discriminate.
    destruct attrs as [|a0 [|a1 [|[|t| | | |] [|dv [|a4 r]]]]]; try discriminate. cbn [vardef_of].
    destruct (ty_norm (ty_of t)) eqn:En; [|discriminate]. rewrite ty_norm_wf in En. intro H.
    exists a0, a1, t, dv, a4, r. split; [reflexivity|].
    destruct dv as [|v| | | |]; try (inversion H; subst; cbn; auto).
    destruct (val_of fl v) as [xv|] eqn:Ev; [|discriminate]. destruct (has_var xv) eqn:Eh; [discriminate|].
    inversion H; subst. cbn. repeat split; auto. exists xv. auto.
  Qed.

  Lemma vardef_rel p nodes : forall i vars,
    all_some (map (vardef_of fl) nodes) = Some vars ->
    exists infos, concat (mapi_from (fun j vd =>
      match vd with
      | Nd KVariableDefinition (_ :: _ :: ANode t :: dv :: _) =>
        [VDI (vardef_name vd) (p ++ [(3, j)]%nat) t
             (match dv with ANode v => negb (is_null_node v) | _ => false end)]
      | _ => []
      end) i nodes) = infos /\ Forall2 vd_rel infos vars.
  Proof.
    induction nodes as [|n nodes IH]; intros i vars H; cbn in H.
    - inversion H; subst. exists []. split; [reflexivity | constructor].
    - destruct (vardef_of fl n) as [vd|] eqn:Evd; [|discriminate].
      destruct (all_some (map (vardef_of fl) nodes)) as [rest|] eqn:Er; [|discriminate].
      cbn in H. inversion H; subst vars. destruct (IH (S i) rest eq_refl) as (infos & Hi & Hr).
      apply vardef_of_inv in Evd as (a0 & a1 & t & dv & a4 & r & -> & Hn & Ht & _ & Hd).
      cbn [mapi_from concat]. eexists. split; [rewrite Hi; reflexivity|]. cbn [app]. constructor; [|exact Hr].
      unfold vd_rel. cbn [vi_name vi_type vi_nonnull_default]. split; [exact Hn|]. split; [exact Ht|].
      destruct dv as [|v| | | |]; try (rewrite Hd; reflexivity).
      destruct Hd as (xv & Hv & _ & ->). cbn [has_nonnull_default].
      destruct xv; cbn; try (destruct (is_null_node v) eqn:En; [|reflexivity]; exfalso;
        destruct v as [kv av]; destruct kv; try discriminate En; cbn in Hv; discriminate Hv).
      apply (val_of_null fl) in Hv. rewrite Hv. reflexivity.
  Qed.

  Lemma find_vd_none x infos : ~ In x (map vi_name infos) -> find_vd x infos = None.
  Proof.
    induction infos as [|v r IH]; cbn; [reflexivity|]. intro H.
    rewrite IH by tauto. destruct (str_eqb x (vi_name v)) eqn:E; [|reflexivity].
    apply str_eqb_eq in E. exfalso. apply H. auto.
  Qed.

  Lemma find_rel infos vars : Forall2 vd_rel infos vars -> NoDup (map vi_name infos) ->
    forall x vi, find_vd x infos = Some vi -> exists vd, find_var x vars = Some vd /\ vd_rel vi vd.
  Proof.
    induction 1 as [|vi0 vd0 infos vars Hr H IH]; intros Hnd x vi Hf; [discriminate|].
    cbn in Hnd. inversion Hnd as [|? ? Hn Hnd']; subst. cbn in Hf. cbn [find_var].
    destruct Hr as (Hname & Hrest). rewrite Hname.
    destruct (str_eqb x (vi_name vi0)) eqn:E.
    - apply str_eqb_eq in E. subst x. rewrite find_vd_none in Hf by exact Hn. inversion Hf; subst.
      exists vd0. split; [reflexivity|]. split; assumption.
    - destruct (find_vd x infos) as [w|] eqn:Ew; [|discriminate]. inversion Hf; subst w.
      apply (IH Hnd' x vi Ew).
  Qed.
End Vars.

Lemma xdefs_doc d : xdefs d = mapi (fun j m => xdef_of [(O, j)] m) (doc_defs d).
Proof.
  destruct d as [k attrs]. destruct k; try reflexivity. destruct attrs as [|[| |l| | |] r]; reflexivity.
Qed.

Lemma to_exec_inv fl d x : to_exec fl None d = Some x ->
  exists jo ss a1 a2 vds a4 o r,
    let opn := Nd KOperationDefinition (ANode ss :: a1 :: a2 :: vds :: a4 :: AEnum o :: r) in
    filter (op_selected None) (doc_defs d) = [opn] /\ nth_error (doc_defs d) jo = Some opn /\
    all_some (map (vardef_of fl) (attr_list vds)) = Some (d_vars x) /\
    sels_of fl ss = Some (d_sels x) /\
    all_some (map (frag_of fl) (filter is_frag (doc_defs d))) = Some (d_frags x).
Proof.
  unfold to_exec. intro Hx.
  destruct (filter (op_selected None) (doc_defs d)) as [|opn [|n2 l2]] eqn:Ef; try discriminate.
  2:{ exfalso. destruct opn as [ko oattrs]. destruct ko; try discriminate Hx.
      destruct oattrs as [|[|ss| | | |] [|a1 [|a2 [|vds [|a4 [|[| | | | |o] r]]]]]]; discriminate Hx. }
  assert (Hopn : In opn (filter (op_selected None) (doc_defs d))) by (rewrite Ef; cbn; auto).
  apply filter_In_nth in Hopn as (jo & Ej & _).
  destruct opn as [ko oattrs]. destruct ko; try (cbn in Hx; discriminate Hx).
  destruct oattrs as [|[|ss| | | |] [|a1 [|a2 [|vds [|a4 [|[| | | | |o] r]]]]]]; try (cbn in Hx; discriminate Hx).
  destruct (if o =? 0 then Some OpQuery else if o =? 1 then Some OpMutation else None) as [k|]; [|discriminate].
  destruct (all_some (map (vardef_of fl) (attr_list vds))) as [vars|] eqn:Ev; [|discriminate].
  destruct (sels_of fl ss) as [sels|] eqn:Es; [|discriminate].
  destruct (all_some (map (frag_of fl) (filter is_frag (doc_defs d)))) as [frags|] eqn:Efr; [|discriminate].
  inversion Hx; subst x. exists jo, ss, a1, a2, vds, a4, o, r. cbn. auto.
Qed.

Lemma opt_concat_each {A B} (f : A -> option (list B)) l :
  opt_concat (map f l) = Some [] -> forall a, In a l -> f a = Some [].
Proof.
  induction l as [|a0 l IH]; intros H a Ha; [destruct Ha|]. cbn in H.
  destruct (f a0) as [y|] eqn:E0; [|discriminate]. destruct (opt_concat (map f l)) as [z|] eqn:Ez; [|discriminate].
  inversion H as [Hyz]. apply app_eq_nil in Hyz as [-> ->].
  destruct Ha as [<-|Ha]; [exact E0 | apply IH; [reflexivity | exact Ha]].
Qed.

Lemma rel_names infos vars : Forall2 vd_rel infos vars -> map vi_name infos = map v_name vars.
Proof. induction 1 as [|vi vd i v Hr H IH]; [reflexivity|]. cbn. destruct Hr as [Hn _]. rewrite Hn, IH. reflexivity. Qed.

Lemma vardef_names fl nodes vars : all_some (map (vardef_of fl) nodes) = Some vars ->
  map v_name vars = map vardef_name nodes.
Proof.
  intro H. apply all_some_Forall2 in H. induction H as [|n vd ns vs0 Hn H IH]; [reflexivity|].
  cbn. apply vardef_of_inv in Hn as (? & ? & ? & ? & ? & ? & _ & Hname & _). rewrite Hname, IH. reflexivity.
Qed.

Lemma allowed13_eq vt vdflt lt ld :
  allowed13 vt (has_nonnull_default vdflt) lt ld = allowed_usage vt vdflt lt ld.
Proof. reflexivity. Qed.

Lemma reach_in fs start f : Reach fs start f -> In f fs.
Proof. intros [s0 f0 _ Hr | g s0 f0 _ _ Hr]; apply get_fragment_Some in Hr; tauto. Qed.

Section Glue.
  Variable vs : vschema.
  Variable fl : list N -> Z * N.
  Variable d : node.
  Variable x : document.
  Hypothesis Hx : to_exec fl None d = Some x.
  Hypothesis Hlocal : local_errs vs d = [].
  Hypothesis Hvarpos : rule_variables_in_allowed_position vs d = Some [].
  Hypothesis Hundef : rule_undefined13 vs d = Some [].
  Hypothesis Hufrag : rule_unique_fragment_names d = [].
  Hypothesis Hunused : rule_no_unused_fragments d = Some [].
  Hypothesis Huvar : rule_unique_variable_names d = [].

  Lemma defs_errs j n : nth_error (doc_defs d) j = Some n ->
    errs_of (def_evs vs (frag_conds d) [(O, j)] n) = [].
  Proof.
    intro Hj. unfold local_errs, all_def_evs, all_def_evs_gen in Hlocal.
    apply (proj1 (flat_map_nil _ _) Hlocal ([(O, j)], def_evs vs (frag_conds d) [(O, j)] n)).
    unfold mapi. apply In_mapi_from. exists j, n. auto.
  Qed.

  Lemma tbl_at j n : nth_error (doc_defs d) j = Some n ->
    evs_at (all_def_evs vs d) [(O, j)] = def_evs vs (frag_conds d) [(O, j)] n.
  Proof.
    intro Hj. unfold all_def_evs, all_def_evs_gen.
    apply (evs_at_nth (fun k m => def_evs_gen false vs (frag_conds d) [(O, k)] m) _ _ _ Hj).
  Qed.

  Theorem defs_ok j n : nth_error (doc_defs d) j = Some n ->
    errs_of (def_evs vs (frag_conds d) [(O, j)] n) = [] /\
    uses_ok (d_vars x) (def_evs vs (frag_conds d) [(O, j)] n).
  Proof.
    intro Hj. split; [apply defs_errs; exact Hj|].
    destruct (to_exec_inv _ _ _ Hx) as (jo & ss & a1 & a2 & vds & a4 & o & r & Hfilt & Ejo & Evars & _ & _).
    cbv zeta in Hfilt, Ejo.
    set (opn := Nd KOperationDefinition (ANode ss :: a1 :: a2 :: vds :: a4 :: AEnum o :: r)) in *.
    set (xs := xdefs d). set (fs := frags_of xs).
    (* the operation as the rules see it *)
    destruct (xdef_of [(O, jo)] opn) as [op| |] eqn:Exo; try discriminate Exo.
    assert (Hopath : o_path op = [(O, jo)]) by (cbn in Exo; inversion Exo; reflexivity).
    assert (Hovdefs : o_vdefs op = vdefs_of [(O, jo)] vds) by (cbn in Exo; inversion Exo; reflexivity).
    assert (Hxop : In (XOp op) xs).
    { unfold xs. rewrite xdefs_doc. unfold mapi. apply In_mapi_from. exists jo, opn. split; [exact Ejo|].
      symmetry. exact Exo. }
    assert (Hop : In op (ops_of xs)) by (apply In_ops; exact Hxop).
    (* its usages are checked *)
    pose proof (opt_concat_each _ _ Hvarpos op Hop) as Hvp.
    pose proof (opt_concat_each _ _ Hundef op Hop) as Hud.
    unfold varpos_op in Hvp. unfold undef_op in Hud. fold xs in Hvp, Hud. fold fs in Hvp, Hud.
    destruct (refs fs (o_spreads op)) as [rf|] eqn:Erf; [|discriminate].
    inversion Hvp as [Hvp']. inversion Hud as [Hud']. clear Hvp Hud.
    rewrite Hopath in Hvp', Hud'.
    set (us := uses_of (evs_at (all_def_evs vs d) [(O, jo)]) ++
               flat_map (fun f => uses_of (evs_at (all_def_evs vs d) (f_path f))) rf) in *.
    assert (Hinfos : op_vdinfos d [(O, jo)] = vdinfos [(O, jo)] (attr_list vds)).
    { unfold op_vdinfos. rewrite Ejo. reflexivity. }
    rewrite Hinfos in Hvp', Hud'.
    destruct (vardef_rel fl [(O, jo)] (attr_list vds) O (d_vars x) Evars) as (infos & Hinf & Hrel).
    assert (Hvdi : vdinfos [(O, jo)] (attr_list vds) = infos) by (rewrite <- Hinf; reflexivity).
    rewrite Hvdi in Hvp', Hud'.
    (* names of the variable definitions are distinct *)
    assert (Hnames : map vi_name infos = map vardef_name (attr_list vds)).
    { rewrite (rel_names _ _ Hrel). apply (vardef_names fl). exact Evars. }
    assert (Hnd : NoDup (map vi_name infos)).
    { pose proof (proj1 (unique_variable_names_nil d) Huvar op Hop) as Hu. unfold UniqueNames, var_names in Hu.
      rewrite map_map in Hu. cbn [fst] in Hu. rewrite Hovdefs in Hu. rewrite Hnames.
      destruct vds as [| |nodes| | |]; try constructor. cbn [vdefs_of attr_list] in *.
      unfold mapi in Hu. rewrite map_mapi_from in Hu. cbn [vd_name] in Hu.
      assert (E : forall (L : list node) i, mapi_from (fun (_ : nat) (a : node) => vardef_name a) i L = map vardef_name L).
      { induction L as [|a L IHL]; intro i; cbn; [reflexivity | rewrite IHL; reflexivity]. }
      rewrite E in Hu. exact Hu. }
    (* their types are known *)
    assert (Htfa : forall vi, In vi infos -> tfa vs (vi_type vi) = Some (ty_of (vi_type vi))).
    { intros vi Hvi. rewrite <- Hinf in Hvi. apply in_concat in Hvi as (lst & Hl & Hvi).
      apply In_mapi_from in Hl as (i & n0 & Hi & ->).
      pose proof (all_some_map _ _ _ Evars) as [_ Hn]. destruct (Hn i n0 Hi) as (vd & Hvd & _).
      apply vardef_of_inv in Hvd as (b0 & b1 & t & dv & b4 & r' & -> & _).
      cbn in Hvi. destruct Hvi as [<-|[]]. cbn [vi_type].
      pose proof (defs_errs jo opn Ejo) as He. unfold opn in He. cbn [def_evs def_evs_gen] in He.
      rewrite errs_of_app in He. apply app_eq_nil in He as [He _]. unfold vardef_evs in He.
      pose proof (mapi_nth_errs _ _ _ _ He Hi) as He'. cbv beta iota in He'.
      unfold tfa in *. destruct (in_map vs (named_of (ty_of t))); [reflexivity|]. cbn in He'. discriminate. }
    (* every usage in [us] is accepted *)
    assert (Hus : forall u, In u us -> usage_ok (d_vars x) u).
    { intros u Hu.
      pose proof (proj1 (flat_map_nil _ _) Hud' u Hu) as Hd. cbv beta in Hd.
      destruct (find_vd (tu_name u) infos) as [vi|] eqn:Efv; [|discriminate].
      destruct (find_rel fl _ _ Hrel Hnd _ _ Efv) as (vd & Hfind & Hn & Ht & Hdf).
      exists vd. split; [exact Hfind|]. intros lt Hlt.
      pose proof (proj1 (flat_map_nil _ _) Hvp' u Hu) as Hp. unfold usage_errs in Hp.
      rewrite Efv, Hlt in Hp.
      assert (Hvi : In vi infos).
      { clear -Efv. induction infos as [|v0 r0 IH]; [discriminate|]. cbn in Efv.
        destruct (find_vd (tu_name u) r0) eqn:E; [inversion Efv; subst; right; apply IH; reflexivity|].
        destruct (str_eqb (tu_name u) (vi_name v0)); [inversion Efv; left; reflexivity | discriminate]. }
      rewrite (Htfa vi Hvi), <- Ht, <- Hdf, allowed13_eq in Hp.
      apply app_eq_nil in Hp as [Hp1 Hp2].
      destruct (allowed_usage (v_type vd) (v_default vd) lt (tu_default u)); [|discriminate]. split; [reflexivity|].
      intro Ho. rewrite Ho in Hp2. cbn [andb] in Hp2. destruct (is_nonnull (v_type vd)); [reflexivity | discriminate]. }
    (* the definition at hand *)
    intros u Hu. apply Hus. unfold us.
    destruct (Nat.eq_dec j jo) as [->|Hne].
    - rewrite Ejo in Hj. inversion Hj; subst n. apply in_app_iff. left. rewrite (tbl_at _ _ Ejo). exact Hu.
    - (* not the operation: a fragment definition, used by the operation *)
      apply in_app_iff. right.
      destruct n as [k attrs]. destruct k; try (cbn in Hu; destruct Hu).
      + (* fragment definition *)
        destruct attrs as [|[|fss| | | |] [|b1 [|b2 [|b3 [|ds [|[|tc| | | |] r']]]]]]; try (cbn in Hu; destruct Hu).
        set (fn := Nd KFragmentDefinition (ANode fss :: b1 :: b2 :: b3 :: ds :: ANode tc :: r')) in *.
        destruct (xdef_of [(O, j)] fn) as [|f|] eqn:Exf; try discriminate Exf.
        assert (Hfpath : f_path f = [(O, j)]) by (cbn in Exf; inversion Exf; reflexivity).
        assert (Hxf : In (XFrag f) xs).
        { unfold xs. rewrite xdefs_doc. unfold mapi. apply In_mapi_from. exists j, fn. split; [exact Hj|].
          symmetry. exact Exf. }
        assert (Hf : In f fs) by (apply In_frags; exact Hxf).
        destruct (proj1 (no_unused_fragments_nil d [] Hunused) eq_refl f Hf) as (o' & f' & Ho' & Hreach & Hname).
        (* the only operation *)
        assert (o' = op).
        { apply In_ops in Ho'. fold xs in Ho'. unfold xs in Ho'. rewrite xdefs_doc in Ho'. unfold mapi in Ho'.
          apply In_mapi_from in Ho' as (j' & n' & Hj' & Hxo'). cbn [plus] in Hxo'.
          assert (Hsel : op_selected None n' = true).
          { destruct n' as [k' at']. destruct k'; try discriminate Hxo'.
            - destruct at' as [|? [|? [|? [|? ?]]]]; discriminate Hxo'.
            - destruct at' as [|? [|? [|? ?]]]; try discriminate Hxo'. reflexivity. }
          assert (j' = jo).
          { eapply (filter_single_index _ _ _ Hfilt); eauto. }
          subst j'. rewrite Ejo in Hj'. inversion Hj'; subst n'. rewrite Exo in Hxo'. inversion Hxo'. reflexivity. }
        subst o'.
        assert (Hndf : NoDup (map f_name fs)).
        { pose proof (proj1 (unique_fragment_names_nil d) Hufrag) as Hu'. unfold UniqueNames in Hu'.
          rewrite (named_frags_names d) in Hu'. exact Hu'. }
        assert (f' = f) by (apply (name_inj fs Hndf); [eapply reach_in; eauto | exact Hf | exact Hname]).
        subst f'. destruct (refs_spec fs _ _ Erf) as [Hrs _]. apply Hrs in Hreach.
        apply in_flat_map. exists f. split; [exact Hreach|]. rewrite Hfpath, (tbl_at _ _ Hj). exact Hu.
      + (* another operation definition cannot exist *)
        exfalso. destruct attrs as [|[|oss| | | |] [|c1 [|c2 [|c3 [|c4 [|c5 r']]]]]]; try (cbn in Hu; destruct Hu).
        apply Hne. eapply (filter_single_index _ _ _ Hfilt); eauto.
  Qed.
End Glue.
