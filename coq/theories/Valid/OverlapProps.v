(* Proofs about the specification function of Valid/Overlap.v: termination (neither fuel is
   ever exhausted, whatever the fragment spread graph) and sanity lemmas. *)
From GV Require Import Base.Prelude Valid.Overlap.

(* ---------------------------------------------------------------- verdict algebra *)
Lemma vjoin_fuel a b : vjoin a b = VFuel <-> a = VFuel \/ b = VFuel.
Proof.
  destruct a, b; cbn; split; intro H; try discriminate; auto;
    destruct H as [H|H]; discriminate.
Qed.

Lemma fold_no_fuel {A} (f : A -> verdict) (l : list A) :
  (forall y, In y l -> f y <> VFuel) ->
  fold_right (fun y acc => vjoin (f y) acc) VNo l <> VFuel.
Proof.
  induction l as [|y r IH]; cbn; intros H.
  - discriminate.
  - intro Hc. apply vjoin_fuel in Hc as [Hc|Hc].
    + exact (H y (or_introl eq_refl) Hc).
    + apply IH; auto.
Qed.

(* an invariant of the threaded state is preserved and no step runs out of fuel *)
Lemma row_inv {A S} (I : S -> Prop) (f : S -> A -> verdict * S) (l : list A) :
  (forall st y, In y l -> I st -> fst (f st y) <> VFuel /\ I (snd (f st y))) ->
  forall st, I st -> fst (row f st l) <> VFuel /\ I (snd (row f st l)).
Proof.
  induction l as [|y r IH]; cbn [row]; intros H st Hst.
  - cbn. split; [discriminate | exact Hst].
  - destruct (H st y (or_introl eq_refl) Hst) as [H1 H2].
    destruct (f st y) as [v1 st1]. cbn [fst snd] in *.
    destruct (IH (fun st y Hy => H st y (or_intror Hy)) st1 H2) as [H3 H4].
    destruct (row f st1 r) as [v2 st2]. cbn [fst snd] in *. split; auto.
    intro Hc. apply vjoin_fuel in Hc as [Hc|Hc]; auto.
Qed.

Lemma pairs_inv {A S} (I : S -> Prop) (f : S -> A -> A -> verdict * S) (l : list A) :
  (forall st x y, In x l -> In y l -> I st -> fst (f st x y) <> VFuel /\ I (snd (f st x y))) ->
  forall st, I st -> fst (pairs f st l) <> VFuel /\ I (snd (pairs f st l)).
Proof.
  induction l as [|x r IH]; cbn [pairs]; intros H st Hst.
  - cbn. split; [discriminate | exact Hst].
  - destruct (row_inv I (fun st y => f st x y) r
                (fun st y Hy => H st x y (or_introl eq_refl) (or_intror Hy)) st Hst) as [H1 H2].
    destruct (row (fun st y => f st x y) st r) as [v1 st1]. cbn [fst snd] in *.
    destruct (IH (fun st x y Hx Hy => H st x y (or_intror Hx) (or_intror Hy)) st1 H2) as [H3 H4].
    destruct (pairs f st1 r) as [v2 st2]. cbn [fst snd] in *. split; auto.
    intro Hc. apply vjoin_fuel in Hc as [Hc|Hc]; auto.
Qed.

(* ---------------------------------------------------------------- visited sets *)
Lemma mem_In n l : mem n l = true <-> In n l.
Proof.
  unfold mem. rewrite existsb_exists. split.
  - intros [x [H1 H2]]. apply N.eqb_eq in H2. subst. exact H1.
  - intro H. exists n. split; auto. apply N.eqb_refl.
Qed.

(* number of fragment definitions whose name has not been visited *)
Fixpoint unvis (frags : list fragdef) (v : list N) : nat :=
  match frags with
  | [] => O
  | fd :: r => ((if mem (fr_name fd) v then 0 else 1) + unvis r v)%nat
  end.

Lemma unvis_nil frags : unvis frags [] = length frags.
Proof. induction frags; cbn; auto. Qed.

Lemma mem_incl n v v' : incl v v' -> mem n v = true -> mem n v' = true.
Proof. intros Hi H. apply mem_In. apply Hi. apply mem_In. exact H. Qed.

Lemma unvis_incl frags v v' : incl v v' -> (unvis frags v' <= unvis frags v)%nat.
Proof.
  intro Hi. induction frags as [|fd r IH]; cbn; auto.
  destruct (mem (fr_name fd) v) eqn:E.
  - rewrite (mem_incl _ _ _ Hi E). lia.
  - destruct (mem (fr_name fd) v'); lia.
Qed.

Lemma unvis_add frags v fd :
  In fd frags -> mem (fr_name fd) v = false ->
  (unvis frags (fr_name fd :: v) < unvis frags v)%nat.
Proof.
  induction frags as [|a r IH]; intros Hin Hm; [contradiction|].
  cbn [unvis].
  pose proof (unvis_incl r v (fr_name fd :: v) (incl_tl _ (incl_refl v))) as Hle.
  destruct Hin as [->|Hin].
  - rewrite Hm. assert (mem (fr_name fd) (fr_name fd :: v) = true) as ->.
    { apply mem_In. left. reflexivity. }
    lia.
  - specialize (IH Hin Hm).
    destruct (mem (fr_name a) v) eqn:E.
    + rewrite (mem_incl _ _ _ (incl_tl _ (incl_refl v)) E). lia.
    + destruct (mem (fr_name a) (fr_name fd :: v)); lia.
Qed.

Lemma find_frag_some frags n fd : find_frag frags n = Some fd -> In fd frags /\ fr_name fd = n.
Proof.
  unfold find_frag. intro H. apply find_some in H as [H1 H2]. apply N.eqb_eq in H2. auto.
Qed.

(* ---------------------------------------------------------------- collection is total *)
Section Universe.
  Variable U : list N.                 (* field ids of the document *)
  Variable frags : list fragdef.

  Definition entry_ok (e : entry) : Prop :=
    In (f_id (e_fld e)) U /\ incl (fids_sels (e_sub e)) U.
  Definition frags_ok : Prop := forall fd, In fd frags -> incl (fids_sels (fr_body fd)) U.

  Definition good (B : nat) (c : collect_fn) : Prop :=
    forall p ss st, (unvis frags (fst st) <= B)%nat -> incl (fids_sels ss) U ->
      Forall entry_ok (snd st) ->
      exists st', c p ss st = Some st' /\ incl (fst st) (fst st') /\ Forall entry_ok (snd st').

  Lemma incl_app_l {A} (a b c : list A) : incl (a ++ b) c -> incl a c.
  Proof. intros H x Hx. apply H. apply in_or_app. auto. Qed.
  Lemma incl_app_r {A} (a b c : list A) : incl (a ++ b) c -> incl b c.
  Proof. intros H x Hx. apply H. apply in_or_app. auto. Qed.
  Lemma incl_cons_l {A} (x : A) (a c : list A) : incl (x :: a) c -> In x c /\ incl a c.
  Proof. intro H. split; [apply H; left; reflexivity | intros y Hy; apply H; right; exact Hy]. Qed.

  Hypothesis Hfr : frags_ok.

  Lemma collect_go_good (B : nat) (rec : collect_fn) :
    (forall p ss st, (S (unvis frags (fst st)) <= B)%nat -> incl (fids_sels ss) U ->
       Forall entry_ok (snd st) ->
       exists st', rec p ss st = Some st' /\ incl (fst st) (fst st') /\ Forall entry_ok (snd st')) ->
    good B (collect_go frags rec).
  Proof.
    intros Hrec p ss. revert p.
    induction ss as [|f sub IHsub rest IHrest|iid tc sub IHsub rest IHrest|n rest IHrest];
      intros p st HB Hin Hok; cbn [collect_go fids_sels] in *.
    - exists st. repeat split; auto. apply incl_refl.
    - apply incl_cons_l in Hin as [Hf Hin].
      destruct (IHrest p (fst st, snd st ++ [mkEntry p f sub])) as [st' [H1 [H2 H3]]]; cbn [fst snd]; auto.
      + eapply incl_app_r; eauto.
      + apply Forall_app. split; auto. constructor; auto. split; cbn; auto. eapply incl_app_l; eauto.
      + exists st'. auto.
    - destruct (IHsub (match tc with Some t => t | None => p end) st) as [st1 [H1 [H2 H3]]]; auto.
      { eapply incl_app_l; eauto. }
      rewrite H1.
      destruct (IHrest p st1) as [st2 [K1 [K2 K3]]]; auto.
      { pose proof (unvis_incl frags _ _ H2). lia. }
      { eapply incl_app_r; eauto. }
      exists st2. repeat split; auto. eapply incl_tran; eauto.
    - destruct (mem n (fst st)) eqn:Em.
      + apply IHrest; auto.
      + destruct (find_frag frags n) as [fd|] eqn:Ef.
        * apply find_frag_some in Ef as [Hfd Hname]. subst n.
          pose proof (unvis_add frags (fst st) fd Hfd Em) as Hlt.
          destruct (Hrec (fr_type fd) (fr_body fd) (fr_name fd :: fst st, snd st))
            as [st1 [H1 [H2 H3]]]; cbn [fst snd]; auto; [lia|].
          cbn [fst snd] in H2. rewrite H1.
          destruct (IHrest p st1) as [st2 [K1 [K2 K3]]]; auto.
          { pose proof (unvis_incl frags _ _ H2). lia. }
          exists st2. repeat split; auto.
          intros x Hx. apply K2. apply H2. right. exact Hx.
        * destruct (IHrest p (n :: fst st, snd st)) as [st2 [K1 [K2 K3]]]; cbn [fst snd]; auto.
          { pose proof (unvis_incl frags (fst st) (n :: fst st) (incl_tl _ (incl_refl _))). lia. }
          exists st2. repeat split; auto.
          intros x Hx. apply K2. right. exact Hx.
  Qed.

  Lemma collect_good fuel : good fuel (collect frags fuel).
  Proof.
    induction fuel as [|f IH]; cbn [collect]; apply collect_go_good.
    - intros p ss st H. lia.
    - intros p ss st H. apply IH. lia.
  Qed.

  (* ---------------------------------------------------------------- pair comparison *)
  Definition KU : list pkey := list_prod (list_prod U U) [true; false].

  Lemma key_in a b so : In a U -> In b U -> In (a, b, so) KU.
  Proof.
    intros Ha Hb. unfold KU. apply in_prod. { apply in_prod; assumption. }
    destruct so; cbn; auto.
  Qed.

  Lemma pkey_eqb_eq a b : pkey_eqb a b = true <-> a = b.
  Proof.
    destruct a as [[a1 a2] a3], b as [[b1 b2] b3]. unfold pkey_eqb. cbn [fst snd].
    rewrite !andb_true_iff, !N.eqb_eq, Bool.eqb_true_iff. split.
    - intros [[-> ->] ->]. reflexivity.
    - intro H. inversion H. auto.
  Qed.

  Lemma pkey_mem_In k l : pkey_mem k l = true <-> In k l.
  Proof.
    unfold pkey_mem. rewrite existsb_exists. split.
    - intros [x [H1 H2]]. apply pkey_eqb_eq in H2. subst. exact H1.
    - intro H. exists k. split; auto. apply pkey_eqb_eq. reflexivity.
  Qed.

  Variable s : schema.

  (* invariant of the visited set *)
  Definition vis_ok (vis : list pkey) : Prop := NoDup vis /\ incl vis KU.

  Lemma conf_no_fuel fuel : forall vis so a b,
    vis_ok vis -> (length KU < fuel + length vis)%nat ->
    entry_ok a -> entry_ok b ->
    let r := conf s frags (length frags) fuel vis so a b in
    fst r <> VFuel /\ vis_ok (snd r) /\ (length vis <= length (snd r))%nat.
  Proof.
    induction fuel as [|f IH]; intros vis so a b Hvis Hlen Ha Hb.
    - destruct Hvis as [Hnd Hincl]. pose proof (NoDup_incl_length Hnd Hincl). lia.
    - cbn [conf]. unfold conf_step.
      destruct (pkey_mem (f_id (e_fld a), f_id (e_fld b), so) vis) eqn:Em.
      { cbn. repeat split; try apply Hvis; auto; discriminate. }
      assert (Hk : In (f_id (e_fld a), f_id (e_fld b), so) KU)
        by (apply key_in; [exact (proj1 Ha) | exact (proj1 Hb)]).
      assert (Hv1 : vis_ok ((f_id (e_fld a), f_id (e_fld b), so) :: vis)).
      { destruct Hvis as [Hnd Hincl]. split.
        - constructor; auto. intro Hc. apply pkey_mem_In in Hc. congruence.
        - intros z [<-|Hz]; auto. }
      set (vis1 := (f_id (e_fld a), f_id (e_fld b), so) :: vis) in *.
      assert (Hl1 : (length vis <= length vis1)%nat) by (unfold vis1; simpl; lia).
      destruct (field_type s (e_parent a) (f_name (e_fld a))) as [ta|];
        [|cbn; repeat split; try apply Hv1; auto; discriminate].
      destruct (field_type s (e_parent b) (f_name (e_fld b))) as [tb|];
        [|cbn; repeat split; try apply Hv1; auto; discriminate].
      cbv zeta.
      match goal with |- context [if ?c then (VConflict, vis1) else _] => destruct c end;
        [cbn; repeat split; try apply Hv1; auto; discriminate|].
      destruct (shape_conflict s ta tb);
        [cbn; repeat split; try apply Hv1; auto; discriminate|].
      destruct (collect_good (length frags) (named ta) (e_sub a) ([], []))
        as [st1 [H1 [_ H3]]]; cbn [fst snd]; auto.
      { rewrite unvis_nil. lia. } { exact (proj2 Ha). }
      rewrite H1.
      destruct (collect_good (length frags) (named tb) (e_sub b) st1) as [st2 [K1 [_ K3]]]; auto.
      { pose proof (unvis_incl frags [] (fst st1) (incl_nil_l _)). rewrite unvis_nil in H. lia. }
      { exact (proj2 Hb). }
      rewrite K1.
      rewrite Forall_forall in K3.
      match goal with |- context [pairs ?g vis1 (snd st2)] => set (g0 := g) end.
      destruct (pairs_inv (fun v => vis_ok v /\ (length vis1 <= length v)%nat) g0 (snd st2)) with (st := vis1)
        as [P1 [P2 P3]].
      + intros v x y Hx Hy [Hv Hlv]. unfold g0.
        destruct (same_rname x y).
        * destruct (IH v (so || (negb (e_parent a =? e_parent b) && is_object s (e_parent a) && is_object s (e_parent b))) x y)
            as [Q1 [Q2 Q3]]; auto.
          { unfold vis1 in Hlv. cbn [length] in Hlv. lia. }
          split; auto. split; auto. lia.
        * cbn. split; [discriminate|]. split; auto.
      + split; auto.
      + split; auto. split; auto. lia.
  Qed.

  Lemma check_set_no_fuel p ss :
    incl (fids_sels ss) U -> check_set s frags (length frags) (S (length KU)) p ss <> VFuel.
  Proof.
    intro Hin. unfold check_set.
    destruct (collect_good (length frags) p ss ([], [])) as [st [H1 [_ H3]]]; cbn [fst snd]; auto.
    { rewrite unvis_nil. lia. }
    rewrite H1. rewrite Forall_forall in H3.
    match goal with |- fst (pairs ?g [] (snd st)) <> _ => set (g0 := g) end.
    apply (pairs_inv vis_ok g0 (snd st)).
    - intros v x y Hx Hy Hv. unfold g0. destruct (same_rname x y).
      + destruct (conf_no_fuel (S (length KU)) v false x y) as [Q1 [Q2 Q3]]; auto. lia.
      + cbn. split; [discriminate | exact Hv].
    - split; [constructor | intros z []].
  Qed.

  Lemma walk_no_fuel (chk : N -> sels -> verdict) :
    (forall p ss, incl (fids_sels ss) U -> chk p ss <> VFuel) ->
    forall ss p, incl (fids_sels ss) U -> walk s chk p ss <> VFuel.
  Proof.
    intros Hchk.
    induction ss as [|f sub IHsub rest IHrest|iid tc sub IHsub rest IHrest|n rest IHrest];
      intros p Hin; cbn [walk fids_sels] in *.
    - discriminate.
    - apply incl_cons_l in Hin as [Hf Hin].
      intro Hc. apply vjoin_fuel in Hc as [Hc|Hc].
      + destruct (field_type s p (f_name f)) as [t|]; [|discriminate].
        assert (Hs : incl (fids_sels sub) U) by (eapply incl_app_l; eauto).
        assert (Hj : vjoin (chk (named t) sub) (walk s chk (named t) sub) <> VFuel).
        { intro Hj. apply vjoin_fuel in Hj as [Hj|Hj]; [exact (Hchk _ _ Hs Hj) | exact (IHsub _ Hs Hj)]. }
        destruct sub; [discriminate| | |]; exact (Hj Hc).
      + revert Hc. apply IHrest. eapply incl_app_r; eauto.
    - intro Hc. apply vjoin_fuel in Hc as [Hc|Hc].
      + assert (Hs : incl (fids_sels sub) U) by (eapply incl_app_l; eauto).
        destruct (is_composite s match tc with Some t => t | None => p end); [|discriminate].
        apply vjoin_fuel in Hc as [Hc|Hc]; [exact (Hchk _ _ Hs Hc) | exact (IHsub _ Hs Hc)].
      + revert Hc. apply IHrest. eapply incl_app_r; eauto.
    - apply IHrest. exact Hin.
  Qed.

  Lemma check_root_no_fuel p ss :
    incl (fids_sels ss) U ->
    check_root s (check_set s frags (length frags) (S (length KU))) p ss <> VFuel.
  Proof.
    intro Hin. unfold check_root. destruct (is_composite s p); [|discriminate].
    intro Hc. apply vjoin_fuel in Hc as [Hc|Hc].
    - exact (check_set_no_fuel p ss Hin Hc).
    - revert Hc. apply walk_no_fuel; auto. intros; apply check_set_no_fuel; auto.
  Qed.
End Universe.

Lemma KU_length U : length (KU U) = (length U * length U * 2)%nat.
Proof. unfold KU. etransitivity; [apply prod_length|]. rewrite prod_length. reflexivity. Qed.

(* The specification function terminates: neither the fragment-expansion fuel nor the
   nesting fuel is exhausted, for every schema and every document (cyclic and mutually
   recursive spreads included). *)
Theorem spec_verdict_terminates s d : spec_verdict s d <> VFuel.
Proof.
  unfold spec_verdict, collect_fuel, depth_fuel.
  set (U := doc_fids d). rewrite <- (KU_length U).
  assert (Hfr : frags_ok U (d_frags d)).
  { intros fd Hfd x Hx. unfold U, doc_fids. apply in_or_app. right.
    apply in_flat_map. exists fd. auto. }
  intro Hc. apply vjoin_fuel in Hc as [Hc|Hc]; revert Hc.
  - apply (fold_no_fuel (fun o => check_root s _ (fst o) (snd o))).
    intros o Ho. apply check_root_no_fuel; auto.
    intros x Hx. unfold U, doc_fids. apply in_or_app. left. apply in_flat_map. exists o. auto.
  - apply (fold_no_fuel (fun fd => check_root s _ (fr_type fd) (fr_body fd))).
    intros fd Hfd. apply check_root_no_fuel; auto.
Qed.

(* ---------------------------------------------------------------- sanity of the spec function *)
Theorem shape_conflict_sym s a : forall b, shape_conflict s a b = shape_conflict s b a.
Proof.
  induction a as [x|a IH|a IH]; intros [y|b|b]; cbn; auto.
  rewrite (orb_comm (is_leaf s x)), (N.eqb_sym x y). reflexivity.
Qed.

Theorem shape_conflict_refl s a : shape_conflict s a a = false.
Proof.
  induction a as [x|a IH|a IH]; cbn; auto.
  rewrite N.eqb_refl. destruct (is_leaf s x); reflexivity.
Qed.

(* a selection set of plain fields with pairwise distinct response names *)
Fixpoint fields_only (ss : sels) : Prop :=
  match ss with
  | SelNil => True
  | SelField _ _ rest => fields_only rest
  | _ => False
  end.
Fixpoint rnames (ss : sels) : list N :=
  match ss with
  | SelField f _ rest => f_rname f :: rnames rest
  | _ => []
  end.
Fixpoint entries_of (p : N) (ss : sels) : list entry :=
  match ss with
  | SelField f sub rest => mkEntry p f sub :: entries_of p rest
  | _ => []
  end.

Lemma collect_go_fields frags rec p ss : forall st, fields_only ss ->
  collect_go frags rec p ss st = Some (fst st, snd st ++ entries_of p ss).
Proof.
  induction ss as [|f sub _ rest IH| |]; intros st H; cbn in *; try contradiction.
  - rewrite app_nil_r. destruct st; reflexivity.
  - rewrite IH by exact H. cbn [fst snd]. rewrite <- app_assoc. reflexivity.
Qed.

Lemma entries_rnames p ss : map (fun e => f_rname (e_fld e)) (entries_of p ss) = rnames ss.
Proof. induction ss; cbn; auto. f_equal. assumption. Qed.

Lemma pairs_distinct {S} (g : S -> entry -> entry -> verdict * S) l (st : S) :
  NoDup (map (fun e => f_rname (e_fld e)) l) ->
  pairs (fun st x y => if same_rname x y then g st x y else (VNo, st)) st l = (VNo, st).
Proof.
  induction l as [|x r IH]; cbn [pairs map]; intro H; auto.
  inversion H as [|? ? Hn Hr]; subst.
  assert (row (fun st y => if same_rname x y then g st x y else (VNo, st)) st r = (VNo, st)) as ->.
  { clear IH H Hr. induction r as [|y r IHr]; cbn [row]; auto.
    unfold same_rname at 1.
    destruct (f_rname (e_fld x) =? f_rname (e_fld y)) eqn:E.
    - apply N.eqb_eq in E. exfalso. apply Hn. cbn. left. symmetry. exact E.
    - rewrite IHr; auto. intro Hc. apply Hn. cbn. right. exact Hc. }
  rewrite (IH Hr). reflexivity.
Qed.

Theorem distinct_names_never_conflict s frags cf df p ss :
  fields_only ss -> NoDup (rnames ss) -> check_set s frags cf df p ss = VNo.
Proof.
  intros Hf Hn. unfold check_set.
  assert (collect frags cf p ss ([], []) = Some ([], [] ++ entries_of p ss)) as ->.
  { destruct cf; cbn [collect]; apply (collect_go_fields _ _ _ _ ([], [])); exact Hf. }
  cbn [snd app]. rewrite pairs_distinct; [reflexivity|].
  rewrite entries_rnames. exact Hn.
Qed.
