(* Generic lemmas for Valid/Rules.v: list helpers, string equality, an induction principle for
   the nested tree type. *)
From GV Require Import Base.Prelude Lang.Ast Valid.Rules.

Lemma streq_eq a b : streq a b = true <-> a = b.
Proof. apply nat_list_eqb_eq. Qed.

Lemma streq_refl a : streq a a = true.
Proof. apply streq_eq. reflexivity. Qed.

Lemma streq_neq a b : streq a b = false <-> a <> b.
Proof.
  split; intro H.
  - intro E. apply streq_eq in E. congruence.
  - destruct (streq a b) eqn:E; [apply streq_eq in E; contradiction | reflexivity].
Qed.

Lemma streq_sym a b : streq a b = streq b a.
Proof.
  destruct (streq a b) eqn:E.
  - apply streq_eq in E. subst. symmetry. apply streq_refl.
  - symmetry. apply streq_neq. apply streq_neq in E. congruence.
Qed.

Lemma mem_In s l : mem s l = true <-> In s l.
Proof.
  induction l as [|x l IH]; cbn; [split; [discriminate | tauto]|].
  rewrite orb_true_iff, IH, streq_eq. split; intros [H|H]; auto.
Qed.

Lemma mem_false s l : mem s l = false <-> ~ In s l.
Proof.
  rewrite <- mem_In. destruct (mem s l); split; intro H.
  - discriminate.
  - exfalso. apply H. reflexivity.
  - discriminate.
  - reflexivity.
Qed.

Lemma lookup_None {V} s (m : list (str * V)) : lookup s m = None <-> ~ In s (map fst m).
Proof.
  induction m as [|[k v] m IH]; cbn; [tauto|].
  destruct (streq s k) eqn:E.
  - apply streq_eq in E. subst. split; [discriminate | intro H; exfalso; apply H; auto].
  - apply streq_neq in E. rewrite IH. split; intro H; [intros [H'|H']; [congruence | auto] | auto].
Qed.

Lemma lookup_Some_In {V} s (m : list (str * V)) v : lookup s m = Some v -> In (s, v) m.
Proof.
  induction m as [|[k v'] m IH]; cbn; [discriminate|].
  destruct (streq s k) eqn:E.
  - apply streq_eq in E. intro H. inversion H. subst. auto.
  - auto.
Qed.

(* lookup finds the first entry of the key *)
Lemma lookup_first {V} s (m : list (str * V)) v :
  lookup s m = Some v <-> exists pre post, m = pre ++ (s, v) :: post /\ ~ In s (map fst pre).
Proof.
  induction m as [|[k v'] m IH]; cbn.
  - split; [discriminate | intros (pre & post & H & _); destruct pre; discriminate].
  - destruct (streq s k) eqn:E.
    + apply streq_eq in E. subst k. split.
      * intro H. inversion H. subst. exists [], m. split; [reflexivity | cbn; tauto].
      * intros (pre & post & H & Hn). destruct pre as [|[k0 v0] pre]; cbn in H; inversion H; subst; [reflexivity|].
        exfalso. apply Hn. cbn. auto.
    + apply streq_neq in E. rewrite IH. split.
      * intros (pre & post & H & Hn). exists ((k, v') :: pre), post. subst. split; [reflexivity|].
        cbn. intros [H|H]; [congruence | auto].
      * intros (pre & post & H & Hn). destruct pre as [|[k0 v0] pre]; cbn in H; inversion H; subst; [congruence|].
        exists pre, post. split; [reflexivity|]. intro H'. apply Hn. cbn. auto.
Qed.

(* ---- mapi ---- *)
Lemma mapi_from_length {A B} (f : nat -> A -> B) i l : length (mapi_from f i l) = length l.
Proof. revert i; induction l; cbn; auto. Qed.

Lemma mapi_from_app {A B} (f : nat -> A -> B) i l1 l2 :
  mapi_from f i (l1 ++ l2) = mapi_from f i l1 ++ mapi_from f (i + length l1) l2.
Proof.
  revert i; induction l1 as [|a l1 IH]; intro i; cbn.
  - rewrite Nat.add_0_r. reflexivity.
  - rewrite IH. replace (i + S (length l1))%nat with (S i + length l1)%nat by lia. reflexivity.
Qed.

Lemma mapi_from_nth {A B} (f : nat -> A -> B) i l j d :
  nth j (mapi_from f i l) d = match nth_error l j with Some a => f (i + j)%nat a | None => d end.
Proof.
  revert i j; induction l as [|a l IH]; intros i [|j]; cbn; try reflexivity.
  - rewrite Nat.add_0_r. reflexivity.
  - rewrite IH. replace (S i + j)%nat with (i + S j)%nat by lia. reflexivity.
Qed.

Lemma mapi_from_ext {A B} (f g : nat -> A -> B) i l :
  (forall j a, nth_error l j = Some a -> f (i + j)%nat a = g (i + j)%nat a) ->
  mapi_from f i l = mapi_from g i l.
Proof.
  revert i; induction l as [|a l IH]; intros i H; cbn; [reflexivity|].
  f_equal.
  - specialize (H O a eq_refl). rewrite Nat.add_0_r in H. exact H.
  - apply IH. intros j b Hj. specialize (H (S j) b Hj).
    replace (S i + j)%nat with (i + S j)%nat by lia. exact H.
Qed.

Lemma mapi_from_map {A B C} (f : nat -> B -> C) (g : A -> B) i l :
  mapi_from f i (map g l) = mapi_from (fun j a => f j (g a)) i l.
Proof. revert i; induction l; intro i; cbn; [reflexivity | f_equal; auto]. Qed.

Lemma map_mapi_from {A B C} (f : nat -> A -> B) (g : B -> C) i l :
  map g (mapi_from f i l) = mapi_from (fun j a => g (f j a)) i l.
Proof. revert i; induction l; intro i; cbn; [reflexivity | f_equal; auto]. Qed.

Lemma In_mapi_from {A B} (f : nat -> A -> B) i l b :
  In b (mapi_from f i l) <-> exists j a, nth_error l j = Some a /\ b = f (i + j)%nat a.
Proof.
  revert i; induction l as [|a l IH]; intro i; cbn.
  - split; [tauto | intros ([|j] & a & H & _); discriminate].
  - rewrite IH. split.
    + intros [H | (j & a' & H1 & H2)].
      * exists O, a. rewrite Nat.add_0_r. auto.
      * exists (S j), a'. split; [exact H1|]. rewrite H2. f_equal. lia.
    + intros ([|j] & a' & H1 & H2); cbn in H1.
      * inversion H1. subst. rewrite Nat.add_0_r. auto.
      * right. exists j, a'. split; [exact H1|]. rewrite H2. f_equal. lia.
Qed.

(* ---- induction on trees ---- *)
Inductive attr_all (P : node -> Prop) : attr -> Prop :=
| aa_none : attr_all P ANone
| aa_node m : P m -> attr_all P (ANode m)
| aa_list l : Forall P l -> attr_all P (AList l)
| aa_str s : attr_all P (AStr s)
| aa_bool b : attr_all P (ABool b)
| aa_enum c : attr_all P (AEnum c).

Section NodeInd.
  Variable P : node -> Prop.
  Hypothesis H : forall k attrs, Forall (attr_all P) attrs -> P (Nd k attrs).
  Fixpoint node_ind2 (n : node) : P n :=
    match n with
    | Nd k attrs =>
      H k attrs
        ((fix go (l : list attr) : Forall (attr_all P) l :=
            match l with
            | [] => Forall_nil _
            | a :: r =>
              Forall_cons a
                (match a as a0 return attr_all P a0 with
                 | ANone => aa_none P
                 | ANode m => aa_node P m (node_ind2 m)
                 | AList ms =>
                   aa_list P ms
                     ((fix gol (ms : list node) : Forall P ms :=
                         match ms with
                         | [] => Forall_nil _
                         | m :: r' => Forall_cons m (node_ind2 m) (gol r')
                         end) ms)
                 | AStr s => aa_str P s
                 | ABool b => aa_bool P b
                 | AEnum c => aa_enum P c
                 end) (go r)
            end) attrs)
    end.
End NodeInd.

Lemma concat_map_map {A B} (f : A -> B) (ls : list (list A)) :
  concat (map (map f) ls) = map f (concat ls).
Proof. induction ls; cbn; [reflexivity | rewrite map_app, IHls; reflexivity]. Qed.

Lemma flat_map_map {A B C} (f : B -> list C) (g : A -> B) l :
  flat_map f (map g l) = flat_map (fun a => f (g a)) l.
Proof. induction l; cbn; [reflexivity | rewrite IHl; reflexivity]. Qed.

Lemma flat_map_ext' {A B} (f g : A -> list B) l :
  (forall a, In a l -> f a = g a) -> flat_map f l = flat_map g l.
Proof. induction l; cbn; intro H; [reflexivity | rewrite H, IHl by auto; auto]. Qed.

Lemma flat_map_nil {A B} (f : A -> list B) l :
  flat_map f l = [] <-> forall a, In a l -> f a = [].
Proof.
  induction l as [|a l IH]; cbn; [tauto|]. split.
  - intros H b [Hb|Hb]; apply app_eq_nil in H as [H1 H2]; [subst; auto | apply IH; auto].
  - intro H. rewrite (H a) by auto. apply IH. auto.
Qed.

Lemma NoDup_snoc {A} (l : list A) k : NoDup l -> ~ In k l -> NoDup (l ++ [k]).
Proof.
  induction 1 as [|x l Hx Hl IH]; cbn; intro Hk.
  - constructor; [tauto | constructor].
  - constructor.
    + rewrite in_app_iff. cbn. intros [H|[H|[]]]; [tauto | subst; tauto].
    + apply IH. tauto.
Qed.
