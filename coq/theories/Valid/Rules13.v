(* C13 / the schema-dependent validation rules that execution's type safety relies on, over the
   parser AST (Lang/Ast.v) and the schema representation of the execution model (Exec/Schema.v):
     FieldsOnCorrectType, ScalarLeafs, KnownArgumentNames, ProvidedRequiredArguments,
     ValuesOfCorrectType, VariablesAreInputTypes, VariablesInAllowedPosition, KnownTypeNames,
     FragmentsOnCompositeTypes, PossibleFragmentSpreads
   (src/graphql/validation/rules/*.py, utilities/type_info.py, utilities/validate_input_value.py).
   Definitions only.

   TypeInfo's stacks become the arguments of one recursive descent per definition:
     ct    the named type on top of the type stack (get_type), None when unknown;
           the parent type of a selection set is ct when it is composite (enter_selection_set);
     fd    the field definition on top of the field stack (get_field_def; also what an argument of
           an UNKNOWN directive is looked up in - enter_argument's `get_directive() or get_field_def()`);
     it    the input type on top of the input type stack, with "the location has a default value"
           and "the enclosing input object is OneOf".
   The descent yields events: errors (rule, node paths - as in Valid/Rules.v) and typed variable
   usages (VariableUsage: node, type, default_value, parent_type), from which
   VariablesInAllowedPosition is computed per operation over get_recursive_variable_usages.
   The schema model has no directive definitions: they are a separate table. *)
From GV Require Import Base.Prelude Lang.Ast Exec.Value Exec.Schema Exec.Spec Exec.Typing Valid.Rules.

Notation npath := Rules.path.

Record vschema := VS { vs_s : schema; vs_dirs : list (str * list arg_def) }.

Definition R_FIELDS : N := 13.   Definition R_LEAFS : N := 14.   Definition R_KARG : N := 15.
Definition R_REQ : N := 16.      Definition R_VALUES : N := 17.  Definition R_VARIN : N := 18.
Definition R_VARPOS : N := 19.   Definition R_KTYPE : N := 20.   Definition R_FRAGCOMP : N := 21.
Definition R_SPREADS : N := 22.

(* ------------------------------------------------------------------------------------------ *)
(* schema queries                                                                              *)

(* schema.type_map: the named types of the schema; of the specified scalars String and Boolean
   (introspection, @skip) and those some field, argument, input field or directive argument uses *)
Definition args_mention (n : str) (defs : list arg_def) : bool :=
  existsb (fun a => str_eqb (named_of (a_type a)) n) defs.

Definition schema_mentions (vs : vschema) (n : str) : bool :=
  existsb (fun e =>
    match snd e with
    | TObject fs _ | TInterface fs =>
      existsb (fun f => str_eqb (named_of (f_type f)) n || args_mention n (f_args f)) fs
    | TInput defs _ => args_mention n defs
    | _ => false
    end) (s_types (vs_s vs))
  || existsb (fun d => args_mention n (snd d)) (vs_dirs vs).

Definition in_map (vs : vschema) (n : str) : bool :=
  match scalar_of_name n with
  | Some _ => str_eqb n n_String || str_eqb n n_Boolean || schema_mentions vs n
  | None => match Value.lookup n (s_types (vs_s vs)) with Some _ => true | None => false end
  end.

Fixpoint ty_of (n : node) : ty :=
  match n with
  | Nd KNamedType (ANode nm :: _) => TNamed (name_str nm)
  | Nd KListType (ANode t :: _) => TList (ty_of t)
  | Nd KNonNullType (ANode t :: _) => TNonNull (ty_of t)
  | _ => TNamed []
  end.

(* path of the NamedType node inside a type node *)
Fixpoint named_path (p : npath) (n : node) : npath :=
  match n with
  | Nd KListType (ANode t :: _) | Nd KNonNullType (ANode t :: _) => named_path (p ++ [(O, O)]) t
  | _ => p
  end.

(* type_from_ast *)
Definition tfa (vs : vschema) (n : node) : option ty :=
  let t := ty_of n in if in_map vs (named_of t) then Some t else None.

Definition as_input (s : schema) (t : ty) : option ty := if is_input_type s t then Some t else None.

Definition is_composite (s : schema) (n : str) : bool :=
  match lookup_type s n with Some td => is_composite_def td | None => false end.
Definition is_leaf (s : schema) (n : str) : bool :=
  match lookup_type s n with Some td => is_leaf_def td | None => false end.
Definition is_abstract (s : schema) (n : str) : bool :=
  match lookup_type s n with Some (TInterface _) | Some (TUnion _) => true | _ => false end.
(* is_output_type of a named type of the schema *)
Definition is_output_named (s : schema) (n : str) : bool :=
  match lookup_type s n with Some (TInput _ _) | None => false | Some _ => true end.

Definition composite_of (s : schema) (ct : option str) : option str :=
  match ct with Some n => if is_composite s n then Some n else None | None => None end.

(* schema.get_field (the introspection entry points __schema / __type are outside the model) *)
Definition typename_def : field_def := mkField n_typename (TNonNull (TNamed n_String)) [].
Definition get_field (s : schema) (pt fname : str) : option field_def :=
  if str_eqb fname n_typename then Some typename_def else lookup_field s pt fname.

(* do_types_overlap on composite type names *)
Definition overlap (s : schema) (a b : str) : bool :=
  str_eqb a b ||
  (if is_abstract s a
   then (if is_abstract s b
         then existsb (fun o => possible s a o && possible s b o) (object_names s)
         else possible s a b)
   else (if is_abstract s b then possible s b a else false)).

(* ------------------------------------------------------------------------------------------ *)
(* literals                                                                                    *)

Fixpoint digits_val (l : list N) (acc : Z) : option Z :=
  match l with
  | [] => Some acc
  | c :: r => if (48 <=? c) && (c <=? 57) then digits_val r (acc * 10 + Z.of_N (c - 48))%Z else None
  end.

(* int(IntValueNode.value) *)
Definition int_of_text (l : list N) : option Z :=
  match l with
  | 45 :: (_ :: _) as r => option_map Z.opp (digits_val r 0%Z)
  | _ :: _ => digits_val l 0%Z
  | [] => None
  end.

(* coerce_input_literal of the specified scalars and of enums succeeds *)
Definition leaf_ok (td : type_def) (n : node) : bool :=
  match td, n with
  | TScalar SInt, Nd KIntValue (AStr t :: _) =>
    match int_of_text t with Some z => in_int_range z | None => false end
  | TScalar SFloat, Nd KIntValue _ | TScalar SFloat, Nd KFloatValue _ => true
  | TScalar SString, Nd KStringValue _ => true
  | TScalar SBoolean, Nd KBooleanValue _ => true
  | TScalar SID, Nd KStringValue _ | TScalar SID, Nd KIntValue _ => true
  | TEnum vals, Nd KEnumValue (AStr e :: _) => Value.mem e vals
  | _, _ => false
  end.

Definition field_names (flds : list node) : list str := map arg_name flds.

Definition is_null_node (n : node) : bool := match n with Nd KNullValue _ => true | _ => false end.
Definition is_var_node (n : node) : bool := match n with Nd KVariable _ => true | _ => false end.

Definition objfield_value (f : node) : option node :=
  match f with Nd KObjectField (_ :: ANode v :: _) => Some v | _ => None end.

(* validate_input_literal (static: without variable values); the nodes of the errors *)
Fixpoint vlit (s : schema) (n : node) (p : npath) {struct n} : ty -> list npath :=
  fix on_t (t : ty) : list npath :=
    if is_var_node n then [] else
    match t with
    | TNonNull t' => if is_null_node n then [p] else on_t t'
    | TList it =>
      if is_null_node n then [] else
      match n with
      | Nd KListValue (AList items :: _) => concat (mapi (fun j m => vlit s m (p ++ [(O, j)]) it) items)
      | _ => on_t it
      end
    | TNamed nm =>
      if is_null_node n then [] else
      match lookup_type s nm with
      | Some (TInput defs oneof) =>
        match n with
        | Nd KObjectValue (AList flds :: _) =>
          let names := field_names flds in
          (* required fields that are missing *)
          flat_map (fun ad => if required_arg ad && negb (Value.mem (a_name ad) names) then [p] else []) defs
          (* the value of a defined field (the last node of that name), unknown fields *)
          ++ concat (mapi (fun j f =>
               match f with
               | Nd KObjectField (_ :: ANode v :: _) =>
                 match find_arg (arg_name f) defs with
                 | Some ad =>
                   if Value.mem (arg_name f) (field_names (skipn (S j) flds)) then []
                   else vlit s v (p ++ [(O, j); (1, O)]%nat) (a_type ad)
                 | None => [p ++ [(O, j)]]
                 end
               | _ => []
               end) flds)
          (* OneOf: exactly one defined field, not the null literal *)
          ++ (if oneof then
                match filter (fun f => match find_arg (arg_name f) defs with Some _ => true | None => false end) flds with
                | [f] => match objfield_value f with
                         | Some v => if is_null_node v then [p] else []
                         | None => []
                         end
                | _ => [p]
                end
              else [])
        | _ => [p]
        end
      | Some td => if is_leaf_def td then (if leaf_ok td n then [] else [p]) else []
      | None => []
      end
    end.

(* ------------------------------------------------------------------------------------------ *)
(* events                                                                                      *)

Record tusage := TU { tu_name : str; tu_path : npath; tu_type : option ty;
                      tu_default : bool; tu_oneof : bool }.
Inductive ev := EErr (e : verr) | EUse (u : tusage).

Definition err1 (r : N) (p : npath) : ev := EErr (VE r [p]).

Definition nullable_of (t : ty) : ty := match t with TNonNull t' => t' | _ => t end.

(* the first earlier field of the same name: UniqueInputFieldNamesRule's known_names *)
Fixpoint first_named (nm : str) (p : npath) (i : nat) (l : list node) : option npath :=
  match l with
  | [] => None
  | f :: r => if str_eqb (arg_name f) nm then Some (p ++ [(O, i); (O, O)]%nat) else first_named nm p (S i) r
  end.

(* below a value: the typed variable usages (TypeInfo.enter_list_value / enter_object_field) and
   the duplicate input object fields (UniqueInputFieldNamesRule, rule 12 of Valid/Rules.v) *)
Fixpoint val_evs (s : schema) (n : node) (p : npath) (it : option ty) (dflt oneof : bool)
  {struct n} : list ev :=
  match n with
  | Nd KVariable (ANode nm :: _) => [EUse (TU (name_str nm) p it dflt oneof)]
  | Nd KListValue (AList items :: _) =>
    let item := match it with
                | Some t => match nullable_of t with TList t' => as_input s t' | _ => None end
                | None => None
                end in
    concat (mapi (fun j m => val_evs s m (p ++ [(O, j)]) item false false) items)
  | Nd KObjectValue (AList flds :: _) =>
    let obj := match it with
               | Some t => match lookup_type s (named_of t) with
                           | Some (TInput defs one) => Some (defs, one)
                           | _ => None
                           end
               | None => None
               end in
    concat (mapi (fun j f =>
      match f with
      | Nd KObjectField (_ :: ANode v :: _) =>
        (match first_named (arg_name f) p O (firstn j flds) with
         | Some p0 => [EErr (VE R_UINF [p0; p ++ [(O, j); (O, O)]%nat])]
         | None => []
         end) ++
        match obj with
        | Some (defs, one) =>
          match find_arg (arg_name f) defs with
          | Some ad => val_evs s v (p ++ [(O, j); (1, O)]%nat) (as_input s (a_type ad)) (has_default ad) one
          | None => val_evs s v (p ++ [(O, j); (1, O)]%nat) None false one
          end
        | None => val_evs s v (p ++ [(O, j); (1, O)]%nat) None false false
        end
      | _ => []
      end) flds)
  | _ => []
  end.

Definition attr_list (a : attr) : list node := match a with AList l => l | _ => [] end.

Definition has_arg (nm : str) (args : list node) : bool := Value.mem nm (map arg_name args).

(* the arguments (attribute i of the node at p) of a field or directive with argument
   definitions [defs] (None: unknown); [unknown_rule]: report undefined arguments *)
Definition arg_evs (s : schema) (p : npath) (i : nat) (args : list node)
           (defs : option (list arg_def)) (report_unknown : bool) : list ev :=
  concat (mapi (fun j a =>
    match a with
    | Nd KArgument (_ :: ANode v :: _) =>
      let ap := p ++ [(i, j)] in
      let vp := ap ++ [(1, O)]%nat in
      let ad := match defs with Some ds => find_arg (arg_name a) ds | None => None end in
      let it := match ad with Some d => as_input s (a_type d) | None => None end in
      (match ad with None => if report_unknown then [err1 R_KARG ap] else [] | Some _ => [] end)
      ++ (match it with Some t => map (err1 R_VALUES) (vlit s v vp t) | None => [] end)
      ++ val_evs s v vp it (match ad with Some d => has_default d | None => false end) false
    | _ => []
    end) args).

(* required arguments that are not given: one error at the node p each *)
Definition req_evs (p : npath) (defs : list arg_def) (args : list node) : list ev :=
  flat_map (fun ad => if required_arg ad && negb (has_arg (a_name ad) args) then [err1 R_REQ p] else [])
           defs.

(* the directives (attribute i of the node at p); fd: get_field_def() *)
Definition dir_evs (vs : vschema) (p : npath) (i : nat) (ds : list node) (fd : option field_def)
  : list ev :=
  concat (mapi (fun j dn =>
    match dn with
    | Nd KDirective (ANode nm :: a :: _) =>
      let dp := p ++ [(i, j)] in
      let args := attr_list a in
      match Value.lookup (name_str nm) (vs_dirs vs) with
      | Some defs => arg_evs (vs_s vs) dp 1 args (Some defs) true ++ req_evs dp defs args
      | None => arg_evs (vs_s vs) dp 1 args (option_map f_args fd) false
      end
    | _ => []
    end) ds).

(* type condition: the named type pushed on the type stack, and the errors at the condition *)
Definition cond_type (vs : vschema) (tc : node) : option str :=
  match tfa vs tc with
  | Some t => if is_output_named (vs_s vs) (named_of t) then Some (named_of t) else None
  | None => None
  end.

Definition cond_evs (vs : vschema) (p : npath) (tc : node) : list ev :=
  match tfa vs tc with
  | Some t => if is_composite (vs_s vs) (named_of t) then [] else [err1 R_FRAGCOMP p]
  | None => [err1 R_KTYPE p]
  end.

(* PossibleFragmentSpreads at the node p: fragment type against the parent type *)
Definition spread_evs (s : schema) (p : npath) (ft pt : option str) : list ev :=
  match composite_of s ft, pt with
  | Some a, Some b => if overlap s a b then [] else [err1 R_SPREADS p]
  | _, _ => []
  end.

(* a selection set at p; ct: named type on top of the type stack; fd: top of the field stack;
   fr: fragment name -> type condition (context.get_fragment, type_from_ast) *)
Fixpoint sel_evs (vs : vschema) (fr : list (str * node)) (p : npath) (ss : node)
         (ct : option str) (fd : option field_def) {struct ss} : list ev :=
  let s := vs_s vs in
  let pt := composite_of s ct in
  match ss with
  | Nd KSelectionSet (AList sels :: _) =>
    concat (mapi (fun j sel =>
      let sp := p ++ [(O, j)] in
      match sel with
      | Nd KField (d :: ANode nm :: _ :: a :: sset :: _) =>
        let fdef := match pt with Some t => get_field s t (name_str nm) | None => None end in
        let ftype := match fdef with
                     | Some f => if is_output_named s (named_of (f_type f)) then Some (f_type f) else None
                     | None => None
                     end in
        let args := attr_list a in
        (match pt, fdef with Some _, None => [err1 R_FIELDS sp] | _, _ => [] end)
        ++ (match ftype with
            | Some t =>
              if is_leaf s (named_of t)
              then match sset with ANode _ => [err1 R_LEAFS (sp ++ [(4, O)]%nat)] | _ => [] end
              else match sset with
                   | ANode (Nd KSelectionSet (AList [] :: _)) => [err1 R_LEAFS sp]   (* no field selected *)
                   | ANode _ => []
                   | _ => [err1 R_LEAFS sp]
                   end
            | None => []
            end)
        ++ arg_evs s sp 3 args (option_map f_args fdef) (match fdef with Some _ => true | None => false end)
        ++ dir_evs vs sp 0 (attr_list d) fdef
        ++ (match sset with
            | ANode s' => sel_evs vs fr (sp ++ [(4, O)]%nat) s' (option_map named_of ftype) fdef
            | _ => []
            end)
        ++ (match fdef with Some f => req_evs sp (f_args f) args | None => [] end)
      | Nd KFragmentSpread (d :: ANode nm :: _) =>
        spread_evs s sp (match Rules.lookup (name_str nm) fr with Some tc => cond_type vs tc | None => None end) pt
        ++ dir_evs vs sp 0 (attr_list d) fd
      | Nd KInlineFragment (d :: ANode s' :: tc :: _) =>
        let ct' := match tc with ANode t => cond_type vs t | _ => ct end in
        (match tc with ANode t => cond_evs vs (sp ++ [(2, O)]%nat) t | _ => [] end)
        ++ spread_evs s sp ct' pt
        ++ dir_evs vs sp 0 (attr_list d) fd
        ++ sel_evs vs fr (sp ++ [(1, O)]%nat) s' ct' fd
      | _ => []
      end) sels)
  | _ => []
  end.

Definition is_err (e : ev) : bool := match e with EErr _ => true | EUse _ => false end.

(* variable definitions (attribute 3 of the operation at p) *)
Definition vardef_evs (vs : vschema) (p : npath) (vds : list node) : list ev :=
  concat (mapi (fun j vd =>
    match vd with
    | Nd KVariableDefinition (_ :: _ :: ANode t :: dv :: ds :: _) =>
      let vp := p ++ [(3, j)]%nat in
      let tp := vp ++ [(2, O)]%nat in
      let ot := tfa vs t in
      (match ot with
       | Some ty0 => if is_input_type (vs_s vs) ty0 then [] else [err1 R_VARIN tp]
       | None => [err1 R_KTYPE (named_path tp t)]
       end)
      ++ (match dv, ot with
          | ANode v, Some ty0 =>
            match as_input (vs_s vs) ty0 with
            | Some it => map (err1 R_VALUES) (vlit (vs_s vs) v (vp ++ [(3, O)]%nat) it)
            | None => []
            end
          | _, _ => []
          end)
      ++ (match dv with
          | ANode v => filter is_err (val_evs (vs_s vs) v (vp ++ [(3, O)]%nat)
                                         (match ot with Some ty0 => as_input (vs_s vs) ty0 | None => None end)
                                         false false)
          | _ => []
          end)
      ++ filter is_err (dir_evs vs vp 4 (attr_list ds) None)
    | _ => []
    end) vds).

Definition op_root (s : schema) (o : attr) : option str :=
  let r := match o with
           | AEnum 0 => Some (s_query s)
           | AEnum 1 => s_mutation s
           | _ => None
           end in
  match r with Some n => if is_object s n then Some n else None | None => None end.

(* VariableUsageVisitor records `Undefined` as the location default of EVERY usage inside a fragment
   definition (validation_context.py: "Fragment variables have a variable default but no location
   default"), also for operation variables: the specification's hasLocationDefaultValue is ignored
   there.  [spec] = true gives the specification's reading instead (used to count the difference). *)
Definition no_loc_default (e : ev) : ev :=
  match e with
  | EUse u => EUse (TU (tu_name u) (tu_path u) (tu_type u) false (tu_oneof u))
  | _ => e
  end.

(* the events of one definition at p *)
Definition def_evs_gen (spec : bool) (vs : vschema) (fr : list (str * node)) (p : npath) (n : node) : list ev :=
  match n with
  | Nd KOperationDefinition (ANode ss :: _ :: _ :: vds :: ds :: o :: _) =>
    vardef_evs vs p (attr_list vds)
    ++ dir_evs vs p 4 (attr_list ds) None
    ++ sel_evs vs fr (p ++ [(O, O)]) ss (op_root (vs_s vs) o) None
  | Nd KFragmentDefinition (ANode ss :: _ :: _ :: _ :: ds :: ANode tc :: _) =>
    map (if spec then (fun e => e) else no_loc_default)
      (cond_evs vs (p ++ [(5, O)]%nat) tc
       ++ dir_evs vs p 4 (attr_list ds) None
       ++ sel_evs vs fr (p ++ [(O, O)]) ss (cond_type vs tc) None)
  | _ => []
  end.

Definition def_evs := def_evs_gen false.

Definition doc_defs (d : node) : list node :=
  match d with Nd KDocument (AList l :: _) => l | _ => [] end.

(* fragment name -> type condition node; context.get_fragment keeps the LAST definition *)
Definition frag_conds (d : node) : list (str * node) :=
  rev (flat_map (fun n =>
    match n with
    | Nd KFragmentDefinition (_ :: _ :: ANode nm :: _ :: _ :: ANode tc :: _) => [(name_str nm, tc)]
    | _ => []
    end) (doc_defs d)).

Definition all_def_evs_gen (spec : bool) (vs : vschema) (d : node) : list (npath * list ev) :=
  let fr := frag_conds d in
  mapi (fun j n => ([(O, j)], def_evs_gen spec vs fr [(O, j)] n)) (doc_defs d).
Definition all_def_evs := all_def_evs_gen false.

Definition errs_of (evs : list ev) : list verr :=
  flat_map (fun e => match e with EErr v => [v] | EUse _ => [] end) evs.
Definition uses_of (evs : list ev) : list tusage :=
  flat_map (fun e => match e with EUse u => [u] | EErr _ => [] end) evs.

(* every error of the nine rules that do not need the recursive variable usages *)
Definition local_errs (vs : vschema) (d : node) : list verr :=
  flat_map (fun pe => errs_of (snd pe)) (all_def_evs vs d).

(* ---- VariablesInAllowedPosition ---- *)
Record vdinfo := VDI { vi_name : str; vi_path : npath; vi_type : node; vi_nonnull_default : bool }.

Definition vdinfos (p : npath) (vds : list node) : list vdinfo :=
  concat (mapi (fun j vd =>
    match vd with
    | Nd KVariableDefinition (_ :: _ :: ANode t :: dv :: _) =>
      [VDI (vardef_name vd) (p ++ [(3, j)]%nat) t
           (match dv with ANode v => negb (is_null_node v) | _ => false end)]
    | _ => []
    end) vds).

(* var_def_map: the last definition of a name *)
Fixpoint find_vd (x : str) (l : list vdinfo) : option vdinfo :=
  match l with
  | [] => None
  | v :: r => match find_vd x r with
              | Some w => Some w
              | None => if str_eqb x (vi_name v) then Some v else None
              end
  end.

(* allowed_variable_usage *)
Definition allowed13 (vt : ty) (nonnull_default : bool) (lt : ty) (loc_default : bool) : bool :=
  match lt with
  | TNonNull lt' =>
    if is_nonnull vt then in_subtype vt lt
    else (nonnull_default || loc_default) && in_subtype vt lt'
  | _ => in_subtype vt lt
  end.

Definition usage_errs (vs : vschema) (vds : list vdinfo) (u : tusage) : list verr :=
  match find_vd (tu_name u) vds, tu_type u with
  | Some vd, Some lt =>
    match tfa vs (vi_type vd) with
    | Some vt =>
      (if allowed13 vt (vi_nonnull_default vd) lt (tu_default u) then []
       else [VE R_VARPOS [vi_path vd; tu_path u]])
      ++ (if tu_oneof u && negb (is_nonnull vt) then [VE R_VARPOS [vi_path vd; tu_path u]] else [])
    | None => []
    end
  | _, _ => []
  end.

Fixpoint path_eqb (a b : npath) : bool :=
  match a, b with
  | [], [] => true
  | (i, j) :: a', (i', j') :: b' => (i =? i')%nat && (j =? j')%nat && path_eqb a' b'
  | _, _ => false
  end.

Definition evs_at (tbl : list (npath * list ev)) (p : npath) : list ev :=
  match find (fun pe => path_eqb (fst pe) p) tbl with
  | Some pe => snd pe
  | None => []
  end.

Definition op_vdinfos (d : node) (p : npath) : list vdinfo :=
  match p with
  | [(_, j)] =>
    match nth_error (doc_defs d) j with
    | Some (Nd KOperationDefinition (_ :: _ :: _ :: vds :: _)) => vdinfos p (attr_list vds)
    | _ => []
    end
  | _ => []
  end.

Definition varpos_op (vs : vschema) (d : node) (tbl : list (npath * list ev)) (fs : list fraginfo)
           (o : opinfo) : option (list verr) :=
  match refs fs (o_spreads o) with
  | Some rf =>
    let us := uses_of (evs_at tbl (o_path o)) ++ flat_map (fun f => uses_of (evs_at tbl (f_path f))) rf in
    Some (flat_map (usage_errs vs (op_vdinfos d (o_path o))) us)
  | None => None
  end.

(* NoUndefinedVariablesRule (rule 9 of Valid/Rules.v) over the same usages *)
Definition undef_op (vs : vschema) (d : node) (tbl : list (npath * list ev)) (fs : list fraginfo)
           (o : opinfo) : option (list verr) :=
  match refs fs (o_spreads o) with
  | Some rf =>
    let us := uses_of (evs_at tbl (o_path o)) ++ flat_map (fun f => uses_of (evs_at tbl (f_path f))) rf in
    Some (flat_map (fun u => match find_vd (tu_name u) (op_vdinfos d (o_path o)) with
                             | Some _ => []
                             | None => [VE R_UNDEFV [tu_path u; o_path o]]
                             end) us)
  | None => None
  end.

Definition rule_undefined13 (vs : vschema) (d : node) : option (list verr) :=
  let xs := xdefs d in
  opt_concat (map (undef_op vs d (all_def_evs vs d) (frags_of xs)) (ops_of xs)).

Definition rule_varpos_gen (spec : bool) (vs : vschema) (d : node) : option (list verr) :=
  let xs := xdefs d in
  let tbl := all_def_evs_gen spec vs d in
  opt_concat (map (varpos_op vs d tbl (frags_of xs)) (ops_of xs)).
Definition rule_variables_in_allowed_position := rule_varpos_gen false.

(* all ten rules *)
Definition rules13 (vs : vschema) (d : node) : option (list verr) :=
  match rule_variables_in_allowed_position vs d, rule_undefined13 vs d with
  | Some es, Some us => Some (local_errs vs d ++ es ++ us)
  | _, _ => None
  end.
