(* Equivalence of the memoised algorithm (Valid/OverlapOpt.v) with the specification function for
   documents without named fragments: there the algorithm's "within" / "between" decomposition
   over the selection sets of the document finds a conflict iff the declarative reading has one. *)
From GV Require Import Base.Prelude Valid.Overlap Valid.OverlapProps Valid.PairSet Valid.OverlapOpt
  Valid.OverlapAdequacy.

(* ---------------------------------------------------------------- spread-free selection sets *)
Fixpoint nospread (ss : sels) : Prop :=
  match ss with
  | SelNil => True
  | SelField _ sub rest => nospread sub /\ nospread rest
  | SelInline _ _ sub rest => nospread sub /\ nospread rest
  | SelSpread _ _ => False
  end.

(* the fields of a selection set, inline fragments flattened, in document order *)
Fixpoint flat (p : N) (ss : sels) : list entry :=
  match ss with
  | SelNil => []
  | SelField f sub rest => mkEntry p f sub :: flat p rest
  | SelInline _ tc sub rest => flat (match tc with Some t => t | None => p end) sub ++ flat p rest
  | SelSpread _ rest => flat p rest
  end.

Lemma fas_flat : forall ss p acc, nospread ss ->
  fields_and_spreads p ss acc = (fst acc ++ flat p ss, snd acc).
Proof.
  induction ss as [|f sub IHsub rest IHrest|iid tc sub IHsub rest IHrest|n rest IHrest];
    intros p acc H; cbn [fields_and_spreads flat nospread] in *.
  - rewrite app_nil_r. destruct acc; reflexivity.
  - destruct H as [_ H]. rewrite IHrest by exact H. cbn [fst snd]. rewrite <- app_assoc. reflexivity.
  - destruct H as [H1 H2]. rewrite IHsub by exact H1. rewrite IHrest by exact H2. cbn [fst snd].
    rewrite <- app_assoc. reflexivity.
  - contradiction.
Qed.

Lemma collect_go_flat frags rec : forall ss p st, nospread ss ->
  collect_go frags rec p ss st = Some (fst st, snd st ++ flat p ss).
Proof.
  induction ss as [|f sub IHsub rest IHrest|iid tc sub IHsub rest IHrest|n rest IHrest];
    intros p st H; cbn [collect_go flat nospread] in *.
  - rewrite app_nil_r. destruct st; reflexivity.
  - destruct H as [_ H]. rewrite IHrest by exact H. cbn [fst snd]. rewrite <- app_assoc. reflexivity.
  - destruct H as [H1 H2]. rewrite IHsub by exact H1. rewrite IHrest by exact H2. cbn [fst snd].
    rewrite <- app_assoc. reflexivity.
  - contradiction.
Qed.

Lemma collect_flat frags fuel p ss st : nospread ss ->
  collect frags fuel p ss st = Some (fst st, snd st ++ flat p ss).
Proof. intro H. destruct fuel; cbn [collect]; apply collect_go_flat; exact H. Qed.

Lemma flat_nospread : forall ss p, nospread ss -> Forall (fun e => nospread (e_sub e)) (flat p ss).
Proof.
  induction ss as [|f sub IHsub rest IHrest|iid tc sub IHsub rest IHrest|n rest IHrest];
    intros p H; cbn [flat nospread] in *.
  - constructor.
  - destruct H as [H1 H2]. constructor; auto.
  - destruct H as [H1 H2]. apply Forall_app. split; auto.
  - contradiction.
Qed.

(* nesting depth in fields *)
Fixpoint dep (ss : sels) : nat :=
  match ss with
  | SelNil => O
  | SelField _ sub rest => Nat.max (S (dep sub)) (dep rest)
  | SelInline _ _ sub rest => Nat.max (dep sub) (dep rest)
  | SelSpread _ rest => dep rest
  end.

Lemma flat_dep : forall ss p e, In e (flat p ss) -> (S (dep (e_sub e)) <= dep ss)%nat.
Proof.
  induction ss as [|f sub IHsub rest IHrest|iid tc sub IHsub rest IHrest|n rest IHrest];
    intros p e H; cbn [flat dep] in *.
  - contradiction.
  - destruct H as [<-|H]; [cbn [e_sub]; lia|]. specialize (IHrest _ _ H). lia.
  - apply in_app_or in H as [H|H]; [specialize (IHsub _ _ H) | specialize (IHrest _ _ H)]; lia.
  - specialize (IHrest _ _ H). lia.
Qed.

(* ---------------------------------------------------------------- do_types_conflict *)
Lemma do_types_conflict_shape s : forall a b, do_types_conflict s a b = shape_conflict s a b.
Proof.
  induction a as [x|a IH|a IH]; intros [y|b|b]; cbn; auto.
Qed.

(* ---------------------------------------------------------------- the field map as a dict *)
Definition rn (e : entry) : N := f_rname (e_fld e).

Lemma group_get_add k e g :
  group_get k (group_add e g) = if rn e =? k then group_get k g ++ [e] else group_get k g.
Proof.
  induction g as [|[k' l] g IH]; cbn [group_add group_get].
  - fold (rn e). destruct (rn e =? k); reflexivity.
  - fold (rn e). destruct (k' =? rn e) eqn:E1; cbn [group_get].
    + apply N.eqb_eq in E1. subst k'. destruct (rn e =? k); reflexivity.
    + destruct (k' =? k) eqn:E2.
      * apply N.eqb_eq in E2. subst k'. rewrite N.eqb_sym, E1. reflexivity.
      * exact IH.
Qed.

Lemma group_get_fold k es : forall g,
  group_get k (fold_left (fun g e => group_add e g) es g) = group_get k g ++ filter (fun e => rn e =? k) es.
Proof.
  induction es as [|e es IH]; intro g; cbn [fold_left filter].
  - rewrite app_nil_r. reflexivity.
  - rewrite IH, group_get_add. destruct (rn e =? k); [rewrite <- app_assoc|]; reflexivity.
Qed.

Lemma group_get_groups k es : group_get k (groups es) = filter (fun e => rn e =? k) es.
Proof. unfold groups. rewrite group_get_fold. reflexivity. Qed.

(* keys are distinct and every stored group is the one group_get returns *)
Definition groups_wf (g : list (N * list entry)) : Prop :=
  NoDup (map fst g) /\ forall k l, In (k, l) g -> l <> [].

Lemma group_add_keys e g : forall k, In k (map fst (group_add e g)) <-> k = rn e \/ In k (map fst g).
Proof.
  induction g as [|[k' l] g IH]; intro k; cbn [group_add map fst In].
  - fold (rn e). intuition.
  - fold (rn e). destruct (k' =? rn e) eqn:E1; cbn [map fst In].
    + apply N.eqb_eq in E1. subst k'. intuition.
    + rewrite IH. intuition.
Qed.

Lemma group_add_nodup e g : NoDup (map fst g) -> NoDup (map fst (group_add e g)).
Proof.
  induction g as [|[k' l] g IH]; intro H; cbn [group_add map fst].
  - constructor; [intros [] | constructor].
  - fold (rn e). destruct (k' =? rn e) eqn:E1; cbn [map fst]; [exact H|].
    inversion H as [|? ? Hn Hr]; subst. constructor; auto.
    intro Hc. apply group_add_keys in Hc as [Hc|Hc]; [|contradiction].
    subst k'. rewrite N.eqb_refl in E1. discriminate.
Qed.

Lemma groups_nodup es : NoDup (map fst (groups es)).
Proof.
  unfold groups. assert (H : NoDup (map fst (@nil (N * list entry)))) by constructor.
  revert H. generalize (@nil (N * list entry)). induction es as [|e es IH]; intros g H; cbn [fold_left]; auto.
  apply IH. apply group_add_nodup. exact H.
Qed.

Lemma in_group_get k l g : NoDup (map fst g) -> In (k, l) g -> group_get k g = l.
Proof.
  induction g as [|[k' l'] g IH]; intros Hn Hin; [contradiction|]. cbn [group_get].
  inversion Hn as [|? ? Hni Hr]; subst. destruct Hin as [Hin|Hin].
  - inversion Hin; subst. rewrite N.eqb_refl. reflexivity.
  - destruct (k' =? k) eqn:E.
    + apply N.eqb_eq in E. subst k'. exfalso. apply Hni. apply (in_map fst) in Hin. exact Hin.
    + apply IH; auto.
Qed.

Lemma group_get_key k g : group_get k g <> [] -> exists l, In (k, l) g /\ l = group_get k g.
Proof.
  induction g as [|[k' l'] g IH]; cbn [group_get]; intro H; [congruence|].
  destruct (k' =? k) eqn:E.
  - apply N.eqb_eq in E. subst k'. exists l'. split; [left|]; reflexivity.
  - destruct (IH H) as [l [Hi Hl]]. exists l. split; [right|]; auto.
Qed.

(* the (x, y) visited by two nested loops over the groups of es: exactly the members of es
   in the group of their response name *)
Lemma in_groups_iff es k l : In (k, l) (groups es) -> l = filter (fun e => rn e =? k) es.
Proof.
  intro H. rewrite <- group_get_groups. symmetry. apply in_group_get; [apply groups_nodup | exact H].
Qed.

Lemma groups_cover es x : In x es -> exists l, In (rn x, l) (groups es) /\ In x l.
Proof.
  intro Hx.
  assert (Hne : group_get (rn x) (groups es) <> []).
  { rewrite group_get_groups. intro Hc.
    assert (Hin : In x (filter (fun e => rn e =? rn x) es)) by (apply filter_In; split; [exact Hx | apply N.eqb_refl]).
    rewrite Hc in Hin. contradiction. }
  destruct (group_get_key _ _ Hne) as [l [Hi Hl]]. exists l. split; auto.
  subst l. rewrite group_get_groups. apply filter_In. split; [exact Hx | apply N.eqb_refl].
Qed.

(* ---------------------------------------------------------------- results without memo effects *)
Definition stable (f : memo -> result) : Prop := forall m, f m = ROk m \/ f m = RConflict m.

Lemma for_each_stable {A} (f : A -> memo -> result) l :
  (forall x, In x l -> stable (f x)) ->
  stable (for_each f l) /\
  forall m, for_each f l m = RConflict m <-> exists x, In x l /\ f x m = RConflict m.
Proof.
  induction l as [|x r IH]; intro H.
  - split; [intro m; left; reflexivity|]. intro m; cbn. split; [discriminate | intros [? [[] _]]].
  - destruct (IH (fun y Hy => H y (or_intror Hy))) as [I1 I2]. split.
    + intro m. cbn [for_each]. destruct (H x (or_introl eq_refl) m) as [-> | ->]; cbn [bind]; auto.
    + intro m. cbn [for_each]. destruct (H x (or_introl eq_refl) m) as [E|E]; rewrite E; cbn [bind].
      * rewrite I2. split.
        -- intros [y [Hy Hf]]. exists y. split; [right|]; auto.
        -- intros [y [[<-|Hy] Hf]]; [rewrite E in Hf; discriminate | exists y; auto].
      * split; [intros _; exists x; split; [left|]; auto | reflexivity].
Qed.

Lemma before_cons_inv {A} (a b x : A) r : before a b (x :: r) -> (a = x /\ In b r) \/ before a b r.
Proof. intro H. inversion H; subst; auto. Qed.

Lemma before_filter {A} (f : A -> bool) x y l :
  before x y l -> f x = true -> f y = true -> before x y (filter f l).
Proof.
  induction 1 as [l Hy|z l Hb IH]; intros Hx Hy'; cbn [filter].
  - rewrite Hx. constructor. apply filter_In. auto.
  - destruct (f z); [constructor|]; auto.
Qed.

Lemma before_filter_inv {A} (f : A -> bool) x y l :
  before x y (filter f l) -> before x y l /\ f x = true /\ f y = true.
Proof.
  induction l as [|z l IH]; cbn [filter]; intro H; [inversion H|].
  destruct (f z) eqn:E.
  - inversion H; subst.
    + match goal with Hi : In y (filter f l) |- _ => apply filter_In in Hi as [Hi1 Hi2] end.
      repeat split; auto. constructor. exact Hi1.
    + match goal with Hb : before x y (filter f l) |- _ => destruct (IH Hb) as [I1 [I2 I3]] end.
      repeat split; auto. constructor. exact I1.
  - destruct (IH H) as [I1 [I2 I3]]. repeat split; auto. constructor. exact I1.
Qed.

(* ---------------------------------------------------------------- find_conflict without fragments *)
Section NoFrag.
  Variable s : schema.

  Fixpoint typed_sels (p : N) (ss : sels) : Prop :=
    match ss with
    | SelNil => True
    | SelField f sub rest =>
      (exists t, field_type s p (f_name f) = Some t /\ typed_sels (named t) sub) /\ typed_sels p rest
    | SelInline _ tc sub rest =>
      is_composite s (match tc with Some t => t | None => p end) = true /\
      typed_sels (match tc with Some t => t | None => p end) sub /\ typed_sels p rest
    | SelSpread _ rest => typed_sels p rest
    end.

  (* a field occurrence that can be typed, whose sub-selection is typed and spread-free *)
  Definition good (e : entry) : Prop :=
    (exists t, ft s e = Some t /\ typed_sels (named t) (e_sub e)) /\ nospread (e_sub e).

  Lemma flat_good : forall ss p, typed_sels p ss -> nospread ss -> Forall good (flat p ss).
  Proof.
    induction ss as [|f sub IHsub rest IHrest|iid tc sub IHsub rest IHrest|n rest IHrest];
      intros p Ht Hn; cbn [flat typed_sels nospread] in *.
    - constructor.
    - destruct Ht as [[t [H1 H2]] H3]. destruct Hn as [N1 N2]. constructor; auto.
      split; auto. exists t. split; auto.
    - destruct Ht as [_ [H2 H3]]. destruct Hn as [N1 N2]. apply Forall_app. split; auto.
    - contradiction.
  Qed.

  (* what find_conflict computes: like Conf, but nested pairs are only the cross pairs between
     the two sub-selections *)
  Inductive FC : bool -> entry -> entry -> Prop :=
  | FC_direct so a b ta tb :
      ft s a = Some ta -> ft s b = Some tb -> direct s so a b ta tb = true -> FC so a b
  | FC_nested so a b ta tb x y :
      ft s a = Some ta -> ft s b = Some tb -> direct s so a b ta tb = false ->
      In x (flat (named ta) (e_sub a)) -> In y (flat (named tb) (e_sub b)) ->
      same_rname x y = true -> FC (excl_of s so a b) x y -> FC so a b.

  Definition cross (so : bool) (l1 l2 : list entry) : Prop :=
    exists x y, In x l1 /\ In y l2 /\ same_rname x y = true /\ FC so x y.

  Lemma between_spec rec excl fm1 fm2 :
    (forall x y, In x fm1 -> In y fm2 -> stable (rec (CFindConflict excl x y))) ->
    stable (between rec excl fm1 fm2) /\
    forall m, between rec excl fm1 fm2 m = RConflict m <->
              exists x y, In x fm1 /\ In y fm2 /\ same_rname x y = true /\
                          rec (CFindConflict excl x y) m = RConflict m.
  Proof.
    intro Hst. unfold between.
    assert (Hin1 : forall k l x, In (k, l) (groups fm1) -> In x l -> In x fm1 /\ rn x = k).
    { intros k l x Hg Hx. apply in_groups_iff in Hg. subst l. apply filter_In in Hx as [H1 H2].
      apply N.eqb_eq in H2. auto. }
    assert (Hin2 : forall k y, In y (group_get k (groups fm2)) -> In y fm2 /\ rn y = k).
    { intros k y Hy. rewrite group_get_groups in Hy. apply filter_In in Hy as [H1 H2].
      apply N.eqb_eq in H2. auto. }
    assert (Hinner : forall grp, In grp (groups fm1) -> forall f1, In f1 (snd grp) ->
              stable (for_each (fun f2 => rec (CFindConflict excl f1 f2)) (group_get (fst grp) (groups fm2))) /\
              forall m, for_each (fun f2 => rec (CFindConflict excl f1 f2)) (group_get (fst grp) (groups fm2)) m = RConflict m
                        <-> exists f2, In f2 (group_get (fst grp) (groups fm2)) /\ rec (CFindConflict excl f1 f2) m = RConflict m).
    { intros [k l] Hg f1 Hf1. cbn [fst snd] in *. apply for_each_stable.
      intros f2 Hf2. apply Hst; [eapply Hin1; eauto | eapply Hin2; eauto]. }
    assert (Hmid : forall grp, In grp (groups fm1) ->
              stable (for_each (fun f1 => for_each (fun f2 => rec (CFindConflict excl f1 f2))
                                                   (group_get (fst grp) (groups fm2))) (snd grp)) /\
              forall m, for_each (fun f1 => for_each (fun f2 => rec (CFindConflict excl f1 f2))
                                                     (group_get (fst grp) (groups fm2))) (snd grp) m = RConflict m
                        <-> exists f1, In f1 (snd grp) /\
                                       for_each (fun f2 => rec (CFindConflict excl f1 f2))
                                                (group_get (fst grp) (groups fm2)) m = RConflict m).
    { intros grp Hg. apply for_each_stable. intros f1 Hf1. apply (Hinner grp Hg f1 Hf1). }
    destruct (for_each_stable
                (fun grp => for_each (fun f1 => for_each (fun f2 => rec (CFindConflict excl f1 f2))
                                                         (group_get (fst grp) (groups fm2))) (snd grp))
                (groups fm1) (fun grp Hg => proj1 (Hmid grp Hg))) as [S1 S2].
    split; [exact S1|]. intro m. rewrite S2. split.
    - intros [grp [Hg H]]. apply (proj2 (Hmid grp Hg)) in H as [f1 [Hf1 H]].
      apply (proj2 (Hinner grp Hg f1 Hf1)) in H as [f2 [Hf2 H]].
      destruct grp as [k l]. cbn [fst snd] in *.
      destruct (Hin1 k l f1 Hg Hf1) as [A1 A2]. destruct (Hin2 k f2 Hf2) as [B1 B2].
      exists f1, f2. repeat split; auto. unfold same_rname. fold (rn f1) (rn f2). rewrite A2, B2. apply N.eqb_refl.
    - intros [x [y [Hx [Hy [Hr H]]]]].
      destruct (groups_cover fm1 x Hx) as [l [Hg Hxl]].
      exists (rn x, l). split; auto.
      apply (proj2 (Hmid _ Hg)). exists x. split; auto.
      apply (proj2 (Hinner _ Hg x Hxl)). exists y. split; auto.
      cbn [fst]. rewrite group_get_groups. apply filter_In. split; auto.
      unfold same_rname in Hr. fold (rn x) (rn y) in Hr. rewrite N.eqb_sym. exact Hr.
  Qed.

  Definition fc_ok (fuel : nat) : Prop :=
    forall so a b, good a -> good b ->
      (2 * Nat.max (dep (e_sub a)) (dep (e_sub b)) + 2 <= fuel)%nat ->
      stable (exec s [] fuel (CFindConflict so a b)) /\
      forall m, exec s [] fuel (CFindConflict so a b) m = RConflict m <-> FC so a b.

  Definition bs_ok (fuel : nat) : Prop :=
    forall excl p1 id1 ss1 p2 id2 ss2,
      typed_sels p1 ss1 -> nospread ss1 -> typed_sels p2 ss2 -> nospread ss2 ->
      (2 * Nat.max (dep ss1) (dep ss2) + 1 <= fuel)%nat ->
      stable (exec s [] fuel (CBetweenSubs excl p1 id1 ss1 p2 id2 ss2)) /\
      forall m, exec s [] fuel (CBetweenSubs excl p1 id1 ss1 p2 id2 ss2) m = RConflict m
                <-> cross excl (flat p1 ss1) (flat p2 ss2).

  Lemma has_sub_flat p ss : has_sub ss = false -> flat p ss = [].
  Proof. destruct ss; cbn; auto; discriminate. Qed.

  Lemma exec_ok : forall fuel, fc_ok fuel /\ bs_ok fuel.
  Proof.
    induction fuel as [|f [IHfc IHbs]].
    - split.
      + intros so a b _ _ H. lia.
      + intros excl p1 id1 ss1 p2 id2 ss2 _ _ _ _ H. lia.
    - split.
      + (* find_conflict *)
        intros so a b [[ta [Hta Htya]] Hna] [[tb [Htb Htyb]] Hnb] Hfuel.
        cbn [exec]. unfold exec_step. unfold ft in Hta, Htb. rewrite Hta, Htb. cbv zeta.
        fold (excl_of s so a b). rewrite do_types_conflict_shape.
        assert (Hd : direct s so a b ta tb =
                     (negb (excl_of s so a b)
                      && (negb (f_name (e_fld a) =? f_name (e_fld b))
                          || negb (args_same (f_args (e_fld a)) (f_args (e_fld b)))))
                     || shape_conflict s ta tb) by reflexivity.
        destruct (negb (excl_of s so a b) && _) eqn:E1.
        { split; [intro m; right; reflexivity|]. intro m. split; [|reflexivity].
          intros _. eapply FC_direct; eauto; try (rewrite Hd; reflexivity). }
        destruct (shape_conflict s ta tb) eqn:E2.
        { split; [intro m; right; reflexivity|]. intro m. split; [|reflexivity].
          intros _. eapply FC_direct; eauto; try (rewrite Hd; apply orb_true_r). }
        cbn [orb] in Hd.
        destruct (has_sub (e_sub a) && has_sub (e_sub b)) eqn:E3.
        * destruct (IHbs (excl_of s so a b) (named ta) (IdField (f_id (e_fld a))) (e_sub a)
                         (named tb) (IdField (f_id (e_fld b))) (e_sub b)) as [B1 B2]; auto; try lia.
          split; [exact B1|]. intro m. rewrite B2. split.
          -- intros [x [y [Hx [Hy [Hr Hfc]]]]]. eapply FC_nested; eauto.
          -- intro Hfc. inversion Hfc as [? ? ? ta' tb' A1 A2 A3|? ? ? ta' tb' x y A1 A2 A3 A4 A5 A6 A7]; subst.
             ++ unfold ft in A1, A2. rewrite Hta in A1. rewrite Htb in A2. inversion A1; inversion A2; subst. congruence.
             ++ unfold ft in A1, A2. rewrite Hta in A1. rewrite Htb in A2. inversion A1; inversion A2; subst.
                exists x, y. auto.
        * split; [intro m; left; reflexivity|]. intro m. split; [discriminate|].
          intro Hfc. exfalso.
          inversion Hfc as [? ? ? ta' tb' A1 A2 A3|? ? ? ta' tb' x y A1 A2 A3 A4 A5 A6 A7]; subst.
          -- unfold ft in A1, A2. rewrite Hta in A1. rewrite Htb in A2. inversion A1; inversion A2; subst. congruence.
          -- unfold ft in A1, A2. rewrite Hta in A1. rewrite Htb in A2. inversion A1; inversion A2; subst.
             apply andb_false_iff in E3 as [E3|E3].
             ++ rewrite (has_sub_flat _ _ E3) in A4. contradiction.
             ++ rewrite (has_sub_flat _ _ E3) in A5. contradiction.
      + (* between two sub-selection sets *)
        intros excl p1 id1 ss1 p2 id2 ss2 Ht1 Hn1 Ht2 Hn2 Hfuel.
        cbn [exec]. unfold exec_step.
        rewrite (fas_flat ss1 p1 ([], []) Hn1), (fas_flat ss2 p2 ([], []) Hn2). cbn [fst snd app for_each].
        pose proof (flat_good ss1 p1 Ht1 Hn1) as G1. pose proof (flat_good ss2 p2 Ht2 Hn2) as G2.
        rewrite Forall_forall in G1, G2.
        assert (Hfc : forall x y, In x (flat p1 ss1) -> In y (flat p2 ss2) ->
                  stable (exec s [] f (CFindConflict excl x y)) /\
                  forall m, exec s [] f (CFindConflict excl x y) m = RConflict m <-> FC excl x y).
        { intros x y Hx Hy. apply IHfc; auto.
          pose proof (flat_dep _ _ _ Hx). pose proof (flat_dep _ _ _ Hy). lia. }
        destruct (between_spec (exec s [] f) excl (flat p1 ss1) (flat p2 ss2)
                    (fun x y Hx Hy => proj1 (Hfc x y Hx Hy))) as [S1 S2].
        split.
        * intro m. destruct (S1 m) as [E|E]; rewrite E; cbn [bind]; auto.
        * intro m. destruct (S1 m) as [E|E]; rewrite E; cbn [bind].
          -- split; [discriminate|]. intros [x [y [Hx [Hy [Hr Hf]]]]].
             assert (Hc : between (exec s [] f) excl (flat p1 ss1) (flat p2 ss2) m = RConflict m).
             { apply S2. exists x, y. repeat split; auto. apply (proj2 (proj2 (Hfc x y Hx Hy) m)). exact Hf. }
             rewrite E in Hc. discriminate.
          -- split; [|reflexivity]. intros _. apply S2 in E as [x [y [Hx [Hy [Hr Hf]]]]].
             exists x, y. repeat split; auto. apply (proj1 (proj2 (Hfc x y Hx Hy) m)). exact Hf.
  Qed.
End NoFrag.

(* ---------------------------------------------------------------- the sets of a document *)
Section NoFragDoc.
  Variable s : schema.

  (* find_conflicts_within_selection_set reports: two fields of the set, same response name, FC *)
  Definition WS (q : N) (t : sels) : Prop :=
    exists x y, before x y (flat q t) /\ same_rname x y = true /\ FC s false x y.

  Lemma within_group_spec fuel D : (2 * D + 2 <= fuel)%nat -> forall l,
    (forall x, In x l -> good s x /\ (dep (e_sub x) <= D)%nat) ->
    stable (within_group s [] fuel l) /\
    forall m, within_group s [] fuel l m = RConflict m <-> exists x y, before x y l /\ FC s false x y.
  Proof.
    intros Hfuel. induction l as [|x r IH]; intro Hl.
    - split; [intro m; left; reflexivity|]. intro m. cbn. split; [discriminate|].
      intros [x [y [Hb _]]]. inversion Hb.
    - destruct (IH (fun y Hy => Hl y (or_intror Hy))) as [I1 I2].
      assert (Hfc : forall y, In y r ->
                stable (exec s [] fuel (CFindConflict false x y)) /\
                forall m, exec s [] fuel (CFindConflict false x y) m = RConflict m <-> FC s false x y).
      { intros y Hy. destruct (Hl x (or_introl eq_refl)) as [Gx Dx]. destruct (Hl y (or_intror Hy)) as [Gy Dy].
        apply (proj1 (exec_ok s fuel)); auto. lia. }
      destruct (for_each_stable (fun y => exec s [] fuel (CFindConflict false x y)) r
                  (fun y Hy => proj1 (Hfc y Hy))) as [S1 S2].
      cbn [within_group]. split.
      + intro m. destruct (S1 m) as [E|E]; rewrite E; cbn [bind]; auto.
      + intro m. destruct (S1 m) as [E|E]; rewrite E; cbn [bind].
        * rewrite I2. split.
          -- intros [a [b [Hb Hf]]]. exists a, b. split; auto. constructor. exact Hb.
          -- intros [a [b [Hb Hf]]]. apply before_cons_inv in Hb as [[-> Hin]|Hb].
             ++ exfalso.
                assert (Hc : for_each (fun y => exec s [] fuel (CFindConflict false x y)) r m = RConflict m).
                { apply S2. exists b. split; auto. apply (proj2 (proj2 (Hfc b Hin) m)). exact Hf. }
                rewrite E in Hc. discriminate.
             ++ exists a, b. auto.
        * split; [|reflexivity]. intros _. apply S2 in E as [y [Hy Hf]].
          exists x, y. split; [constructor; exact Hy|]. apply (proj1 (proj2 (Hfc y Hy) m)). exact Hf.
  Qed.

  Lemma within_set_spec fuel p id ss :
    typed_sels s p ss -> nospread ss -> (2 * dep ss <= fuel)%nat ->
    stable (within_set s [] fuel p id ss) /\
    forall m, within_set s [] fuel p id ss m = RConflict m <-> WS p ss.
  Proof.
    intros Ht Hn Hfuel. unfold within_set, WS. rewrite (fas_flat ss p ([], []) Hn). cbn [fst snd app spreads_bc].
    pose proof (flat_good s ss p Ht Hn) as G. rewrite Forall_forall in G.
    destruct (flat p ss) as [|e0 l0] eqn:Efl.
    { (* no fields *)
      split; [intro m; left; reflexivity|]. intro m. cbn. split; [discriminate|].
      intros [x [y [Hb _]]]. inversion Hb. }
    assert (Hd : (1 <= dep ss)%nat).
    { pose proof (flat_dep ss p e0). rewrite Efl in H. specialize (H (or_introl eq_refl)). lia. }
    rewrite <- Efl in *. clear Efl e0 l0.
    assert (Hgrp : forall grp, In grp (groups (flat p ss)) ->
              stable (within_group s [] fuel (snd grp)) /\
              forall m, within_group s [] fuel (snd grp) m = RConflict m
                        <-> exists x y, before x y (snd grp) /\ FC s false x y).
    { intros [k l] Hg. cbn [snd]. apply (within_group_spec fuel (dep ss - 1)); [lia|].
      intros x Hx. apply in_groups_iff in Hg. subst l. apply filter_In in Hx as [Hx _].
      split; [apply G; exact Hx|]. pose proof (flat_dep ss p x Hx). lia. }
    destruct (for_each_stable (fun grp => within_group s [] fuel (snd grp)) (groups (flat p ss))
                (fun grp Hg => proj1 (Hgrp grp Hg))) as [S1 S2].
    split.
    - intro m. destruct (S1 m) as [E|E]; rewrite E; cbn [bind]; auto.
    - intro m. destruct (S1 m) as [E|E]; rewrite E; cbn [bind].
      + split; [discriminate|]. intros [x [y [Hb [Hr Hf]]]]. exfalso.
        destruct (before_in _ _ _ Hb) as [Hx Hy].
        destruct (groups_cover (flat p ss) x Hx) as [l [Hg Hxl]].
        assert (Hc : for_each (fun grp => within_group s [] fuel (snd grp)) (groups (flat p ss)) m = RConflict m).
        { apply S2. exists (rn x, l). split; auto. apply (proj2 (proj2 (Hgrp _ Hg) m)).
          exists x, y. split; auto. cbn [snd]. pose proof (in_groups_iff _ _ _ Hg) as Hl. subst l.
          apply before_filter; auto; [apply N.eqb_refl|].
          unfold same_rname in Hr. fold (rn x) (rn y) in Hr. rewrite N.eqb_sym. exact Hr. }
        rewrite E in Hc. discriminate.
      + split; [|reflexivity]. intros _. apply S2 in E as [[k l] [Hg Hw]].
        apply (proj1 (proj2 (Hgrp _ Hg) m)) in Hw as [x [y [Hb Hf]]]. cbn [snd] in Hb.
        pose proof (in_groups_iff _ _ _ Hg) as Hl. subst l.
        apply before_filter_inv in Hb as [Hb [Hx Hy]].
        exists x, y. repeat split; auto. unfold same_rname. fold (rn x) (rn y).
        apply N.eqb_eq in Hx. apply N.eqb_eq in Hy. rewrite Hx, Hy. apply N.eqb_refl.
  Qed.

  Definition some_ws (l : list (N * sels)) : Prop := exists q t, In (q, t) l /\ WS q t.

  Lemma some_ws_app l1 l2 : some_ws (l1 ++ l2) <-> some_ws l1 \/ some_ws l2.
  Proof.
    unfold some_ws. split.
    - intros [q [t [Hi Hw]]]. apply in_app_or in Hi as [Hi|Hi]; [left|right]; eauto.
    - intros [[q [t [Hi Hw]]]|[q [t [Hi Hw]]]]; exists q, t; split; auto; apply in_or_app; auto.
  Qed.

  Lemma some_ws_cons q t l : some_ws ((q, t) :: l) <-> WS q t \/ some_ws l.
  Proof.
    unfold some_ws. split.
    - intros [q' [t' [[Hi|Hi] Hw]]]; [inversion Hi; subst; auto | right; eauto].
    - intros [Hw|[q' [t' [Hi Hw]]]]; [exists q, t; split; [left|]; auto | exists q', t'; split; [right|]; auto].
  Qed.

  Lemma some_ws_nil : ~ some_ws [].
  Proof. intros [q [t [[] _]]]. Qed.

  (* bind of two stable computations *)
  Lemma bind_stable (f g : memo -> result) (P Q : Prop) :
    stable f -> (forall m, f m = RConflict m <-> P) ->
    stable g -> (forall m, g m = RConflict m <-> Q) ->
    stable (fun m => bind (f m) g) /\ forall m, bind (f m) g = RConflict m <-> P \/ Q.
  Proof.
    intros Sf Hf Sg Hg. split.
    - intro m. destruct (Sf m) as [E|E]; rewrite E; cbn [bind]; auto.
    - intro m. destruct (Sf m) as [E|E]; rewrite E; cbn [bind].
      + rewrite Hg. split; auto. intros [HP|HQ]; auto. apply (proj2 (Hf m)) in HP. rewrite E in HP. discriminate.
      + split; [intros _; left; apply (proj1 (Hf m)); exact E | reflexivity].
  Qed.

  Lemma walk_opt_spec fuel : forall ss p,
    typed_sels s p ss -> nospread ss -> (2 * dep ss <= fuel)%nat ->
    stable (walk_opt s [] fuel p ss) /\
    forall m, walk_opt s [] fuel p ss m = RConflict m <-> some_ws (checked_sets s p ss).
  Proof.
    induction ss as [|f sub IHsub rest IHrest|iid tc sub IHsub rest IHrest|n rest IHrest];
      intros p Ht Hn Hfuel; cbn [walk_opt checked_sets typed_sels nospread dep] in *.
    - split; [intro m; left; reflexivity|]. intro m. split; [discriminate | intro H; destruct (some_ws_nil H)].
    - destruct Ht as [[t [Hft Hts]] Htr]. destruct Hn as [Hns Hnr]. rewrite Hft.
      destruct (IHrest p Htr Hnr ltac:(lia)) as [R1 R2].
      assert (Hsub : stable (fun m => match sub with
                                      | SelNil => ROk m
                                      | _ => bind (within_set s [] fuel (named t) (IdField (f_id f)) sub m)
                                                  (walk_opt s [] fuel (named t) sub)
                                      end) /\
                     forall m, match sub with
                               | SelNil => ROk m
                               | _ => bind (within_set s [] fuel (named t) (IdField (f_id f)) sub m)
                                           (walk_opt s [] fuel (named t) sub)
                               end = RConflict m
                               <-> some_ws (match sub with
                                            | SelNil => []
                                            | _ => (named t, sub) :: checked_sets s (named t) sub
                                            end)).
      { destruct (within_set_spec fuel (named t) (IdField (f_id f)) sub Hts Hns ltac:(lia)) as [W1 W2].
        destruct (IHsub (named t) Hts Hns ltac:(lia)) as [U1 U2].
        destruct (bind_stable _ _ _ _ W1 W2 U1 U2) as [B1 B2].
        destruct sub; [split; [intro m; left; reflexivity | intro m; split; [discriminate | intro H; destruct (some_ws_nil H)]]| | |];
          (split; [exact B1 | intro m; rewrite B2, some_ws_cons; reflexivity]). }
      destruct Hsub as [H1 H2].
      destruct (bind_stable _ _ _ _ H1 H2 R1 R2) as [B1 B2].
      split; [exact B1|]. intro m. rewrite B2, some_ws_app. reflexivity.
    - destruct Ht as [Hc [Hts Htr]]. destruct Hn as [Hns Hnr]. rewrite Hc.
      destruct (IHrest p Htr Hnr ltac:(lia)) as [R1 R2].
      destruct (within_set_spec fuel (match tc with Some t => t | None => p end) (IdInline iid) sub Hts Hns ltac:(lia))
        as [W1 W2].
      destruct (IHsub _ Hts Hns ltac:(lia)) as [U1 U2].
      destruct (bind_stable _ _ _ _ W1 W2 U1 U2) as [B1 B2].
      destruct (bind_stable _ _ _ _ B1 B2 R1 R2) as [C1 C2].
      split; [exact C1|]. intro m. rewrite C2, some_ws_app, some_ws_cons. reflexivity.
    - contradiction.
  Qed.

  Lemma visit_set_spec fuel p id ss :
    typed_sels s p ss -> nospread ss -> (2 * dep ss <= fuel)%nat ->
    stable (visit_set s [] fuel p id ss) /\
    forall m, visit_set s [] fuel p id ss m = RConflict m <-> some_ws ((p, ss) :: checked_sets s p ss).
  Proof.
    intros Ht Hn Hf. unfold visit_set.
    destruct (within_set_spec fuel p id ss Ht Hn Hf) as [W1 W2].
    destruct (walk_opt_spec fuel ss p Ht Hn Hf) as [U1 U2].
    destruct (bind_stable _ _ _ _ W1 W2 U1 U2) as [B1 B2].
    split; [exact B1|]. intro m. rewrite B2, some_ws_cons. reflexivity.
  Qed.
End NoFragDoc.

(* ---------------------------------------------------------------- link with the declarative reading *)
Lemma before_app_cross {A} (x y : A) l1 l2 : In x l1 -> In y l2 -> before x y (l1 ++ l2).
Proof.
  induction l1 as [|z l1 IH]; intros Hx Hy; [contradiction|]. cbn [app].
  destruct Hx as [->|Hx].
  - constructor. apply in_or_app. right. exact Hy.
  - constructor. apply IH; auto.
Qed.

Lemma before_app_l {A} (x y : A) l1 l2 : before x y l1 -> before x y (l1 ++ l2).
Proof.
  induction 1; cbn [app]; constructor; auto. apply in_or_app. left. assumption.
Qed.

Lemma before_app_r {A} (x y : A) l1 l2 : before x y l2 -> before x y (l1 ++ l2).
Proof. intro H. induction l1; cbn [app]; auto. constructor. exact IHl1. Qed.

Lemma before_app_inv {A} (x y : A) l1 l2 :
  before x y (l1 ++ l2) -> before x y l1 \/ before x y l2 \/ (In x l1 /\ In y l2).
Proof.
  induction l1 as [|z l1 IH]; cbn [app]; intro H; auto.
  apply before_cons_inv in H as [[-> Hy]|H].
  - apply in_app_or in Hy as [Hy|Hy].
    + left. constructor. exact Hy.
    + right. right. split; [left; reflexivity | exact Hy].
  - destruct (IH H) as [H1|[H1|[H1 H2]]].
    + left. constructor. exact H1.
    + auto.
    + right. right. split; [right|]; auto.
Qed.

Section Link.
  Variable s : schema.
  Variable d : document.
  Hypothesis Hnf : d_frags d = [].

  Lemma merged_flat a b ta tb : nospread (e_sub a) -> nospread (e_sub b) ->
    merged d a b ta tb = Some (flat (named ta) (e_sub a) ++ flat (named tb) (e_sub b)).
  Proof.
    intros Ha Hb. unfold merged. rewrite Hnf.
    rewrite (collect_flat [] _ (named ta) (e_sub a) ([], []) Ha). cbn [fst snd app].
    rewrite (collect_flat [] _ (named tb) (e_sub b) _ Hb). reflexivity.
  Qed.

  Lemma good_sub_flat e t : good s e -> ft s e = Some t -> Forall (good s) (flat (named t) (e_sub e)).
  Proof.
    intros [[t' [H1 H2]] H3] Ht. rewrite Ht in H1. inversion H1; subst. apply flat_good; auto.
  Qed.

  Lemma FC_Conf : forall so a b, FC s so a b -> good s a -> good s b -> Conf s d so a b.
  Proof.
    induction 1 as [so a b ta tb Ha Hb Hd|so a b ta tb x y Ha Hb Hd Hx Hy Hr Hfc IH]; intros Ga Gb.
    - eapply Conf_direct; eauto.
    - pose proof (good_sub_flat a ta Ga Ha) as Fa. pose proof (good_sub_flat b tb Gb Hb) as Fb.
      rewrite Forall_forall in Fa, Fb.
      eapply Conf_nested; eauto.
      + apply merged_flat; [apply Ga | apply Gb].
      + apply before_app_cross; auto.
  Qed.

  Lemma excl_of_mono so a b : excl_of s false a b = true -> excl_of s so a b = true.
  Proof. unfold excl_of. destruct so; cbn; auto. Qed.

  (* what is a conflict under "shape only" is a conflict under the full conditions *)
  Lemma Conf_mono : forall so a b, Conf s d so a b -> Conf s d false a b.
  Proof.
    induction 1 as [so a b ta tb Ha Hb Hd|so a b ta tb l x y Ha Hb Hd Hm Hbf Hr Hc IH].
    - eapply Conf_direct; eauto. unfold direct in *.
      destruct (shape_conflict s ta tb); [apply orb_true_r|]. rewrite orb_false_r in *.
      apply andb_true_iff in Hd as [H1 H2]. rewrite H2, andb_true_r.
      destruct (excl_of s false a b) eqn:E; auto. rewrite (excl_of_mono so a b E) in H1. discriminate.
    - destruct (direct s false a b ta tb) eqn:Ed; [eapply Conf_direct; eauto|].
      eapply Conf_nested; eauto.
      destruct (excl_of s false a b) eqn:E; [|exact IH].
      rewrite (excl_of_mono so a b E) in Hc. exact Hc.
  Qed.

  (* the selection sets at and below the sub-selection of a field occurrence *)
  Definition below (e : entry) : list (N * sels) :=
    match ft s e with
    | Some t => match e_sub e with
                | SelNil => []
                | _ => (named t, e_sub e) :: checked_sets s (named t) (e_sub e)
                end
    | None => []
    end.

  Lemma below_in_checked : forall ss p x, typed_sels s p ss -> In x (flat p ss) ->
    incl (below x) (checked_sets s p ss).
  Proof.
    induction ss as [|f sub IHsub rest IHrest|iid tc sub IHsub rest IHrest|n rest IHrest];
      intros p x Ht Hx; cbn [flat checked_sets typed_sels] in *.
    - contradiction.
    - destruct Ht as [[t [Hft Hts]] Htr]. destruct Hx as [<-|Hx].
      + unfold below, ft. cbn [e_parent e_fld e_sub]. rewrite Hft.
        intros z Hz. apply in_or_app. left. exact Hz.
      + intros z Hz. apply in_or_app. right. eapply IHrest; eauto.
    - destruct Ht as [Hc [Hts Htr]]. rewrite Hc. apply in_app_or in Hx as [Hx|Hx]; intros z Hz.
      + apply in_or_app. left. right. eapply IHsub; eauto.
      + apply in_or_app. right. eapply IHrest; eauto.
    - eapply IHrest; eauto.
  Qed.

  (* facts about the sets listed by checked_sets *)
  Lemma checked_props : forall ss p q t, typed_sels s p ss -> nospread ss ->
    In (q, t) (checked_sets s p ss) ->
    typed_sels s q t /\ nospread t /\ (dep t <= dep ss)%nat /\ incl (checked_sets s q t) (checked_sets s p ss).
  Proof.
    induction ss as [|f sub IHsub rest IHrest|iid tc sub IHsub rest IHrest|n rest IHrest];
      intros p q t Ht Hn Hin; cbn [checked_sets typed_sels nospread dep] in *.
    - contradiction.
    - destruct Ht as [[ty [Hft Hts]] Htr]. destruct Hn as [Hns Hnr]. rewrite Hft in *.
      apply in_app_or in Hin as [Hin|Hin].
      + assert (Hcase : In (q, t) ((named ty, sub) :: checked_sets s (named ty) sub)).
        { destruct sub; [contradiction| | |]; exact Hin. }
        assert (Hincl : incl ((named ty, sub) :: checked_sets s (named ty) sub)
                             (match sub with
                              | SelNil => []
                              | _ => (named ty, sub) :: checked_sets s (named ty) sub
                              end)).
        { destruct sub; [contradiction| | |]; apply incl_refl. }
        destruct Hcase as [Hq|Hq].
        * inversion Hq; subst. repeat split; auto; [lia|].
          intros z Hz. apply in_or_app. left. apply Hincl. right. exact Hz.
        * destruct (IHsub _ _ _ Hts Hns Hq) as [A1 [A2 [A3 A4]]]. repeat split; auto; [lia|].
          intros z Hz. apply in_or_app. left. apply Hincl. right. apply A4. exact Hz.
      + destruct (IHrest _ _ _ Htr Hnr Hin) as [A1 [A2 [A3 A4]]]. repeat split; auto; [lia|].
        intros z Hz. apply in_or_app. right. apply A4. exact Hz.
    - destruct Ht as [Hc [Hts Htr]]. destruct Hn as [Hns Hnr]. rewrite Hc in *.
      apply in_app_or in Hin as [[Hq|Hq]|Hin].
      + inversion Hq; subst. repeat split; auto; [lia|].
        intros z Hz. apply in_or_app. left. right. exact Hz.
      + destruct (IHsub _ _ _ Hts Hns Hq) as [A1 [A2 [A3 A4]]]. repeat split; auto; [lia|].
        intros z Hz. apply in_or_app. left. right. apply A4. exact Hz.
      + destruct (IHrest _ _ _ Htr Hnr Hin) as [A1 [A2 [A3 A4]]]. repeat split; auto; [lia|].
        intros z Hz. apply in_or_app. right. apply A4. exact Hz.
    - contradiction.
  Qed.

  Lemma below_props x q t : good s x -> In (q, t) (below x) ->
    typed_sels s q t /\ nospread t /\ (dep t <= dep (e_sub x))%nat.
  Proof.
    intros [[ty [Hft Hts]] Hns] Hin. unfold below in Hin. rewrite Hft in Hin.
    assert (Hcase : In (q, t) ((named ty, e_sub x) :: checked_sets s (named ty) (e_sub x))).
    { destruct (e_sub x); [contradiction| | |]; exact Hin. }
    destruct Hcase as [Hq|Hq].
    - inversion Hq; subst. auto.
    - destruct (checked_props _ _ _ _ Hts Hns Hq) as [A1 [A2 [A3 _]]]. auto.
  Qed.

  Definition SetConfD := SetConf s d.

  (* a derivation either is one of find_conflict's, or contains a conflict of a deeper selection set *)
  Lemma Conf_split : forall so a b, Conf s d so a b -> good s a -> good s b ->
    FC s so a b \/ exists q t, In (q, t) (below a ++ below b) /\ SetConfD q t.
  Proof.
    induction 1 as [so a b ta tb Ha Hb Hd|so a b ta tb l x y Ha Hb Hd Hm Hbf Hr Hc IH]; intros Ga Gb.
    - left. eapply FC_direct; eauto.
    - rewrite (merged_flat a b ta tb (proj2 Ga) (proj2 Gb)) in Hm. inversion Hm; subst l. clear Hm.
      pose proof (good_sub_flat a ta Ga Ha) as Fa. pose proof (good_sub_flat b tb Gb Hb) as Fb.
      rewrite Forall_forall in Fa, Fb.
      assert (Hsa : forall x y, before x y (flat (named ta) (e_sub a)) -> same_rname x y = true ->
                Conf s d false x y -> exists q t, In (q, t) (below a) /\ SetConfD q t).
      { intros x' y' Hb' Hr' Hc'. exists (named ta), (e_sub a). split.
        - unfold below. rewrite Ha. destruct (before_in _ _ _ Hb') as [Hx' _].
          destruct (e_sub a); [contradiction| | |]; left; reflexivity.
        - exists ([], flat (named ta) (e_sub a)), x', y'. rewrite Hnf.
          rewrite (collect_flat [] _ _ _ ([], []) (proj2 Ga)). auto. }
      assert (Hsb : forall x y, before x y (flat (named tb) (e_sub b)) -> same_rname x y = true ->
                Conf s d false x y -> exists q t, In (q, t) (below b) /\ SetConfD q t).
      { intros x' y' Hb' Hr' Hc'. exists (named tb), (e_sub b). split.
        - unfold below. rewrite Hb. destruct (before_in _ _ _ Hb') as [Hx' _].
          destruct (e_sub b); [contradiction| | |]; left; reflexivity.
        - exists ([], flat (named tb) (e_sub b)), x', y'. rewrite Hnf.
          rewrite (collect_flat [] _ _ _ ([], []) (proj2 Gb)). auto. }
      apply before_app_inv in Hbf as [Hbf|[Hbf|[Hx Hy]]].
      + right. destruct (Hsa x y Hbf Hr (Conf_mono _ _ _ Hc)) as [q [t [Hi Hs]]].
        exists q, t. split; auto. apply in_or_app. left. exact Hi.
      + right. destruct (Hsb x y Hbf Hr (Conf_mono _ _ _ Hc)) as [q [t [Hi Hs]]].
        exists q, t. split; auto. apply in_or_app. right. exact Hi.
      + destruct (IH (Fa x Hx) (Fb y Hy)) as [Hfc|[q [t [Hi Hs]]]].
        * left. eapply FC_nested; eauto.
        * right. exists q, t. split; auto.
          destruct Ga as [[ta' [Ha' Hta]] _]. rewrite Ha in Ha'. inversion Ha'; subst ta'.
          destruct Gb as [[tb' [Hb' Htb]] _]. rewrite Hb in Hb'. inversion Hb'; subst tb'.
          apply in_app_or in Hi as [Hi|Hi]; apply in_or_app; [left|right].
          -- pose proof (below_in_checked _ _ _ Hta Hx _ Hi) as Hc'.
             unfold below. rewrite Ha. destruct (e_sub a); [contradiction| | |]; right; exact Hc'.
          -- pose proof (below_in_checked _ _ _ Htb Hy _ Hi) as Hc'.
             unfold below. rewrite Hb. destruct (e_sub b); [contradiction| | |]; right; exact Hc'.
  Qed.

  (* a set with a conflict contains (at or below it) a set where find_conflict reports one *)
  Lemma find_ws : forall n q t, (dep t <= n)%nat -> typed_sels s q t -> nospread t -> SetConfD q t ->
    some_ws s ((q, t) :: checked_sets s q t).
  Proof.
    induction n as [|n IH]; intros q t Hdep Ht Hn [st [x [y [Hc [Hb [Hr Hconf]]]]]].
    - (* no field at all *)
      rewrite Hnf, (collect_flat [] _ q t ([], []) Hn) in Hc. inversion Hc; subst st. cbn [snd app] in Hb.
      destruct (before_in _ _ _ Hb) as [Hx _]. pose proof (flat_dep t q x Hx). lia.
    - rewrite Hnf, (collect_flat [] _ q t ([], []) Hn) in Hc. inversion Hc; subst st. cbn [snd app] in Hb.
      pose proof (flat_good s t q Ht Hn) as G. rewrite Forall_forall in G.
      destruct (before_in _ _ _ Hb) as [Hx Hy].
      destruct (Conf_split _ _ _ Hconf (G x Hx) (G y Hy)) as [Hfc|[q1 [t1 [Hi Hs]]]].
      + apply some_ws_cons. left. exists x, y. auto.
      + assert (Hprops : typed_sels s q1 t1 /\ nospread t1 /\ (dep t1 <= n)%nat /\
                         In (q1, t1) (checked_sets s q t)).
        { apply in_app_or in Hi as [Hi|Hi].
          - destruct (below_props x q1 t1 (G x Hx) Hi) as [A1 [A2 A3]].
            pose proof (flat_dep t q x Hx). repeat split; auto; try lia.
            apply (below_in_checked t q x Ht Hx _ Hi).
          - destruct (below_props y q1 t1 (G y Hy) Hi) as [A1 [A2 A3]].
            pose proof (flat_dep t q y Hy). repeat split; auto; try lia.
            apply (below_in_checked t q y Ht Hy _ Hi). }
        destruct Hprops as [A1 [A2 [A3 A4]]].
        destruct (IH q1 t1 A3 A1 A2 Hs) as [q' [t' [Hi' Hw]]].
        exists q', t'. split; auto. right.
        destruct Hi' as [Hi'|Hi']; [inversion Hi'; subst; exact A4|].
        destruct (checked_props _ _ _ _ Ht Hn A4) as [_ [_ [_ Hincl]]]. apply Hincl. exact Hi'.
  Qed.

  Lemma ws_setconf q t : typed_sels s q t -> nospread t -> WS s q t -> SetConfD q t.
  Proof.
    intros Ht Hn [x [y [Hb [Hr Hfc]]]].
    pose proof (flat_good s t q Ht Hn) as G. rewrite Forall_forall in G.
    destruct (before_in _ _ _ Hb) as [Hx Hy].
    exists ([], flat q t), x, y. rewrite Hnf, (collect_flat [] _ q t ([], []) Hn). cbn [fst snd app].
    repeat split; auto. apply FC_Conf; auto.
  Qed.
End Link.

(* ---------------------------------------------------------------- the theorem *)
Section Final.
  Variable s : schema.
  Variable d : document.
  Hypothesis Hnf : d_frags d = [].
  (* every operation has a composite root type, can be typed and contains no fragment spread *)
  Hypothesis Hops : forall o, In o (d_ops d) ->
    is_composite s (fst o) = true /\ typed_sels s (fst o) (snd o) /\ nospread (snd o).

  Definition doc_dep : nat := fold_right (fun o acc => Nat.max (dep (snd o)) acc) 0%nat (d_ops d).

  Lemma op_dep o : In o (d_ops d) -> (dep (snd o) <= doc_dep)%nat.
  Proof.
    unfold doc_dep. clear Hops. induction (d_ops d) as [|a l IH]; cbn; intro H; [contradiction|].
    destruct H as [->|H]; [lia | specialize (IH H); lia].
  Qed.

  Lemma doc_sets_ops q t : In (q, t) (doc_sets s d) <->
    exists o, In o (d_ops d) /\ In (q, t) ((fst o, snd o) :: checked_sets s (fst o) (snd o)).
  Proof.
    unfold doc_sets. rewrite Hnf. cbn [flat_map]. rewrite app_nil_r. rewrite in_flat_map. split.
    - intros [o [Ho Hi]]. exists o. split; auto. unfold root_sets in Hi.
      destruct (Hops o Ho) as [Hc _]. rewrite Hc in Hi. exact Hi.
    - intros [o [Ho Hi]]. exists o. split; auto. unfold root_sets.
      destruct (Hops o Ho) as [Hc _]. rewrite Hc. exact Hi.
  Qed.

  Lemma doc_sets_props q t : In (q, t) (doc_sets s d) ->
    typed_sels s q t /\ nospread t /\ (dep t <= doc_dep)%nat /\
    incl ((q, t) :: checked_sets s q t) (doc_sets s d).
  Proof.
    intro H. apply doc_sets_ops in H as [o [Ho Hi]].
    destruct (Hops o Ho) as [Hc [Ht Hn]]. pose proof (op_dep o Ho) as Hd.
    destruct Hi as [Hi|Hi].
    - inversion Hi; subst. repeat split; auto.
      intros z Hz. destruct z as [q' t']. apply doc_sets_ops. exists o. auto.
    - destruct (checked_props s _ _ _ _ Ht Hn Hi) as [A1 [A2 [A3 A4]]]. repeat split; auto; [lia|].
      intros z Hz. destruct z as [q' t']. apply doc_sets_ops. exists o. split; auto. right.
      destruct Hz as [Hz|Hz]; [inversion Hz; subst; exact Hi | apply A4; exact Hz].
  Qed.

  Definition covers (order : list (bool * nat)) : Prop :=
    forall i, (i < length (d_ops d))%nat -> In (true, i) order.

  Lemma opt_run_spec order fuel : (2 * doc_dep <= fuel)%nat ->
    let m0 := mkMemo [] [] [] in
    (opt_run s d order fuel = ROk m0 \/ opt_run s d order fuel = RConflict m0) /\
    (opt_run s d order fuel = RConflict m0 -> some_ws s (doc_sets s d)) /\
    (covers order -> some_ws s (doc_sets s d) -> opt_run s d order fuel = RConflict m0).
  Proof.
    intros Hfuel m0. unfold opt_run. rewrite Hnf.
    set (step := fun (oi : bool * nat) (m : memo) =>
                   if fst oi
                   then match nth_error (d_ops d) (snd oi) with
                        | Some o => visit_set s [] fuel (fst o) (IdOp (N.of_nat (snd oi))) (snd o) m
                        | None => ROk m
                        end
                   else match nth_error (@nil fragdef) (snd oi) with
                        | Some fd => visit_set s [] fuel (fr_type fd) (IdFrag (fr_name fd)) (fr_body fd) m
                        | None => ROk m
                        end).
    assert (Hstep : forall oi, stable (step oi) /\
              forall m, step oi m = RConflict m <->
                        exists o, fst oi = true /\ nth_error (d_ops d) (snd oi) = Some o /\
                                  some_ws s ((fst o, snd o) :: checked_sets s (fst o) (snd o))).
    { intros [isop i]. unfold step. cbn [fst snd]. destruct isop.
      - destruct (nth_error (d_ops d) i) as [o|] eqn:En.
        + pose proof (nth_error_In _ _ En) as Ho. destruct (Hops o Ho) as [Hc [Ht Hn]].
          pose proof (op_dep o Ho).
          destruct (visit_set_spec s fuel (fst o) (IdOp (N.of_nat i)) (snd o) Ht Hn ltac:(lia)) as [V1 V2].
          split; [exact V1|]. intro m. rewrite V2. split.
          * intro H0. exists o. auto.
          * intros [o' [_ [E H0]]]. inversion E; subst. exact H0.
        + split; [intro m; left; reflexivity|]. intro m. split; [discriminate|].
          intros [o [_ [E _]]]. discriminate.
      - assert (nth_error (@nil fragdef) i = None) as -> by (destruct i; reflexivity).
        split; [intro m; left; reflexivity|]. intro m. split; [discriminate|].
        intros [o [E _]]. discriminate. }
    destruct (for_each_stable step order (fun oi _ => proj1 (Hstep oi))) as [S1 S2].
    split; [apply S1|]. split.
    - intro H. apply S2 in H as [oi [Hoi H]]. apply (proj2 (Hstep oi)) in H as [o [_ [En [q [t [Hi Hw]]]]]].
      exists q, t. split; auto. apply doc_sets_ops. exists o. split; auto. eapply nth_error_In; eauto.
    - intros Hcov [q [t [Hi Hw]]]. apply S2.
      apply doc_sets_ops in Hi as [o [Ho Hi]].
      apply In_nth_error in Ho as [i Hi'].
      exists (true, i). split.
      + apply Hcov. apply nth_error_Some. congruence.
      + apply (proj2 (Hstep (true, i))). exists o. repeat split; auto. exists q, t. auto.
  Qed.

  Theorem equiv_fragment_free order fuel :
    covers order -> (2 * doc_dep <= fuel)%nat ->
    nodupb (doc_fids d) = true -> spec_verdict s d <> VUntyped ->
    opt_conflicts s d order fuel = Some (spec_conflicts s d).
  Proof.
    intros Hcov Hfuel Hids Hty.
    destruct (opt_run_spec order fuel Hfuel) as [Hst [Hto Hfrom]].
    unfold opt_conflicts. destruct Hst as [E|E]; rewrite E.
    - (* the algorithm finds nothing: neither does the specification *)
      destruct (spec_conflicts s d) eqn:Es; [|reflexivity]. exfalso.
      destruct (spec_sound s d Es) as [q [t [Hi Hsc]]].
      destruct (doc_sets_props q t Hi) as [A1 [A2 [A3 A4]]].
      destruct (find_ws s d Hnf (dep t) q t (le_n _) A1 A2 Hsc) as [q' [t' [Hi' Hw]]].
      assert (Hc : opt_run s d order fuel = RConflict (mkMemo [] [] [])).
      { apply Hfrom; auto. exists q', t'. split; auto. }
      rewrite E in Hc. discriminate.
    - (* the algorithm reports a conflict: it is one of the specification *)
      destruct (Hto E) as [q [t [Hi Hw]]].
      destruct (doc_sets_props q t Hi) as [A1 [A2 _]].
      assert (Hdc : DocConf s d) by (exists q, t; split; auto; apply ws_setconf; auto).
      rewrite (spec_complete s d (unique_ids_identify s d Hids) Hdc Hty). reflexivity.
  Qed.
End Final.
