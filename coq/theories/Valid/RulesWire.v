(* Wire codec for the `rules` model: decoder for Ast.enc_node (harness/parsecorr.enc_node writes the
   implementation's tree in that format) and encoders for errors and extracted tables. *)
From GV Require Import Base.Prelude Lang.Ast Valid.Rules.

Definition all_kinds : list nkind :=
  [KArgument; KArgumentCoordinate; KBooleanValue; KDirective; KDirectiveArgumentCoordinate;
   KDirectiveCoordinate; KDirectiveDefinition; KDirectiveExtension; KDocument; KEnumTypeDefinition;
   KEnumTypeExtension; KEnumValue; KEnumValueDefinition; KField; KFieldDefinition; KFloatValue;
   KFragmentArgument; KFragmentDefinition; KFragmentSpread; KInlineFragment;
   KInputObjectTypeDefinition; KInputObjectTypeExtension; KInputValueDefinition; KIntValue;
   KInterfaceTypeDefinition; KInterfaceTypeExtension; KListType; KListValue; KMemberCoordinate;
   KName; KNamedType; KNonNullType; KNullValue; KObjectField; KObjectTypeDefinition;
   KObjectTypeExtension; KObjectValue; KOperationDefinition; KOperationTypeDefinition;
   KScalarTypeDefinition; KScalarTypeExtension; KSchemaDefinition; KSchemaExtension; KSelectionSet;
   KStringValue; KTypeCoordinate; KUnionTypeDefinition; KUnionTypeExtension; KVariable;
   KVariableDefinition].

Definition kind_of_code (c : N) : option nkind :=
  find (fun k => kind_code k =? c) all_kinds.

Fixpoint dec_node (fuel : nat) (l : list N) : option (node * list N) :=
  match fuel with
  | O => None
  | S f =>
    match l with
    | kc :: n :: r =>
      match kind_of_code kc with
      | None => None
      | Some k =>
        let dec_nodes := fix dn (cnt : nat) (l : list N) : option (list node * list N) :=
          match cnt with
          | O => Some ([], l)
          | S c => match dec_node f l with
                   | Some (x, l') => match dn c l' with
                                     | Some (xs, l'') => Some (x :: xs, l'')
                                     | None => None end
                   | None => None end
          end in
        let dec_attrs := fix da (cnt : nat) (l : list N) : option (list attr * list N) :=
          match cnt with
          | O => Some ([], l)
          | S c =>
            let cont (a : attr) (l' : list N) :=
              match da c l' with Some (xs, l'') => Some (a :: xs, l'') | None => None end in
            match l with
            | 0 :: l' => cont ANone l'
            | 1 :: l' => match dec_node f l' with Some (x, l'') => cont (ANode x) l'' | None => None end
            | 2 :: m :: l' => match dec_nodes (N.to_nat m) l' with
                              | Some (xs, l'') => cont (AList xs) l'' | None => None end
            | 3 :: m :: l' => cont (AStr (firstn (N.to_nat m) l')) (skipn (N.to_nat m) l')
            | 4 :: b :: l' => cont (ABool (negb (b =? 0))) l'
            | 5 :: c' :: l' => cont (AEnum c') l'
            | _ => None
            end
          end in
        match dec_attrs (N.to_nat n) r with
        | Some (attrs, r') => Some (Nd k attrs, r')
        | None => None
        end
      end
    | _ => None
    end
  end.

Definition of_nat (n : nat) : N := N.of_nat n.

Definition enc_path (p : path) : list N :=
  of_nat (length p) :: flat_map (fun s => [of_nat (fst s); of_nat (snd s)]) p.

Definition enc_paths (ps : list path) : list N :=
  of_nat (length ps) :: flat_map enc_path ps.

Definition enc_verr (e : verr) : list N := ve_rule e :: enc_paths (ve_nodes e).

Definition enc_result (o : option (list verr)) : list N :=
  match o with
  | Some es => 0 :: of_nat (length es) :: flat_map enc_verr es
  | None => [3]
  end.

(* the key table: per kind code (ascending) the visitor key indices and 1 + description index *)
Definition enc_tables : list N :=
  flat_map (fun k => of_nat (length (vkeys k)) :: map of_nat (vkeys k) ++
                     [match desc_index k with Some i => of_nat (S i) | None => 0 end]) all_kinds.

(* the context functions, per definition of the document:
   operation: 0 path spreads usages has_refs refs(paths of the fragments) ;
   fragment: 1 path spreads usages ; other: 2 path *)
Definition enc_opt_paths (o : option (list path)) : list N :=
  match o with Some ps => 1 :: enc_paths ps | None => [0] end.

Definition enc_context (d : node) : list N :=
  let xs := xdefs d in
  let fs := frags_of xs in
  of_nat (length xs) ::
  flat_map (fun x =>
    match x with
    | XOp o => 0 :: enc_path (o_path o) ++ enc_paths (map sp_path (o_spreads o)) ++
               enc_paths (map us_path (o_usages o)) ++
               enc_opt_paths (option_map (map f_path) (refs fs (o_spreads o))) ++
               enc_opt_paths (option_map (map us_path) (op_usages fs o))
    | XFrag f => 1 :: enc_path (f_path f) ++ enc_paths (map sp_path (f_spreads f)) ++
                 enc_paths (map us_path (f_usages f))
    | XOther p => 2 :: enc_path p
    end) xs.
