(* 27 StreamDirectiveOnListField does not depend on descriptions: the rule's result on
   erase_descriptions d is its result on d (every tree, every schema). *)
From GV Require Import Base.Prelude Lang.Ast Exec.Value Exec.Schema Exec.Spec Exec.Typing
  Valid.Rules Valid.RulesBase Valid.RulesErase Valid.Rules13 Valid.RulesStream Valid.RulesStreamProps.

Lemma ty_of_erase n : ty_of (E n) = ty_of n.
Proof.
  induction n as [k attrs IH] using node_ind2.
  destruct k; try reflexivity;
    (destruct attrs as [|[| t | | | |] r]; try reflexivity;
     rewrite erase_unfold; cbn [mapi mapi_from is_desc desc_index erase_attr ty_of];
     try (rewrite name_str_erase; reflexivity);
     inversion IH as [|? ? Ha _]; subst; inversion Ha as [|? Ht| | | |]; subst;
     rewrite Ht; reflexivity).
Qed.

Lemma cond_type_erase vs t : cond_type vs (E t) = cond_type vs t.
Proof. unfold cond_type, tfa. rewrite ty_of_erase. reflexivity. Qed.

Lemma violb_erase fd pt dn : violb fd pt (E dn) = violb fd pt dn.
Proof.
  destruct dn as [k attrs]. destruct k; try reflexivity.
  destruct attrs as [|[| nm | | | |] r]; try reflexivity.
  rewrite erase_unfold. cbn [mapi mapi_from is_desc desc_index erase_attr violb].
  rewrite name_str_erase. reflexivity.
Qed.

Lemma stream_dirs_erase p i a fd pt :
  stream_dirs p i (attr_list (erase_attr a)) fd pt = stream_dirs p i (attr_list a) fd pt.
Proof.
  destruct a; try reflexivity. cbn [erase_attr attr_list]. unfold stream_dirs, mapi.
  rewrite mapi_from_map. f_equal. apply mapi_from_ext. intros j dn _.
  rewrite violb_erase. reflexivity.
Qed.

Lemma fdef_at_erase vs ct nm : fdef_at vs ct (E nm) = fdef_at vs ct nm.
Proof. unfold fdef_at. rewrite name_str_erase. reflexivity. Qed.

Lemma inline_ct_erase vs tc ct : inline_ct vs (erase_attr tc) ct = inline_ct vs tc ct.
Proof. destruct tc; try reflexivity. cbn. apply cond_type_erase. Qed.

Lemma stream_sel_erase vs s :
  (forall p ct fd, stream_sel vs p (E s) ct fd = stream_sel vs p s ct fd) /\
  (forall sp ct fd, stream_sel1 vs sp (E s) ct fd = stream_sel1 vs sp s ct fd).
Proof.
  induction s as [k attrs IH] using node_ind2. split.
  - intros p ct fd. destruct k; try reflexivity.
    destruct attrs as [|[| |sels| | |] r]; try reflexivity.
    rewrite erase_unfold. cbn [mapi mapi_from is_desc desc_index erase_attr].
    rewrite !stream_sel_unfold.
    inversion IH as [|a l Ha Hl]; subst. inversion Ha as [| |l' Hs| | |]; subst.
    f_equal. unfold mapi. rewrite mapi_from_map. apply mapi_from_ext. intros j a Hj.
    rewrite Forall_forall in Hs. apply (Hs a). eapply nth_error_In; eauto.
  - intros sp ct fd. destruct k; try reflexivity.
    + (* Field *)
      destruct attrs as [|d [|[| nm | | | |] [|a2 [|a3 [|sset r]]]]]; try reflexivity.
      rewrite erase_unfold. cbn [mapi mapi_from is_desc desc_index erase_attr stream_sel1].
      rewrite fdef_at_erase. rewrite (stream_dirs_erase sp 0 d).
      f_equal.
      destruct sset as [| s' | | | |]; try reflexivity.
      cbn [erase_attr].
      repeat (inversion IH as [|? ? ? IH']; subst; clear IH; rename IH' into IH).
      match goal with H : attr_all _ (ANode s') |- _ => inversion H as [|? Hs| | | |]; subst end.
      apply Hs.
    + (* FragmentSpread *)
      destruct attrs as [|d [|[| nm | | | |] r]]; try reflexivity.
      rewrite erase_unfold. cbn [mapi mapi_from is_desc desc_index erase_attr stream_sel1].
      apply (stream_dirs_erase sp 0 d).
    + (* InlineFragment *)
      destruct attrs as [|d [|[| s' | | | |] [|tc r]]]; try reflexivity.
      rewrite erase_unfold. cbn [mapi mapi_from is_desc desc_index erase_attr stream_sel1].
      rewrite (stream_dirs_erase sp 0 d). rewrite inline_ct_erase. f_equal.
      repeat (inversion IH as [|? ? ? IH']; subst; clear IH; rename IH' into IH).
      match goal with H : attr_all _ (ANode s') |- _ => inversion H as [|? Hs| | | |]; subst end.
      apply Hs.
Qed.

Lemma stream_def_erase vs p n : stream_def vs p (E n) = stream_def vs p n.
Proof.
  destruct n as [k attrs]. destruct k; try reflexivity.
  - destruct attrs as [|[| ss | | | |] [|a1 [|a2 [|a3 [|a4 [|[| tc | | | |] r]]]]]]; try reflexivity;
      rewrite erase_unfold; cbn [mapi mapi_from is_desc desc_index erase_attr stream_def Nat.eqb];
      try reflexivity;
      try (rewrite cond_type_erase); try apply stream_sel_erase.
  - destruct attrs as [|[| ss | | | |] [|a1 [|a2 [|a3 [|a4 [|[| tc | | | |] r]]]]]]; try reflexivity;
      rewrite erase_unfold; cbn [mapi mapi_from is_desc desc_index erase_attr stream_def Nat.eqb];
      try reflexivity;
      try (rewrite cond_type_erase); try apply stream_sel_erase.
Qed.

Lemma doc_defs_erase d : doc_defs (E d) = map E (doc_defs d).
Proof.
  destruct d as [k attrs]. destruct k; try reflexivity.
  destruct attrs as [|[| | l | | |] r]; reflexivity.
Qed.

Theorem stream_rule_erase vs d :
  rule_stream_on_list_field vs (E d) = rule_stream_on_list_field vs d.
Proof.
  unfold rule_stream_on_list_field, stream_paths. rewrite doc_defs_erase.
  f_equal. f_equal. unfold mapi. rewrite mapi_from_map. apply mapi_from_ext. intros j n _.
  apply stream_def_erase.
Qed.
