(* Proofs about validate() as modelled in Valid/Compose.v. *)
From GV Require Import Base.Prelude Lang.Visit Lang.VisitProps Lang.VisitParallelProps Valid.Compose.

(* part A (the traversal as a call list) lives in Lang/VisitParallelProps.v *)

(* ================================================================ B. one node, all rules *)
Section Rules.
  Variable RS E : Type.
  Notation rule := (rule RS E).
  Notation rstate := (rstate RS).

  (* what one rule visitor does at one call (ParallelVisitor's per-visitor logic), without sink *)
  Definition rule_step (r : rule) (ph : phase) (t : tree) (st : rstate) : rstate * list E :=
    match ph with
    | Enter =>
      match fst st with
      | SkNone =>
        let '(a, x', es) := r Enter t (snd st) in
        ((match a with RIdle => SkNone | RSkip => SkNode (tid t) | RBreakOff => SkBreak end, x'), es)
      | _ => (st, [])
      end
    | Leave =>
      match fst st with
      | SkNone =>
        let '(a, x', es) := r Leave t (snd st) in
        ((match a with RBreakOff => SkBreak | _ => SkNone end, x'), es)
      | SkNode id => ((if id =? tid t then SkNone else SkNode id, snd st), [])
      | SkBreak => (st, [])
      end
    end.

  (* all rules at one call, unlimited sink: new states and the errors in reporting order *)
  Fixpoint step_all (rs : list rule) (sts : list rstate) (b : nat) (ph : phase) (t : tree)
    : list rstate * list (verr E) :=
    match rs, sts with
    | r :: rs', st :: sts' =>
      let '(st', es) := rule_step r ph t st in
      let '(sts'', es') := step_all rs' sts' (S b) ph t in
      (st' :: sts'', map (VErr b) es ++ es')
    | _, _ => (sts, [])
    end.

  (* the whole traversal, unlimited sink *)
  Fixpoint run_spec (rs : list rule) (cs : list (phase * tree)) (sts : list rstate)
    : list rstate * list (verr E) :=
    match cs with
    | [] => (sts, [])
    | (ph, t) :: r =>
      let '(sts', es) := step_all rs sts 0%nat ph t in
      let '(sts'', es') := run_spec rs r sts' in
      (sts'', es ++ es')
    end.

  (* the sink of a run whose unlimited error list is [all] *)
  Definition limited (limit : option nat) (all : list (verr E)) : sink E :=
    match limit with
    | None => mkSink all false
    | Some n => if (length all <=? n)%nat then mkSink all false else mkSink (firstn n all) true
    end.

  Lemma limited_stable limit l m :
    s_aborted (limited limit l) = true -> limited limit (l ++ m) = limited limit l.
  Proof.
    unfold limited. destruct limit as [n|]; [|discriminate].
    destruct (length l <=? n)%nat eqn:E1; cbn; [discriminate|]. intros _.
    apply Nat.leb_gt in E1.
    assert (length (l ++ m) <=? n = false)%nat as ->.
    { apply Nat.leb_gt. rewrite app_length. lia. }
    f_equal. rewrite firstn_app. replace (n - length l)%nat with 0%nat by lia.
    cbn. apply app_nil_r.
  Qed.

  Lemma limited_mono limit l m :
    s_aborted (limited limit (l ++ m)) = false -> s_aborted (limited limit l) = false.
  Proof.
    unfold limited. destruct limit as [n|]; auto.
    destruct (length (l ++ m) <=? n)%nat eqn:E1; cbn; [|discriminate]. intros _.
    apply Nat.leb_le in E1. rewrite app_length in E1.
    assert (length l <=? n = true)%nat as -> by (apply Nat.leb_le; lia). reflexivity.
  Qed.

  Lemma limited_errs limit l : s_aborted (limited limit l) = false -> s_errs (limited limit l) = l.
  Proof.
    unfold limited. destruct limit as [n|]; auto.
    destruct (length l <=? n)%nat; cbn; auto. discriminate.
  Qed.

  Lemma push_spec limit i es : forall l,
    s_aborted (limited limit l) = false ->
    push limit i es (limited limit l) = limited limit (l ++ map (VErr i) es).
  Proof.
    induction es as [|e r IH]; intros l Hna; cbn [push map].
    - rewrite app_nil_r. reflexivity.
    - rewrite Hna. rewrite (limited_errs limit l Hna).
      destruct (limit_reached limit (length l)) eqn:Er.
      + (* the limit is reached: abort *)
        destruct limit as [n|]; [|discriminate]. cbn in Er. apply Nat.leb_le in Er.
        unfold limited in *. destruct (length l <=? n)%nat eqn:E1; [|cbn in Hna; discriminate].
        apply Nat.leb_le in E1. assert (length l = n) by lia. subst n.
        assert (length (l ++ VErr i e :: map (VErr i) r) <=? length l = false)%nat as ->.
        { apply Nat.leb_gt. rewrite app_length. cbn. lia. }
        f_equal. rewrite firstn_app, firstn_all. replace (length l - length l)%nat with 0%nat by lia.
        cbn. rewrite app_nil_r. reflexivity.
      + assert (Hl : mkSink (l ++ [VErr i e]) false = limited limit (l ++ [VErr i e])).
        { unfold limited. destruct limit as [n|]; auto. cbn in Er. apply Nat.leb_gt in Er.
          assert (length (l ++ [VErr i e]) <=? n = true)%nat as ->; auto.
          apply Nat.leb_le. rewrite app_length. cbn. lia. }
        rewrite Hl. rewrite IH.
        * rewrite <- app_assoc. reflexivity.
        * rewrite <- Hl. reflexivity.
  Qed.

  (* par_enter / par_leave with any limit, from a sink that is the limited view of [l] *)
  Lemma par_step_spec limit (ph : phase) t : forall rs sts b l,
    let r := match ph with
             | Enter => par_enter limit rs sts b t (limited limit l)
             | Leave => par_leave limit rs sts b t (limited limit l)
             end in
    snd r = limited limit (l ++ snd (step_all rs sts b ph t)) /\
    (s_aborted (snd r) = false -> fst r = fst (step_all rs sts b ph t)).
  Proof.
    induction rs as [|r0 rs IH]; intros sts b l.
    - destruct ph; cbn; rewrite app_nil_r; destruct sts; auto.
    - destruct sts as [|[skp x] sts].
      { destruct ph; cbn; rewrite app_nil_r; auto. }
      destruct (s_aborted (limited limit l)) eqn:Ea.
      + (* already aborted: nothing runs *)
        assert (Hs : forall m, limited limit (l ++ m) = limited limit l) by (intro; apply limited_stable; exact Ea).
        destruct ph; cbn [par_enter par_leave]; rewrite Ea; cbn [fst snd]; rewrite Hs;
          (split; [reflexivity | intro Hc; congruence]).
      + destruct ph.
        * cbn [par_enter step_all]. rewrite Ea. unfold rule_step. cbn [fst snd].
          destruct skp as [|id|].
          -- destruct (r0 Enter t x) as [[a x'] es].
             rewrite (push_spec limit b es l Ea).
             specialize (IH sts (S b) (l ++ map (VErr b) es)). cbn zeta in IH.
             destruct (par_enter limit rs sts (S b) t (limited limit (l ++ map (VErr b) es))) as [sts2 k2].
             destruct (step_all rs sts (S b) Enter t) as [sts3 es3]. cbn [fst snd] in *.
             destruct IH as [I1 I2]. rewrite app_assoc. split; auto.
             intro Hn. rewrite I2; auto.
          -- specialize (IH sts (S b) l). cbn zeta in IH.
             destruct (par_enter limit rs sts (S b) t (limited limit l)) as [sts2 k2].
             destruct (step_all rs sts (S b) Enter t) as [sts3 es3]. cbn [fst snd app map] in *.
             destruct IH as [I1 I2]. split; auto. intro Hn. rewrite I2; auto.
          -- specialize (IH sts (S b) l). cbn zeta in IH.
             destruct (par_enter limit rs sts (S b) t (limited limit l)) as [sts2 k2].
             destruct (step_all rs sts (S b) Enter t) as [sts3 es3]. cbn [fst snd app map] in *.
             destruct IH as [I1 I2]. split; auto. intro Hn. rewrite I2; auto.
        * cbn [par_leave step_all]. rewrite Ea. unfold rule_step. cbn [fst snd].
          destruct skp as [|id|].
          -- destruct (r0 Leave t x) as [[a x'] es].
             rewrite (push_spec limit b es l Ea).
             specialize (IH sts (S b) (l ++ map (VErr b) es)). cbn zeta in IH.
             destruct (par_leave limit rs sts (S b) t (limited limit (l ++ map (VErr b) es))) as [sts2 k2].
             destruct (step_all rs sts (S b) Leave t) as [sts3 es3]. cbn [fst snd] in *.
             destruct IH as [I1 I2]. rewrite app_assoc. split; auto.
             intro Hn. rewrite I2; auto.
          -- specialize (IH sts (S b) l). cbn zeta in IH.
             destruct (par_leave limit rs sts (S b) t (limited limit l)) as [sts2 k2].
             destruct (step_all rs sts (S b) Leave t) as [sts3 es3]. cbn [fst snd app map] in *.
             destruct IH as [I1 I2]. split; auto. intro Hn. rewrite I2; auto.
          -- specialize (IH sts (S b) l). cbn zeta in IH.
             destruct (par_leave limit rs sts (S b) t (limited limit l)) as [sts2 k2].
             destruct (step_all rs sts (S b) Leave t) as [sts3 es3]. cbn [fst snd app map] in *.
             destruct IH as [I1 I2]. split; auto. intro Hn. rewrite I2; auto.
  Qed.
End Rules.

Arguments rule_step {RS E}. Arguments step_all {RS E}. Arguments run_spec {RS E}. Arguments limited {E}.

(* ================================================================ C. the whole run; the limit *)
Section Limit.
  Variable RS E : Type.
  Notation rule := (rule RS E).

  Lemma par_decide_ib limit (rs : list rule) : idle_or_break _ (par_decide limit rs).
  Proof.
    intros ph t ps. unfold par_decide.
    destruct ph.
    - destruct (par_enter limit rs (p_rules ps) 0%nat t (p_sink ps)) as [sts sk].
      destruct (s_aborted sk); cbn; auto.
    - destruct (par_leave limit rs (p_rules ps) 0%nat t (p_sink ps)) as [sts sk].
      destruct (s_aborted sk); cbn; auto.
  Qed.

  Lemma par_decide_spec limit (rs : list rule) ph t sts l :
    let r := par_decide limit rs ph t (mkP sts (limited limit l)) in
    let k' := limited limit (l ++ snd (step_all rs sts 0%nat ph t)) in
    p_sink (snd r) = k' /\
    (s_aborted k' = true -> fst r = Break) /\
    (s_aborted k' = false -> fst r = Idle /\ p_rules (snd r) = fst (step_all rs sts 0%nat ph t)).
  Proof.
    cbn zeta. unfold par_decide. cbn [p_rules p_sink].
    pose proof (par_step_spec RS E limit ph t rs sts 0%nat l) as H. cbn zeta in H.
    destruct ph.
    - destruct (par_enter limit rs sts 0%nat t (limited limit l)) as [sts2 k2]. cbn [fst snd] in *.
      destruct H as [H1 H2]. subst k2. cbn [p_sink p_rules]. split; auto. split.
      + intros ->. reflexivity.
      + intro Hn. rewrite Hn. split; auto.
    - destruct (par_leave limit rs sts 0%nat t (limited limit l)) as [sts2 k2]. cbn [fst snd] in *.
      destruct H as [H1 H2]. subst k2. cbn [p_sink p_rules]. split; auto. split.
      + intros ->. reflexivity.
      + intro Hn. rewrite Hn. split; auto.
  Qed.

  (* the sink at the end of the run = the limited view of the unlimited error list *)
  Lemma run_calls_spec limit (rs : list rule) : forall cs sts l,
    p_sink (snd (run_calls _ (par_decide limit rs) cs (mkP sts (limited limit l))))
    = limited limit (l ++ snd (run_spec rs cs sts)).
  Proof.
    induction cs as [|[ph t] cs IH]; intros sts l; cbn [run_calls run_spec].
    - cbn. rewrite app_nil_r. reflexivity.
    - pose proof (par_decide_spec limit rs ph t sts l) as H. cbn zeta in H.
      destruct (par_decide limit rs ph t (mkP sts (limited limit l))) as [a ps]. cbn [fst snd] in H.
      destruct H as [H1 [H2 H3]].
      destruct (step_all rs sts 0%nat ph t) as [sts1 es1] eqn:Es. cbn [fst snd] in *.
      destruct (run_spec rs cs sts1) as [sts2 es2] eqn:Er. cbn [snd].
      destruct (s_aborted (limited limit (l ++ es1))) eqn:Ea.
      + rewrite (H2 eq_refl). cbn [snd]. rewrite H1, app_assoc.
        symmetry. apply limited_stable. exact Ea.
      + destruct (H3 eq_refl) as [-> Hp].
        destruct ps as [sts' k']. cbn [p_sink p_rules] in *. subst sts' k'.
        rewrite IH, Er. cbn [snd]. rewrite app_assoc. reflexivity.
  Qed.

  Definition init_sts (rs : list (rule * RS)) : list (rstate RS) := map (fun rx => (SkNone, snd rx)) rs.

  (* validate = the limited view of the unlimited error list of the call-list run *)
  Theorem validate_spec (rs : list (rule * RS)) limit fuel doc :
    (depth_tree doc <= fuel)%nat ->
    validate rs limit fuel doc =
    let k := limited limit (snd (run_spec (map fst rs) (calls_tree doc) (init_sts rs))) in
    s_errs k ++ (if s_aborted k then [Aborted] else []).
  Proof.
    intro Hd. unfold validate.
    pose proof (visit_calls _ (par_decide limit (map fst rs)) (par_decide_ib limit (map fst rs))
                            fuel doc (init_state rs) Hd) as H.
    destruct (visit (pstate RS E) (par_decide limit (map fst rs)) fuel doc (init_state rs)) as [[r ps] lg].
    cbn [fst snd] in H. subst ps. unfold errors_of.
    assert (Hi : init_state rs = mkP (init_sts rs) (limited limit [])).
    { unfold init_state, init_sts, limited. destruct limit; reflexivity. }
    rewrite Hi, run_calls_spec. cbn [app]. reflexivity.
  Qed.

  Theorem validate_limit (rs : list (rule * RS)) n fuel doc :
    (depth_tree doc <= fuel)%nat ->
    validate rs (Some n) fuel doc =
    let es := validate rs None fuel doc in
    if (length es <=? n)%nat then es else firstn n es ++ [Aborted].
  Proof.
    intro Hd. rewrite !validate_spec by exact Hd. cbn zeta. unfold limited.
    cbn [s_errs s_aborted]. rewrite app_nil_r.
    destruct (length _ <=? n)%nat; cbn [s_errs s_aborted]; [apply app_nil_r | reflexivity].
  Qed.
End Limit.

(* ================================================================ D. rules alone and together *)
Section Union.
  Variable RS E : Type.
  Notation rule := (rule RS E).

  (* the errors reported by rule [i], re-tagged as the only rule of a solo run *)
  Definition proj (i : nat) (es : list (verr E)) : list (verr E) :=
    flat_map (fun e => match e with
                       | VErr j x => if (j =? i)%nat then [VErr 0%nat x] else []
                       | Aborted => []
                       end) es.

  Lemma proj_app i a b : proj i (a ++ b) = proj i a ++ proj i b.
  Proof. apply flat_map_app. Qed.

  Lemma proj_map_same i (es : list E) : proj i (map (VErr i) es) = map (VErr 0%nat) es.
  Proof. induction es; cbn; auto. rewrite Nat.eqb_refl. cbn. f_equal. exact IHes. Qed.

  Lemma proj_map_other i j (es : list E) : i <> j -> proj i (map (VErr j) es) = [].
  Proof.
    intro H. induction es; cbn; auto.
    destruct (j =? i)%nat eqn:Eq; [apply Nat.eqb_eq in Eq; congruence|]. exact IHes.
  Qed.

  Lemma step_all_tags (rs : list rule) ph t : forall sts b j, (j < b)%nat ->
    proj j (snd (step_all rs sts b ph t)) = [].
  Proof.
    induction rs as [|r rs IH]; intros sts b j Hj; cbn [step_all].
    - reflexivity.
    - destruct sts as [|st sts]; [reflexivity|].
      destruct (rule_step r ph t st) as [st' es].
      specialize (IH sts (S b) j ltac:(lia)).
      destruct (step_all rs sts (S b) ph t) as [sts2 es2]. cbn [snd] in *.
      rewrite proj_app, IH, proj_map_other by lia. reflexivity.
  Qed.

  (* the i-th rule of a parallel step behaves as if it were alone *)
  Lemma step_all_proj ph t : forall (rs : list rule) sts b i r st,
    nth_error rs i = Some r -> nth_error sts i = Some st ->
    nth_error (fst (step_all rs sts b ph t)) i = Some (fst (rule_step r ph t st)) /\
    proj (b + i) (snd (step_all rs sts b ph t)) = map (VErr 0%nat) (snd (rule_step r ph t st)).
  Proof.
    induction rs as [|r0 rs IH]; intros sts b i r st Hr Hs.
    - destruct i; discriminate.
    - destruct sts as [|st0 sts]; [destruct i; discriminate|].
      cbn [step_all].
      destruct i as [|i]; cbn [nth_error] in Hr, Hs.
      + inversion Hr; inversion Hs; subst.
        destruct (rule_step r ph t st) as [st' es].
        pose proof (step_all_tags rs ph t sts (S b) b ltac:(lia)) as Ht.
        destruct (step_all rs sts (S b) ph t) as [sts2 es2]. cbn [fst snd nth_error] in *.
        rewrite Nat.add_0_r, proj_app, Ht, proj_map_same, app_nil_r. auto.
      + destruct (rule_step r0 ph t st0) as [st' es].
        destruct (IH sts (S b) i r st Hr Hs) as [I1 I2].
        destruct (step_all rs sts (S b) ph t) as [sts2 es2]. cbn [fst snd nth_error] in *.
        split; auto.
        rewrite proj_app, proj_map_other by lia. cbn [app].
        replace (b + S i)%nat with (S b + i)%nat by lia. exact I2.
  Qed.

  Lemma step_all_single (r : rule) st ph t :
    step_all [r] [st] 0%nat ph t = ([fst (rule_step r ph t st)], map (VErr 0%nat) (snd (rule_step r ph t st))).
  Proof.
    cbn [step_all]. destruct (rule_step r ph t st) as [st' es]. cbn. rewrite app_nil_r. reflexivity.
  Qed.

  Lemma run_spec_proj (rs : list rule) i r : nth_error rs i = Some r ->
    forall cs sts st, nth_error sts i = Some st ->
    proj i (snd (run_spec rs cs sts)) = snd (run_spec [r] cs [st]).
  Proof.
    intro Hr. induction cs as [|[ph t] cs IH]; intros sts st Hs; cbn [run_spec].
    - reflexivity.
    - rewrite step_all_single.
      destruct (step_all_proj ph t rs sts 0%nat i r st Hr Hs) as [P1 P2].
      destruct (step_all rs sts 0%nat ph t) as [sts1 es1]. cbn [fst snd plus] in *.
      specialize (IH sts1 (fst (rule_step r ph t st)) P1).
      destruct (run_spec rs cs sts1) as [sts2 es2].
      destruct (run_spec [r] cs [fst (rule_step r ph t st)]) as [sts3 es3]. cbn [snd] in *.
      rewrite proj_app, P2, IH. reflexivity.
  Qed.

  (* every error of the unlimited combined run carries the index of one of the rules *)
  Definition tag_lt (m : nat) (e : verr E) : Prop :=
    match e with VErr j _ => (j < m)%nat | Aborted => False end.

  Lemma step_all_tag_lt ph t : forall (rs : list rule) sts b,
    Forall (tag_lt (b + length rs)) (snd (step_all rs sts b ph t)).
  Proof.
    induction rs as [|r rs IH]; intros sts b; cbn [step_all].
    - constructor.
    - destruct sts as [|st sts]; [constructor|].
      destruct (rule_step r ph t st) as [st' es].
      specialize (IH sts (S b)).
      destruct (step_all rs sts (S b) ph t) as [sts2 es2]. cbn [snd length] in *.
      apply Forall_app. split.
      + apply Forall_forall. intros e He. apply in_map_iff in He as [x [<- _]]. cbn. lia.
      + replace (b + S (length rs))%nat with (S b + length rs)%nat by lia. exact IH.
  Qed.

  Lemma run_spec_tag_lt (rs : list rule) : forall cs sts,
    Forall (tag_lt (length rs)) (snd (run_spec rs cs sts)).
  Proof.
    induction cs as [|[ph t] cs IH]; intros sts; cbn [run_spec].
    - constructor.
    - pose proof (step_all_tag_lt ph t rs sts 0%nat) as H.
      destruct (step_all rs sts 0%nat ph t) as [sts1 es1].
      specialize (IH sts1). destruct (run_spec rs cs sts1) as [sts2 es2]. cbn [snd] in *.
      apply Forall_app. split; auto.
  Qed.

  Theorem validate_projection (rs : list (rule * RS)) fuel doc i rx :
    (depth_tree doc <= fuel)%nat -> nth_error rs i = Some rx ->
    proj i (validate rs None fuel doc) = validate [rx] None fuel doc.
  Proof.
    intros Hd Hi. rewrite !validate_spec by exact Hd. cbn zeta. unfold limited.
    cbn [s_errs s_aborted]. rewrite !app_nil_r.
    cbn [map init_sts].
    apply run_spec_proj.
    - rewrite nth_error_map, Hi. reflexivity.
    - unfold init_sts. rewrite nth_error_map, Hi. reflexivity.
  Qed.

  Theorem validate_tags (rs : list (rule * RS)) fuel doc :
    (depth_tree doc <= fuel)%nat -> Forall (tag_lt (length rs)) (validate rs None fuel doc).
  Proof.
    intro Hd. rewrite validate_spec by exact Hd. cbn zeta. unfold limited.
    cbn [s_errs s_aborted]. rewrite app_nil_r.
    pose proof (run_spec_tag_lt (map fst rs) (calls_tree doc) (init_sts _ _ rs)) as H.
    rewrite map_length in H. exact H.
  Qed.
End Union.

(* ---- the combined error list is a permutation of the solo lists (multiset union) ---- *)
From Coq Require Import Permutation.

Section UnionPerm.
  Variable RS E : Type.
  Notation rule := (rule RS E).

  Definition retag (i : nat) (e : verr E) : verr E :=
    match e with VErr _ x => VErr i x | Aborted => Aborted end.

  Lemma flat_map_ext_in {A B} (f g : A -> list B) l :
    (forall a, In a l -> f a = g a) -> flat_map f l = flat_map g l.
  Proof.
    induction l as [|a l IH]; cbn; intro H; auto.
    rewrite (H a (or_introl eq_refl)), IH; auto.
  Qed.

  Lemma flat_map_nil {A B} (l : list A) : flat_map (fun _ => @nil B) l = [].
  Proof. induction l; cbn; auto. Qed.

  Lemma perm_flat_map_app {A B} (f g : A -> list B) l :
    Permutation (flat_map (fun a => f a ++ g a) l) (flat_map f l ++ flat_map g l).
  Proof.
    induction l as [|a l IH]; cbn; auto.
    rewrite IH. rewrite <- !app_assoc. apply Permutation_app_head.
    apply Permutation_app_swap_app.
  Qed.

  Lemma flat_map_single {B} (y : nat -> B) j : forall m b, (b <= j < b + m)%nat ->
    flat_map (fun i => if (j =? i)%nat then [y i] else []) (seq b m) = [y j].
  Proof.
    induction m as [|m IH]; intros b H; [lia|]. cbn [seq flat_map].
    destruct (j =? b)%nat eqn:Eq.
    - apply Nat.eqb_eq in Eq. subst b. cbn. f_equal.
      rewrite (flat_map_ext_in _ (fun _ => [])); [apply flat_map_nil|].
      intros a Ha. apply in_seq in Ha. destruct (j =? a)%nat eqn:E2; auto.
      apply Nat.eqb_eq in E2. lia.
    - apply Nat.eqb_neq in Eq. cbn [app]. apply IH. lia.
  Qed.

  Lemma partition_perm m : forall es : list (verr E), Forall (tag_lt E m) es ->
    Permutation es (flat_map (fun i => map (retag i) (proj E i es)) (seq 0 m)).
  Proof.
    induction es as [|e es IH]; intro H.
    - cbn. rewrite flat_map_nil. constructor.
    - inversion H as [|? ? He Hes]; subst. destruct e as [j x|]; [|contradiction]. cbn in He.
      assert (Hf : forall i, map (retag i) (proj E i (VErr j x :: es))
                             = (if (j =? i)%nat then [VErr i x] else []) ++ map (retag i) (proj E i es)).
      { intro i. cbn. destruct (j =? i)%nat; reflexivity. }
      rewrite (flat_map_ext_in _ _ _ (fun i _ => Hf i)).
      rewrite perm_flat_map_app.
      rewrite (flat_map_single (fun i => VErr i x) j m 0%nat) by lia.
      cbn [app]. constructor. apply IH. exact Hes.
  Qed.

  Theorem validate_union (rs : list (rule * RS)) fuel doc :
    (depth_tree doc <= fuel)%nat ->
    Permutation (validate rs None fuel doc)
                (flat_map (fun i => match nth_error rs i with
                                    | Some rx => map (retag i) (validate [rx] None fuel doc)
                                    | None => []
                                    end) (seq 0 (length rs))).
  Proof.
    intro Hd.
    assert (Heq : flat_map (fun i => map (retag i) (proj E i (validate rs None fuel doc))) (seq 0 (length rs))
                  = flat_map (fun i => match nth_error rs i with
                                       | Some rx => map (retag i) (validate [rx] None fuel doc)
                                       | None => []
                                       end) (seq 0 (length rs))).
    { apply flat_map_ext_in. intros i Hi. apply in_seq in Hi.
      destruct (nth_error rs i) as [rx|] eqn:En.
      - rewrite (validate_projection RS E rs fuel doc i rx Hd En). reflexivity.
      - apply nth_error_None in En. lia. }
    rewrite <- Heq. apply partition_perm. apply validate_tags. exact Hd.
  Qed.
End UnionPerm.

(* ================================================================ E. descriptions *)
(* two documents that agree everywhere except inside slots outside the validation key table *)
Fixpoint agree_tree (keep : N -> nat -> bool) (t t' : tree) : Prop :=
  match t, t' with
  | Node k i ss, Node k' i' ss' => k = k' /\ i = i' /\ agree_slots keep k ss ss' 0%nat
  end
with agree_slots (keep : N -> nat -> bool) (k : N) (ss ss' : slots) (j : nat) : Prop :=
  match ss, ss' with
  | SNil, SNil => True
  | SCons sl r, SCons sl' r' =>
    (if keep k j then agree_slot keep sl sl' else True) /\ agree_slots keep k r r' (S j)
  | _, _ => False
  end
with agree_slot (keep : N -> nat -> bool) (sl sl' : slot) : Prop :=
  match sl, sl' with
  | SNone, SNone => True
  | SOne t, SOne t' => agree_tree keep t t'
  | SArr l, SArr l' => agree_trees keep l l'
  | _, _ => False
  end
with agree_trees (keep : N -> nat -> bool) (l l' : trees) : Prop :=
  match l, l' with
  | TNil, TNil => True
  | TCons t r, TCons t' r' => agree_tree keep t t' /\ agree_trees keep r r'
  | _, _ => False
  end.

Lemma agree_mask keep :
  forall t t', agree_tree keep t t' -> mask_tree keep t = mask_tree keep t'.
Proof.
  apply (tree_mut
           (fun t => forall t', agree_tree keep t t' -> mask_tree keep t = mask_tree keep t')
           (fun ss => forall k ss' j, agree_slots keep k ss ss' j -> mask_slots keep k ss j = mask_slots keep k ss' j)
           (fun sl => forall sl', agree_slot keep sl sl' -> mask_slot keep sl = mask_slot keep sl')
           (fun l => forall l', agree_trees keep l l' -> mask_trees keep l = mask_trees keep l')).
  - intros k i ss IH [k' i' ss'] [-> [-> H]]. cbn. f_equal. apply IH. exact H.
  - intros k [|? ?] j H; cbn in *; [reflexivity | contradiction].
  - intros sl IHsl r IHr k [|sl' r'] j H; cbn in *; [contradiction|].
    destruct H as [H1 H2]. rewrite (IHr k r' (S j) H2).
    destruct (keep k j); [rewrite (IHsl sl' H1)|]; reflexivity.
  - intros [| |] H; cbn in *; try contradiction; reflexivity.
  - intros t IH [|t'|] H; cbn in *; try contradiction. f_equal. apply IH. exact H.
  - intros l IH [| |l'] H; cbn in *; try contradiction. f_equal. apply IH. exact H.
  - intros [|? ?] H; cbn in *; [reflexivity | contradiction].
  - intros t IHt r IHr [|t' r'] H; cbn in *; [contradiction|].
    destruct H as [H1 H2]. rewrite (IHt t' H1), (IHr r' H2). reflexivity.
Qed.

Theorem validate_keys_agree {RS E} keep (rs : list (rule RS E * RS)) limit fuel d d' :
  agree_tree keep d d' -> validate_keys keep rs limit fuel d = validate_keys keep rs limit fuel d'.
Proof. intro H. unfold validate_keys. rewrite (agree_mask keep d d' H). reflexivity. Qed.

(* no visitor call ever concerns a node below a slot outside the key table: the calls of the
   masked document are the calls of the document restricted to kept slots *)
Fixpoint kept_calls_tree (keep : N -> nat -> bool) (t : tree) : list (phase * N) :=
  match t with
  | Node k i ss => (Enter, i) :: kept_calls_slots keep k ss 0%nat ++ [(Leave, i)]
  end
with kept_calls_slots (keep : N -> nat -> bool) (k : N) (ss : slots) (j : nat) : list (phase * N) :=
  match ss with
  | SNil => []
  | SCons sl r =>
    (if keep k j then
       match sl with
       | SNone => []
       | SOne c => kept_calls_tree keep c
       | SArr l => kept_calls_trees keep l
       end
     else []) ++ kept_calls_slots keep k r (S j)
  end
with kept_calls_trees (keep : N -> nat -> bool) (l : trees) : list (phase * N) :=
  match l with
  | TNil => []
  | TCons c r => kept_calls_tree keep c ++ kept_calls_trees keep r
  end.

Lemma masked_calls keep :
  forall t, map (fun c => (fst c, tid (snd c))) (calls_tree (mask_tree keep t)) = kept_calls_tree keep t.
Proof.
  apply (tree_mut
           (fun t => map (fun c => (fst c, tid (snd c))) (calls_tree (mask_tree keep t)) = kept_calls_tree keep t)
           (fun ss => forall k j, map (fun c => (fst c, tid (snd c))) (calls_slots (mask_slots keep k ss j))
                                  = kept_calls_slots keep k ss j)
           (fun sl => map (fun c => (fst c, tid (snd c)))
                          (match mask_slot keep sl with
                           | SNone => [] | SOne c => calls_tree c | SArr l => calls_trees l end)
                      = match sl with
                        | SNone => [] | SOne c => kept_calls_tree keep c | SArr l => kept_calls_trees keep l end)
           (fun l => map (fun c => (fst c, tid (snd c))) (calls_trees (mask_trees keep l)) = kept_calls_trees keep l)).
  - intros k i ss IH. cbn [mask_tree calls_tree kept_calls_tree map fst snd tid].
    rewrite map_app, IH. reflexivity.
  - reflexivity.
  - intros sl IHsl r IHr k j. cbn [mask_slots calls_slots kept_calls_slots].
    rewrite map_app, IHr. destruct (keep k j); [rewrite IHsl|]; reflexivity.
  - reflexivity.
  - intros t IH. cbn. exact IH.
  - intros l IH. cbn. exact IH.
  - reflexivity.
  - intros t IHt r IHr. cbn [mask_trees calls_trees kept_calls_trees]. rewrite map_app, IHt, IHr. reflexivity.
Qed.
