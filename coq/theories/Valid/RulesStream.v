(* C12 (rules, continued) - 27 StreamDirectiveOnListField (rules/stream_directive_on_list_field.py)
   as a function of the parser's AST and the schema, over the typed descent of Valid/Rules13.v.

   enter_directive: with fd = context.get_field_def() and pt = context.get_parent_type(), a directive
   named `stream` is reported when fd and pt are both present and fd.type is neither a list type nor
   a wrapping type around a list type.  TypeInfo's stacks are the arguments of the descent, exactly
   as in Rules13.sel_evs: at the directives of a field, fd is THAT field's definition (looked up in
   the parent type of the enclosing selection set, `__typename` included) and pt is the parent type
   of the enclosing selection set; at the directives of a fragment spread or inline fragment, fd is
   the definition of the ENCLOSING field (None directly under an operation or fragment definition)
   and pt again the parent type of the enclosing selection set (enter_inline_fragment pushes a type,
   not a parent type).  Directives of operations, fragment definitions and variable definitions see
   an empty field stack: never reported.  Definitions only; proofs in Valid/RulesStreamProps.v. *)
From GV Require Import Base.Prelude Lang.Ast Exec.Value Exec.Schema Exec.Spec Exec.Typing
  Valid.Rules Valid.Rules13.

Definition R_STREAM : N := 27.
Definition n_stream : Value.str := [115;116;114;101;97;109].         (* stream *)

(* is_list_type(t) or (is_wrapping_type(t) and is_list_type(t.of_type)) *)
Definition listish (t : ty) : bool :=
  match t with
  | TList _ => true
  | TNonNull (TList _) => true
  | _ => false
  end.

(* the test of enter_directive on the directive node dn with fd = get_field_def() and
   pt = get_parent_type() *)
Definition violb (fd : option field_def) (pt : option Value.str) (dn : node) : bool :=
  match dn with
  | Nd KDirective (ANode nm :: _) =>
    match fd, pt with
    | Some f, Some _ => str_eqb (name_str nm) n_stream && negb (listish (f_type f))
    | _, _ => false
    end
  | _ => false
  end.

(* the directives (attribute i of the node at p) *)
Definition stream_dirs (p : npath) (i : nat) (ds : list node) (fd : option field_def)
           (pt : option Value.str) : list npath :=
  concat (mapi (fun j dn => if violb fd pt dn then [p ++ [(i, j)]] else []) ds).

(* TypeInfo.enter_field: the field definition looked up in the parent type of the selection set
   whose type-stack top is ct; the named type pushed for the field's own selection set *)
Definition fdef_at (vs : vschema) (ct : option Value.str) (nm : node) : option field_def :=
  match composite_of (vs_s vs) ct with
  | Some t => get_field (vs_s vs) t (name_str nm)
  | None => None
  end.
Definition sub_ct (vs : vschema) (fdef : option field_def) : option Value.str :=
  option_map named_of
    (match fdef with
     | Some f => if is_output_named (vs_s vs) (named_of (f_type f)) then Some (f_type f) else None
     | None => None
     end).
(* TypeInfo.enter_inline_fragment *)
Definition inline_ct (vs : vschema) (tc : attr) (ct : option Value.str) : option Value.str :=
  match tc with ANode t => cond_type vs t | _ => ct end.

(* a selection set at p; ct and fd as in Rules13.sel_evs *)
Fixpoint stream_sel (vs : vschema) (p : npath) (ss : node) (ct : option Value.str)
         (fd : option field_def) {struct ss} : list npath :=
  let pt := composite_of (vs_s vs) ct in
  match ss with
  | Nd KSelectionSet (AList sels :: _) =>
    concat (mapi (fun j sel =>
      let sp := p ++ [(O, j)] in
      match sel with
      | Nd KField (d :: ANode nm :: _ :: _ :: sset :: _) =>
        stream_dirs sp 0 (attr_list d) (fdef_at vs ct nm) pt
        ++ (match sset with
            | ANode s' => stream_sel vs (sp ++ [(4, O)]%nat) s' (sub_ct vs (fdef_at vs ct nm)) (fdef_at vs ct nm)
            | _ => []
            end)
      | Nd KFragmentSpread (d :: ANode _ :: _) => stream_dirs sp 0 (attr_list d) fd pt
      | Nd KInlineFragment (d :: ANode s' :: tc :: _) =>
        stream_dirs sp 0 (attr_list d) fd pt
        ++ stream_sel vs (sp ++ [(1, O)]%nat) s' (inline_ct vs tc ct) fd
      | _ => []
      end) sels)
  | _ => []
  end.

(* one selection at sp (the body of the loop above) *)
Definition stream_sel1 (vs : vschema) (sp : npath) (sel : node) (ct : option Value.str)
           (fd : option field_def) : list npath :=
  let pt := composite_of (vs_s vs) ct in
  match sel with
  | Nd KField (d :: ANode nm :: _ :: _ :: sset :: _) =>
    stream_dirs sp 0 (attr_list d) (fdef_at vs ct nm) pt
    ++ (match sset with
        | ANode s' => stream_sel vs (sp ++ [(4, O)]%nat) s' (sub_ct vs (fdef_at vs ct nm)) (fdef_at vs ct nm)
        | _ => []
        end)
  | Nd KFragmentSpread (d :: ANode _ :: _) => stream_dirs sp 0 (attr_list d) fd pt
  | Nd KInlineFragment (d :: ANode s' :: tc :: _) =>
    stream_dirs sp 0 (attr_list d) fd pt
    ++ stream_sel vs (sp ++ [(1, O)]%nat) s' (inline_ct vs tc ct) fd
  | _ => []
  end.

(* one definition at p *)
Definition stream_def (vs : vschema) (p : npath) (n : node) : list npath :=
  match n with
  | Nd KOperationDefinition (ANode ss :: _ :: _ :: _ :: _ :: o :: _) =>
    stream_sel vs (p ++ [(O, O)]) ss (op_root (vs_s vs) o) None
  | Nd KFragmentDefinition (ANode ss :: _ :: _ :: _ :: _ :: ANode tc :: _) =>
    stream_sel vs (p ++ [(O, O)]) ss (cond_type vs tc) None
  | _ => []
  end.

Definition stream_paths (vs : vschema) (d : node) : list npath :=
  concat (mapi (fun j n => stream_def vs [(O, j)] n) (doc_defs d)).

Definition rule_stream_on_list_field (vs : vschema) (d : node) : list verr :=
  map (fun q => VE R_STREAM [q]) (stream_paths vs d).
