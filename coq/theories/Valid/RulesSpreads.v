(* ASTValidationContext.get_fragment_spreads as the code runs it - a stack of selection sets,
   popped from the end - against the structural formulation Rules.set_spreads used by the rules:
   equal results, and the loop ends within (number of selection sets below the node) + 1 steps. *)
From GV Require Import Base.Prelude Lang.Ast Valid.Rules Valid.RulesBase Valid.RulesErase.

(* the spread standing directly at position j of the set at path p / the set nested there *)
Definition sel_direct (p : path) (j : nat) (sel : node) : list spread :=
  match sel with
  | Nd KFragmentSpread _ => [spread_of (p ++ [(0, j)]%nat) sel]
  | _ => []
  end.

Definition sel_nested (p : path) (j : nat) (sel : node) : option (path * node) :=
  match sel with
  | Nd KField (_ :: _ :: _ :: _ :: ANode s' :: _) => Some (p ++ [(0, j); (4, O)]%nat, s')
  | Nd KInlineFragment (_ :: ANode s' :: _) => Some (p ++ [(0, j); (1, O)]%nat, s')
  | _ => None
  end.

Definition selections (s : node) : list node :=
  match s with Nd KSelectionSet (AList sels :: _) => sels | _ => [] end.

Definition opt_list {A} (o : option A) : list A := match o with Some x => [x] | None => [] end.

(* one iteration: `for selection in visited_set.selections` *)
Definition scan (p : path) (s : node) : list spread * list (path * node) :=
  (concat (mapi (sel_direct p) (selections s)),
   flat_map opt_list (mapi (sel_nested p) (selections s))).

(* the loop; the top of the stack is the head.  None = out of fuel *)
Fixpoint spreads_loop (fuel : nat) (stack : list (path * node)) (acc : list spread)
  : option (list spread) :=
  match fuel with
  | O => None
  | S fuel' =>
    match stack with
    | [] => Some acc
    | (p, s) :: rest =>
      spreads_loop fuel' (rev (snd (scan p s)) ++ rest) (acc ++ fst (scan p s))
    end
  end.

(* number of selection sets at and below a selection set *)
Fixpoint nsets (s : node) {struct s} : nat :=
  match s with
  | Nd KSelectionSet (AList sels :: _) =>
    S (list_sum (map (fun sel =>
         match sel with
         | Nd KField (_ :: _ :: _ :: _ :: ANode s' :: _) => nsets s'
         | Nd KInlineFragment (_ :: ANode s' :: _) => nsets s'
         | _ => O
         end) sels))
  | _ => 1%nat
  end.

Definition ss (ps : path * node) : list spread := set_spreads (fst ps) (snd ps).

Lemma sel_part_fst p j sel : fst (sel_part p j sel) = sel_direct p j sel.
Proof.
  destruct sel as [k' a']. destruct k'; try reflexivity.
  - destruct a' as [|? [|? [|? [|? [|[] ?]]]]]; reflexivity.
  - destruct a' as [|? [|[] ?]]; reflexivity.
Qed.

Lemma sel_part_snd p j sel :
  snd (sel_part p j sel) = match sel_nested p j sel with Some ps => ss ps | None => [] end.
Proof.
  destruct sel as [k' a']. destruct k'; try reflexivity.
  - destruct a' as [|? [|? [|? [|? [|[] ?]]]]]; reflexivity.
  - destruct a' as [|? [|[] ?]]; reflexivity.
Qed.

Lemma parts_nested p sels : forall i,
  concat (rev (map snd (mapi_from (sel_part p) i sels))) =
  concat (rev (map ss (flat_map opt_list (mapi_from (sel_nested p) i sels)))).
Proof.
  induction sels as [|sel sels IH]; intro i; [reflexivity|].
  cbn [mapi_from map flat_map rev]. rewrite map_app, rev_app_distr, !concat_app, IH. f_equal.
  rewrite sel_part_snd. destruct (sel_nested p i sel); cbn; rewrite ?app_nil_r; reflexivity.
Qed.

Lemma set_spreads_scan p s :
  set_spreads p s = fst (scan p s) ++ concat (rev (map ss (snd (scan p s)))).
Proof.
  unfold scan, selections. destruct s as [k attrs]. destruct k; try reflexivity.
  destruct attrs as [|[| |sels| | |] r]; try reflexivity.
  cbn [fst snd]. rewrite set_spreads_unfold. cbv zeta. unfold mapi. f_equal.
  - f_equal. rewrite map_mapi_from. apply mapi_from_ext. intros. apply sel_part_fst.
  - apply parts_nested.
Qed.

Lemma list_sum_cons a l : list_sum (a :: l) = (a + list_sum l)%nat.
Proof. reflexivity. Qed.

Lemma nested_sizes p sels : forall i,
  list_sum (map (fun sel =>
     match sel with
     | Nd KField (_ :: _ :: _ :: _ :: ANode s' :: _) => nsets s'
     | Nd KInlineFragment (_ :: ANode s' :: _) => nsets s'
     | _ => O
     end) sels) =
  list_sum (map (fun ps => nsets (snd ps)) (flat_map opt_list (mapi_from (sel_nested p) i sels))).
Proof.
  induction sels as [|sel sels IH]; intro i; [reflexivity|].
  cbn [mapi_from map flat_map]. rewrite map_app, list_sum_app, list_sum_cons, <- IH. f_equal.
  destruct sel as [k' a']. destruct k'; try reflexivity.
  - destruct a' as [|? [|? [|? [|? [|[] ?]]]]]; try reflexivity.
    cbn [sel_nested opt_list map snd]. rewrite list_sum_cons. cbn [list_sum fold_right]. lia.
  - destruct a' as [|? [|[] ?]]; try reflexivity.
    cbn [sel_nested opt_list map snd]. rewrite list_sum_cons. cbn [list_sum fold_right]. lia.
Qed.

Lemma nsets_scan p s : nsets s = S (list_sum (map (fun ps => nsets (snd ps)) (snd (scan p s)))).
Proof.
  unfold scan, selections. destruct s as [k attrs]. destruct k; try reflexivity.
  destruct attrs as [|[| |sels| | |] r]; try reflexivity.
  cbn [fst snd nsets]. f_equal. apply nested_sizes.
Qed.

Definition stack_size (stack : list (path * node)) : nat :=
  list_sum (map (fun ps => nsets (snd ps)) stack).

Lemma spreads_loop_spec fuel : forall stack acc, (stack_size stack < fuel)%nat ->
  spreads_loop fuel stack acc = Some (acc ++ flat_map ss stack).
Proof.
  induction fuel as [|fuel IH]; intros stack acc H; [lia|].
  cbn [spreads_loop]. destruct stack as [|[p s] rest]; [cbn; rewrite app_nil_r; reflexivity|].
  rewrite IH.
  - f_equal. rewrite flat_map_app, <- app_assoc. f_equal. cbn [flat_map]. rewrite app_assoc. f_equal.
    change (ss (p, s)) with (set_spreads p s). rewrite (set_spreads_scan p s). f_equal.
    rewrite flat_map_concat_map, map_rev. reflexivity.
  - unfold stack_size in *. cbn [map snd] in H. rewrite list_sum_cons, (nsets_scan p s) in H.
    rewrite map_app, list_sum_app, map_rev.
    assert (E : forall l, list_sum (rev l) = list_sum l).
    { induction l as [|a l IHl]; [reflexivity|]. cbn [rev].
      rewrite list_sum_app, IHl, !list_sum_cons. cbn [list_sum fold_right]. lia. }
    rewrite E. lia.
Qed.

(* get_fragment_spreads(node) *)
Definition get_fragment_spreads (p : path) (s : node) : option (list spread) :=
  spreads_loop (S (nsets s)) [(p, s)] [].

Theorem get_fragment_spreads_spec p s : get_fragment_spreads p s = Some (set_spreads p s).
Proof.
  unfold get_fragment_spreads. rewrite spreads_loop_spec.
  - cbn [flat_map app]. unfold ss. cbn [fst snd]. rewrite app_nil_r. reflexivity.
  - unfold stack_size. cbn [map snd]. rewrite list_sum_cons. cbn [list_sum fold_right]. lia.
Qed.
