(* C12 (rules, continued) - 29 DeferStreamDirectiveOnValidOperationsRule
   (rules/defer_stream_directive_on_valid_operations_rule.py) as a function of the parser's AST.

   enter_operation_definition, for a subscription: forbid_unconditional_defer_stream walks the WHOLE
   selection tree of the operation (fields and inline fragments structurally, fragment spreads
   through the fragments dict - last definition wins - with ONE set of visited fragment names per
   operation and the list of spreads on the way, nearest first).  A selection that can be skipped
   (its first @skip has no `if`, a true or a non-boolean `if`; else its first @include has a false or
   a non-boolean `if`) is passed over entirely.  Otherwise each of its directives named defer /
   stream whose `if` cannot be false (absent, `true`, or neither boolean nor variable) is reported
   at [directive, spreads on the way].  Recursion as in Valid/RulesRoot.v: structural + fuel through
   spreads (None = out of fuel; never with rf_fuel, Valid/RulesValidOpsProps.v).  Definitions only. *)
From GV Require Import Base.Prelude Lang.Ast Valid.Rules Valid.RulesDir Valid.RulesRoot.

Definition R_VOPS : N := 29.
Definition n_skip : str := [115;107;105;112].                  (* skip *)
Definition n_include : str := [105;110;99;108;117;100;101].      (* include *)
Definition n_if : str := [105;102].                             (* if *)

(* get_directive: the first directive with that name *)
Fixpoint find_dir (nm : str) (ds : list node) : option node :=
  match ds with
  | [] => None
  | dn :: r => if streq (dir_name dn) nm then Some dn else find_dir nm r
  end.

(* get_if_argument(...).value; outer None: no `if` argument *)
Fixpoint first_if (args : list node) : option (option node) :=
  match args with
  | [] => None
  | a :: r =>
    if streq (arg_name a) n_if
    then Some (match a with Nd _ (_ :: ANode v :: _) => Some v | _ => None end)
    else first_if r
  end.

Definition dir_args (dn : node) : list node :=
  match dn with Nd _ (_ :: AList args :: _) => args | _ => [] end.

Definition if_can_be_false (dn : node) : bool :=
  match first_if (dir_args dn) with
  | None => false
  | Some (Some (Nd KBooleanValue (ABool b :: _))) => negb b
  | Some (Some (Nd KVariable _)) => true
  | Some _ => false
  end.

Definition can_skip (dn : node) : bool :=
  match first_if (dir_args dn) with
  | None => true
  | Some (Some (Nd KBooleanValue (ABool b :: _))) => b
  | Some _ => true
  end.

Definition can_unclude (dn : node) : bool :=
  match first_if (dir_args dn) with
  | None => false
  | Some (Some (Nd KBooleanValue (ABool b :: _))) => negb b
  | Some _ => true
  end.

Definition skipped (sel : node) : bool :=
  match find_dir n_skip (sel_dirs sel) with
  | Some dn => if can_skip dn then true else
                 match find_dir n_include (sel_dirs sel) with Some di => can_unclude di | None => false end
  | None => match find_dir n_include (sel_dirs sel) with Some di => can_unclude di | None => false end
  end.

(* the reports for the directives of the selection at sp *)
Definition vo_errs (parents : list path) (sp : path) (ds : list node) : list verr :=
  concat (mapi (fun i dn =>
    if (streq (dir_name dn) n_defer || streq (dir_name dn) n_stream) && negb (if_can_be_false dn)
    then [VE R_VOPS ((sp ++ [(O, i)]) :: parents)] else []) ds).

Section Walk.
  Variable spread : list path -> path -> node -> str -> rstate -> option rstate.

  Fixpoint vsel (parents : list path) (p : path) (ss : node) (st : rstate) {struct ss} : option rstate :=
    match ss with
    | Nd KSelectionSet (AList sels :: _) =>
      foldi (fun j sel st =>
        let sp := p ++ [(O, j)] in
        if skipped sel then Some st
        else
          let st1 := (fst st, snd st ++ vo_errs parents sp (sel_dirs sel)) in
          match sel with
          | Nd KFragmentSpread (_ :: ANode nm :: _) => spread parents sp sel (name_str nm) st1
          | Nd KField (_ :: _ :: _ :: _ :: ANode s' :: _) => vsel parents (sp ++ [(4, O)]%nat) s' st1
          | Nd KInlineFragment (_ :: ANode s' :: _) => vsel parents (sp ++ [(1, O)]%nat) s' st1
          | _ => Some st1
          end) O sels st
    | _ => Some st
    end.
End Walk.

Fixpoint vf (fuel : nat) (fr : list (str * (path * node)))
  : list path -> path -> node -> rstate -> option rstate :=
  vsel (fun parents sp sel name st =>
    if mem name (fst st) then Some st
    else
      let st1 := (name :: fst st, snd st) in
      match lookup name fr with
      | Some (fp, fss) =>
        match fuel with
        | O => None
        | S f => vf f fr (sp :: parents) fp fss st1
        end
      | None => Some st1
      end).

Definition rule_valid_operations (d : node) : option (list verr) :=
  let fr := rf_frags d in
  opt_concat (mapi (fun j n =>
    match n with
    | Nd KOperationDefinition (ANode ss :: _) =>
      match op_code n with
      | Some 2 => option_map snd (vf (rf_fuel fr) fr [] [(O, j); (O, O)] ss ([], []))
      | _ => Some []
      end
    | _ => Some []
    end) (ddefs d)).
