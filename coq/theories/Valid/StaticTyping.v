(* C13 / the bridge between validation and the runtime-type-directed typing judgment of
   Exec/Typing.v, on the execution model's own document type.

   [sstatic pt x]: selection x is well typed at the STATIC parent type pt - what the descent of the
   validation rules (TypeInfo) establishes: the field is defined on pt, its arguments are accepted
   against that definition, leaf fields have no and composite fields have a sub-selection, typed at
   the field's static type; an inline fragment is typed at its type condition.
   [schema_impl_ok]: objects implement their interfaces (same argument types and defaults, extra
   arguments optional, field types whose runtime types are included) - the part of schema validity
   that lets a field typed against an interface be executed against the implementing object.
   [names_agree]: fields that can be merged under one response key have one field name - the part
   of OverlappingFieldsCanBeMerged execution relies on (the judgment of Typing.v without its
   per-field clause).
   Theorem (StaticTypingProps): static typing + schema_impl_ok + names_agree => set_typed. *)
From GV Require Import Base.Prelude Exec.Value Exec.Schema Exec.Spec Exec.Typing.

Definition is_nil {A} (l : list A) : bool := match l with [] => true | _ => false end.

Section Static.
  Variable s : schema.
  Variable vdefs : list var_def.

  Fixpoint sstatic (pt : str) (x : selection) {struct x} : bool :=
    match x with
    | SField al name args dirs sub =>
      if str_eqb name n_typename then is_nil args && is_nil sub
      else
        match lookup_field s pt name with
        | None => false
        | Some fd =>
          args_ok s vdefs [] (f_args fd) args &&
          match lookup_type s (named_of (f_type fd)) with
          | None => false
          | Some td =>
            if is_leaf_def td then is_nil sub
            else is_composite_def td && negb (is_nil sub) &&
                 (fix all (l : list selection) : bool :=
                    match l with [] => true | y :: r => sstatic (named_of (f_type fd)) y && all r end) sub
          end
        end
    | SSpread _ _ => true
    | SInline tc dirs sub =>
      (fix all (l : list selection) : bool :=
         match l with
         | [] => true
         | y :: r => sstatic (match tc with Some c => c | None => pt end) y && all r
         end) sub
    end.

  Definition sstatic_list (pt : str) (l : list selection) : bool := forallb (sstatic pt) l.

  (* every fragment whose type condition is a composite type is typed at that type *)
  Definition frags_static (frags : list fragment) : bool :=
    forallb (fun fr =>
      match lookup_type s (fr_cond fr) with
      | Some td => negb (is_composite_def td) || sstatic_list (fr_cond fr) (fr_sels fr)
      | None => true
      end) frags.
End Static.

(* ---- interface implementation ---- *)
Fixpoint ty_eqb (a b : ty) : bool :=
  match a, b with
  | TNamed x, TNamed y => str_eqb x y
  | TList x, TList y => ty_eqb x y
  | TNonNull x, TNonNull y => ty_eqb x y
  | _, _ => false
  end.

Definition arg_compat (ai ao : arg_def) : bool :=
  ty_eqb (a_type ai) (a_type ao) && Bool.eqb (has_default ai) (has_default ao).

(* the object's arguments [ao_] against the interface's [ai_] *)
Definition args_impl (ai_ ao_ : list arg_def) : bool :=
  forallb (fun ai => match find_arg (a_name ai) ao_ with Some ao => arg_compat ai ao | None => false end) ai_
  && forallb (fun ao => match find_arg (a_name ao) ai_ with Some _ => true | None => negb (required_arg ao) end) ao_.

Definition composite_name (s : schema) (n : str) : bool :=
  match lookup_type s n with Some td => is_composite_def td | None => false end.

(* named type of the object's field against that of the interface's field *)
Definition out_compat (s : schema) (ni no : str) : bool :=
  str_eqb no ni ||
  (composite_name s ni && composite_name s no &&
   forallb (fun rt => implb (runtime_of_b s no rt) (runtime_of_b s ni rt)) (object_names s)).

Definition field_impl (s : schema) (fi fo : field_def) : bool :=
  args_impl (f_args fi) (f_args fo) && out_compat s (named_of (f_type fi)) (named_of (f_type fo)).

Definition fields_wf (s : schema) (fs : list field_def) : bool :=
  forallb (fun fd =>
    nodup_names (map a_name (f_args fd)) &&
    match lookup_type s (named_of (f_type fd)) with
    | Some td => is_leaf_def td || is_composite_def td
    | None => false
    end) fs.

Definition schema_impl_ok (s : schema) : bool :=
  forallb (fun e =>
    match snd e with
    | TObject fs ifs =>
      fields_wf s fs &&
      forallb (fun i =>
        match lookup_type s i with
        | Some (TInterface ifs') =>
          forallb (fun fi => match find_field (f_name fi) fs with
                             | Some fo => field_impl s fi fo
                             | None => false
                             end) ifs'
        | _ => true
        end) ifs
    | TInterface fs => fields_wf s fs
    | _ => true
    end) (s_types s).

(* ---- the merging part of the judgment ---- *)
Section Agree.
  Variable s : schema.
  Variable frags : list fragment.

  Inductive names_agree : str -> list selection -> Prop :=
  | names_agree_intro rt sels :
      (forall k f1 f2, reach s frags rt sels k f1 -> reach s frags rt sels k f2 -> fs_name f1 = fs_name f2) ->
      (forall k fs f1 fd rt',
          (forall f, In f fs -> reach s frags rt sels k f) -> In f1 fs ->
          lookup_field s rt (fs_name f1) = Some fd ->
          runtime_of_b s (named_of (f_type fd)) rt' = true ->
          names_agree rt' (merged_sels fs)) ->
      names_agree rt sels.
End Agree.
