(* Translation of the execution model's schema and document (Exec/Schema.v) into the input of the
   field-merge specification function of C14 (Valid/Overlap.v): names interned to N by an
   injective code (0 = __typename, 1 = String as that model reserves), field occurrences numbered,
   directives dropped, literals as tagged atoms.  Definitions only. *)
From GV Require Import Base.Prelude Exec.Value Exec.Schema Exec.Spec.
From GV Require Valid.Overlap.

(* injective code of a string: [] -> 0, c :: r -> 2^c (2 code(r) + 1) *)
Fixpoint code (l : list N) : N :=
  match l with
  | [] => 0
  | c :: r => 2 ^ c * (2 * code r + 1)
  end.

Definition intern (x : str) : N :=
  if str_eqb x n_typename then 0 else if str_eqb x n_String then 1 else code x + 2.

Fixpoint o_ty (t : ty) : Overlap.ty :=
  match t with
  | TNamed n => Overlap.TNamed (intern n)
  | TList t' => Overlap.TList (o_ty t')
  | TNonNull t' => Overlap.TNonNull (o_ty t')
  end.

Definition z_text (z : Z) : list N := [if (z <? 0)%Z then 1 else 0; Z.abs_N z].

Fixpoint o_value (v : value) : Overlap.value :=
  match v with
  | VNull => Overlap.VAtom 5 []
  | VInt z => Overlap.VAtom 1 (z_text z)
  | VFloat n d => Overlap.VAtom 2 (z_text n ++ [d])
  | VStr x => Overlap.VAtom 3 x
  | VBool b => Overlap.VAtom 4 [if b then 1 else 0]
  | VEnum e => Overlap.VAtom 6 e
  | VVar x => Overlap.VVar (intern x)
  | VList l => Overlap.VList (map o_value l)
  | VObj fs => Overlap.VObj (map (fun kv => (intern (fst kv), o_value (snd kv))) fs)
  end.

Definition o_args (a : list (str * value)) : list (N * Overlap.value) :=
  map (fun kv => (intern (fst kv), o_value (snd kv))) a.

(* one selection without what follows it *)
Inductive ohead :=
| HField (f : Overlap.fld) (sub : Overlap.sels)
| HInline (iid : N) (tc : option N) (sub : Overlap.sels)
| HSpread (n : N).

Definition o_cons (h : ohead) (rest : Overlap.sels) : Overlap.sels :=
  match h with
  | HField f sub => Overlap.SelField f sub rest
  | HInline i tc sub => Overlap.SelInline i tc sub rest
  | HSpread n => Overlap.SelSpread n rest
  end.

(* selections; c = next occurrence number *)
Fixpoint o_sel (x : selection) (c : N) {struct x} : ohead * N :=
  let o_list := fix go (l : list selection) (c : N) {struct l} : Overlap.sels * N :=
    match l with
    | [] => (Overlap.SelNil, c)
    | y :: r => let '(h, c1) := o_sel y c in
                let '(orest, c2) := go r c1 in (o_cons h orest, c2)
    end in
  match x with
  | SField al nm args dirs sub =>
    let '(osub, c1) := o_list sub (c + 1) in
    (HField (Overlap.mkFld c (intern (response_key al nm)) (intern nm) (o_args args)) osub, c1)
  | SSpread nm _ => (HSpread (intern nm), c)
  | SInline tc _ sub =>
    let '(osub, c1) := o_list sub (c + 1) in
    (HInline c (option_map intern tc) osub, c1)
  end.

Fixpoint o_sels (c : N) (l : list selection) : Overlap.sels * N :=
  match l with
  | [] => (Overlap.SelNil, c)
  | y :: r => let '(h, c1) := o_sel y c in
              let '(orest, c2) := o_sels c1 r in (o_cons h orest, c2)
  end.

Fixpoint o_frags (c : N) (l : list fragment) : list Overlap.fragdef * N :=
  match l with
  | [] => ([], c)
  | f :: r =>
    let '(body, c1) := o_sels c (fr_sels f) in
    let '(rest, c2) := o_frags c1 r in
    (Overlap.mkFrag (intern (fr_name f)) (intern (fr_cond f)) body :: rest, c2)
  end.

Definition o_fields (fs : list field_def) : list (N * Overlap.ty) :=
  map (fun f => (intern (f_name f), o_ty (f_type f))) fs.

Definition o_scalars : Overlap.schema :=
  map (fun n => Overlap.mkTdef (intern n) Overlap.KLeaf []) [n_Int; n_Float; n_String; n_Boolean; n_ID].

Definition o_schema (s : schema) : Overlap.schema :=
  o_scalars ++
  flat_map (fun e =>
    match snd e with
    | TObject fs _ => [Overlap.mkTdef (intern (fst e)) Overlap.KObject (o_fields fs)]
    | TInterface fs => [Overlap.mkTdef (intern (fst e)) Overlap.KInterface (o_fields fs)]
    | TUnion _ => [Overlap.mkTdef (intern (fst e)) Overlap.KUnion []]
    | TEnum _ | TScalar _ | TInput _ _ => [Overlap.mkTdef (intern (fst e)) Overlap.KLeaf []]
    end) (s_types s).

(* the operation (with its root type rt) and the fragments *)
Definition o_doc (rt : str) (d : document) : Overlap.document :=
  let '(osels, c1) := o_sels 1 (d_sels d) in
  let '(ofr, _) := o_frags c1 (d_frags d) in
  Overlap.mkDoc [(intern rt, osels)] ofr.

(* the verdict of the specification's FieldsInSetCanMerge on the translated document *)
Definition overlap_verdict (s : schema) (rt : str) (d : document) : Overlap.verdict :=
  Overlap.spec_verdict (o_schema s) (o_doc rt d).
