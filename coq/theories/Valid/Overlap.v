(* C14 - Field Selection Merging (GraphQL specification, section 5.3.2) as an executable
   function.  Written from the specification text (FieldsInSetCanMerge, SameResponseShape),
   not from validation/rules/overlapping_fields_can_be_merged.py: no memo tables, no
   "between"/"within" split, no cached field maps.

   Names (types, fields, response names, fragments, variables, argument keys) are interned to
   N by the harness; only their equality is observed.  Reserved: name 0 = "__typename",
   name 1 = "String".

   Reading of the specification on documents it does not define (cyclic fragment spreads):
   - "the set of selections with a given response name in set including visiting fragments and
     inline fragments": each named fragment is visited at most once per collected set
     (visited set), so collection terminates on cyclic spreads;
   - the recursion FieldsInSetCanMerge(mergedSet) / SameResponseShape on sub-selections is read
     as "a conflict exists iff a finite chain of nested field pairs ends in a direct conflict",
     i.e. as a search for a reachable pair that conflicts directly: a pair (field A, field B,
     mode) that was already examined during the check of the current selection set is not
     examined again (visited set).  The verdict of a pair does not depend on how it was reached,
     so on documents without fragment cycles this is the specification's recursion with repeated
     work removed (the literal recursion is exponential in the nesting depth and does not
     terminate on cyclic spreads). *)
From GV Require Import Base.Prelude.

(* ---------------------------------------------------------------- schema *)
Inductive ty := TNamed (n : N) | TList (t : ty) | TNonNull (t : ty).
Inductive tkind := KObject | KInterface | KUnion | KLeaf.
Record tdef := mkTdef { td_name : N; td_kind : tkind; td_fields : list (N * ty) }.
Definition schema := list tdef.

Definition typename_field : N := 0.
Definition string_type : N := 1.

Fixpoint assoc {A} (k : N) (l : list (N * A)) : option A :=
  match l with
  | [] => None
  | (k', v) :: r => if k' =? k then Some v else assoc k r
  end.

Definition find_type (s : schema) (n : N) : option tdef :=
  find (fun d => td_name d =? n) s.

Definition kind_of (s : schema) (n : N) : option tkind :=
  match find_type s n with Some d => Some (td_kind d) | None => None end.

Definition is_object (s : schema) (n : N) : bool :=
  match kind_of s n with Some KObject => true | _ => false end.
Definition is_leaf (s : schema) (n : N) : bool :=
  match kind_of s n with Some KLeaf => true | _ => false end.
Definition is_composite (s : schema) (n : N) : bool :=
  match kind_of s n with Some KObject | Some KInterface | Some KUnion => true | _ => false end.

Fixpoint named (t : ty) : N :=
  match t with TNamed n => n | TList t' => named t' | TNonNull t' => named t' end.

(* return type of field [fname] selected on the type named [parent]; __typename : String! on
   every composite type (specification section 4.4 "Type Name Introspection") *)
Definition field_type (s : schema) (parent fname : N) : option ty :=
  if fname =? typename_field then
    (if is_composite s parent then Some (TNonNull (TNamed string_type)) else None)
  else
    match find_type s parent with
    | Some d => match td_kind d with
                | KObject | KInterface => assoc fname (td_fields d)
                | _ => None
                end
    | None => None
    end.

(* ---------------------------------------------------------------- documents *)
Inductive value :=
| VVar (n : N)
| VAtom (tag : N) (txt : list N)      (* int/float/string/boolean/null/enum and its text *)
| VList (vs : list value)
| VObj (fs : list (N * value)).

Record fld := mkFld { f_id : N; f_rname : N; f_name : N; f_args : list (N * value) }.

(* a selection set; a field without sub-selection has [sub = SelNil] *)
Inductive sels :=
| SelNil
| SelField (f : fld) (sub : sels) (rest : sels)
| SelInline (iid : N) (tc : option N) (sub : sels) (rest : sels)
| SelSpread (name : N) (rest : sels).

Record fragdef := mkFrag { fr_name : N; fr_type : N; fr_body : sels }.
(* operations carry the name of their root type *)
Record document := mkDoc { d_ops : list (N * sels); d_frags : list fragdef }.

(* ---------------------------------------------------------------- argument identity *)
(* "Input object fields may be provided in any syntactic order": values are compared after
   sorting object fields by key (stable insertion sort). *)
Fixpoint insert_kv (kv : N * value) (l : list (N * value)) : list (N * value) :=
  match l with
  | [] => [kv]
  | kv' :: r => if fst kv <? fst kv' then kv :: l else kv' :: insert_kv kv r
  end.

Definition sort_kvs (l : list (N * value)) : list (N * value) :=
  fold_right insert_kv [] l.

Fixpoint norm_value (v : value) : value :=
  match v with
  | VList vs => VList (map norm_value vs)
  | VObj fs => VObj (sort_kvs (map (fun kv => (fst kv, norm_value (snd kv))) fs))
  | _ => v
  end.

Fixpoint value_eqb (a b : value) : bool :=
  match a, b with
  | VVar x, VVar y => x =? y
  | VAtom t x, VAtom u y => (t =? u) && nat_list_eqb x y
  | VList xs, VList ys =>
    (fix go (xs ys : list value) : bool :=
       match xs, ys with
       | [], [] => true
       | x :: xs', y :: ys' => value_eqb x y && go xs' ys'
       | _, _ => false
       end) xs ys
  | VObj xs, VObj ys =>
    (fix go (xs ys : list (N * value)) : bool :=
       match xs, ys with
       | [], [] => true
       | (k, x) :: xs', (l, y) :: ys' => (k =? l) && value_eqb x y && go xs' ys'
       | _, _ => false
       end) xs ys
  | _, _ => false
  end.

Definition same_value (a b : value) : bool := value_eqb (norm_value a) (norm_value b).

(* "identical sets of arguments": same argument names, each with the same value *)
Definition args_same (a b : list (N * value)) : bool :=
  (length a =? length b)%nat &&
  forallb (fun kv => match assoc (fst kv) b with
                     | Some w => same_value (snd kv) w
                     | None => false
                     end) a.

(* ---------------------------------------------------------------- SameResponseShape on types *)
(* true = the two return types can NOT have the same response shape (steps 3-5 of
   SameResponseShape: non-null wrappers must agree, list wrappers must agree, leaves must be
   the same type; two composite types are compared through their sub-selections later). *)
Fixpoint shape_conflict (s : schema) (a b : ty) : bool :=
  match a, b with
  | TNonNull a', TNonNull b' => shape_conflict s a' b'
  | TNonNull _, _ => true
  | _, TNonNull _ => true
  | TList a', TList b' => shape_conflict s a' b'
  | TList _, _ => true
  | _, TList _ => true
  | TNamed x, TNamed y => if is_leaf s x || is_leaf s y then negb (x =? y) else false
  end.

(* ---------------------------------------------------------------- collecting a set *)
(* a field of a collected set: the type it was selected on, the field, its sub-selection *)
Record entry := mkEntry { e_parent : N; e_fld : fld; e_sub : sels }.

Definition mem (n : N) (l : list N) : bool := existsb (N.eqb n) l.

Definition find_frag (frags : list fragdef) (n : N) : option fragdef :=
  find (fun fd => fr_name fd =? n) frags.

(* visited fragment names, collected fields (in document order) *)
Definition cstate : Type := (list N * list entry)%type.
Definition collect_fn : Type := N -> sels -> cstate -> option cstate.

(* [rec] expands the body of a named fragment; None = out of fuel *)
Fixpoint collect_go (frags : list fragdef) (rec : collect_fn) (parent : N) (ss : sels) (st : cstate)
  : option cstate :=
  match ss with
  | SelNil => Some st
  | SelField f sub rest =>
      collect_go frags rec parent rest (fst st, snd st ++ [mkEntry parent f sub])
  | SelInline _ tc sub rest =>
      match collect_go frags rec (match tc with Some t => t | None => parent end) sub st with
      | None => None
      | Some st' => collect_go frags rec parent rest st'
      end
  | SelSpread n rest =>
      if mem n (fst st) then collect_go frags rec parent rest st
      else match find_frag frags n with
           | None => collect_go frags rec parent rest (n :: fst st, snd st)
           | Some fd =>
               match rec (fr_type fd) (fr_body fd) (n :: fst st, snd st) with
               | None => None
               | Some st' => collect_go frags rec parent rest st'
               end
           end
  end.

(* fuel = number of fragment bodies that may still be entered *)
Fixpoint collect (frags : list fragdef) (fuel : nat) : collect_fn :=
  match fuel with
  | O => collect_go frags (fun _ _ _ => None)
  | S f => collect_go frags (collect frags f)
  end.

(* ---------------------------------------------------------------- verdicts *)
Inductive verdict := VNo | VConflict | VUntyped | VFuel.

Definition vjoin (a b : verdict) : verdict :=
  match a, b with
  | VFuel, _ | _, VFuel => VFuel
  | VUntyped, _ | _, VUntyped => VUntyped
  | VConflict, _ | _, VConflict => VConflict
  | VNo, VNo => VNo
  end.

(* every unordered pair of members of [l], threading a state *)
Fixpoint row {A S} (f : S -> A -> verdict * S) (st : S) (l : list A) : verdict * S :=
  match l with
  | [] => (VNo, st)
  | y :: r =>
    let '(v1, st1) := f st y in
    let '(v2, st2) := row f st1 r in
    (vjoin v1 v2, st2)
  end.

Fixpoint pairs {A S} (f : S -> A -> A -> verdict * S) (st : S) (l : list A) : verdict * S :=
  match l with
  | [] => (VNo, st)
  | x :: r =>
    let '(v1, st1) := row (fun st y => f st x y) st r in
    let '(v2, st2) := pairs f st1 r in
    (vjoin v1 v2, st2)
  end.

(* ---------------------------------------------------------------- FieldsInSetCanMerge *)
Notation pkey := (N * N * bool)%type (only parsing).
Definition pkey_eqb (a b : pkey) : bool :=
  (fst (fst a) =? fst (fst b)) && (snd (fst a) =? snd (fst b)) && Bool.eqb (snd a) (snd b).
Definition pkey_mem (k : pkey) (l : list pkey) : bool := existsb (pkey_eqb k) l.

Definition same_rname (x y : entry) : bool := f_rname (e_fld x) =? f_rname (e_fld y).

(* visited pairs in, verdict and visited pairs out *)
Definition conf_fn : Type := list pkey -> bool -> entry -> entry -> verdict * list pkey.

(* One pair of fields with the same response name.
   [shape_only = true]: only SameResponseShape is required (an enclosing pair had parent
   types that are different Object types); otherwise the full FieldsInSetCanMerge conditions. *)
Definition conf_step (s : schema) (frags : list fragdef) (cfuel : nat) (rec : conf_fn) : conf_fn :=
  fun vis shape_only a b =>
    let k := (f_id (e_fld a), f_id (e_fld b), shape_only) in
    if pkey_mem k vis then (VNo, vis)
    else
      let vis1 := k :: vis in
      match field_type s (e_parent a) (f_name (e_fld a)),
            field_type s (e_parent b) (f_name (e_fld b)) with
      | Some ta, Some tb =>
        let exclusive :=
          shape_only || (negb (e_parent a =? e_parent b)
                         && is_object s (e_parent a) && is_object s (e_parent b)) in
        if negb exclusive && (negb (f_name (e_fld a) =? f_name (e_fld b))
                              || negb (args_same (f_args (e_fld a)) (f_args (e_fld b))))
        then (VConflict, vis1)
        else if shape_conflict s ta tb then (VConflict, vis1)
        else
          (* mergedSet = selection set of fieldA + selection set of fieldB, fragments visited once *)
          match collect frags cfuel (named ta) (e_sub a) ([], []) with
          | None => (VFuel, vis1)
          | Some st1 =>
            match collect frags cfuel (named tb) (e_sub b) st1 with
            | None => (VFuel, vis1)
            | Some st2 =>
              pairs (fun vis x y => if same_rname x y then rec vis exclusive x y else (VNo, vis))
                    vis1 (snd st2)
            end
          end
      | _, _ => (VUntyped, vis1)
      end.

Fixpoint conf (s : schema) (frags : list fragdef) (cfuel : nat) (fuel : nat) : conf_fn :=
  match fuel with
  | O => fun vis _ _ _ => (VFuel, vis)
  | S f => conf_step s frags cfuel (conf s frags cfuel f)
  end.

(* FieldsInSetCanMerge(set) for one selection set of the document *)
Definition check_set (s : schema) (frags : list fragdef) (cfuel dfuel : nat) (parent : N) (ss : sels)
  : verdict :=
  match collect frags cfuel parent ss ([], []) with
  | None => VFuel
  | Some st =>
    fst (pairs (fun vis x y => if same_rname x y then conf s frags cfuel dfuel vis false x y
                               else (VNo, vis)) [] (snd st))
  end.

(* "Let set be any selection set defined in the GraphQL document": walk every selection set
   with the type it applies to.  VUntyped when a field or type condition cannot be typed
   (outside the modelled fragment; the specification presupposes the other rules). *)
Fixpoint walk (s : schema) (chk : N -> sels -> verdict) (parent : N) (ss : sels) : verdict :=
  match ss with
  | SelNil => VNo
  | SelField f sub rest =>
      vjoin (match field_type s parent (f_name f) with
             | None => VUntyped
             | Some t =>
               match sub with
               | SelNil => VNo
               | _ => vjoin (chk (named t) sub) (walk s chk (named t) sub)
               end
             end)
            (walk s chk parent rest)
  | SelInline _ tc sub rest =>
      let p := match tc with Some t => t | None => parent end in
      vjoin (if is_composite s p then vjoin (chk p sub) (walk s chk p sub) else VUntyped)
            (walk s chk parent rest)
  | SelSpread _ rest => walk s chk parent rest
  end.

Definition check_root (s : schema) (chk : N -> sels -> verdict) (parent : N) (ss : sels) : verdict :=
  if is_composite s parent then vjoin (chk parent ss) (walk s chk parent ss) else VUntyped.

(* all field ids of a selection set / document: the universe of the termination argument *)
Fixpoint fids_sels (ss : sels) : list N :=
  match ss with
  | SelNil => []
  | SelField f sub rest => f_id f :: fids_sels sub ++ fids_sels rest
  | SelInline _ _ sub rest => fids_sels sub ++ fids_sels rest
  | SelSpread _ rest => fids_sels rest
  end.

Definition doc_fids (d : document) : list N :=
  flat_map (fun o => fids_sels (snd o)) (d_ops d) ++ flat_map (fun fd => fids_sels (fr_body fd)) (d_frags d).

Definition collect_fuel (d : document) : nat := length (d_frags d).
Definition depth_fuel (d : document) : nat := S (length (doc_fids d) * length (doc_fids d) * 2).

Definition spec_verdict (s : schema) (d : document) : verdict :=
  let chk := check_set s (d_frags d) (collect_fuel d) (depth_fuel d) in
  vjoin (fold_right (fun o acc => vjoin (check_root s chk (fst o) (snd o)) acc) VNo (d_ops d))
        (fold_right (fun fd acc => vjoin (check_root s chk (fr_type fd) (fr_body fd)) acc) VNo (d_frags d)).

(* the property's observable: does the specification find a pair that cannot be merged *)
Definition spec_conflicts (s : schema) (d : document) : bool :=
  match spec_verdict s d with VConflict => true | _ => false end.

(* field ids must identify field occurrences (checked by the executable entry) *)
Fixpoint nodupb (l : list N) : bool :=
  match l with [] => true | x :: r => negb (mem x r) && nodupb r end.
