(* Proofs about the memo tables of the overlapping-fields rule. *)
From GV Require Import Base.Prelude Valid.PairSet.

Section DictLaws.
  Context {K V : Type} (eqb : K -> K -> bool).
  Hypothesis eqb_spec : forall a b, eqb a b = true <-> a = b.

  Lemma eqb_refl' k : eqb k k = true.
  Proof. apply eqb_spec. reflexivity. Qed.

  Lemma eqb_neq a b : a <> b -> eqb a b = false.
  Proof. intro H. destruct (eqb a b) eqn:E; auto. apply eqb_spec in E. contradiction. Qed.

  Lemma dget_dset_same k (v : V) d : dget eqb k (dset eqb k v d) = Some v.
  Proof.
    induction d as [|[k' v'] r IH]; cbn.
    - rewrite eqb_refl'. reflexivity.
    - destruct (eqb k' k) eqn:E; cbn; rewrite E; auto.
  Qed.

  Lemma dget_dset_other k k1 (v : V) d : k <> k1 -> dget eqb k1 (dset eqb k v d) = dget eqb k1 d.
  Proof.
    intro Hn. induction d as [|[k' v'] r IH]; cbn.
    - rewrite (eqb_neq k k1 Hn). reflexivity.
    - destruct (eqb k' k) eqn:E; cbn.
      + apply eqb_spec in E. subst k'. rewrite (eqb_neq k k1 Hn). reflexivity.
      + destruct (eqb k' k1); auto.
  Qed.
End DictLaws.

Definition teq_spec := nat_list_eqb_eq.
Definition neq_spec := N.eqb_eq.

(* ---- string order ---- *)
Lemma text_ltb_asym a : forall b, text_ltb a b = true -> text_ltb b a = false.
Proof.
  induction a as [|x a IH]; intros [|y b] H; cbn in *; try discriminate; auto.
  destruct (x <? y) eqn:E1; destruct (y <? x) eqn:E2; auto; try discriminate.
  apply N.ltb_lt in E1. apply N.ltb_lt in E2. lia.
Qed.

Lemma text_ltb_total a : forall b, text_ltb a b = false -> text_ltb b a = false -> a = b.
Proof.
  induction a as [|x a IH]; intros [|y b] H1 H2; cbn in *; try discriminate; auto.
  destruct (x <? y) eqn:E1; destruct (y <? x) eqn:E2; try discriminate.
  apply N.ltb_ge in E1. apply N.ltb_ge in E2. assert (x = y) by lia. subst.
  f_equal. apply IH; assumption.
Qed.

Lemma order_sym a b : order a b = order b a.
Proof.
  unfold order. destruct (text_ltb a b) eqn:E1.
  - rewrite (text_ltb_asym _ _ E1). reflexivity.
  - destruct (text_ltb b a) eqn:E2; auto.
    rewrite (text_ltb_total _ _ E1 E2). reflexivity.
Qed.

(* ---- PairSet ---- *)
Lemma ps_get_order s a b c d : order a b = order c d -> ps_get s a b = ps_get s c d.
Proof. unfold ps_get. intros ->. reflexivity. Qed.

Lemma ps_get_add_same s a b e : ps_get (ps_add s a b e) a b = Some e.
Proof.
  unfold ps_get, ps_add. destruct (order a b) as [k1 k2].
  destruct (dget nat_list_eqb k1 s) as [m|] eqn:E.
  - rewrite (dget_dset_same _ teq_spec). apply (dget_dset_same _ teq_spec).
  - rewrite (dget_dset_same _ teq_spec). cbn.
    rewrite (proj2 (teq_spec k2 k2) eq_refl). reflexivity.
Qed.

Lemma ps_get_add_other s a b e c d :
  order c d <> order a b -> ps_get (ps_add s a b e) c d = ps_get s c d.
Proof.
  unfold ps_get, ps_add. destruct (order a b) as [k1 k2]. destruct (order c d) as [j1 j2].
  intro Hn.
  destruct (nat_list_eqb k1 j1) eqn:E1.
  - apply teq_spec in E1. subst j1.
    assert (Hk : k2 <> j2) by (intro; subst; apply Hn; reflexivity).
    destruct (dget nat_list_eqb k1 s) as [m|] eqn:E.
    + rewrite (dget_dset_same _ teq_spec). apply (dget_dset_other _ teq_spec). exact Hk.
    + rewrite (dget_dset_same _ teq_spec). cbn.
      destruct (nat_list_eqb k2 j2) eqn:E2; auto. apply teq_spec in E2. contradiction.
  - assert (Hk : k1 <> j1) by (intro; subst; rewrite (proj2 (teq_spec j1 j1) eq_refl) in E1; discriminate).
    destruct (dget nat_list_eqb k1 s) as [m|] eqn:E;
      rewrite (dget_dset_other _ teq_spec) by exact Hk; reflexivity.
Qed.

Theorem ps_has_after_add s a b e : ps_has (ps_add s a b e) a b e = true.
Proof. unfold ps_has. rewrite ps_get_add_same. destruct e; reflexivity. Qed.

Theorem ps_nonexclusive_answers_both s a b q : ps_has (ps_add s a b false) a b q = true.
Proof. unfold ps_has. rewrite ps_get_add_same. destruct q; reflexivity. Qed.

Theorem ps_exclusive_answers_only_exclusive s a b :
  ps_has (ps_add s a b true) a b true = true /\ ps_has (ps_add s a b true) a b false = false.
Proof. unfold ps_has. rewrite ps_get_add_same. split; reflexivity. Qed.

Theorem ps_symmetric s a b e :
  ps_has s a b e = ps_has s b a e /\ ps_add s a b e = ps_add s b a e.
Proof.
  unfold ps_has, ps_get, ps_add. rewrite (order_sym a b). split; reflexivity.
Qed.

Theorem ps_add_frame s a b e c d q :
  order c d <> order a b -> ps_has (ps_add s a b e) c d q = ps_has s c d q.
Proof. intro H. unfold ps_has. rewrite ps_get_add_other by exact H. reflexivity. Qed.

(* used as in the rule (has, then add): an entry never disappears and only moves from
   exclusive (true) to non-exclusive (false) *)
Theorem ps_record_monotone s c d e a b r :
  ps_get s a b = Some r ->
  exists r', ps_get (ps_record s c d e) a b = Some r' /\ (r = false -> r' = false).
Proof.
  intro H. unfold ps_record. destruct (ps_has s c d e) eqn:Eh.
  - exists r. auto.
  - assert (Hdec : order a b = order c d \/ order a b <> order c d).
    { destruct (order a b) as [x1 x2], (order c d) as [y1 y2].
      destruct (nat_list_eqb x1 y1) eqn:E1; destruct (nat_list_eqb x2 y2) eqn:E2.
      - apply teq_spec in E1. apply teq_spec in E2. subst. left. reflexivity.
      - right. intro Hc. inversion Hc. subst. rewrite (proj2 (teq_spec y2 y2) eq_refl) in E2. discriminate.
      - right. intro Hc. inversion Hc. subst. rewrite (proj2 (teq_spec y1 y1) eq_refl) in E1. discriminate.
      - right. intro Hc. inversion Hc. subst. rewrite (proj2 (teq_spec y1 y1) eq_refl) in E1. discriminate. }
    destruct Hdec as [Ho|Ho].
    + rewrite (ps_get_order _ _ _ _ _ Ho). rewrite ps_get_add_same.
      exists e. split; auto. intro Hr. subst r.
      unfold ps_has in Eh. rewrite <- (ps_get_order _ _ _ _ _ Ho), H in Eh.
      destruct e; cbn in Eh; congruence.
    + rewrite ps_get_add_other by exact Ho. exists r. auto.
Qed.

Theorem ps_record_keeps_answers s c d e a b q :
  ps_has s a b q = true -> ps_has (ps_record s c d e) a b q = true.
Proof.
  unfold ps_has at 1. destruct (ps_get s a b) as [r|] eqn:E; [|discriminate].
  intro H. destruct (ps_record_monotone s c d e a b r E) as [r' [H1 H2]].
  unfold ps_has. rewrite H1. destruct q; cbn in *; auto.
  destruct r; cbn in H; try discriminate. rewrite H2; auto.
Qed.

(* ---- OrderedPairSet ---- *)
Lemma ops_get_add_same s a b e : ops_get (ops_add s a b e) a b = Some e.
Proof.
  unfold ops_get, ops_add.
  destruct (dget N.eqb a s) as [m|] eqn:E.
  - rewrite (dget_dset_same _ neq_spec). apply (dget_dset_same _ teq_spec).
  - rewrite (dget_dset_same _ neq_spec). cbn.
    rewrite (proj2 (teq_spec b b) eq_refl). reflexivity.
Qed.

Lemma ops_get_add_other s a b e c d :
  (c, d) <> (a, b) -> ops_get (ops_add s a b e) c d = ops_get s c d.
Proof.
  unfold ops_get, ops_add. intro Hn.
  destruct (a =? c) eqn:E1.
  - apply N.eqb_eq in E1. subst c.
    assert (Hk : b <> d) by (intro; subst; apply Hn; reflexivity).
    destruct (dget N.eqb a s) as [m|] eqn:E.
    + rewrite (dget_dset_same _ neq_spec). apply (dget_dset_other _ teq_spec). exact Hk.
    + rewrite (dget_dset_same _ neq_spec). cbn.
      destruct (nat_list_eqb b d) eqn:E2; auto. apply teq_spec in E2. contradiction.
  - apply N.eqb_neq in E1.
    destruct (dget N.eqb a s) as [m|] eqn:E;
      rewrite (dget_dset_other _ neq_spec) by exact E1; reflexivity.
Qed.

Theorem ops_has_after_add s a b e : ops_has (ops_add s a b e) a b e = true.
Proof. unfold ops_has. rewrite ops_get_add_same. destruct e; reflexivity. Qed.

Theorem ops_flag_laws s a b :
  (forall q, ops_has (ops_add s a b false) a b q = true) /\
  ops_has (ops_add s a b true) a b true = true /\ ops_has (ops_add s a b true) a b false = false.
Proof.
  unfold ops_has. rewrite !ops_get_add_same. repeat split. intros []; reflexivity.
Qed.

(* the pair is ordered: an addition is visible to exactly the queries with the same first
   AND the same second component *)
Theorem ops_add_frame s a b e c d q :
  (c, d) <> (a, b) -> ops_has (ops_add s a b e) c d q = ops_has s c d q.
Proof. intro H. unfold ops_has. rewrite ops_get_add_other by exact H. reflexivity. Qed.

Theorem ops_record_monotone s c d e a b r :
  ops_get s a b = Some r ->
  exists r', ops_get (ops_record s c d e) a b = Some r' /\ (r = false -> r' = false).
Proof.
  intro H. unfold ops_record. destruct (ops_has s c d e) eqn:Eh.
  - exists r. auto.
  - destruct (a =? c) eqn:E1; destruct (nat_list_eqb b d) eqn:E2.
    + apply N.eqb_eq in E1. apply teq_spec in E2. subst c d.
      rewrite ops_get_add_same. exists e. split; auto. intro Hr. subst r.
      unfold ops_has in Eh. rewrite H in Eh. destruct e; cbn in Eh; congruence.
    + rewrite ops_get_add_other. { exists r; auto. }
      intro Hc. inversion Hc. subst. rewrite (proj2 (teq_spec d d) eq_refl) in E2. discriminate.
    + rewrite ops_get_add_other. { exists r; auto. }
      intro Hc. inversion Hc. subst. rewrite N.eqb_refl in E1. discriminate.
    + rewrite ops_get_add_other. { exists r; auto. }
      intro Hc. inversion Hc. subst. rewrite N.eqb_refl in E1. discriminate.
Qed.
