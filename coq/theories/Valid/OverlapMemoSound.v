(* The memoisation never hides a conflict: if the specification finds a conflict, the memoised
   algorithm (with both memo tables, on documents with named - possibly cyclic - fragments)
   reports one.  Proof: when the traced algorithm completes without a conflict its log is closed
   (Valid/OverlapOptClosure.v); a closed log covers every pair of every merged set of the
   specification under a subsuming flag; a covered pair has no derivation of a conflict. *)
From GV Require Import Base.Prelude Valid.Overlap Valid.OverlapProps Valid.PairSet Valid.OverlapOpt
  Valid.OverlapOptProps Valid.OverlapOptTrace Valid.OverlapAdequacy Valid.OverlapEquiv
  Valid.OverlapOptClosure.

(* ---------------------------------------------------------------- field maps and spread lists *)
(* spread names of a selection set, inline fragments flattened *)
Fixpoint sprs (ss : sels) : list N :=
  match ss with
  | SelNil => []
  | SelField _ _ rest => sprs rest
  | SelInline _ _ sub rest => sprs sub ++ sprs rest
  | SelSpread n rest => n :: sprs rest
  end.

Lemma fas_fst : forall ss p acc, fst (fields_and_spreads p ss acc) = fst acc ++ flat p ss.
Proof.
  induction ss as [|f sub IHsub rest IHrest|iid tc sub IHsub rest IHrest|n rest IHrest];
    intros p acc; cbn [fields_and_spreads flat].
  - rewrite app_nil_r. reflexivity.
  - rewrite IHrest. cbn [fst]. rewrite <- app_assoc. reflexivity.
  - rewrite IHrest, IHsub, <- app_assoc. reflexivity.
  - rewrite IHrest. reflexivity.
Qed.

Lemma fas_snd_in : forall ss p acc n,
  In n (snd (fields_and_spreads p ss acc)) <-> In n (snd acc) \/ In n (sprs ss).
Proof.
  induction ss as [|f sub IHsub rest IHrest|iid tc sub IHsub rest IHrest|m rest IHrest];
    intros p acc n; cbn [fields_and_spreads sprs].
  - cbn. tauto.
  - rewrite IHrest. cbn [snd]. tauto.
  - rewrite IHrest, IHsub, in_app_iff. tauto.
  - rewrite IHrest. cbn [snd In]. destruct (mem m (snd acc)) eqn:E.
    + apply mem_In in E. split; [tauto|]. intros [H|[<-|H]]; auto.
    + rewrite in_app_iff. cbn [In]. tauto.
Qed.

Lemma D_flat p ss : fst (fields_and_spreads p ss ([], [])) = flat p ss.
Proof. rewrite fas_fst. reflexivity. Qed.

Lemma S_sprs p ss n : In n (snd (fields_and_spreads p ss ([], []))) <-> In n (sprs ss).
Proof. rewrite fas_snd_in. cbn. tauto. Qed.

Lemma before_tricho {A} (x y : A) l : In x l -> In y l -> x = y \/ before x y l \/ before y x l.
Proof.
  induction l as [|z l IH]; intros Hx Hy; [contradiction|].
  destruct Hx as [->|Hx], Hy as [->|Hy]; auto.
  - right. left. constructor. exact Hy.
  - right. right. constructor. exact Hx.
  - destruct (IH Hx Hy) as [H|[H|H]]; auto; right; [left|right]; constructor; exact H.
Qed.

(* ---------------------------------------------------------------- reachable fragments *)
Section Reach.
  Variable frags : list fragdef.

  Definition body_flat (fd : fragdef) : list entry := flat (fr_type fd) (fr_body fd).

  (* F is spread, directly or through fragment bodies, by one of the names in the list *)
  Inductive Reach : list N -> N -> Prop :=
  | Reach_here sps F : In F sps -> Reach sps F
  | Reach_step sps G gd F :
      In G sps -> find_frag frags G = Some gd -> Reach (sprs (fr_body gd)) F -> Reach sps F.

  (* F is G0 or reachable from the body of G0 *)
  Inductive RS : N -> N -> Prop :=
  | RS_refl F : RS F F
  | RS_step F0 fd sp F :
      find_frag frags F0 = Some fd -> In sp (sprs (fr_body fd)) -> RS sp F -> RS F0 F.

  Lemma Reach_incl sps sps' F : incl sps sps' -> Reach sps F -> Reach sps' F.
  Proof.
    intros Hi H. revert sps' Hi. induction H as [sps F Hin|sps G gd F Hin Hf Hr IH]; intros sps' Hi.
    - apply Reach_here. auto.
    - eapply Reach_step; eauto.
  Qed.

  Lemma Reach_RS sps F : Reach sps F -> exists sp, In sp sps /\ RS sp F.
  Proof.
    induction 1 as [sps F Hin|sps G gd F Hin Hf Hr IH].
    - exists F. split; [exact Hin | apply RS_refl].
    - destruct IH as [sp [Hs Hrs]]. exists G. split; auto. eapply RS_step; eauto.
  Qed.

  Lemma RS_Reach sp F sps : In sp sps -> RS sp F -> Reach sps F.
  Proof.
    intros Hin H. revert sps Hin. induction H as [F|F0 fd sp F Hf Hs Hr IH]; intros sps Hin.
    - apply Reach_here. exact Hin.
    - eapply Reach_step; eauto.
  Qed.

  (* the fields a selection set contributes to a collected set: its own and those of the
     fragments it reaches *)
  Definition Exp (q : N) (t : sels) (u : entry) : Prop :=
    In u (flat q t) \/
    exists F fd, Reach (sprs t) F /\ find_frag frags F = Some fd /\ In u (body_flat fd).

  Lemma Exp_field q f sub rest u : Exp q rest u -> Exp q (SelField f sub rest) u.
  Proof.
    intros [H|[F [fd [H1 [H2 H3]]]]]; [left; cbn; auto | right; exists F, fd; cbn; auto].
  Qed.

  Lemma Exp_inline_sub q iid tc sub rest u :
    Exp (match tc with Some t => t | None => q end) sub u -> Exp q (SelInline iid tc sub rest) u.
  Proof.
    intros [H|[F [fd [H1 [H2 H3]]]]].
    - left. cbn. apply in_or_app. left. exact H.
    - right. exists F, fd. split; auto. cbn. eapply Reach_incl; [|exact H1]. apply incl_appl, incl_refl.
  Qed.

  Lemma Exp_inline_rest q iid tc sub rest u : Exp q rest u -> Exp q (SelInline iid tc sub rest) u.
  Proof.
    intros [H|[F [fd [H1 [H2 H3]]]]].
    - left. cbn. apply in_or_app. right. exact H.
    - right. exists F, fd. split; auto. cbn. eapply Reach_incl; [|exact H1]. apply incl_appr, incl_refl.
  Qed.

  Lemma Exp_spread_rest q n rest u : Exp q rest u -> Exp q (SelSpread n rest) u.
  Proof.
    intros [H|[F [fd [H1 [H2 H3]]]]]; [left; cbn; auto|].
    right. exists F, fd. split; auto. cbn. eapply Reach_incl; [|exact H1]. apply incl_tl, incl_refl.
  Qed.

  Definition collects_exp (c : collect_fn) : Prop :=
    forall q t st st', c q t st = Some st' -> forall u, In u (snd st') -> In u (snd st) \/ Exp q t u.

  Lemma collect_go_exp rec : collects_exp rec -> collects_exp (collect_go frags rec).
  Proof.
    intros Hrec q t. revert q.
    induction t as [|f sub IHsub rest IHrest|iid tc sub IHsub rest IHrest|n rest IHrest];
      intros q st st' H u Hu; cbn [collect_go] in H.
    - inversion H; subst. left. exact Hu.
    - destruct (IHrest q _ _ H u Hu) as [Hi|He].
      + cbn [snd] in Hi. apply in_app_or in Hi as [Hi|[<-|[]]]; [left; exact Hi|].
        right. left. cbn. left. reflexivity.
      + right. apply Exp_field. exact He.
    - destruct (collect_go frags rec (match tc with Some t0 => t0 | None => q end) sub st) as [st1|] eqn:E1;
        [|discriminate].
      destruct (IHrest q _ _ H u Hu) as [Hi|He].
      + destruct (IHsub _ _ _ E1 u Hi) as [Hj|He]; [left; exact Hj|].
        right. apply Exp_inline_sub. exact He.
      + right. apply Exp_inline_rest. exact He.
    - destruct (mem n (fst st)).
      { destruct (IHrest q _ _ H u Hu) as [Hi|He]; [left; exact Hi | right; apply Exp_spread_rest; exact He]. }
      destruct (find_frag frags n) as [fd|] eqn:Ef.
      + destruct (rec (fr_type fd) (fr_body fd) (n :: fst st, snd st)) as [st1|] eqn:E1; [|discriminate].
        destruct (IHrest q _ _ H u Hu) as [Hi|He]; [|right; apply Exp_spread_rest; exact He].
        destruct (Hrec _ _ _ _ E1 u Hi) as [Hj|[Hf|[F [fd' [H1 [H2 H3]]]]]].
        * left. exact Hj.
        * right. right. exists n, fd. split; [apply Reach_here; left; reflexivity|]. auto.
        * right. right. exists F, fd'. split; auto.
          eapply Reach_step; [left; reflexivity | exact Ef | exact H1].
      + destruct (IHrest q _ _ H u Hu) as [Hi|He]; [left; exact Hi | right; apply Exp_spread_rest; exact He].
  Qed.

  Lemma collect_exp fuel : collects_exp (collect frags fuel).
  Proof.
    induction fuel as [|f IH]; cbn [collect]; apply collect_go_exp.
    - intros q t st st' H. discriminate.
    - exact IH.
  Qed.
End Reach.

(* ---------------------------------------------------------------- symmetry of the direct conflict *)
Lemma nat_list_eqb_sym a : forall b, nat_list_eqb a b = nat_list_eqb b a.
Proof. induction a as [|x a IH]; intros [|y b]; cbn; auto. rewrite N.eqb_sym, IH. reflexivity. Qed.

Lemma nat_list_eqb_refl a : nat_list_eqb a a = true.
Proof. apply nat_list_eqb_eq. reflexivity. Qed.

Lemma value_eqb_sym : forall a b, value_eqb a b = value_eqb b a.
Proof.
  fix IH 1. intros [x|t x|xs|xs] [y|u y|ys|ys]; cbn [value_eqb]; try reflexivity.
  - apply N.eqb_sym.
  - rewrite N.eqb_sym, nat_list_eqb_sym. reflexivity.
  - revert ys. induction xs as [|x xs IHxs]; intros [|y ys]; try reflexivity.
    rewrite (IH x y), IHxs. reflexivity.
  - revert ys. induction xs as [|[k x] xs IHxs]; intros [|[l y] ys]; try reflexivity.
    rewrite (IH x y), IHxs, (N.eqb_sym k l). reflexivity.
Qed.

Lemma value_eqb_refl : forall a, value_eqb a a = true.
Proof.
  fix IH 1. intros [x|t x|xs|xs]; cbn [value_eqb].
  - apply N.eqb_refl.
  - rewrite N.eqb_refl, nat_list_eqb_refl. reflexivity.
  - induction xs as [|x xs IHxs]; auto. rewrite (IH x), IHxs. reflexivity.
  - induction xs as [|[k x] xs IHxs]; auto. rewrite (IH x), IHxs, N.eqb_refl. reflexivity.
Qed.

Lemma same_value_sym a b : same_value a b = same_value b a.
Proof. unfold same_value. apply value_eqb_sym. Qed.
Lemma same_value_refl a : same_value a a = true.
Proof. unfold same_value. apply value_eqb_refl. Qed.

(* argument lists with distinct names *)
Definition args_nodup (e : entry) : Prop := NoDup (map fst (f_args (e_fld e))).

Lemma assoc_in {A} k (v : A) l : NoDup (map fst l) -> In (k, v) l -> assoc k l = Some v.
Proof.
  induction l as [|[k' v'] l IH]; intros Hn Hin; [contradiction|]. cbn [assoc].
  inversion Hn as [|? ? Hni Hr]; subst. destruct Hin as [Hin|Hin].
  - inversion Hin; subst. rewrite N.eqb_refl. reflexivity.
  - destruct (k' =? k) eqn:E; [|apply IH; auto].
    apply N.eqb_eq in E. subst k'. exfalso. apply Hni. apply (in_map fst) in Hin. exact Hin.
Qed.

Lemma assoc_some_in {A} k (v : A) l : assoc k l = Some v -> In (k, v) l.
Proof.
  induction l as [|[k' v'] l IH]; cbn [assoc]; intro H; [discriminate|].
  destruct (k' =? k) eqn:E.
  - apply N.eqb_eq in E. inversion H; subst. left. reflexivity.
  - right. apply IH. exact H.
Qed.

Lemma args_same_refl a : NoDup (map fst a) -> args_same a a = true.
Proof.
  intro Hn. unfold args_same. rewrite Nat.eqb_refl. cbn [andb]. apply forallb_forall.
  intros [k v] Hin. cbn [fst snd]. rewrite (assoc_in k v a Hn Hin). apply same_value_refl.
Qed.

Lemma args_same_sym a b : NoDup (map fst a) -> NoDup (map fst b) ->
  args_same a b = true -> args_same b a = true.
Proof.
  intros Ha Hb H. unfold args_same in *. apply andb_true_iff in H as [Hl Hf].
  apply Nat.eqb_eq in Hl. rewrite forallb_forall in Hf.
  rewrite Hl, Nat.eqb_refl. cbn [andb]. apply forallb_forall. intros [k w] Hin. cbn [fst snd].
  assert (Hincl : incl (map fst a) (map fst b)).
  { intros k' Hk'. apply in_map_iff in Hk' as [[k2 v2] [<- Hin2]]. cbn [fst].
    specialize (Hf (k2, v2) Hin2). cbn [fst snd] in Hf.
    destruct (assoc k2 b) as [w2|] eqn:E; [|discriminate].
    apply assoc_some_in in E. apply (in_map fst) in E. exact E. }
  assert (Hincl' : incl (map fst b) (map fst a)).
  { apply NoDup_length_incl; auto. rewrite !map_length. lia. }
  assert (Hk : In k (map fst a)) by (apply Hincl'; apply (in_map fst) in Hin; exact Hin).
  apply in_map_iff in Hk as [[k2 v] [Hk2 Hin2]]. cbn [fst] in Hk2. subst k2.
  rewrite (assoc_in k v a Ha Hin2).
  specialize (Hf (k, v) Hin2). cbn [fst snd] in Hf. rewrite (assoc_in k w b Hb Hin) in Hf.
  rewrite same_value_sym. exact Hf.
Qed.

Lemma args_same_sym_eq a b : NoDup (map fst a) -> NoDup (map fst b) -> args_same a b = args_same b a.
Proof.
  intros Ha Hb. destruct (args_same a b) eqn:E1, (args_same b a) eqn:E2; auto.
  - rewrite (args_same_sym a b Ha Hb E1) in E2. discriminate.
  - rewrite (args_same_sym b a Hb Ha E2) in E1. discriminate.
Qed.

Section Direct.
  Variable s : schema.

  Lemma excl_of_sym e a b : excl_of s e a b = excl_of s e b a.
  Proof.
    unfold excl_of. rewrite (N.eqb_sym (e_parent a)).
    destruct (is_object s (e_parent a)), (is_object s (e_parent b)), (negb _), e; reflexivity.
  Qed.

  Lemma direct_sym e a b ta tb : args_nodup a -> args_nodup b ->
    direct s e a b ta tb = direct s e b a tb ta.
  Proof.
    intros Ha Hb. unfold direct. rewrite excl_of_sym, (shape_conflict_sym s ta tb).
    rewrite (N.eqb_sym (f_name (e_fld a))), (args_same_sym_eq _ _ Ha Hb). reflexivity.
  Qed.

  Lemma direct_refl e a ta : args_nodup a -> direct s e a a ta ta = false.
  Proof.
    intro Ha. unfold direct. rewrite N.eqb_refl, (args_same_refl _ Ha), shape_conflict_refl.
    cbn. rewrite andb_false_r. reflexivity.
  Qed.

  (* a stronger (or equal) flag finds at least the same direct conflicts *)
  Lemma direct_covers r e a b ta tb : OverlapOptProps.covers r e ->
    direct s e a b ta tb = true -> direct s r a b ta tb = true.
  Proof.
    intros [->| ->] H; [|exact H]. unfold direct in *.
    destruct (shape_conflict s ta tb); [apply orb_true_r|]. rewrite orb_false_r in *.
    apply andb_true_iff in H as [H1 H2]. rewrite H2, andb_true_r.
    destruct (excl_of s false a b) eqn:E; auto.
    unfold excl_of in *. cbn [orb] in E. rewrite E, orb_true_r in H1. discriminate.
  Qed.

  Lemma excl_covers r e a b : OverlapOptProps.covers r e ->
    OverlapOptProps.covers (excl_of s r a b) (excl_of s e a b).
  Proof.
    intros [->| ->]; [|right; reflexivity].
    destruct (excl_of s false a b) eqn:E; [|left; reflexivity].
    right. unfold excl_of in *. cbn [orb] in E. rewrite E. symmetry. apply orb_true_r.
  Qed.

  Lemma covers_trans r1 r2 e : OverlapOptProps.covers r1 r2 -> OverlapOptProps.covers r2 e ->
    OverlapOptProps.covers r1 e.
  Proof. intros [->| ->] H; [left; reflexivity | exact H]. Qed.

  Lemma covers_false e : OverlapOptProps.covers false e.
  Proof. left. reflexivity. Qed.

  Lemma nodirect_direct r x y tx ty : ft s x = Some tx -> ft s y = Some ty ->
    nodirect s r x y -> direct s r x y tx ty = false.
  Proof.
    intros Hx Hy [H1 H2]. rewrite Hx, Hy, do_types_conflict_shape in H2.
    unfold direct. rewrite H1, H2. reflexivity.
  Qed.
End Direct.

(* ---------------------------------------------------------------- a closed log covers every pair *)
Section Cover.
  Variable s : schema.
  Variable d : document.
  Notation frags := (d_frags d).
  Variable L : list tev.                                   (* the final log *)
  Variable AllSets : list (N * setid * sels).              (* the visited selection sets *)

  Hypothesis HL : forall ev, In ev L -> OblEv s frags L ev.
  Hypothesis HS : forall x, In x AllSets -> set_post L x.
  Hypothesis Hfrag_vis : forall F fd, find_frag frags F = Some fd -> In (fr_type fd, IdFrag F, fr_body fd) AllSets.
  Hypothesis Hcode : forall x y, In x AllSets -> In y AllSets ->
    setid_code (snd (fst x)) = setid_code (snd (fst y)) -> x = y.

  Notation covers := OverlapOptProps.covers.

  (* the pair was evaluated, in one orientation, under a flag that subsumes e *)
  Definition PairCov (e : bool) (u v : entry) : Prop :=
    exists r, covers r e /\ (Cmp L r u v \/ Cmp L r v u).
  Definition PC (e : bool) (u v : entry) : Prop := u = v \/ PairCov e u v.

  Lemma PC_sym e u v : PC e u v -> PC e v u.
  Proof. intros [->|[r [H1 [H2|H2]]]]; [left; reflexivity| |]; right; exists r; auto. Qed.

  Lemma PC_weaken r e u v : covers r e -> PC r u v -> PC e u v.
  Proof.
    intros Hc [->|[r' [H1 H2]]]; [left; reflexivity|]. right. exists r'. split; auto.
    eapply covers_trans; eauto.
  Qed.

  Lemma same_rname_sym u v : same_rname u v = same_rname v u.
  Proof. unfold same_rname. apply N.eqb_sym. Qed.

  Lemma covGG_sym e F G : covGG L e F G -> covGG L e G F.
  Proof. intros [->|[r [H1 [H2|H2]]]]; [left; reflexivity| |]; right; exists r; auto. Qed.

  Lemma set_post_parts q id t : In (q, id, t) AllSets ->
    (forall x y, before x y (flat q t) -> same_rname x y = true -> Cmp L false x y) /\
    (forall sp, In sp (sprs t) -> covFF L false (setid_code id) (flat q t) sp) /\
    (forall s1 s2, In s1 (sprs t) -> In s2 (sprs t) -> s1 <> s2 -> covGG L false s1 s2).
  Proof.
    intro Hin. pose proof (HS _ Hin) as [A [B C]]. cbn [fst snd] in A, B, C.
    rewrite D_flat in A, B. repeat split; auto.
    - intros sp Hs. apply B. apply S_sprs. exact Hs.
    - intros s1 s2 H1 H2 Hne.
      destruct (before_tricho s1 s2 (snd (fields_and_spreads q t ([], [])))) as [He|[Hb|Hb]];
        try (apply S_sprs; assumption).
      + contradiction.
      + apply C. exact Hb.
      + apply covGG_sym. apply C. exact Hb.
  Qed.

  Lemma within_flat q id t u v : In (q, id, t) AllSets ->
    In u (flat q t) -> In v (flat q t) -> same_rname u v = true -> PC false u v.
  Proof.
    intros Hin Hu Hv Hr. destruct (set_post_parts q id t Hin) as [A _].
    destruct (before_tricho u v (flat q t) Hu Hv) as [He|[Hb|Hb]].
    - left. exact He.
    - right. exists false. split; [left; reflexivity|]. left. apply A; auto.
    - right. exists false. split; [left; reflexivity|]. right. apply A; auto. rewrite same_rname_sym. exact Hr.
  Qed.

  Lemma Dfrag_flat fd : Dfrag fd = body_flat fd.
  Proof. unfold Dfrag, body_flat. apply D_flat. Qed.
  Lemma Sfrag_sprs fd n : In n (Sfrag fd) <-> In n (sprs (fr_body fd)).
  Proof. unfold Sfrag. apply S_sprs. Qed.

  (* fields of a visited set against the fields of a fragment it reaches *)
  Lemma ff_cov : forall sps F, Reach frags sps F -> forall e q id t, In (q, id, t) AllSets ->
    (forall sp, In sp sps -> covFF L e (setid_code id) (flat q t) sp) ->
    forall fd, find_frag frags F = Some fd ->
    forall u v, In u (flat q t) -> In v (body_flat fd) -> same_rname u v = true -> PC e u v.
  Proof.
    induction 1 as [sps F Hin|sps G gd F Hin Hg Hr IH]; intros e q id t Hset Hcov fd Hfd u v Hu Hv Hrn.
    - destruct (Hcov F Hin) as [r [Hc Hev]]. pose proof (HL _ Hev fd Hfd) as Ho.
      destruct (setid_code id =? setid_code (IdFrag F)) eqn:Es.
      + apply N.eqb_eq in Es.
        pose proof (Hcode _ _ Hset (Hfrag_vis F fd Hfd) Es) as Heq. inversion Heq; subst.
        apply (PC_weaken false); [apply covers_false|]. eapply within_flat; eauto.
      + destruct (Ho eq_refl) as [Hx _]. right. exists r. split; auto. left.
        apply Hx; auto. rewrite Dfrag_flat. exact Hv.
    - destruct (Hcov G Hin) as [r [Hc Hev]]. pose proof (HL _ Hev gd Hg) as Ho.
      destruct (setid_code id =? setid_code (IdFrag G)) eqn:Es.
      + apply N.eqb_eq in Es.
        pose proof (Hcode _ _ Hset (Hfrag_vis G gd Hg) Es) as Heq. inversion Heq; subst.
        apply (PC_weaken false); [apply covers_false|].
        apply (IH false (fr_type gd) (IdFrag G) (fr_body gd)); auto.
        destruct (set_post_parts _ _ _ Hset) as [_ [B _]]. exact B.
      + destruct (Ho eq_refl) as [_ Hn]. apply (PC_weaken r); [exact Hc|].
        apply (IH r q id t); auto. intros sp Hsp. apply Hn. apply Sfrag_sprs. exact Hsp.
  Qed.

  (* fields of two fragments: reached from a covered pair of fragments *)
  Lemma gg_cov : forall F0 F, RS frags F0 F -> forall G0 G, RS frags G0 G ->
    forall e, covGG L e F0 G0 ->
    forall fd gd, find_frag frags F = Some fd -> find_frag frags G = Some gd ->
    forall u v, In u (body_flat fd) -> In v (body_flat gd) -> same_rname u v = true -> PC e u v.
  Proof.
    induction 1 as [F|F0 fd0 sp1 F Hf0 Hs1 Hr1 IH1]; intros G0 G H2;
      induction H2 as [G|G0 gd0 sp2 G Hg0 Hs2 Hr2 IH2]; intros e Hcov fd gd Hfd Hgd u v Hu Hv Hrn.
    - (* both at the roots of the pair *)
      destruct Hcov as [->|[r [Hc Hev]]].
      + rewrite Hfd in Hgd. inversion Hgd; subst gd.
        apply (PC_weaken false); [apply covers_false|].
        eapply within_flat; [apply (Hfrag_vis G fd Hfd)| | |]; auto.
      + destruct Hev as [Hev|Hev].
        * destruct (HL _ Hev fd gd Hfd Hgd) as [Hx _]. right. exists r. split; auto. left.
          apply Hx; auto; rewrite Dfrag_flat; assumption.
        * destruct (HL _ Hev gd fd Hgd Hfd) as [Hx _]. right. exists r. split; auto. right.
          apply Hx; auto; try (rewrite Dfrag_flat; assumption). rewrite same_rname_sym. exact Hrn.
    - (* F at its root, G below G0 *)
      destruct Hcov as [->|[r [Hc Hev]]].
      + rewrite Hfd in Hg0. inversion Hg0; subst gd0.
        apply (PC_weaken false); [apply covers_false|].
        apply (ff_cov (sprs (fr_body fd)) G (RS_Reach frags sp2 G _ Hs2 Hr2) false
                      (fr_type fd) (IdFrag G0) (fr_body fd) (Hfrag_vis G0 fd Hfd)); auto.
        destruct (set_post_parts _ _ _ (Hfrag_vis G0 fd Hfd)) as [_ [B _]]. exact B.
      + apply (PC_weaken r); [exact Hc|]. destruct Hev as [Hev|Hev].
        * destruct (HL _ Hev fd gd0 Hfd Hg0) as [_ [Hn _]].
          apply (IH2 r); auto. apply Hn. apply Sfrag_sprs. exact Hs2.
        * destruct (HL _ Hev gd0 fd Hg0 Hfd) as [_ [_ Hn]].
          apply (IH2 r); auto. apply covGG_sym. apply Hn. apply Sfrag_sprs. exact Hs2.
    - (* F below F0, G at its root *)
      destruct Hcov as [->|[r [Hc Hev]]].
      + rewrite Hgd in Hf0. inversion Hf0; subst fd0.
        apply (PC_weaken false); [apply covers_false|]. apply PC_sym.
        apply (ff_cov (sprs (fr_body gd)) F (RS_Reach frags sp1 F _ Hs1 Hr1) false
                      (fr_type gd) (IdFrag G) (fr_body gd) (Hfrag_vis G gd Hgd)); auto.
        * destruct (set_post_parts _ _ _ (Hfrag_vis G gd Hgd)) as [_ [B _]]. exact B.
        * rewrite same_rname_sym. exact Hrn.
      + apply (PC_weaken r); [exact Hc|]. destruct Hev as [Hev|Hev].
        * destruct (HL _ Hev fd0 gd Hf0 Hgd) as [_ [_ Hn]].
          apply (IH1 G G (RS_refl frags G) r); auto. apply Hn. apply Sfrag_sprs. exact Hs1.
        * destruct (HL _ Hev gd fd0 Hgd Hf0) as [_ [Hn _]].
          apply (IH1 G G (RS_refl frags G) r); auto. apply covGG_sym. apply Hn. apply Sfrag_sprs. exact Hs1.
    - (* both below *)
      destruct Hcov as [->|[r [Hc Hev]]].
      + rewrite Hf0 in Hg0. inversion Hg0; subst gd0.
        apply (PC_weaken false); [apply covers_false|].
        destruct (N.eq_dec sp1 sp2) as [->|Hne].
        * apply (IH1 sp2 G Hr2 false); auto. left. reflexivity.
        * apply (IH1 sp2 G Hr2 false); auto.
          destruct (set_post_parts _ _ _ (Hfrag_vis G0 fd0 Hf0)) as [_ [_ C]]. apply C; auto.
      + apply (PC_weaken r); [exact Hc|]. destruct Hev as [Hev|Hev].
        * destruct (HL _ Hev fd0 gd0 Hf0 Hg0) as [_ [Hn _]].
          apply (IH2 r); auto. apply Hn. apply Sfrag_sprs. exact Hs2.
        * destruct (HL _ Hev gd0 fd0 Hg0 Hf0) as [_ [_ Hn]].
          apply (IH2 r); auto. apply covGG_sym. apply Hn. apply Sfrag_sprs. exact Hs2.
  Qed.

  (* all pairs inside the expansion of one visited set *)
  Lemma within_cov q id t u v : In (q, id, t) AllSets ->
    Exp frags q t u -> Exp frags q t v -> same_rname u v = true -> PC false u v.
  Proof.
    intros Hset Hu Hv Hrn. destruct (set_post_parts q id t Hset) as [A [B C]].
    destruct Hu as [Hu|[F [fd [HrF [Hfd Hu]]]]]; destruct Hv as [Hv|[G [gd [HrG [Hgd Hv]]]]].
    - eapply within_flat; eauto.
    - apply (ff_cov (sprs t) G HrG false q id t Hset B gd Hgd); auto.
    - apply PC_sym. apply (ff_cov (sprs t) F HrF false q id t Hset B fd Hfd); auto.
      rewrite same_rname_sym. exact Hrn.
    - destruct (Reach_RS frags _ _ HrF) as [sp1 [Hs1 R1]]. destruct (Reach_RS frags _ _ HrG) as [sp2 [Hs2 R2]].
      apply (gg_cov sp1 F R1 sp2 G R2 false); auto.
      destruct (N.eq_dec sp1 sp2) as [->|Hne]; [left; reflexivity | apply C; auto].
  Qed.

  (* all pairs between the expansions of two sets whose comparison is in the log *)
  Lemma cross_cov e q1 id1 t1 q2 id2 t2 u v :
    In (q1, id1, t1) AllSets -> In (q2, id2, t2) AllSets ->
    OblBetween L e (setid_code id1) (flat q1 t1) (snd (fields_and_spreads q1 t1 ([], [])))
               (setid_code id2) (flat q2 t2) (snd (fields_and_spreads q2 t2 ([], []))) ->
    Exp frags q1 t1 u -> Exp frags q2 t2 v -> same_rname u v = true -> PC e u v.
  Proof.
    intros Hs1 Hs2 [Hx [Hf2 [Hf1 Hg]]] Hu Hv Hrn.
    destruct Hu as [Hu|[F [fd [HrF [Hfd Hu]]]]]; destruct Hv as [Hv|[G [gd [HrG [Hgd Hv]]]]].
    - right. exists e. split; [right; reflexivity|]. left. apply Hx; auto.
    - apply (ff_cov (sprs t2) G HrG e q1 id1 t1 Hs1); auto.
      intros sp Hsp. apply Hf2. apply S_sprs. exact Hsp.
    - apply PC_sym. apply (ff_cov (sprs t1) F HrF e q2 id2 t2 Hs2); auto.
      + intros sp Hsp. apply Hf1. apply S_sprs. exact Hsp.
      + rewrite same_rname_sym. exact Hrn.
    - destruct (Reach_RS frags _ _ HrF) as [sp1 [Hp1 R1]]. destruct (Reach_RS frags _ _ HrG) as [sp2 [Hp2 R2]].
      apply (gg_cov sp1 F R1 sp2 G R2 e); auto. apply Hg; apply S_sprs; assumption.
  Qed.
End Cover.
