(* The memoisation never hides a conflict: if the specification finds a conflict, the memoised
   algorithm (with both memo tables, on documents with named - possibly cyclic - fragments)
   reports one.  Proof: when the traced algorithm completes without a conflict its log is closed
   (Valid/OverlapOptClosure.v); a closed log covers every pair of every merged set of the
   specification under a subsuming flag; a covered pair has no derivation of a conflict. *)
From GV Require Import Base.Prelude Valid.Overlap Valid.OverlapProps Valid.PairSet Valid.OverlapOpt
  Valid.OverlapOptProps Valid.OverlapOptTrace Valid.OverlapAdequacy Valid.OverlapEquiv
  Valid.OverlapOptClosure Valid.OverlapOptTerm.

(* ---------------------------------------------------------------- field maps and spread lists *)
(* spread names of a selection set, inline fragments flattened *)
Fixpoint sprs (ss : sels) : list N :=
  match ss with
  | SelNil => []
  | SelField _ _ rest => sprs rest
  | SelInline _ _ sub rest => sprs sub ++ sprs rest
  | SelSpread n rest => n :: sprs rest
  end.

Lemma fas_fst : forall ss p acc, fst (fields_and_spreads p ss acc) = fst acc ++ flat p ss.
Proof.
  induction ss as [|f sub IHsub rest IHrest|iid tc sub IHsub rest IHrest|n rest IHrest];
    intros p acc; cbn [fields_and_spreads flat].
  - rewrite app_nil_r. reflexivity.
  - rewrite IHrest. cbn [fst]. rewrite <- app_assoc. reflexivity.
  - rewrite IHrest, IHsub, <- app_assoc. reflexivity.
  - rewrite IHrest. reflexivity.
Qed.

Lemma fas_snd_in : forall ss p acc n,
  In n (snd (fields_and_spreads p ss acc)) <-> In n (snd acc) \/ In n (sprs ss).
Proof.
  induction ss as [|f sub IHsub rest IHrest|iid tc sub IHsub rest IHrest|m rest IHrest];
    intros p acc n; cbn [fields_and_spreads sprs].
  - cbn. tauto.
  - rewrite IHrest. cbn [snd]. tauto.
  - rewrite IHrest, IHsub, in_app_iff. tauto.
  - rewrite IHrest. cbn [snd In]. destruct (mem m (snd acc)) eqn:E.
    + apply mem_In in E. split; [tauto|]. intros [H|[<-|H]]; auto.
    + rewrite in_app_iff. cbn [In]. tauto.
Qed.

Lemma D_flat p ss : fst (fields_and_spreads p ss ([], [])) = flat p ss.
Proof. rewrite fas_fst. reflexivity. Qed.

Lemma S_sprs p ss n : In n (snd (fields_and_spreads p ss ([], []))) <-> In n (sprs ss).
Proof. rewrite fas_snd_in. cbn. tauto. Qed.

Lemma before_tricho {A} (x y : A) l : In x l -> In y l -> x = y \/ before x y l \/ before y x l.
Proof.
  induction l as [|z l IH]; intros Hx Hy; [contradiction|].
  destruct Hx as [->|Hx], Hy as [->|Hy]; auto.
  - right. left. constructor. exact Hy.
  - right. right. constructor. exact Hx.
  - destruct (IH Hx Hy) as [H|[H|H]]; auto; right; [left|right]; constructor; exact H.
Qed.

(* ---------------------------------------------------------------- reachable fragments *)
Section Reach.
  Variable frags : list fragdef.

  Definition body_flat (fd : fragdef) : list entry := flat (fr_type fd) (fr_body fd).

  (* F is spread, directly or through fragment bodies, by one of the names in the list *)
  Inductive Reach : list N -> N -> Prop :=
  | Reach_here sps F : In F sps -> Reach sps F
  | Reach_step sps G gd F :
      In G sps -> find_frag frags G = Some gd -> Reach (sprs (fr_body gd)) F -> Reach sps F.

  (* F is G0 or reachable from the body of G0 *)
  Inductive RS : N -> N -> Prop :=
  | RS_refl F : RS F F
  | RS_step F0 fd sp F :
      find_frag frags F0 = Some fd -> In sp (sprs (fr_body fd)) -> RS sp F -> RS F0 F.

  Lemma Reach_incl sps sps' F : incl sps sps' -> Reach sps F -> Reach sps' F.
  Proof.
    intros Hi H. revert sps' Hi. induction H as [sps F Hin|sps G gd F Hin Hf Hr IH]; intros sps' Hi.
    - apply Reach_here. auto.
    - eapply Reach_step; eauto.
  Qed.

  Lemma Reach_RS sps F : Reach sps F -> exists sp, In sp sps /\ RS sp F.
  Proof.
    induction 1 as [sps F Hin|sps G gd F Hin Hf Hr IH].
    - exists F. split; [exact Hin | apply RS_refl].
    - destruct IH as [sp [Hs Hrs]]. exists G. split; auto. eapply RS_step; eauto.
  Qed.

  Lemma RS_Reach sp F sps : In sp sps -> RS sp F -> Reach sps F.
  Proof.
    intros Hin H. revert sps Hin. induction H as [F|F0 fd sp F Hf Hs Hr IH]; intros sps Hin.
    - apply Reach_here. exact Hin.
    - eapply Reach_step; eauto.
  Qed.

  (* the fields a selection set contributes to a collected set: its own and those of the
     fragments it reaches *)
  Definition Exp (q : N) (t : sels) (u : entry) : Prop :=
    In u (flat q t) \/
    exists F fd, Reach (sprs t) F /\ find_frag frags F = Some fd /\ In u (body_flat fd).

  Lemma Exp_field q f sub rest u : Exp q rest u -> Exp q (SelField f sub rest) u.
  Proof.
    intros [H|[F [fd [H1 [H2 H3]]]]]; [left; cbn; auto | right; exists F, fd; cbn; auto].
  Qed.

  Lemma Exp_inline_sub q iid tc sub rest u :
    Exp (match tc with Some t => t | None => q end) sub u -> Exp q (SelInline iid tc sub rest) u.
  Proof.
    intros [H|[F [fd [H1 [H2 H3]]]]].
    - left. cbn. apply in_or_app. left. exact H.
    - right. exists F, fd. split; auto. cbn. eapply Reach_incl; [|exact H1]. apply incl_appl, incl_refl.
  Qed.

  Lemma Exp_inline_rest q iid tc sub rest u : Exp q rest u -> Exp q (SelInline iid tc sub rest) u.
  Proof.
    intros [H|[F [fd [H1 [H2 H3]]]]].
    - left. cbn. apply in_or_app. right. exact H.
    - right. exists F, fd. split; auto. cbn. eapply Reach_incl; [|exact H1]. apply incl_appr, incl_refl.
  Qed.

  Lemma Exp_spread_rest q n rest u : Exp q rest u -> Exp q (SelSpread n rest) u.
  Proof.
    intros [H|[F [fd [H1 [H2 H3]]]]]; [left; cbn; auto|].
    right. exists F, fd. split; auto. cbn. eapply Reach_incl; [|exact H1]. apply incl_tl, incl_refl.
  Qed.

  Definition collects_exp (c : collect_fn) : Prop :=
    forall q t st st', c q t st = Some st' -> forall u, In u (snd st') -> In u (snd st) \/ Exp q t u.

  Lemma collect_go_exp rec : collects_exp rec -> collects_exp (collect_go frags rec).
  Proof.
    intros Hrec q t. revert q.
    induction t as [|f sub IHsub rest IHrest|iid tc sub IHsub rest IHrest|n rest IHrest];
      intros q st st' H u Hu; cbn [collect_go] in H.
    - inversion H; subst. left. exact Hu.
    - destruct (IHrest q _ _ H u Hu) as [Hi|He].
      + cbn [snd] in Hi. apply in_app_or in Hi as [Hi|[<-|[]]]; [left; exact Hi|].
        right. left. cbn. left. reflexivity.
      + right. apply Exp_field. exact He.
    - destruct (collect_go frags rec (match tc with Some t0 => t0 | None => q end) sub st) as [st1|] eqn:E1;
        [|discriminate].
      destruct (IHrest q _ _ H u Hu) as [Hi|He].
      + destruct (IHsub _ _ _ E1 u Hi) as [Hj|He]; [left; exact Hj|].
        right. apply Exp_inline_sub. exact He.
      + right. apply Exp_inline_rest. exact He.
    - destruct (mem n (fst st)).
      { destruct (IHrest q _ _ H u Hu) as [Hi|He]; [left; exact Hi | right; apply Exp_spread_rest; exact He]. }
      destruct (find_frag frags n) as [fd|] eqn:Ef.
      + destruct (rec (fr_type fd) (fr_body fd) (n :: fst st, snd st)) as [st1|] eqn:E1; [|discriminate].
        destruct (IHrest q _ _ H u Hu) as [Hi|He]; [|right; apply Exp_spread_rest; exact He].
        destruct (Hrec _ _ _ _ E1 u Hi) as [Hj|[Hf|[F [fd' [H1 [H2 H3]]]]]].
        * left. exact Hj.
        * right. right. exists n, fd. split; [apply Reach_here; left; reflexivity|]. auto.
        * right. right. exists F, fd'. split; auto.
          eapply Reach_step; [left; reflexivity | exact Ef | exact H1].
      + destruct (IHrest q _ _ H u Hu) as [Hi|He]; [left; exact Hi | right; apply Exp_spread_rest; exact He].
  Qed.

  Lemma collect_exp fuel : collects_exp (collect frags fuel).
  Proof.
    induction fuel as [|f IH]; cbn [collect]; apply collect_go_exp.
    - intros q t st st' H. discriminate.
    - exact IH.
  Qed.
End Reach.

(* ---------------------------------------------------------------- symmetry of the direct conflict *)
Lemma nat_list_eqb_sym a : forall b, nat_list_eqb a b = nat_list_eqb b a.
Proof. induction a as [|x a IH]; intros [|y b]; cbn; auto. rewrite N.eqb_sym, IH. reflexivity. Qed.

Lemma nat_list_eqb_refl a : nat_list_eqb a a = true.
Proof. apply nat_list_eqb_eq. reflexivity. Qed.

Lemma value_eqb_sym : forall a b, value_eqb a b = value_eqb b a.
Proof.
  fix IH 1. intros [x|t x|xs|xs] [y|u y|ys|ys]; cbn [value_eqb]; try reflexivity.
  - apply N.eqb_sym.
  - rewrite N.eqb_sym, nat_list_eqb_sym. reflexivity.
  - revert ys. induction xs as [|x xs IHxs]; intros [|y ys]; try reflexivity.
    rewrite (IH x y), IHxs. reflexivity.
  - revert ys. induction xs as [|[k x] xs IHxs]; intros [|[l y] ys]; try reflexivity.
    rewrite (IH x y), IHxs, (N.eqb_sym k l). reflexivity.
Qed.

Lemma value_eqb_refl : forall a, value_eqb a a = true.
Proof.
  fix IH 1. intros [x|t x|xs|xs]; cbn [value_eqb].
  - apply N.eqb_refl.
  - rewrite N.eqb_refl, nat_list_eqb_refl. reflexivity.
  - induction xs as [|x xs IHxs]; auto. rewrite (IH x), IHxs. reflexivity.
  - induction xs as [|[k x] xs IHxs]; auto. rewrite (IH x), IHxs, N.eqb_refl. reflexivity.
Qed.

Lemma same_value_sym a b : same_value a b = same_value b a.
Proof. unfold same_value. apply value_eqb_sym. Qed.
Lemma same_value_refl a : same_value a a = true.
Proof. unfold same_value. apply value_eqb_refl. Qed.

(* argument lists with distinct names *)
Definition args_nodup (e : entry) : Prop := NoDup (map fst (f_args (e_fld e))).

Lemma assoc_in {A} k (v : A) l : NoDup (map fst l) -> In (k, v) l -> assoc k l = Some v.
Proof.
  induction l as [|[k' v'] l IH]; intros Hn Hin; [contradiction|]. cbn [assoc].
  inversion Hn as [|? ? Hni Hr]; subst. destruct Hin as [Hin|Hin].
  - inversion Hin; subst. rewrite N.eqb_refl. reflexivity.
  - destruct (k' =? k) eqn:E; [|apply IH; auto].
    apply N.eqb_eq in E. subst k'. exfalso. apply Hni. apply (in_map fst) in Hin. exact Hin.
Qed.

Lemma assoc_some_in {A} k (v : A) l : assoc k l = Some v -> In (k, v) l.
Proof.
  induction l as [|[k' v'] l IH]; cbn [assoc]; intro H; [discriminate|].
  destruct (k' =? k) eqn:E.
  - apply N.eqb_eq in E. inversion H; subst. left. reflexivity.
  - right. apply IH. exact H.
Qed.

Lemma args_same_refl a : NoDup (map fst a) -> args_same a a = true.
Proof.
  intro Hn. unfold args_same. rewrite Nat.eqb_refl. cbn [andb]. apply forallb_forall.
  intros [k v] Hin. cbn [fst snd]. rewrite (assoc_in k v a Hn Hin). apply same_value_refl.
Qed.

Lemma args_same_sym a b : NoDup (map fst a) -> NoDup (map fst b) ->
  args_same a b = true -> args_same b a = true.
Proof.
  intros Ha Hb H. unfold args_same in *. apply andb_true_iff in H as [Hl Hf].
  apply Nat.eqb_eq in Hl. rewrite forallb_forall in Hf.
  rewrite Hl, Nat.eqb_refl. cbn [andb]. apply forallb_forall. intros [k w] Hin. cbn [fst snd].
  assert (Hincl : incl (map fst a) (map fst b)).
  { intros k' Hk'. apply in_map_iff in Hk' as [[k2 v2] [<- Hin2]]. cbn [fst].
    specialize (Hf (k2, v2) Hin2). cbn [fst snd] in Hf.
    destruct (assoc k2 b) as [w2|] eqn:E; [|discriminate].
    apply assoc_some_in in E. apply (in_map fst) in E. exact E. }
  assert (Hincl' : incl (map fst b) (map fst a)).
  { apply NoDup_length_incl; auto. rewrite !map_length. lia. }
  assert (Hk : In k (map fst a)) by (apply Hincl'; apply (in_map fst) in Hin; exact Hin).
  apply in_map_iff in Hk as [[k2 v] [Hk2 Hin2]]. cbn [fst] in Hk2. subst k2.
  rewrite (assoc_in k v a Ha Hin2).
  specialize (Hf (k, v) Hin2). cbn [fst snd] in Hf. rewrite (assoc_in k w b Hb Hin) in Hf.
  rewrite same_value_sym. exact Hf.
Qed.

Lemma args_same_sym_eq a b : NoDup (map fst a) -> NoDup (map fst b) -> args_same a b = args_same b a.
Proof.
  intros Ha Hb. destruct (args_same a b) eqn:E1, (args_same b a) eqn:E2; auto.
  - rewrite (args_same_sym a b Ha Hb E1) in E2. discriminate.
  - rewrite (args_same_sym b a Hb Ha E2) in E1. discriminate.
Qed.

Section Direct.
  Variable s : schema.

  Lemma excl_of_sym e a b : excl_of s e a b = excl_of s e b a.
  Proof.
    unfold excl_of. rewrite (N.eqb_sym (e_parent a)).
    destruct (is_object s (e_parent a)), (is_object s (e_parent b)), (negb _), e; reflexivity.
  Qed.

  Lemma direct_sym e a b ta tb : args_nodup a -> args_nodup b ->
    direct s e a b ta tb = direct s e b a tb ta.
  Proof.
    intros Ha Hb. unfold direct. rewrite excl_of_sym, (shape_conflict_sym s ta tb).
    rewrite (N.eqb_sym (f_name (e_fld a))), (args_same_sym_eq _ _ Ha Hb). reflexivity.
  Qed.

  Lemma direct_refl e a ta : args_nodup a -> direct s e a a ta ta = false.
  Proof.
    intro Ha. unfold direct. rewrite N.eqb_refl, (args_same_refl _ Ha), shape_conflict_refl.
    cbn. rewrite andb_false_r. reflexivity.
  Qed.

  (* a stronger (or equal) flag finds at least the same direct conflicts *)
  Lemma direct_covers r e a b ta tb : OverlapOptProps.covers r e ->
    direct s e a b ta tb = true -> direct s r a b ta tb = true.
  Proof.
    intros [->| ->] H; [|exact H]. unfold direct in *.
    destruct (shape_conflict s ta tb); [apply orb_true_r|]. rewrite orb_false_r in *.
    apply andb_true_iff in H as [H1 H2]. rewrite H2, andb_true_r.
    destruct (excl_of s false a b) eqn:E; auto.
    unfold excl_of in *. cbn [orb] in E. rewrite E, orb_true_r in H1. discriminate.
  Qed.

  Lemma excl_covers r e a b : OverlapOptProps.covers r e ->
    OverlapOptProps.covers (excl_of s r a b) (excl_of s e a b).
  Proof.
    intros [->| ->]; [|right; reflexivity].
    destruct (excl_of s false a b) eqn:E; [|left; reflexivity].
    right. unfold excl_of in *. cbn [orb] in E. rewrite E. symmetry. apply orb_true_r.
  Qed.

  Lemma covers_trans r1 r2 e : OverlapOptProps.covers r1 r2 -> OverlapOptProps.covers r2 e ->
    OverlapOptProps.covers r1 e.
  Proof. intros [->| ->] H; [left; reflexivity | exact H]. Qed.

  Lemma covers_false e : OverlapOptProps.covers false e.
  Proof. left. reflexivity. Qed.

  Lemma nodirect_direct r x y tx ty : ft s x = Some tx -> ft s y = Some ty ->
    nodirect s r x y -> direct s r x y tx ty = false.
  Proof.
    intros Hx Hy [H1 H2]. rewrite Hx, Hy, do_types_conflict_shape in H2.
    unfold direct. rewrite H1, H2. reflexivity.
  Qed.
End Direct.

(* ---------------------------------------------------------------- a closed log covers every pair *)
Section Cover.
  Variable s : schema.
  Variable d : document.
  Notation frags := (d_frags d).
  Variable L : list tev.                                   (* the final log *)
  Variable AllSets : list (N * setid * sels).              (* the visited selection sets *)

  Hypothesis HL : forall ev, In ev L -> OblEv s frags L ev.
  Hypothesis HS : forall x, In x AllSets -> set_post L x.
  Hypothesis Hfrag_vis : forall F fd, find_frag frags F = Some fd -> In (fr_type fd, IdFrag F, fr_body fd) AllSets.
  Hypothesis Hcode : forall x y, In x AllSets -> In y AllSets ->
    setid_code (snd (fst x)) = setid_code (snd (fst y)) -> x = y.

  Notation covers := OverlapOptProps.covers.

  (* the pair was evaluated, in one orientation, under a flag that subsumes e *)
  Definition PairCov (e : bool) (u v : entry) : Prop :=
    exists r, covers r e /\ (Cmp L r u v \/ Cmp L r v u).
  Definition PC (e : bool) (u v : entry) : Prop := u = v \/ PairCov e u v.

  Lemma PC_sym e u v : PC e u v -> PC e v u.
  Proof. intros [->|[r [H1 [H2|H2]]]]; [left; reflexivity| |]; right; exists r; auto. Qed.

  Lemma PC_weaken r e u v : covers r e -> PC r u v -> PC e u v.
  Proof.
    intros Hc [->|[r' [H1 H2]]]; [left; reflexivity|]. right. exists r'. split; auto.
    eapply covers_trans; eauto.
  Qed.

  Lemma same_rname_sym u v : same_rname u v = same_rname v u.
  Proof. unfold same_rname. apply N.eqb_sym. Qed.

  Lemma covGG_sym e F G : covGG L e F G -> covGG L e G F.
  Proof. intros [->|[r [H1 [H2|H2]]]]; [left; reflexivity| |]; right; exists r; auto. Qed.

  Lemma set_post_parts q id t : In (q, id, t) AllSets ->
    (forall x y, before x y (flat q t) -> same_rname x y = true -> Cmp L false x y) /\
    (forall sp, In sp (sprs t) -> covFF L false (setid_code id) (flat q t) sp) /\
    (forall s1 s2, In s1 (sprs t) -> In s2 (sprs t) -> s1 <> s2 -> covGG L false s1 s2).
  Proof.
    intro Hin. pose proof (HS _ Hin) as [A [B C]]. cbn [fst snd] in A, B, C.
    rewrite D_flat in A, B. repeat split; auto.
    - intros sp Hs. apply B. apply S_sprs. exact Hs.
    - intros s1 s2 H1 H2 Hne.
      destruct (before_tricho s1 s2 (snd (fields_and_spreads q t ([], [])))) as [He|[Hb|Hb]];
        try (apply S_sprs; assumption).
      + contradiction.
      + apply C. exact Hb.
      + apply covGG_sym. apply C. exact Hb.
  Qed.

  Lemma within_flat q id t u v : In (q, id, t) AllSets ->
    In u (flat q t) -> In v (flat q t) -> same_rname u v = true -> PC false u v.
  Proof.
    intros Hin Hu Hv Hr. destruct (set_post_parts q id t Hin) as [A _].
    destruct (before_tricho u v (flat q t) Hu Hv) as [He|[Hb|Hb]].
    - left. exact He.
    - right. exists false. split; [left; reflexivity|]. left. apply A; auto.
    - right. exists false. split; [left; reflexivity|]. right. apply A; auto. rewrite same_rname_sym. exact Hr.
  Qed.

  Lemma Dfrag_flat fd : Dfrag fd = body_flat fd.
  Proof. unfold Dfrag, body_flat. apply D_flat. Qed.
  Lemma Sfrag_sprs fd n : In n (Sfrag fd) <-> In n (sprs (fr_body fd)).
  Proof. unfold Sfrag. apply S_sprs. Qed.

  Lemma HL_fp id fm F r : In (TvFp id fm F r) L ->
    forall fd, find_frag frags F = Some fd -> (id =? setid_code (IdFrag F)) = false ->
      crossCmp L r fm (Dfrag fd) /\ forall sp, In sp (Sfrag fd) -> covFF L r id fm sp.
  Proof. intro H. exact (HL _ H). Qed.

  Lemma HL_gg F G r : In (TvGg F G r) L ->
    forall d1 d2, find_frag frags F = Some d1 -> find_frag frags G = Some d2 ->
      crossCmp L r (Dfrag d1) (Dfrag d2) /\
      (forall sp, In sp (Sfrag d2) -> covGG L r F sp) /\
      (forall sp, In sp (Sfrag d1) -> covGG L r sp G).
  Proof. intro H. exact (HL _ H). Qed.

  (* fields of a visited set against the fields of a fragment it reaches *)
  Lemma ff_cov : forall sps F, Reach frags sps F -> forall e q id t, In (q, id, t) AllSets ->
    (forall sp, In sp sps -> covFF L e (setid_code id) (flat q t) sp) ->
    forall fd, find_frag frags F = Some fd ->
    forall u v, In u (flat q t) -> In v (body_flat fd) -> same_rname u v = true -> PC e u v.
  Proof.
    induction 1 as [sps F Hin|sps G gd F Hin Hg Hr IH]; intros e q id t Hset Hcov fd Hfd u v Hu Hv Hrn.
    - destruct (Hcov F Hin) as [r [Hc Hev]]. pose proof (HL_fp _ _ _ _ Hev fd Hfd) as Ho.
      destruct (setid_code id =? setid_code (IdFrag F)) eqn:Es.
      + apply N.eqb_eq in Es.
        pose proof (Hcode _ _ Hset (Hfrag_vis F fd Hfd) Es) as Heq. inversion Heq; subst.
        apply (PC_weaken false); [apply covers_false|]. eapply within_flat; eauto.
      + destruct (Ho eq_refl) as [Hx _]. right. exists r. split; auto. left.
        apply Hx; auto. rewrite Dfrag_flat. exact Hv.
    - destruct (Hcov G Hin) as [r [Hc Hev]]. pose proof (HL_fp _ _ _ _ Hev gd Hg) as Ho.
      destruct (setid_code id =? setid_code (IdFrag G)) eqn:Es.
      + apply N.eqb_eq in Es.
        pose proof (Hcode _ _ Hset (Hfrag_vis G gd Hg) Es) as Heq. inversion Heq; subst.
        apply (PC_weaken false); [apply covers_false|].
        destruct (set_post_parts _ _ _ Hset) as [_ [B _]].
        apply (IH false _ _ _ Hset B fd Hfd u v); auto.
      + destruct (Ho eq_refl) as [_ Hn]. apply (PC_weaken r); [exact Hc|].
        apply (IH r q id t Hset (fun sp Hsp => Hn sp (proj2 (Sfrag_sprs gd sp) Hsp)) fd Hfd u v); auto.
  Qed.

  (* fields of two fragments: reached from a covered pair of fragments *)
  Lemma gg_cov : forall F0 F, RS frags F0 F -> forall G0 G, RS frags G0 G ->
    forall e, covGG L e F0 G0 ->
    forall fd gd, find_frag frags F = Some fd -> find_frag frags G = Some gd ->
    forall u v, In u (body_flat fd) -> In v (body_flat gd) -> same_rname u v = true -> PC e u v.
  Proof.
    induction 1 as [F|F0 fd0 sp1 F Hf0 Hs1 Hr1 IH1]; intros G0 G H2;
      induction H2 as [G|G0 gd0 sp2 G Hg0 Hs2 Hr2 IH2]; intros e Hcov fd gd Hfd Hgd u v Hu Hv Hrn.
    - (* both at the roots of the pair *)
      destruct Hcov as [->|[r [Hc Hev]]].
      + rewrite Hfd in Hgd. inversion Hgd; subst gd.
        apply (PC_weaken false); [apply covers_false|].
        eapply within_flat; [apply (Hfrag_vis G fd Hfd)| | |]; auto.
      + destruct Hev as [Hev|Hev].
        * destruct (HL_gg _ _ _ Hev fd gd Hfd Hgd) as [Hx _]. right. exists r. split; auto. left.
          apply Hx; auto; rewrite Dfrag_flat; assumption.
        * destruct (HL_gg _ _ _ Hev gd fd Hgd Hfd) as [Hx _]. right. exists r. split; auto. right.
          apply Hx; auto; try (rewrite Dfrag_flat; assumption). rewrite same_rname_sym. exact Hrn.
    - (* F at its root, G below G0 *)
      destruct Hcov as [->|[r [Hc Hev]]].
      + rewrite Hfd in Hg0. inversion Hg0; subst gd0.
        apply (PC_weaken false); [apply covers_false|].
        destruct (set_post_parts _ _ _ (Hfrag_vis G0 fd Hfd)) as [_ [B _]].
        apply (ff_cov (sprs (fr_body fd)) G (RS_Reach frags sp2 G _ Hs2 Hr2) false
                      _ _ _ (Hfrag_vis G0 fd Hfd) B gd Hgd u v); auto.
      + apply (PC_weaken r); [exact Hc|]. destruct Hev as [Hev|Hev].
        * destruct (HL_gg _ _ _ Hev fd gd0 Hfd Hg0) as [_ [Hn _]].
          apply (IH2 r (Hn sp2 (proj2 (Sfrag_sprs gd0 sp2) Hs2)) fd gd Hfd Hgd u v); auto.
        * destruct (HL_gg _ _ _ Hev gd0 fd Hg0 Hfd) as [_ [_ Hn]].
          apply (IH2 r (covGG_sym _ _ _ (Hn sp2 (proj2 (Sfrag_sprs gd0 sp2) Hs2))) fd gd Hfd Hgd u v); auto.
    - (* F below F0, G at its root *)
      destruct Hcov as [->|[r [Hc Hev]]].
      + rewrite Hgd in Hf0. inversion Hf0; subst fd0.
        apply (PC_weaken false); [apply covers_false|]. apply PC_sym.
        destruct (set_post_parts _ _ _ (Hfrag_vis G gd Hgd)) as [_ [B _]].
        apply (ff_cov (sprs (fr_body gd)) F (RS_Reach frags sp1 F _ Hs1 Hr1) false
                      _ _ _ (Hfrag_vis G gd Hgd) B fd Hfd v u); auto.
        rewrite same_rname_sym. exact Hrn.
      + apply (PC_weaken r); [exact Hc|]. destruct Hev as [Hev|Hev].
        * destruct (HL_gg _ _ _ Hev fd0 gd Hf0 Hgd) as [_ [_ Hn]].
          apply (IH1 G G (RS_refl frags G) r (Hn sp1 (proj2 (Sfrag_sprs fd0 sp1) Hs1)) fd gd Hfd Hgd u v); auto.
        * destruct (HL_gg _ _ _ Hev gd fd0 Hgd Hf0) as [_ [Hn _]].
          apply (IH1 G G (RS_refl frags G) r (covGG_sym _ _ _ (Hn sp1 (proj2 (Sfrag_sprs fd0 sp1) Hs1)))
                     fd gd Hfd Hgd u v); auto.
    - (* both below *)
      destruct Hcov as [->|[r [Hc Hev]]].
      + rewrite Hf0 in Hg0. inversion Hg0; subst gd0.
        apply (PC_weaken false); [apply covers_false|].
        destruct (N.eq_dec sp1 sp2) as [->|Hne].
        * apply (IH1 sp2 G Hr2 false (or_introl eq_refl) fd gd Hfd Hgd u v); auto.
        * destruct (set_post_parts _ _ _ (Hfrag_vis G0 fd0 Hf0)) as [_ [_ C]].
          apply (IH1 sp2 G Hr2 false (C sp1 sp2 Hs1 Hs2 Hne) fd gd Hfd Hgd u v); auto.
      + apply (PC_weaken r); [exact Hc|]. destruct Hev as [Hev|Hev].
        * destruct (HL_gg _ _ _ Hev fd0 gd0 Hf0 Hg0) as [_ [Hn _]].
          apply (IH2 r (Hn sp2 (proj2 (Sfrag_sprs gd0 sp2) Hs2)) fd gd Hfd Hgd u v); auto.
        * destruct (HL_gg _ _ _ Hev gd0 fd0 Hg0 Hf0) as [_ [_ Hn]].
          apply (IH2 r (covGG_sym _ _ _ (Hn sp2 (proj2 (Sfrag_sprs gd0 sp2) Hs2))) fd gd Hfd Hgd u v); auto.
  Qed.

  (* all pairs inside the expansion of one visited set *)
  Lemma within_cov q id t u v : In (q, id, t) AllSets ->
    Exp frags q t u -> Exp frags q t v -> same_rname u v = true -> PC false u v.
  Proof.
    intros Hset Hu Hv Hrn. destruct (set_post_parts q id t Hset) as [A [B C]].
    destruct Hu as [Hu|[F [fd [HrF [Hfd Hu]]]]]; destruct Hv as [Hv|[G [gd [HrG [Hgd Hv]]]]].
    - eapply within_flat; eauto.
    - apply (ff_cov (sprs t) G HrG false q id t Hset B gd Hgd u v); auto.
    - apply PC_sym. apply (ff_cov (sprs t) F HrF false q id t Hset B fd Hfd v u); auto.
      rewrite same_rname_sym. exact Hrn.
    - destruct (Reach_RS frags _ _ HrF) as [sp1 [Hs1 R1]]. destruct (Reach_RS frags _ _ HrG) as [sp2 [Hs2 R2]].
      assert (Hcg : covGG L false sp1 sp2).
      { destruct (N.eq_dec sp1 sp2) as [->|Hne]; [left; reflexivity | apply C; auto]. }
      apply (gg_cov sp1 F R1 sp2 G R2 false Hcg fd gd Hfd Hgd u v); auto.
  Qed.

  (* all pairs between the expansions of two sets whose comparison is in the log *)
  Lemma cross_cov e q1 id1 t1 q2 id2 t2 u v :
    In (q1, id1, t1) AllSets -> In (q2, id2, t2) AllSets ->
    OblBetween L e (setid_code id1) (flat q1 t1) (snd (fields_and_spreads q1 t1 ([], [])))
               (setid_code id2) (flat q2 t2) (snd (fields_and_spreads q2 t2 ([], []))) ->
    Exp frags q1 t1 u -> Exp frags q2 t2 v -> same_rname u v = true -> PC e u v.
  Proof.
    intros Hs1 Hs2 [Hx [Hf2 [Hf1 Hg]]] Hu Hv Hrn.
    destruct Hu as [Hu|[F [fd [HrF [Hfd Hu]]]]]; destruct Hv as [Hv|[G [gd [HrG [Hgd Hv]]]]].
    - right. exists e. split; [right; reflexivity|]. left. apply Hx; auto.
    - apply (ff_cov (sprs t2) G HrG e q1 id1 t1 Hs1
                    (fun sp Hsp => Hf2 sp (proj2 (S_sprs q2 t2 sp) Hsp)) gd Hgd u v); auto.
    - apply PC_sym.
      apply (ff_cov (sprs t1) F HrF e q2 id2 t2 Hs2
                    (fun sp Hsp => Hf1 sp (proj2 (S_sprs q1 t1 sp) Hsp)) fd Hfd v u); auto.
      rewrite same_rname_sym. exact Hrn.
    - destruct (Reach_RS frags _ _ HrF) as [sp1 [Hp1 R1]]. destruct (Reach_RS frags _ _ HrG) as [sp2 [Hp2 R2]].
      apply (gg_cov sp1 F R1 sp2 G R2 e
                    (Hg sp1 sp2 (proj2 (S_sprs q1 t1 sp1) Hp1) (proj2 (S_sprs q2 t2 sp2) Hp2))
                    fd gd Hfd Hgd u v); auto.
  Qed.
End Cover.

(* ---------------------------------------------------------------- a covered pair has no conflict *)
Section NoConflict.
  Variable s : schema.
  Variable d : document.
  Notation frags := (d_frags d).
  Variable L : list tev.
  Variable AllSets : list (N * setid * sels).

  Hypothesis HL : forall ev, In ev L -> OblEv s frags L ev.
  Hypothesis HS : forall x, In x AllSets -> set_post L x.
  Hypothesis Hfrag_vis : forall F fd, find_frag frags F = Some fd -> In (fr_type fd, IdFrag F, fr_body fd) AllSets.
  Hypothesis Hcode : forall x y, In x AllSets -> In y AllSets ->
    setid_code (snd (fst x)) = setid_code (snd (fst y)) -> x = y.
  (* the sub-selection of every field occurrence is a visited set *)
  Hypothesis Hsub_vis : forall x, EntryOk s d x -> has_sub (e_sub x) = true ->
    In (sub_parent s x, IdField (f_id (e_fld x)), e_sub x) AllSets.
  Hypothesis Hargs : forall x, EntryOk s d x -> args_nodup x.

  Notation PCov := (PC L).

  Lemma Exp_nil q u : Exp frags q SelNil u -> False.
  Proof.
    intros [H|[F [fd [H _]]]]; [contradiction|]. cbn in H. inversion H; subst; contradiction.
  Qed.

  Lemma has_sub_exp q t u : Exp frags q t u -> has_sub t = true.
  Proof. destruct t; auto. intro H. destruct (Exp_nil _ _ H). Qed.

  Lemma sub_parent_named x t : ft s x = Some t -> sub_parent s x = named t.
  Proof. unfold ft, sub_parent. intros ->. reflexivity. Qed.

  Lemma Dsub_flat x t : ft s x = Some t -> Dsub s x = flat (named t) (e_sub x).
  Proof. intro H. unfold Dsub. rewrite (sub_parent_named x t H). apply D_flat. Qed.

  Lemma merged_exp x y tx ty l w : merged d x y tx ty = Some l -> In w l ->
    Exp frags (named tx) (e_sub x) w \/ Exp frags (named ty) (e_sub y) w.
  Proof.
    unfold merged. intros H Hw.
    destruct (collect frags (length frags) (named tx) (e_sub x) ([], [])) as [st1|] eqn:E1; [|discriminate].
    destruct (collect frags (length frags) (named ty) (e_sub y) st1) as [st2|] eqn:E2; [|discriminate].
    inversion H; subst l.
    destruct (collect_exp frags _ _ _ _ _ E2 w Hw) as [Hi|He]; [|right; exact He].
    destruct (collect_exp frags _ _ _ _ _ E1 w Hi) as [[]|He]. left. exact He.
  Qed.

  Lemma within_sub x t u v : EntryOk s d x -> ft s x = Some t ->
    Exp frags (named t) (e_sub x) u -> Exp frags (named t) (e_sub x) v ->
    same_rname u v = true -> PCov false u v.
  Proof.
    intros Hx Ht Hu Hv Hr.
    pose proof (Hsub_vis x Hx (has_sub_exp _ _ _ Hu)) as Hset. rewrite (sub_parent_named x t Ht) in Hset.
    eapply (within_cov s d L AllSets); eauto.
  Qed.

  Theorem covered_no_conf : forall e x y, Conf s d e x y -> EntryOk s d x -> EntryOk s d y ->
    PCov e x y -> False.
  Proof.
    induction 1 as [e x y tx ty Hx Hy Hd|e x y tx ty l u v Hx Hy Hd Hm Hb Hr Hc IH]; intros Ox Oy Hcov.
    - (* a direct conflict of a covered pair *)
      destruct Hcov as [->|[r [Hcr [Hcmp|Hcmp]]]].
      + rewrite Hx in Hy. inversion Hy; subst ty. rewrite (direct_refl s e y tx (Hargs y Oy)) in Hd. discriminate.
      + pose proof (HL _ Hcmp) as [Hn _].
        pose proof (nodirect_direct s r x y tx ty Hx Hy Hn) as Hf.
        rewrite (direct_covers s r e x y tx ty Hcr Hd) in Hf. discriminate.
      + pose proof (HL _ Hcmp) as [Hn _].
        pose proof (nodirect_direct s r y x ty tx Hy Hx Hn) as Hf.
        rewrite <- (direct_sym s r x y tx ty (Hargs x Ox) (Hargs y Oy)) in Hf.
        rewrite (direct_covers s r e x y tx ty Hcr Hd) in Hf. discriminate.
    - (* a nested pair: it is covered as well *)
      pose proof (merged_entries s d x y tx ty l Ox Oy Hx Hy Hm) as Hl. rewrite Forall_forall in Hl.
      destruct (before_in _ _ _ Hb) as [Hu Hv].
      apply (IH (Hl u Hu) (Hl v Hv)).
      destruct (merged_exp x y tx ty l u Hm Hu) as [Eu|Eu];
        destruct (merged_exp x y tx ty l v Hm Hv) as [Ev|Ev].
      + apply (PC_weaken L false); [apply covers_false|]. eapply (within_sub x tx); eauto.
      + (* u from x's side, v from y's side *)
        destruct Hcov as [->|[r [Hcr [Hcmp|Hcmp]]]].
        * rewrite Hx in Hy. inversion Hy; subst ty.
          apply (PC_weaken L false); [apply covers_false|]. eapply (within_sub y tx); eauto.
        * pose proof (HL _ Hcmp) as [_ Hob]. cbn beta in Hob.
          pose proof (has_sub_exp _ _ _ Eu) as Sx. pose proof (has_sub_exp _ _ _ Ev) as Sy.
          specialize (Hob ltac:(rewrite Sx, Sy; reflexivity)).
          rewrite (Dsub_flat x tx Hx), (Dsub_flat y ty Hy) in Hob.
          unfold Ssub in Hob. rewrite (sub_parent_named x tx Hx), (sub_parent_named y ty Hy) in Hob.
          pose proof (Hsub_vis x Ox Sx) as Vx. rewrite (sub_parent_named x tx Hx) in Vx.
          pose proof (Hsub_vis y Oy Sy) as Vy. rewrite (sub_parent_named y ty Hy) in Vy.
          apply (PC_weaken L (excl_of s r x y)); [apply excl_covers; exact Hcr|].
          exact (cross_cov s d L AllSets HL HS Hfrag_vis Hcode _ _ _ _ _ _ _ u v Vx Vy Hob Eu Ev Hr).
        * pose proof (HL _ Hcmp) as [_ Hob]. cbn beta in Hob.
          pose proof (has_sub_exp _ _ _ Eu) as Sx. pose proof (has_sub_exp _ _ _ Ev) as Sy.
          specialize (Hob ltac:(rewrite Sx, Sy; reflexivity)).
          rewrite (Dsub_flat x tx Hx), (Dsub_flat y ty Hy) in Hob.
          unfold Ssub in Hob. rewrite (sub_parent_named x tx Hx), (sub_parent_named y ty Hy) in Hob.
          pose proof (Hsub_vis x Ox Sx) as Vx. rewrite (sub_parent_named x tx Hx) in Vx.
          pose proof (Hsub_vis y Oy Sy) as Vy. rewrite (sub_parent_named y ty Hy) in Vy.
          apply (PC_weaken L (excl_of s r x y)); [apply excl_covers; exact Hcr|].
          rewrite (excl_of_sym s r x y). apply PC_sym.
          refine (cross_cov s d L AllSets HL HS Hfrag_vis Hcode _ _ _ _ _ _ _ v u Vy Vx Hob Ev Eu _).
          rewrite same_rname_sym. exact Hr.
      + (* u from y's side, v from x's side *)
        destruct Hcov as [->|[r [Hcr [Hcmp|Hcmp]]]].
        * rewrite Hx in Hy. inversion Hy; subst ty.
          apply (PC_weaken L false); [apply covers_false|]. eapply (within_sub y tx); eauto.
        * pose proof (HL _ Hcmp) as [_ Hob]. cbn beta in Hob.
          pose proof (has_sub_exp _ _ _ Ev) as Sx. pose proof (has_sub_exp _ _ _ Eu) as Sy.
          specialize (Hob ltac:(rewrite Sx, Sy; reflexivity)).
          rewrite (Dsub_flat x tx Hx), (Dsub_flat y ty Hy) in Hob.
          unfold Ssub in Hob. rewrite (sub_parent_named x tx Hx), (sub_parent_named y ty Hy) in Hob.
          pose proof (Hsub_vis x Ox Sx) as Vx. rewrite (sub_parent_named x tx Hx) in Vx.
          pose proof (Hsub_vis y Oy Sy) as Vy. rewrite (sub_parent_named y ty Hy) in Vy.
          apply (PC_weaken L (excl_of s r x y)); [apply excl_covers; exact Hcr|]. apply PC_sym.
          refine (cross_cov s d L AllSets HL HS Hfrag_vis Hcode _ _ _ _ _ _ _ v u Vx Vy Hob Ev Eu _).
          rewrite same_rname_sym. exact Hr.
        * pose proof (HL _ Hcmp) as [_ Hob]. cbn beta in Hob.
          pose proof (has_sub_exp _ _ _ Ev) as Sx. pose proof (has_sub_exp _ _ _ Eu) as Sy.
          specialize (Hob ltac:(rewrite Sx, Sy; reflexivity)).
          rewrite (Dsub_flat x tx Hx), (Dsub_flat y ty Hy) in Hob.
          unfold Ssub in Hob. rewrite (sub_parent_named x tx Hx), (sub_parent_named y ty Hy) in Hob.
          pose proof (Hsub_vis x Ox Sx) as Vx. rewrite (sub_parent_named x tx Hx) in Vx.
          pose proof (Hsub_vis y Oy Sy) as Vy. rewrite (sub_parent_named y ty Hy) in Vy.
          apply (PC_weaken L (excl_of s r x y)); [apply excl_covers; exact Hcr|].
          rewrite (excl_of_sym s r x y).
          exact (cross_cov s d L AllSets HL HS Hfrag_vis Hcode _ _ _ _ _ _ _ u v Vy Vx Hob Eu Ev Hr).
      + apply (PC_weaken L false); [apply covers_false|]. eapply (within_sub y ty); eauto.
  Qed.

  (* no selection set of the document has a conflict *)
  Theorem closed_no_setconf p ss id :
    InDoc s d p ss -> In (p, id, ss) AllSets -> SetConf s d p ss -> False.
  Proof.
    intros Hin Hset [st [x [y [Hc [Hb [Hr Hconf]]]]]].
    assert (Hst : Forall (EntryOk s d) (snd st)).
    { eapply collect_entries; [exact Hin| |exact Hc]. constructor. }
    rewrite Forall_forall in Hst. destruct (before_in _ _ _ Hb) as [Hx Hy].
    apply (covered_no_conf false x y Hconf (Hst x Hx) (Hst y Hy)).
    assert (Hex : forall w, In w (snd st) -> Exp frags p ss w).
    { intros w Hw. destruct (collect_exp frags _ _ _ _ _ Hc w Hw) as [[]|He]. exact He. }
    eapply (within_cov s d L AllSets HL HS Hfrag_vis Hcode); eauto.
  Qed.
End NoConflict.

Lemma NoDup_app_l {A} (a b : list A) : NoDup (a ++ b) -> NoDup a.
Proof.
  induction a as [|x a IH]; cbn; intro H; [constructor|].
  inversion H; subst. constructor; auto. intro Hc. apply H2. apply in_or_app. left. exact Hc.
Qed.

Lemma NoDup_app_r {A} (a b : list A) : NoDup (a ++ b) -> NoDup b.
Proof. induction a as [|x a IH]; cbn; intro H; auto. inversion H; auto. Qed.

(* ---------------------------------------------------------------- the visited sets of a document *)
Section Sets.
  Variable s : schema.

  Lemma opt_sets_trans : forall ss p q id t, In (q, id, t) (opt_sets s p ss) ->
    incl (opt_sets s q t) (opt_sets s p ss).
  Proof.
    induction ss as [|f sub IHsub rest IHrest|iid tc sub IHsub rest IHrest|n rest IHrest];
      intros p q id t Hin; cbn [opt_sets] in *.
    - contradiction.
    - apply in_app_or in Hin as [Hin|Hin].
      + set (q0 := match field_type s p (f_name f) with Some t0 => named t0 | None => 0 end) in *.
        assert (Hc : In (q, id, t) ((q0, IdField (f_id f), sub) :: opt_sets s q0 sub))
          by (destruct sub; [contradiction| | |]; exact Hin).
        assert (Hi : incl ((q0, IdField (f_id f), sub) :: opt_sets s q0 sub)
                          (match sub with SelNil => [] | _ => (q0, IdField (f_id f), sub) :: opt_sets s q0 sub end))
          by (destruct sub; [contradiction| | |]; apply incl_refl).
        intros z Hz. apply in_or_app. left. apply Hi. right.
        destruct Hc as [Hc|Hc]; [inversion Hc; subst; exact Hz | eapply IHsub; eauto].
      + intros z Hz. apply in_or_app. right. eapply IHrest; eauto.
    - apply in_app_or in Hin as [[Hin|Hin]|Hin].
      + inversion Hin; subst. intros z Hz. apply in_or_app. left. right. exact Hz.
      + intros z Hz. apply in_or_app. left. right. eapply IHsub; eauto.
      + intros z Hz. apply in_or_app. right. eapply IHrest; eauto.
    - eapply IHrest; eauto.
  Qed.

  (* the sub-selection of a field of a set is one of the sets below it *)
  Lemma flat_sub_set : forall ss p x, In x (flat p ss) -> has_sub (e_sub x) = true ->
    In (sub_parent s x, IdField (f_id (e_fld x)), e_sub x) (opt_sets s p ss).
  Proof.
    induction ss as [|f sub IHsub rest IHrest|iid tc sub IHsub rest IHrest|n rest IHrest];
      intros p x Hin Hs; cbn [flat opt_sets] in *.
    - contradiction.
    - destruct Hin as [<-|Hin].
      + cbn [e_sub e_fld e_parent] in *. apply in_or_app. left.
        unfold sub_parent. cbn [e_parent e_fld e_sub].
        destruct sub; [discriminate| | |]; left; reflexivity.
      + apply in_or_app. right. auto.
    - apply in_app_or in Hin as [Hin|Hin]; apply in_or_app; [left; right|right]; auto.
    - auto.
  Qed.

  Lemma checked_in_opt : forall ss p q t, In (q, t) (checked_sets s p ss) ->
    exists id, In (q, id, t) (opt_sets s p ss).
  Proof.
    induction ss as [|f sub IHsub rest IHrest|iid tc sub IHsub rest IHrest|n rest IHrest];
      intros p q t Hin; cbn [checked_sets opt_sets] in *.
    - contradiction.
    - apply in_app_or in Hin as [Hin|Hin].
      + destruct (field_type s p (f_name f)) as [ty|]; [|contradiction].
        destruct sub; [contradiction| | |];
          (destruct Hin as [Hin|Hin];
           [inversion Hin; subst; eexists; apply in_or_app; left; left; reflexivity
           |destruct (IHsub _ _ _ Hin) as [id Hi]; exists id; apply in_or_app; left; right; exact Hi]).
      + destruct (IHrest _ _ _ Hin) as [id Hi]. exists id. apply in_or_app. right. exact Hi.
    - apply in_app_or in Hin as [Hin|Hin].
      + destruct (is_composite s match tc with Some t0 => t0 | None => p end); [|contradiction].
        destruct Hin as [Hin|Hin].
        * inversion Hin; subst. eexists. apply in_or_app. left. left. reflexivity.
        * destruct (IHsub _ _ _ Hin) as [id Hi]. exists id. apply in_or_app. left. right. exact Hi.
      + destruct (IHrest _ _ _ Hin) as [id Hi]. exists id. apply in_or_app. right. exact Hi.
    - eauto.
  Qed.

  (* ids of the sets below a selection set *)
  Definition idnum (i : setid) : N := match i with IdOp n | IdFrag n | IdField n | IdInline n => n end.

  Lemma opt_sets_ids : forall ss p q id t, In (q, id, t) (opt_sets s p ss) ->
    In (idnum id) (all_ids_sels ss) /\ (exists n, id = IdField n \/ id = IdInline n).
  Proof.
    induction ss as [|f sub IHsub rest IHrest|iid tc sub IHsub rest IHrest|n rest IHrest];
      intros p q id t Hin; cbn [opt_sets all_ids_sels] in *.
    - contradiction.
    - apply in_app_or in Hin as [Hin|Hin].
      + set (q0 := match field_type s p (f_name f) with Some t0 => named t0 | None => 0 end) in *.
        assert (Hc : In (q, id, t) ((q0, IdField (f_id f), sub) :: opt_sets s q0 sub))
          by (destruct sub; [contradiction| | |]; exact Hin).
        destruct Hc as [Hc|Hc].
        * inversion Hc; subst. split; [left; reflexivity | eauto].
        * destruct (IHsub _ _ _ _ Hc) as [H1 H2]. split; auto. right. apply in_or_app. left. exact H1.
      + destruct (IHrest _ _ _ _ Hin) as [H1 H2]. split; auto. right. apply in_or_app. right. exact H1.
    - apply in_app_or in Hin as [[Hin|Hin]|Hin].
      + inversion Hin; subst. split; [left; reflexivity | eauto].
      + destruct (IHsub _ _ _ _ Hin) as [H1 H2]. split; auto. right. apply in_or_app. left. exact H1.
      + destruct (IHrest _ _ _ _ Hin) as [H1 H2]. split; auto. right. apply in_or_app. right. exact H1.
    - eauto.
  Qed.

  Lemma NoDup_app_disj {A} (a b : list A) x : NoDup (a ++ b) -> In x a -> In x b -> False.
  Proof.
    induction a as [|y a IH]; cbn; intros Hn Ha Hb; [contradiction|].
    inversion Hn as [|? ? Hni Hr]; subst. destruct Ha as [->|Ha]; [|eauto].
    apply Hni. apply in_or_app. right. exact Hb.
  Qed.

  (* within one selection set, the id determines the set *)
  Lemma opt_sets_fun : forall ss p, NoDup (all_ids_sels ss) ->
    forall q id t q' t', In (q, id, t) (opt_sets s p ss) -> In (q', id, t') (opt_sets s p ss) ->
    q = q' /\ t = t'.
  Proof.
    induction ss as [|f sub IHsub rest IHrest|iid tc sub IHsub rest IHrest|n rest IHrest];
      intros p Hn q id t q' t' H1 H2; cbn [opt_sets all_ids_sels] in *.
    - contradiction.
    - inversion Hn as [|? ? Hni Hr]; subst.
      set (q0 := match field_type s p (f_name f) with Some t0 => named t0 | None => 0 end) in *.
      assert (Hcase : forall q1 t1, In (q1, id, t1)
                 ((match sub with SelNil => [] | _ => (q0, IdField (f_id f), sub) :: opt_sets s q0 sub end)
                  ++ opt_sets s p rest) ->
               (id = IdField (f_id f) /\ q1 = q0 /\ t1 = sub) \/ In (q1, id, t1) (opt_sets s q0 sub)
               \/ In (q1, id, t1) (opt_sets s p rest)).
      { intros q1 t1 Hi. apply in_app_or in Hi as [Hi|Hi]; auto.
        destruct sub; [contradiction| | |];
          (destruct Hi as [Hi|Hi]; [inversion Hi; subst; auto | auto]). }
      destruct (Hcase _ _ H1) as [[E1 [-> ->]]|[A1|A1]]; destruct (Hcase _ _ H2) as [[E2 [-> ->]]|[A2|A2]]; auto.
      + subst id. destruct (opt_sets_ids _ _ _ _ _ A2) as [Hi _]. cbn in Hi. exfalso. apply Hni.
        apply in_or_app. left. exact Hi.
      + subst id. destruct (opt_sets_ids _ _ _ _ _ A2) as [Hi _]. cbn in Hi. exfalso. apply Hni.
        apply in_or_app. right. exact Hi.
      + subst id. destruct (opt_sets_ids _ _ _ _ _ A1) as [Hi _]. cbn in Hi. exfalso. apply Hni.
        apply in_or_app. left. exact Hi.
      + eapply IHsub; eauto. eapply NoDup_app_l; eauto.
      + destruct (opt_sets_ids _ _ _ _ _ A1) as [I1 _]. destruct (opt_sets_ids _ _ _ _ _ A2) as [I2 _].
        exfalso. eapply (NoDup_app_disj _ _ _ Hr); eauto.
      + subst id. destruct (opt_sets_ids _ _ _ _ _ A1) as [Hi _]. cbn in Hi. exfalso. apply Hni.
        apply in_or_app. right. exact Hi.
      + destruct (opt_sets_ids _ _ _ _ _ A1) as [I1 _]. destruct (opt_sets_ids _ _ _ _ _ A2) as [I2 _].
        exfalso. eapply (NoDup_app_disj _ _ _ Hr); eauto.
      + eapply IHrest; eauto. eapply NoDup_app_r; eauto.
    - inversion Hn as [|? ? Hni Hr]; subst.
      set (q0 := match tc with Some t0 => t0 | None => p end) in *.
      assert (Hcase : forall q1 t1, In (q1, id, t1) (((q0, IdInline iid, sub) :: opt_sets s q0 sub) ++ opt_sets s p rest) ->
               (id = IdInline iid /\ q1 = q0 /\ t1 = sub) \/ In (q1, id, t1) (opt_sets s q0 sub)
               \/ In (q1, id, t1) (opt_sets s p rest)).
      { intros q1 t1 Hi. apply in_app_or in Hi as [[Hi|Hi]|Hi]; auto. inversion Hi; subst; auto. }
      destruct (Hcase _ _ H1) as [[E1 [-> ->]]|[A1|A1]]; destruct (Hcase _ _ H2) as [[E2 [-> ->]]|[A2|A2]]; auto.
      + subst id. destruct (opt_sets_ids _ _ _ _ _ A2) as [Hi _]. cbn in Hi. exfalso. apply Hni.
        apply in_or_app. left. exact Hi.
      + subst id. destruct (opt_sets_ids _ _ _ _ _ A2) as [Hi _]. cbn in Hi. exfalso. apply Hni.
        apply in_or_app. right. exact Hi.
      + subst id. destruct (opt_sets_ids _ _ _ _ _ A1) as [Hi _]. cbn in Hi. exfalso. apply Hni.
        apply in_or_app. left. exact Hi.
      + eapply IHsub; eauto. eapply NoDup_app_l; eauto.
      + destruct (opt_sets_ids _ _ _ _ _ A1) as [I1 _]. destruct (opt_sets_ids _ _ _ _ _ A2) as [I2 _].
        exfalso. eapply (NoDup_app_disj _ _ _ Hr); eauto.
      + subst id. destruct (opt_sets_ids _ _ _ _ _ A1) as [Hi _]. cbn in Hi. exfalso. apply Hni.
        apply in_or_app. right. exact Hi.
      + destruct (opt_sets_ids _ _ _ _ _ A1) as [I1 _]. destruct (opt_sets_ids _ _ _ _ _ A2) as [I2 _].
        exfalso. eapply (NoDup_app_disj _ _ _ Hr); eauto.
      + eapply IHrest; eauto. eapply NoDup_app_r; eauto.
    - eapply IHrest; eauto.
  Qed.
End Sets.

(* ---------------------------------------------------------------- the theorem *)
Fixpoint args_ok (ss : sels) : Prop :=
  match ss with
  | SelNil => True
  | SelField f sub rest => NoDup (map fst (f_args f)) /\ args_ok sub /\ args_ok rest
  | SelInline _ _ sub rest => args_ok sub /\ args_ok rest
  | SelSpread _ rest => args_ok rest
  end.

Lemma flat_map_nodup_same {A B} (g : A -> list B) l a b x :
  NoDup (flat_map g l) -> In a l -> In b l -> In x (g a) -> In x (g b) -> a = b.
Proof.
  induction l as [|c l IH]; cbn [flat_map]; intros Hn Ha Hb Hxa Hxb; [contradiction|].
  destruct Ha as [->|Ha], Hb as [->|Hb]; auto.
  - exfalso. apply (NoDup_app_disj _ _ x Hn Hxa). apply in_flat_map. exists b. auto.
  - exfalso. apply (NoDup_app_disj _ _ x Hn Hxb). apply in_flat_map. exists a. auto.
  - apply IH; auto. eapply NoDup_app_r; eauto.
Qed.

Lemma flat_map_nodup_part {A B} (g : A -> list B) l a : NoDup (flat_map g l) -> In a l -> NoDup (g a).
Proof.
  induction l as [|c l IH]; cbn [flat_map]; intros Hn Ha; [contradiction|].
  destruct Ha as [->|Ha]; [eapply NoDup_app_l; eauto | apply IH; auto; eapply NoDup_app_r; eauto].
Qed.

Section Final.
  Variable s : schema.
  Variable d : document.
  Variable ord : list (bool * nat).

  (* every operation and every fragment definition is visited *)
  Definition covers_all : Prop :=
    (forall i, (i < length (d_ops d))%nat -> In (true, i) ord) /\
    (forall i, (i < length (d_frags d))%nat -> In (false, i) ord).

  Hypothesis Hcov : covers_all.
  Hypothesis Hids : nodupb (doc_all_ids d) = true.
  Hypothesis Hnames : NoDup (map fr_name (d_frags d)).
  Hypothesis Hargs_ops : forall o, In o (d_ops d) -> args_ok (snd o).
  Hypothesis Hargs_frags : forall fd, In fd (d_frags d) -> args_ok (fr_body fd).

  Notation AllSets := (run_sets s d ord).

  Lemma op_sets_in i o : nth_error (d_ops d) i = Some o ->
    incl ((fst o, IdOp (N.of_nat i), snd o) :: opt_sets s (fst o) (snd o)) AllSets.
  Proof.
    intros Hn x Hx. unfold run_sets. apply in_flat_map. exists (true, i). split.
    - apply (proj1 Hcov). apply nth_error_Some. congruence.
    - unfold order_sets. cbn [fst snd]. rewrite Hn. exact Hx.
  Qed.

  Lemma frag_sets_in i fd : nth_error (d_frags d) i = Some fd ->
    incl ((fr_type fd, IdFrag (fr_name fd), fr_body fd) :: opt_sets s (fr_type fd) (fr_body fd)) AllSets.
  Proof.
    intros Hn x Hx. unfold run_sets. apply in_flat_map. exists (false, i). split.
    - apply (proj2 Hcov). apply nth_error_Some. congruence.
    - unfold order_sets. cbn [fst snd]. rewrite Hn. exact Hx.
  Qed.

  (* where a visited set comes from *)
  Lemma sets_origin x : In x AllSets ->
    (exists i o, nth_error (d_ops d) i = Some o /\
                 (x = (fst o, IdOp (N.of_nat i), snd o) \/ In x (opt_sets s (fst o) (snd o)))) \/
    (exists i fd, nth_error (d_frags d) i = Some fd /\
                  (x = (fr_type fd, IdFrag (fr_name fd), fr_body fd) \/ In x (opt_sets s (fr_type fd) (fr_body fd)))).
  Proof.
    unfold run_sets. intro H. apply in_flat_map in H as [[isop i] [_ Hx]].
    unfold order_sets in Hx. cbn [fst snd] in Hx. destruct isop.
    - destruct (nth_error (d_ops d) i) as [o|] eqn:E; [|contradiction].
      left. exists i, o. split; auto. destruct Hx as [<-|Hx]; auto.
    - destruct (nth_error (d_frags d) i) as [fd|] eqn:E; [|contradiction].
      right. exists i, fd. split; auto. destruct Hx as [<-|Hx]; auto.
  Qed.

  Lemma sets_closed q id t : In (q, id, t) AllSets -> incl (opt_sets s q t) AllSets.
  Proof.
    intro H. destruct (sets_origin _ H) as [[i [o [Hn [He|Hi]]]]|[i [fd [Hn [He|Hi]]]]].
    - inversion He; subst. intros z Hz. apply (op_sets_in i o Hn). right. exact Hz.
    - intros z Hz. apply (op_sets_in i o Hn). right. eapply opt_sets_trans; eauto.
    - inversion He; subst. intros z Hz. apply (frag_sets_in i fd Hn). right. exact Hz.
    - intros z Hz. apply (frag_sets_in i fd Hn). right. eapply opt_sets_trans; eauto.
  Qed.

  Lemma indoc_sets p ss : InDoc s d p ss -> incl (opt_sets s p ss) AllSets.
  Proof.
    induction 1 as [o Ho|fd Hf|p f sub rest _ IH|p f sub rest t _ IH Ht|p i tc sub rest _ IH
                   |p i tc sub rest _ IH|p n rest _ IH]; intros z Hz.
    - apply In_nth_error in Ho as [i Hi]. apply (op_sets_in i o Hi). right. exact Hz.
    - apply In_nth_error in Hf as [i Hi]. apply (frag_sets_in i fd Hi). right. exact Hz.
    - apply IH. cbn [opt_sets]. apply in_or_app. right. exact Hz.
    - apply IH. cbn [opt_sets]. rewrite Ht. apply in_or_app. left.
      destruct sub; [destruct Hz| | |]; right; exact Hz.
    - apply IH. cbn [opt_sets]. apply in_or_app. right. exact Hz.
    - apply IH. cbn [opt_sets]. apply in_or_app. left. right. exact Hz.
    - apply IH. exact Hz.
  Qed.

  Lemma sub_visited x : EntryOk s d x -> has_sub (e_sub x) = true ->
    In (sub_parent s x, IdField (f_id (e_fld x)), e_sub x) AllSets.
  Proof.
    intros [rest Hr] Hs. apply (indoc_sets _ _ Hr).
    apply (flat_sub_set s (SelField (e_fld x) (e_sub x) rest) (e_parent x) x); auto.
    cbn [flat]. left. destruct x; reflexivity.
  Qed.

  Lemma indoc_args p ss : InDoc s d p ss -> args_ok ss.
  Proof.
    induction 1 as [o Ho|fd Hf|p f sub rest _ IH|p f sub rest t _ IH Ht|p i tc sub rest _ IH
                   |p i tc sub rest _ IH|p n rest _ IH]; cbn [args_ok] in *; auto; tauto.
  Qed.

  Lemma entry_args x : EntryOk s d x -> args_nodup x.
  Proof. intros [rest Hr]. apply indoc_args in Hr. cbn [args_ok] in Hr. unfold args_nodup. tauto. Qed.

  Lemma frag_visited F fd : find_frag (d_frags d) F = Some fd -> In (fr_type fd, IdFrag F, fr_body fd) AllSets.
  Proof.
    intro H. apply find_frag_some in H as [Hin Hname]. subst F.
    apply In_nth_error in Hin as [i Hi]. apply (frag_sets_in i fd Hi). left. reflexivity.
  Qed.

  Lemma all_ids_nodup : NoDup (doc_all_ids d).
  Proof. apply nodupb_NoDup. exact Hids. Qed.

  Lemma code_kind a b : setid_code a = setid_code b -> a = b.
  Proof. destruct a, b; unfold setid_code; intro H; try (exfalso; lia); f_equal; lia. Qed.

  (* the code of a set identity determines the set *)
  Lemma sets_code_fun x y : In x AllSets -> In y AllSets ->
    setid_code (snd (fst x)) = setid_code (snd (fst y)) -> x = y.
  Proof.
    intros Hx Hy Hc. pose proof all_ids_nodup as Hnd. unfold doc_all_ids in Hnd.
    destruct x as [[q id] t], y as [[q' id'] t']. cbn [fst snd] in Hc. apply code_kind in Hc. subst id'.
    assert (Hbelow : forall p ss p' ss',
               (p, ss) = (p', ss') \/ False ->
               In (q, id, t) (opt_sets s p ss) -> In (q', id, t') (opt_sets s p' ss') ->
               NoDup (all_ids_sels ss) -> (q, id, t) = (q', id, t')).
    { intros p ss p' ss' [He|[]] H1 H2 Hn. inversion He; subst.
      destruct (opt_sets_fun s ss' p' Hn _ _ _ _ _ H1 H2) as [-> ->]. reflexivity. }
    destruct (sets_origin _ Hx) as [[i [o [Hn [He|Hi]]]]|[i [fd [Hn [He|Hi]]]]];
      destruct (sets_origin _ Hy) as [[j [o' [Hn' [He'|Hi']]]]|[j [fd' [Hn' [He'|Hi']]]]].
    - inversion He; subst. inversion He' as [[Hq Hid Ht]]. apply Nnat.Nat2N.inj in Hid. subst j.
      rewrite Hn in Hn'. inversion Hn'; subst. reflexivity.
    - inversion He; subst. destruct (opt_sets_ids s _ _ _ _ _ Hi') as [_ [n [Hk|Hk]]]; discriminate.
    - inversion He; inversion He'; subst. discriminate.
    - inversion He; subst. destruct (opt_sets_ids s _ _ _ _ _ Hi') as [_ [n [Hk|Hk]]]; discriminate.
    - inversion He'; subst. destruct (opt_sets_ids s _ _ _ _ _ Hi) as [_ [n [Hk|Hk]]]; discriminate.
    - (* both below operations *)
      destruct (opt_sets_ids s _ _ _ _ _ Hi) as [I1 _]. destruct (opt_sets_ids s _ _ _ _ _ Hi') as [I2 _].
      pose proof (nth_error_In _ _ Hn) as Ho. pose proof (nth_error_In _ _ Hn') as Ho'.
      pose proof (NoDup_app_l _ _ Hnd) as Hops.
      assert (o = o') by (eapply (flat_map_nodup_same (fun o => all_ids_sels (snd o))); eauto). subst o'.
      apply (Hbelow (fst o) (snd o) (fst o) (snd o)); auto.
      apply (flat_map_nodup_part (fun o => all_ids_sels (snd o)) _ o Hops Ho).
    - inversion He'; subst. destruct (opt_sets_ids s _ _ _ _ _ Hi) as [_ [n [Hk|Hk]]]; discriminate.
    - (* below an operation and below a fragment: disjoint ids *)
      destruct (opt_sets_ids s _ _ _ _ _ Hi) as [I1 _]. destruct (opt_sets_ids s _ _ _ _ _ Hi') as [I2 _].
      exfalso. apply (NoDup_app_disj _ _ (idnum id) Hnd).
      + apply in_flat_map. exists o. split; [eapply nth_error_In; eauto | exact I1].
      + apply in_flat_map. exists fd'. split; [eapply nth_error_In; eauto | exact I2].
    - inversion He; inversion He'; subst. discriminate.
    - inversion He; subst. destruct (opt_sets_ids s _ _ _ _ _ Hi') as [_ [n [Hk|Hk]]]; discriminate.
    - inversion He; subst. inversion He' as [[Hq Hid Ht]].
      pose proof (nth_error_In _ _ Hn) as Hf. pose proof (nth_error_In _ _ Hn') as Hf'.
      assert (fd = fd') by (apply (nodup_map_inj fr_name (d_frags d) Hnames); auto). subst fd'. reflexivity.
    - inversion He; subst. destruct (opt_sets_ids s _ _ _ _ _ Hi') as [_ [n [Hk|Hk]]]; discriminate.
    - inversion He'; subst. destruct (opt_sets_ids s _ _ _ _ _ Hi) as [_ [n [Hk|Hk]]]; discriminate.
    - destruct (opt_sets_ids s _ _ _ _ _ Hi) as [I1 _]. destruct (opt_sets_ids s _ _ _ _ _ Hi') as [I2 _].
      exfalso. apply (NoDup_app_disj _ _ (idnum id) Hnd).
      + apply in_flat_map. exists o'. split; [eapply nth_error_In; eauto | exact I2].
      + apply in_flat_map. exists fd. split; [eapply nth_error_In; eauto | exact I1].
    - inversion He'; subst. destruct (opt_sets_ids s _ _ _ _ _ Hi) as [_ [n [Hk|Hk]]]; discriminate.
    - (* both below fragments *)
      destruct (opt_sets_ids s _ _ _ _ _ Hi) as [I1 _]. destruct (opt_sets_ids s _ _ _ _ _ Hi') as [I2 _].
      pose proof (nth_error_In _ _ Hn) as Hf. pose proof (nth_error_In _ _ Hn') as Hf'.
      pose proof (NoDup_app_r _ _ Hnd) as Hfr.
      assert (fd = fd') by (eapply (flat_map_nodup_same (fun fd => all_ids_sels (fr_body fd))); eauto). subst fd'.
      apply (Hbelow (fr_type fd) (fr_body fd) (fr_type fd) (fr_body fd)); auto.
      apply (flat_map_nodup_part (fun fd => all_ids_sels (fr_body fd)) _ fd Hfr Hf).
  Qed.

  (* the concrete field-map relation *)
  Definition FMdoc (c : N) (fm : list entry) : Prop :=
    exists x, In x AllSets /\ c = setid_code (snd (fst x)) /\
              fm = fst (fields_and_spreads (fst (fst x)) (snd x) ([], [])).

  Lemma FMdoc_fun c fm fm' : FMdoc c fm -> FMdoc c fm' -> fm = fm'.
  Proof.
    intros [x [Hx [Hc ->]]] [y [Hy [Hc' ->]]]. rewrite Hc in Hc'.
    rewrite (sets_code_fun x y Hx Hy Hc'). reflexivity.
  Qed.

  Lemma FMdoc_closed c fm x : FMdoc c fm -> In x fm -> ewf s FMdoc x.
  Proof.
    intros [[[q id] t] [Hset [_ ->]]] Hx Hs. cbn [fst snd] in Hx. rewrite D_flat in Hx.
    exists (sub_parent s x, IdField (f_id (e_fld x)), e_sub x). split; [|split; reflexivity].
    apply (sets_closed q id t Hset). apply flat_sub_set; auto.
  Qed.

  Lemma FMdoc_frag fd x : In fd (d_frags d) -> In x (Dfrag fd) -> ewf s FMdoc x.
  Proof.
    intros Hfd Hx. apply In_nth_error in Hfd as [i Hi].
    apply (FMdoc_closed (setid_code (IdFrag (fr_name fd))) (Dfrag fd)); auto.
    exists (fr_type fd, IdFrag (fr_name fd), fr_body fd). split; [|split; reflexivity].
    apply (frag_sets_in i fd Hi). left. reflexivity.
  Qed.

  (* The memoisation never hides a conflict. *)
  Theorem memo_never_hides fuel :
    (opt_fuel d <= fuel)%nat -> spec_conflicts s d = true -> opt_conflicts s d ord fuel = Some true.
  Proof.
    intros Hfuel Hspec. unfold opt_conflicts.
    pose proof (opt_terminates s d ord fuel Hfuel) as Hterm.
    pose proof (opt_run_sim s d ord fuel) as Hsim.
    destruct (opt_run s d ord fuel) as [|m|m] eqn:Er; [contradiction | reflexivity |].
    exfalso.
    destruct (topt_run s d ord fuel) as [| |mt] eqn:Et; try contradiction.
    destruct (topt_run_closed s d FMdoc FMdoc_fun FMdoc_closed FMdoc_frag ord fuel mt) as [HL HS]; auto.
    { intros x Hx. exists x. auto. }
    destruct (spec_sound s d Hspec) as [p [ss [Hin Hsc]]].
    assert (Hvis : exists id, In (p, id, ss) AllSets).
    { unfold doc_sets, root_sets in Hin.
      apply in_app_or in Hin as [Hin|Hin]; apply in_flat_map in Hin as [x [Hx Hin]].
      - destruct (is_composite s (fst x)); [|contradiction].
        apply In_nth_error in Hx as [i Hi]. destruct Hin as [Hin|Hin].
        + inversion Hin; subst. exists (IdOp (N.of_nat i)). apply (op_sets_in i x Hi). left. reflexivity.
        + destruct (checked_in_opt s _ _ _ _ Hin) as [id Hid]. exists id. apply (op_sets_in i x Hi). right. exact Hid.
      - destruct (is_composite s (fr_type x)); [|contradiction].
        apply In_nth_error in Hx as [i Hi]. destruct Hin as [Hin|Hin].
        + inversion Hin; subst. exists (IdFrag (fr_name x)). apply (frag_sets_in i x Hi). left. reflexivity.
        + destruct (checked_in_opt s _ _ _ _ Hin) as [id Hid]. exists id. apply (frag_sets_in i x Hi). right. exact Hid. }
    destruct Hvis as [id Hvis].
    apply (closed_no_setconf s d (t_log mt) AllSets HL HS frag_visited sets_code_fun sub_visited entry_args
                             p ss id); auto.
    apply doc_sets_indoc. exact Hin.
  Qed.
End Final.
