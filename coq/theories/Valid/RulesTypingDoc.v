(* Document level: the rules silent on every definition => the translated document is statically
   typed (operation at its root type, every fragment at its type condition) and its directive
   conditions are accepted. *)
From GV Require Import Base.Prelude Lang.Ast Exec.Value Exec.Schema Exec.Spec Exec.SpecProps Exec.Typing
  Exec.Soundness Valid.StaticTyping Valid.StaticTypingProps
  Valid.Rules Valid.RulesBase Valid.Rules13 Valid.ToExec Valid.RulesLit Valid.RulesTyping.

Lemma errs_of_no_loc l : errs_of (map no_loc_default l) = errs_of l.
Proof. induction l as [|[e|u] l IH]; cbn; [reflexivity | f_equal; exact IH | exact IH]. Qed.

Lemma allowed_mono vt vd lt : allowed_usage vt vd lt false = true -> forall ld, allowed_usage vt vd lt ld = true.
Proof.
  intros H ld. unfold allowed_usage in *. destruct lt; auto. destruct (is_nonnull vt); auto.
  rewrite orb_false_r in H. apply andb_true_iff in H as [H1 H2]. rewrite H1, H2. reflexivity.
Qed.

Lemma uses_ok_no_loc vdefs l : uses_ok vdefs (map no_loc_default l) -> uses_ok vdefs l.
Proof.
  unfold uses_ok. intros H u Hu.
  assert (Hin : In (TU (tu_name u) (tu_path u) (tu_type u) false (tu_oneof u)) (uses_of (map no_loc_default l))).
  { clear -Hu. induction l as [|[e|u'] l IH]; cbn in *; [destruct Hu | auto|].
    destruct Hu as [<-|Hu]; [left; reflexivity | right; auto]. }
  destruct (H _ Hin) as (vd & Hf & Ha). exists vd. split; [exact Hf|]. cbn [tu_type tu_default tu_oneof] in Ha.
  intros lt Hlt. destruct (Ha lt Hlt) as [H1 H2]. split; [apply allowed_mono; exact H1 | exact H2].
Qed.

Lemma filter_In_nth {A} (f : A -> bool) l a : In a (filter f l) -> exists j, nth_error l j = Some a /\ f a = true.
Proof.
  intro H. apply filter_In in H as [H1 H2]. apply In_nth_error in H1 as [j Hj]. eauto.
Qed.

Section Doc.
  Variable vs : vschema.
  Let s := vs_s vs.
  Variable fl : list N -> Z * N.
  Hypothesis Hinputs : schema_inputs_ok s = true.
  Hypothesis Hsok : schema_ok s = true.
  Hypothesis Hdirs : dirs_std vs = true.
  Hypothesis Himpl : schema_impl_ok s = true.

  Variable d : node.
  Variable x : document.
  Hypothesis Hx : to_exec fl None d = Some x.

  Let fr := frag_conds d.
  (* every definition: no error, every variable usage accepted *)
  Hypothesis Hdefs : forall j n, nth_error (doc_defs d) j = Some n ->
    errs_of (def_evs vs fr [(O, j)] n) = [] /\ uses_ok (d_vars x) (def_evs vs fr [(O, j)] n).

  Lemma is_object_composite rt : is_object s rt = true -> composite_of s (Some rt) = Some rt.
  Proof.
    unfold is_object, composite_of, is_composite. destruct (lookup_type s rt) as [[]|]; try discriminate. reflexivity.
  Qed.

  Theorem doc_static rt :
    root_type s (d_kind x) = Some rt -> is_object s rt = true ->
    sstatic_list s (d_vars x) rt (d_sels x) = true /\
    forallb (sel_dirs_ok s (d_vars x) []) (d_sels x) = true /\
    frags_static s (d_vars x) (d_frags x) = true /\
    forallb (fun f => forallb (sel_dirs_ok s (d_vars x) []) (fr_sels f)) (d_frags x) = true.
  Proof.
    intros Hroot Hobj. unfold to_exec in Hx.
    destruct (filter (op_selected None) (doc_defs d)) as [|opn [|n2 l2]] eqn:Ef; try discriminate.
    2:{ exfalso. destruct opn as [ko oattrs]. destruct ko; try discriminate Hx.
        destruct oattrs as [|[|ss| | | |] [|a1 [|a2 [|vds [|a4 [|[| | | | |o] r]]]]]]; discriminate Hx. }
    assert (Hopn : In opn (filter (op_selected None) (doc_defs d))) by (rewrite Ef; cbn; auto).
    apply filter_In_nth in Hopn as (j & Ej & _).
    destruct opn as [ko oattrs]. destruct ko; try (cbn in Hx; discriminate Hx).
    destruct oattrs as [|[|ss| | | |] [|a1 [|a2 [|vds [|a4 [|[| | | | |o] r]]]]]]; try (cbn in Hx; discriminate Hx).
    destruct (if o =? 0 then Some OpQuery else if o =? 1 then Some OpMutation else None) as [k|] eqn:Ek; [|discriminate].
    destruct (all_some (map (vardef_of fl) (attr_list vds))) as [vars|] eqn:Ev; [|discriminate].
    destruct (sels_of fl ss) as [sels|] eqn:Es; [|discriminate].
    destruct (all_some (map (frag_of fl) (filter is_frag (doc_defs d)))) as [frags|] eqn:Efr; [|discriminate].
    inversion Hx; subst x. clear Hx. cbn [d_kind d_vars d_sels d_frags] in *.
    (* the operation *)
    destruct (Hdefs j _ Ej) as [He Hu]. cbn [def_evs def_evs_gen] in He, Hu.
    rewrite !errs_of_app in He. apply app_eq_nil in He as [_ He]. apply app_eq_nil in He as [_ He].
    apply uses_ok_app in Hu as [_ Hu]. apply uses_ok_app in Hu as [_ Hu].
    assert (Hr : op_root (vs_s vs) (AEnum o) = Some rt).
    { unfold op_root. fold s.
      destruct (o =? 0) eqn:E0.
      - apply N.eqb_eq in E0. subst o. inversion Ek; subst k. cbn in Hroot. inversion Hroot; subst rt.
        cbn. rewrite Hobj. reflexivity.
      - destruct (o =? 1) eqn:E1; [|discriminate]. apply N.eqb_eq in E1. subst o. inversion Ek; subst k.
        cbn in Hroot. cbn. rewrite Hroot, Hobj. reflexivity. }
    rewrite Hr in He, Hu.
    destruct (selections_sound vs fl vars Hinputs Hsok Hdirs Himpl fr ss) as [HA _].
    destruct (HA _ _ _ rt sels Es (is_object_composite _ Hobj) He Hu) as [H1 H2].
    split; [exact H1|]. split; [exact H2|].
    (* the fragments *)
    pose proof (all_some_Forall2 _ _ _ Efr) as H2f.
    assert (Hfrag : forall f, In f frags ->
              (match lookup_type s (fr_cond f) with
               | Some td => negb (is_composite_def td) || sstatic_list s vars (fr_cond f) (fr_sels f)
               | None => true
               end = true) /\ forallb (sel_dirs_ok s vars []) (fr_sels f) = true).
    { intros f Hf. apply In_nth_error in Hf as [i Hi].
      destruct (Forall2_nth _ _ _ H2f i _ Hi) as (fn & Efn & Hfo).
      apply nth_error_In in Efn. apply filter_In_nth in Efn as (jf & Ejf & _).
      destruct fn as [kf fattrs]. destruct kf; try discriminate Hfo.
      destruct fattrs as [|[|fss| | | |] [|b1 [|[|fnm| | | |] [|[| |[|]| | |] [|b4 [|[|tcn| | | |] r5]]]]]]; try discriminate Hfo.
      destruct tcn as [kt tat]. destruct kt; try discriminate Hfo.
      destruct tat as [|[|tn| | | |] rt5]; try discriminate Hfo. cbn [frag_of] in Hfo.
      destruct (sels_of fl fss) as [fsels|] eqn:Efs; [|discriminate]. cbn in Hfo. inversion Hfo; subst f. clear Hfo.
      cbn [fr_cond fr_sels].
      destruct (Hdefs jf _ Ejf) as [Hfe Hfu]. cbn [def_evs def_evs_gen] in Hfe, Hfu.
      rewrite errs_of_no_loc in Hfe. apply uses_ok_no_loc in Hfu.
      rewrite !errs_of_app in Hfe. apply app_eq_nil in Hfe as [Hc Hfe]. apply app_eq_nil in Hfe as [_ Hfe].
      apply uses_ok_app in Hfu as [_ Hfu]. apply uses_ok_app in Hfu as [_ Hfu].
      unfold cond_evs in Hc. unfold cond_type in Hfe, Hfu.
      destruct (tfa vs (Nd KNamedType (ANode tn :: rt5))) as [t0|] eqn:Et; [|cbn in Hc; discriminate].
      unfold tfa in Et. cbn [ty_of named_of] in Et. destruct (in_map vs (name_str tn)); [|discriminate].
      inversion Et; subst t0. cbn [named_of] in *.
      destruct (is_composite (vs_s vs) (name_str tn)) eqn:Ec; [|cbn in Hc; discriminate].
      rewrite (composite_output vs _ Ec) in Hfe, Hfu. fold s in Ec, Hfe, Hfu.
      assert (Hcc : composite_of s (Some (name_str tn)) = Some (name_str tn)).
      { unfold composite_of. rewrite Ec. reflexivity. }
      destruct (selections_sound vs fl vars Hinputs Hsok Hdirs Himpl fr fss) as [HAf _].
      destruct (HAf _ _ _ _ fsels Efs Hcc Hfe Hfu) as [G1 G2]. split; [|exact G2].
      destruct (lookup_type s (name_str tn)); [|reflexivity]. unfold sstatic_list. fold s in G1. rewrite G1. apply orb_true_r. }
    split.
    - unfold frags_static. apply forallb_forall. intros f Hf. apply (Hfrag f Hf).
    - apply forallb_forall. intros f Hf. apply (Hfrag f Hf).
  Qed.
End Doc.
