(* C12 - validate(): one traversal of the document with a parallel composition of rule
   visitors writing to an error sink with a limit (validation/validate.py, ParallelVisitor of
   language/visitor.py).  Rules are abstract: state-passing deciders with private state that
   never edit (they answer idle / skip / break) and report errors.  The traversal itself is
   Lang/Visit.v. *)
From GV Require Import Base.Prelude Lang.Visit.

(* what a rule visitor may answer *)
Inductive ract := RIdle | RSkip | RBreakOff.

(* reported errors carry the index of the reporting rule; [Aborted] is the final notice *)
Inductive verr (E : Type) := VErr (rule : nat) (e : E) | Aborted.
Arguments VErr {E} rule e.
Arguments Aborted {E}.

Section Compose.
  Variable RS : Type.                       (* private state of a rule visitor *)
  Variable E : Type.                        (* error payload *)

  Definition rule : Type := phase -> tree -> RS -> ract * RS * list E.

  (* error sink of validate(): `if len(errors) >= max_errors: raise aborted; errors.append(e)` *)
  Record sink := mkSink { s_errs : list (verr E); s_aborted : bool }.

  Definition limit_reached (limit : option nat) (k : nat) : bool :=
    match limit with None => false | Some n => (n <=? k)%nat end.

  Fixpoint push (limit : option nat) (i : nat) (es : list E) (sk : sink) : sink :=
    match es with
    | [] => sk
    | e :: r =>
      if s_aborted sk then sk
      else if limit_reached limit (length (s_errs sk)) then mkSink (s_errs sk) true
      else push limit i r (mkSink (s_errs sk ++ [VErr i e]) false)
    end.

  (* per rule: the ParallelVisitor skipping entry and the private state *)
  Definition rstate : Type := (skipstate * RS)%type.
  Record pstate := mkP { p_rules : list rstate; p_sink : sink }.

  (* enter: rules in order; a rule that is skipping is not called; an abort stops everything *)
  Fixpoint par_enter (limit : option nat) (rs : list rule) (sts : list rstate) (i : nat) (t : tree)
           (sk : sink) : list rstate * sink :=
    match rs, sts with
    | r :: rs', (skp, x) :: sts' =>
      if s_aborted sk then (sts, sk)
      else
        match skp with
        | SkNone =>
          let '(a, x', es) := r Enter t x in
          let sk' := push limit i es sk in
          let skp' := match a with RIdle => SkNone | RSkip => SkNode (tid t) | RBreakOff => SkBreak end in
          let '(sts'', sk'') := par_enter limit rs' sts' (S i) t sk' in
          ((skp', x') :: sts'', sk'')
        | _ =>
          let '(sts'', sk'') := par_enter limit rs' sts' (S i) t sk in
          ((skp, x) :: sts'', sk'')
        end
    | _, _ => (sts, sk)
    end.

  (* leave: SKIP from leave is "no action"; a rule skipping this very node resumes *)
  Fixpoint par_leave (limit : option nat) (rs : list rule) (sts : list rstate) (i : nat) (t : tree)
           (sk : sink) : list rstate * sink :=
    match rs, sts with
    | r :: rs', (skp, x) :: sts' =>
      if s_aborted sk then (sts, sk)
      else
        match skp with
        | SkNone =>
          let '(a, x', es) := r Leave t x in
          let sk' := push limit i es sk in
          let skp' := match a with RBreakOff => SkBreak | _ => SkNone end in
          let '(sts'', sk'') := par_leave limit rs' sts' (S i) t sk' in
          ((skp', x') :: sts'', sk'')
        | SkNode id =>
          let '(sts'', sk'') := par_leave limit rs' sts' (S i) t sk in
          ((if id =? tid t then SkNone else skp, x) :: sts'', sk'')
        | SkBreak =>
          let '(sts'', sk'') := par_leave limit rs' sts' (S i) t sk in
          ((skp, x) :: sts'', sk'')
        end
    | _, _ => (sts, sk)
    end.

  (* the visitor handed to visit(): never edits; answers Break only when the sink aborted
     (the ValidationAbortedError raised by on_error unwinds the traversal) *)
  Definition par_decide (limit : option nat) (rs : list rule) : phase -> tree -> pstate -> action * pstate :=
    fun ph t ps =>
      let '(sts, sk) := match ph with
                        | Enter => par_enter limit rs (p_rules ps) 0%nat t (p_sink ps)
                        | Leave => par_leave limit rs (p_rules ps) 0%nat t (p_sink ps)
                        end in
      (if s_aborted sk then Break else Idle, mkP sts sk).

  (* a rule set: every rule visitor with its initial private state *)
  Definition init_state (rs : list (rule * RS)) : pstate :=
    mkP (map (fun rx => (SkNone, snd rx)) rs) (mkSink [] false).

  Definition errors_of (ps : pstate) : list (verr E) :=
    s_errs (p_sink ps) ++ (if s_aborted (p_sink ps) then [Aborted] else []).

  (* validate(schema, document, rules, max_errors): the error list.  [fuel] bounds the nesting
     depth of the document (Visit.depth_tree suffices). *)
  Definition validate (rs : list (rule * RS)) (limit : option nat) (fuel : nat) (doc : tree)
    : list (verr E) :=
    let '(_, ps, _) := visit pstate (par_decide limit (map fst rs)) fuel doc (init_state rs) in
    errors_of ps.
End Compose.

Arguments mkSink {E}. Arguments s_errs {E}. Arguments s_aborted {E}. Arguments push {E}.
Arguments mkP {RS E}. Arguments p_rules {RS E}. Arguments p_sink {RS E}.
Arguments par_enter {RS E}. Arguments par_leave {RS E}. Arguments par_decide {RS E}.
Arguments init_state {RS E}. Arguments errors_of {RS E}. Arguments validate {RS E}.

(* ---- the validation key table: slots that are not traversed (descriptions) ---- *)
(* [keep kind i] = slot i of nodes of this kind is in query_document_keys_to_validate *)
Fixpoint mask_tree (keep : N -> nat -> bool) (t : tree) : tree :=
  match t with Node k i ss => Node k i (mask_slots keep k ss 0%nat) end
with mask_slots (keep : N -> nat -> bool) (k : N) (ss : slots) (i : nat) : slots :=
  match ss with
  | SNil => SNil
  | SCons sl r =>
    SCons (if keep k i then mask_slot keep sl else SNone) (mask_slots keep k r (S i))
  end
with mask_slot (keep : N -> nat -> bool) (sl : slot) : slot :=
  match sl with
  | SNone => SNone
  | SOne t => SOne (mask_tree keep t)
  | SArr l => SArr (mask_trees keep l)
  end
with mask_trees (keep : N -> nat -> bool) (l : trees) : trees :=
  match l with
  | TNil => TNil
  | TCons t r => TCons (mask_tree keep t) (mask_trees keep r)
  end.

Definition validate_keys {RS E} (keep : N -> nat -> bool) (rs : list (rule RS E * RS))
           (limit : option nat) (fuel : nat) (doc : tree) : list (verr E) :=
  validate rs limit fuel (mask_tree keep doc).

(* ---- scripted rules for the correspondence: (node id, phase) -> (answer, number of errors) ---- *)
Definition rscript := list (N * phase * ract * nat).

Fixpoint lookup_rscript (sc : rscript) (id : N) (ph : phase) : ract * nat :=
  match sc with
  | [] => (RIdle, O)
  | (i, p, a, n) :: r => if (i =? id) && phase_eqb p ph then (a, n) else lookup_rscript r id ph
  end.

(* error payload: node id, phase, running number within the call *)
Definition scripted_rule (sc : rscript) : rule unit (N * phase * nat) :=
  fun ph t _ =>
    let '(a, n) := lookup_rscript sc (tid t) ph in
    (a, tt, map (fun j => (tid t, ph, j)) (seq 0 n)).
