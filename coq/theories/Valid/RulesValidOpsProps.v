(* Proofs about Valid/RulesValidOps.v (29 DeferStreamDirectiveOnValidOperationsRule): rf_fuel is
   always sufficient; visited set and error list only grow. *)
From GV Require Import Base.Prelude Lang.Ast Valid.Rules Valid.RulesBase Valid.RulesGraph
  Valid.RulesDir Valid.RulesRoot Valid.RulesRootProps Valid.RulesValidOps.

Section Meas.
  Variable fr : list (str * (path * node)).

  Lemma good_ok B st : good fr B st (Some st).
  Proof. intros _. exists st. split; [reflexivity|]. split; [lia | apply ext_refl]. Qed.

  (* appending errors first *)
  Lemma good_after B st es o :
    good fr B (fst st, snd st ++ es) o -> good fr B st o.
  Proof.
    intros H Hm. destruct (H Hm) as (st' & -> & H1 & [X1 [l X2]]).
    exists st'. split; [reflexivity|]. split; [exact H1|]. split; [exact X1|].
    exists (es ++ l). rewrite X2. cbn [snd]. rewrite app_assoc. reflexivity.
  Qed.

  Section W.
    Variable spread : list path -> path -> node -> str -> rstate -> option rstate.
    Variable B : nat.
    Hypothesis Hs : forall parents sp sel name st, good fr B st (spread parents sp sel name st).

    Definition vsel1 (parents : list path) (sp : path) (sel : node) (st : rstate) : option rstate :=
      if skipped sel then Some st
      else
        let st1 := (fst st, snd st ++ vo_errs parents sp (sel_dirs sel)) in
        match sel with
        | Nd KFragmentSpread (_ :: ANode nm :: _) => spread parents sp sel (name_str nm) st1
        | Nd KField (_ :: _ :: _ :: _ :: ANode s' :: _) => vsel spread parents (sp ++ [(4, O)]%nat) s' st1
        | Nd KInlineFragment (_ :: ANode s' :: _) => vsel spread parents (sp ++ [(1, O)]%nat) s' st1
        | _ => Some st1
        end.

    Lemma vsel_unfold parents p sels r st :
      vsel spread parents p (Nd KSelectionSet (AList sels :: r)) st =
      foldi (fun j sel st => vsel1 parents (p ++ [(O, j)]) sel st) O sels st.
    Proof. reflexivity. Qed.

    Lemma vsel_good_both n :
      (forall parents p st, good fr B st (vsel spread parents p n st)) /\
      (forall parents sp st, good fr B st (vsel1 parents sp n st)).
    Proof.
      induction n as [k attrs IH] using node_ind2. split.
      - intros parents p st.
        destruct k; try apply good_ok.
        destruct attrs as [|[| | sels | | |] r]; try apply good_ok.
        rewrite vsel_unfold. apply foldi_good. intros j sel st0 Hin.
        inversion IH as [|a0 r0 Ha _]; subst. inversion Ha as [| |l0 Hall| | |]; subst.
        rewrite Forall_forall in Hall. apply (Hall sel Hin).
      - intros parents sp st. unfold vsel1.
        destruct (skipped (Nd k attrs)); [apply good_ok|]. cbv zeta.
        apply good_after with (es := vo_errs parents sp (sel_dirs (Nd k attrs))).
        destruct k; try apply good_ok.
        + (* field *)
          destruct attrs as [|a0 [|a1 [|a2 [|a3 [|[| s' | | | |] r]]]]]; try apply good_ok.
          repeat (inversion IH as [|? ? ? IH']; subst; clear IH; rename IH' into IH).
          match goal with H : attr_all _ (ANode s') |- _ => inversion H as [|? Hs'| | | |]; subst end.
          apply Hs'.
        + (* spread *)
          destruct attrs as [|a0 [|[| nm | | | |] r]]; try apply good_ok. apply Hs.
        + (* inline fragment *)
          destruct attrs as [|a0 [|[| s' | | | |] r]]; try apply good_ok.
          repeat (inversion IH as [|? ? ? IH']; subst; clear IH; rename IH' into IH).
          match goal with H : attr_all _ (ANode s') |- _ => inversion H as [|? Hs'| | | |]; subst end.
          apply Hs'.
    Qed.
  End W.

  Lemma vf_good fuel : forall parents p ss st, good fr fuel st (vf fuel fr parents p ss st).
  Proof.
    induction fuel as [|f IH]; intros parents p ss st.
    - intros Hm. lia.
    - change (vf (S f) fr) with
        (vsel (fun parents sp sel name st =>
           if mem name (fst st) then Some st
           else
             let st1 := (name :: fst st, snd st) in
             match lookup name fr with
             | Some (fp, fss) => vf f fr (sp :: parents) fp fss st1
             | None => Some st1
             end)).
      apply vsel_good_both. intros parents0 sp sel name st0 Hm.
      destruct (mem name (fst st0)) eqn:Em.
      + exists st0. split; [reflexivity|]. split; [lia | apply ext_refl].
      + cbv zeta.
        assert (Hext : ext st0 (name :: fst st0, snd st0)).
        { split; [|exists []; rewrite app_nil_r; reflexivity].
          intros x Hx. cbn [fst mem]. rewrite Hx. apply orb_true_r. }
        destruct (lookup name fr) as [[fp fss]|] eqn:El.
        * assert (Hin : In name (map fst fr)).
          { apply lookup_Some_In in El. apply in_map_iff. exists (name, (fp, fss)). auto. }
          pose proof (unc_lt fr name (fst st0) Hin Em) as Hlt.
          destruct (IH (sp :: parents0) fp fss (name :: fst st0, snd st0)) as (st1 & E & H1 & E1).
          { cbn [fst]. lia. }
          exists st1. split; [exact E|]. split.
          -- cbn [fst] in H1. lia.
          -- eapply ext_trans; [exact Hext | exact E1].
        * exists (name :: fst st0, snd st0). split; [reflexivity|]. split; [|exact Hext].
          cbn [fst]. apply unc_le.
  Qed.
End Meas.

Theorem vf_total fr parents p ss : exists st, vf (rf_fuel fr) fr parents p ss ([], []) = Some st.
Proof.
  destruct (vf_good fr (rf_fuel fr) parents p ss ([], [])) as (st & E & _).
  - cbn [fst]. rewrite unc_nil. unfold rf_fuel. lia.
  - eauto.
Qed.

Theorem vf_ext fr fuel parents p ss st st' :
  (unc fr (fst st) < fuel)%nat -> vf fuel fr parents p ss st = Some st' ->
  ext st st' /\ (unc fr (fst st') <= unc fr (fst st))%nat.
Proof.
  intros Hm E. destruct (vf_good fr fuel parents p ss st Hm) as (st1 & E1 & H1 & X1).
  rewrite E in E1. inversion E1; subst. auto.
Qed.

Theorem rule_valid_operations_total d : exists es, rule_valid_operations d = Some es.
Proof.
  unfold rule_valid_operations. apply opt_concat_total. intros o Hin.
  unfold mapi in Hin. apply In_mapi_from in Hin. destruct Hin as (j & n & _ & ->).
  destruct n as [k attrs]. destruct k; eauto.
  destruct attrs as [|[| ss | | | |] r]; eauto.
  destruct (op_code _) as [o|]; eauto.
  destruct o as [|q]; eauto. destruct q as [q|q|]; eauto. destruct q; eauto.
  destruct (vf_total (rf_frags d) [] [(O, O + j); (O, O)]%nat ss) as (st & ->). cbn. eauto.
Qed.

(* the tests on `if` *)
Lemma if_can_be_false_spec dn :
  if_can_be_false dn = true <->
  (exists r, first_if (dir_args dn) = Some (Some (Nd KBooleanValue (ABool false :: r)))) \/
  (exists a, first_if (dir_args dn) = Some (Some (Nd KVariable a))).
Proof.
  unfold if_can_be_false. split.
  - destruct (first_if (dir_args dn)) as [[[k a]|]|]; try discriminate.
    destruct k; try discriminate.
    + destruct a as [|[| | | |b|] r]; try discriminate. destruct b; [discriminate|]. intros _. left. eauto.
    + intros _. right. eauto.
  - intros [[r ->]|[a ->]]; reflexivity.
Qed.
