(* The converse of OverlapMemoSound: every conflict the memoised algorithm reports is a conflict of
   the specification (documents with named, possibly cyclic, fragments included).  Every pair of
   fields the algorithm compares co-occurs in a merged set of the specification under the same
   flag; a conflict of such a pair yields a conflict of some selection set of the document. *)
From GV Require Import Base.Prelude Valid.Overlap Valid.OverlapProps Valid.PairSet Valid.OverlapOpt
  Valid.OverlapOptProps Valid.OverlapAdequacy Valid.OverlapEquiv Valid.OverlapOptTerm Valid.OverlapMemoSound.

(* ---------------------------------------------------------------- collect is total and complete *)
Section CollectComplete.
  Variable frags : list fragdef.

  Definition cc_post (q : N) (t : sels) (st st' : cstate) : Prop :=
    incl (fst st) (fst st') /\ incl (snd st) (snd st') /\ incl (flat q t) (snd st') /\
    (forall G, In G (sprs t) -> In G (fst st')) /\
    (forall F fd, In F (fst st') -> ~ In F (fst st) -> find_frag frags F = Some fd ->
       incl (body_flat fd) (snd st') /\ forall G, In G (sprs (fr_body fd)) -> In G (fst st')).

  Definition cc_ok (B : nat) (c : collect_fn) : Prop :=
    forall q t st, (unvis frags (fst st) <= B)%nat -> exists st', c q t st = Some st' /\ cc_post q t st st'.

  Lemma collect_go_cc B rec :
    (forall q t st, (S (unvis frags (fst st)) <= B)%nat -> exists st', rec q t st = Some st' /\ cc_post q t st st') ->
    cc_ok B (collect_go frags rec).
  Proof.
    intros Hrec q t. revert q.
    induction t as [|f sub IHsub rest IHrest|iid tc sub IHsub rest IHrest|n rest IHrest];
      intros q st HB; cbn [collect_go flat sprs].
    - exists st. split; auto. repeat split; try apply incl_refl; try (intros ? []); try contradiction.
    - destruct (IHrest q (fst st, snd st ++ [mkEntry q f sub]) HB) as [st' [E [P1 [P2 [P3 [P4 P5]]]]]].
      exists st'. split; auto. cbn [fst snd] in *.
      refine (conj P1 (conj _ (conj _ (conj P4 P5)))).
      + intros x Hx. apply P2. apply in_or_app. left. exact Hx.
      + intros x [<-|Hx]; [apply P2; apply in_or_app; right; left; reflexivity | apply P3; exact Hx].
    - destruct (IHsub (match tc with Some t0 => t0 | None => q end) st HB) as [st1 [E1 [A1 [A2 [A3 [A4 A5]]]]]].
      rewrite E1.
      destruct (IHrest q st1) as [st2 [E2 [B1 [B2 [B3 [B4 B5]]]]]].
      { pose proof (unvis_incl frags _ _ A1). lia. }
      exists st2. split; auto.
      refine (conj _ (conj _ (conj _ (conj _ _)))).
      + eapply incl_tran; eauto.
      + eapply incl_tran; eauto.
      + intros x Hx. apply in_app_or in Hx as [Hx|Hx]; auto.
      + intros G HG. apply in_app_or in HG as [HG|HG]; auto.
      + intros F fd HF Hn Hfd. destruct (in_dec N.eq_dec F (fst st1)) as [Hi|Hi].
        * destruct (A5 F fd Hi Hn Hfd) as [C1 C2]. split; [eapply incl_tran; eauto | intros G HG; apply B1; auto].
        * exact (B5 F fd HF Hi Hfd).
    - destruct (mem n (fst st)) eqn:Em.
      + destruct (IHrest q st HB) as [st' [E [P1 [P2 [P3 [P4 P5]]]]]]. exists st'. split; auto.
        refine (conj P1 (conj P2 (conj P3 (conj _ P5)))).
        intros G [<-|HG]; auto. apply P1. apply mem_In. exact Em.
      + assert (Hnin : ~ In n (fst st)) by (intro Hc; apply mem_In in Hc; congruence).
        destruct (find_frag frags n) as [fd|] eqn:Ef.
        * pose proof (find_frag_some _ _ _ Ef) as [Hfd Hname]. subst n.
          pose proof (unvis_add frags (fst st) fd Hfd Em) as Hlt.
          destruct (Hrec (fr_type fd) (fr_body fd) (fr_name fd :: fst st, snd st)) as [st1 [E1 [A1 [A2 [A3 [A4 A5]]]]]];
            [cbn [fst]; lia|].
          rewrite E1. cbn [fst snd] in *.
          destruct (IHrest q st1) as [st2 [E2 [B1 [B2 [B3 [B4 B5]]]]]].
          { pose proof (unvis_incl frags _ _ A1). lia. }
          exists st2. split; auto.
          refine (conj _ (conj _ (conj B3 (conj _ _)))).
          -- intros x Hx. apply B1, A1. right. exact Hx.
          -- eapply incl_tran; eauto.
          -- intros G [<-|HG]; auto. apply B1, A1. left. reflexivity.
          -- intros F fd0 HF Hn Hfd0. destruct (N.eq_dec F (fr_name fd)) as [->|Hne].
             ++ rewrite Ef in Hfd0. inversion Hfd0; subst fd0. split.
                ** eapply incl_tran; [exact A3|exact B2].
                ** intros G HG. apply B1. auto.
             ++ destruct (in_dec N.eq_dec F (fst st1)) as [Hi|Hi].
                ** destruct (A5 F fd0 Hi) as [C1 C2]; auto; [intros [Hc|Hc]; auto|].
                   split; [eapply incl_tran; eauto | intros G HG; apply B1; auto].
                ** exact (B5 F fd0 HF Hi Hfd0).
        * destruct (IHrest q (n :: fst st, snd st)) as [st' [E [P1 [P2 [P3 [P4 P5]]]]]].
          { cbn [fst]. pose proof (unvis_incl frags (fst st) (n :: fst st) (incl_tl _ (incl_refl _))). lia. }
          exists st'. split; auto. cbn [fst snd] in *.
          refine (conj _ (conj P2 (conj P3 (conj _ _)))).
          -- intros x Hx. apply P1. right. exact Hx.
          -- intros G [<-|HG]; auto. apply P1. left. reflexivity.
          -- intros F fd HF Hn Hfd. destruct (N.eq_dec F n) as [->|Hne]; [congruence|].
             apply (P5 F fd HF); auto. intros [Hc|Hc]; auto.
  Qed.

  Lemma collect_cc fuel : cc_ok fuel (collect frags fuel).
  Proof.
    induction fuel as [|f IH]; cbn [collect]; apply collect_go_cc.
    - intros q t st H. lia.
    - intros q t st H. apply IH. lia.
  Qed.

  (* every visited fragment is completely collected *)
  Definition vcomplete (st : cstate) : Prop :=
    forall F fd, In F (fst st) -> find_frag frags F = Some fd ->
      incl (body_flat fd) (snd st) /\ forall G, In G (sprs (fr_body fd)) -> In G (fst st).

  Lemma reach_visited st' : vcomplete st' -> forall sps F, Reach frags sps F ->
    (forall G, In G sps -> In G (fst st')) -> In F (fst st').
  Proof.
    intros Hv sps F Hr. induction Hr as [sps F Hin|sps G gd F Hin Hg Hr IH]; intro P4; auto.
    apply IH. intros G' HG'. destruct (Hv G gd (P4 G Hin) Hg) as [_ C2]. auto.
  Qed.

  Lemma cc_post_complete q t st st' : vcomplete st -> cc_post q t st st' ->
    vcomplete st' /\ forall u, Exp frags q t u -> In u (snd st').
  Proof.
    intros Hv [P1 [P2 [P3 [P4 P5]]]].
    assert (Hv' : vcomplete st').
    { intros F fd HF Hfd. destruct (in_dec N.eq_dec F (fst st)) as [Hi|Hi].
      - destruct (Hv F fd Hi Hfd) as [C1 C2]. split; [eapply incl_tran; eauto | intros G HG; apply P1; auto].
      - exact (P5 F fd HF Hi Hfd). }
    split; auto. intros u [Hu|[F [fd [Hr [Hfd Hu]]]]]; [apply P3; exact Hu|].
    assert (HF : In F (fst st')) by (eapply reach_visited; eauto).
    destruct (Hv' F fd HF Hfd) as [C1 _]. auto.
  Qed.
End CollectComplete.

Lemma vcomplete_nil frags : vcomplete frags ([], []).
Proof. intros F fd H. destruct H. Qed.

Lemma merged_total_complete d x y tx ty :
  exists l, merged d x y tx ty = Some l /\
            forall u, Exp (d_frags d) (named tx) (e_sub x) u \/ Exp (d_frags d) (named ty) (e_sub y) u -> In u l.
Proof.
  unfold merged.
  destruct (collect_cc (d_frags d) (length (d_frags d)) (named tx) (e_sub x) ([], [])) as [st1 [E1 P1]].
  { cbn [fst]. rewrite unvis_nil. lia. }
  rewrite E1.
  destruct (cc_post_complete (d_frags d) _ _ _ _ (vcomplete_nil _) P1) as [V1 C1].
  destruct (collect_cc (d_frags d) (length (d_frags d)) (named ty) (e_sub y) st1) as [st2 [E2 P2]].
  { pose proof (unvis_incl (d_frags d) [] (fst st1) (incl_nil_l _)). rewrite unvis_nil in H. lia. }
  rewrite E2. exists (snd st2). split; auto.
  destruct (cc_post_complete (d_frags d) _ _ _ _ V1 P2) as [V2 C2].
  intros u [Hu|Hu]; [|apply C2; exact Hu].
  destruct P2 as [_ [P22 _]]. apply P22. apply C1. exact Hu.
Qed.

Lemma collect_total_complete frags q t :
  exists st, collect frags (length frags) q t ([], []) = Some st /\ forall u, Exp frags q t u -> In u (snd st).
Proof.
  destruct (collect_cc frags (length frags) q t ([], [])) as [st [E P]].
  { cbn [fst]. rewrite unvis_nil. lia. }
  exists st. split; auto.
  destruct (cc_post_complete frags _ _ _ _ (vcomplete_nil _) P) as [_ C]. exact C.
Qed.

(* ---------------------------------------------------------------- conflicts are symmetric *)
Section Sym.
  Variable s : schema.
  Variable d : document.
  Notation frags := (d_frags d).

  Hypothesis Hargs : forall x, EntryOk s d x -> args_nodup x.
  (* the sub-selection of a field occurrence is one of the selection sets of the document *)
  Hypothesis Hdocset : forall x t, EntryOk s d x -> ft s x = Some t -> has_sub (e_sub x) = true ->
    In (named t, e_sub x) (doc_sets s d).

  (* a conflict of (x, y) is a conflict of (y, x), or already shows a conflict of the document;
     a "conflict of a field with itself" always shows one *)
  Lemma conf_sym_or_doc : forall e x y, Conf s d e x y -> EntryOk s d x -> EntryOk s d y ->
    (Conf s d e y x \/ DocConf s d) /\ (x = y -> DocConf s d).
  Proof.
    induction 1 as [e x y tx ty Hx Hy Hd|e x y tx ty l u v Hx Hy Hd Hm Hb Hr Hc IH]; intros Ox Oy.
    - split.
      + left. eapply Conf_direct; eauto. rewrite <- (direct_sym s e x y tx ty); auto.
      + intros ->. rewrite Hx in Hy. inversion Hy; subst ty.
        rewrite (direct_refl s e y tx (Hargs y Oy)) in Hd. discriminate.
    - pose proof (merged_entries s d x y tx ty l Ox Oy Hx Hy Hm) as Hl. rewrite Forall_forall in Hl.
      destruct (before_in _ _ _ Hb) as [Hu Hv].
      destruct (IH (Hl u Hu) (Hl v Hv)) as [IHs IHt].
      pose proof (merged_exp d x y tx ty l u Hm Hu) as Eu. pose proof (merged_exp d x y tx ty l v Hm Hv) as Ev.
      split.
      + destruct (merged_total_complete d y x ty tx) as [l' [Hm' Hc']].
        assert (Hu' : In u l') by (apply Hc'; tauto). assert (Hv' : In v l') by (apply Hc'; tauto).
        assert (Hd' : direct s e y x ty tx = false) by (rewrite <- (direct_sym s e x y tx ty); auto).
        destruct (before_tricho u v l' Hu' Hv') as [He|[Hb'|Hb']].
        * right. apply IHt. exact He.
        * left. eapply (Conf_nested s d e y x ty tx l' u v); eauto. rewrite (excl_of_sym s e y x). exact Hc.
        * destruct IHs as [Hvu|Hdoc]; [|right; exact Hdoc].
          left. eapply (Conf_nested s d e y x ty tx l' v u); eauto.
          -- unfold same_rname in *. rewrite N.eqb_sym. exact Hr.
          -- rewrite (excl_of_sym s e y x). exact Hvu.
      + intros ->. rewrite Hx in Hy. inversion Hy; subst ty.
        assert (Eu' : Exp frags (named tx) (e_sub y) u) by tauto.
        assert (Ev' : Exp frags (named tx) (e_sub y) v) by tauto.
        destruct (collect_total_complete frags (named tx) (e_sub y)) as [stc [Ec Hcc]].
        pose proof (Hdocset y tx Oy Hx (has_sub_exp d _ _ _ Eu')) as Hset.
        destruct (before_tricho u v (snd stc) (Hcc u Eu') (Hcc v Ev')) as [He|[Hb'|Hb']].
        * apply IHt. exact He.
        * exists (named tx), (e_sub y). split; auto. exists stc, u, v. repeat split; auto.
          eapply Conf_mono. exact Hc.
        * destruct IHs as [Hvu|Hdoc]; [|exact Hdoc].
          exists (named tx), (e_sub y). split; auto. exists stc, v, u. repeat split; auto.
          -- unfold same_rname in *. rewrite N.eqb_sym. exact Hr.
          -- eapply Conf_mono. exact Hvu.
  Qed.
End Sym.

(* ---------------------------------------------------------------- where a reported conflict comes from *)
Lemma bind_conf_inv r f m' : bind r f = RConflict m' ->
  r = RConflict m' \/ exists m1, r = ROk m1 /\ f m1 = RConflict m'.
Proof. destruct r as [|m0|m0]; cbn; intro H; try discriminate; [left; exact H | right; eauto]. Qed.

Lemma for_each_conf_inv {A} (f : A -> memo -> result) l : forall m m',
  for_each f l m = RConflict m' -> exists x m0, In x l /\ f x m0 = RConflict m'.
Proof.
  induction l as [|x r IH]; intros m m' H; cbn [for_each] in H; [discriminate|].
  apply bind_conf_inv in H as [H|[m1 [_ H]]].
  - exists x, m. split; [left; reflexivity | exact H].
  - destruct (IH _ _ H) as [y [m0 [Hy Hf]]]. exists y, m0. split; [right; exact Hy | exact Hf].
Qed.

Lemma between_conf_inv rec e fm1 fm2 m m' : between rec e fm1 fm2 m = RConflict m' ->
  exists x y m0, In x fm1 /\ In y fm2 /\ same_rname x y = true /\ rec (CFindConflict e x y) m0 = RConflict m'.
Proof.
  unfold between. intro H.
  apply for_each_conf_inv in H as [[k l] [m1 [Hg H]]]. cbn [fst snd] in H.
  apply for_each_conf_inv in H as [x [m2 [Hx H]]].
  apply for_each_conf_inv in H as [y [m3 [Hy H]]].
  apply in_groups_iff in Hg. subst l. apply filter_In in Hx as [Hx Hkx].
  rewrite group_get_groups in Hy. apply filter_In in Hy as [Hy Hky].
  exists x, y, m3. repeat split; auto.
  apply N.eqb_eq in Hkx. apply N.eqb_eq in Hky. unfold same_rname. fold (rn x) (rn y).
  rewrite Hkx, Hky. apply N.eqb_refl.
Qed.

Section ExecSound.
  Variable s : schema.
  Variable d : document.
  Notation frags := (d_frags d).

  Hypothesis Hargs : forall x, EntryOk s d x -> args_nodup x.
  Hypothesis Hdocset : forall x t, EntryOk s d x -> ft s x = Some t -> has_sub (e_sub x) = true ->
    In (named t, e_sub x) (doc_sets s d).
  Hypothesis Htyped : forall x, EntryOk s d x -> exists t, ft s x = Some t.

  (* a conflict of this pair shows a conflict of the document *)
  Definition Good (e : bool) (u v : entry) : Prop := Conf s d e u v -> DocConf s d.
  Definition GoodSets (e : bool) (A B : entry -> Prop) : Prop :=
    forall u v, A u -> B v -> same_rname u v = true -> Good e u v.

  (* the fields of a fragment and of the fragments it reaches *)
  Definition ExpF (F : N) (u : entry) : Prop :=
    exists G gd, RS frags F G /\ find_frag frags G = Some gd /\ In u (body_flat gd).

  Lemma flat_entryok : forall ss p, InDoc s d p ss -> forall u, In u (flat p ss) -> EntryOk s d u.
  Proof.
    induction ss as [|f sub IHsub rest IHrest|iid tc sub IHsub rest IHrest|n rest IHrest];
      intros p Hin u Hu; cbn [flat] in Hu.
    - contradiction.
    - destruct Hu as [<-|Hu]; [exists rest; exact Hin|].
      eapply IHrest; [eapply ID_field_rest; eauto | exact Hu].
    - apply in_app_or in Hu as [Hu|Hu].
      + eapply IHsub; [eapply ID_inline_sub; eauto | exact Hu].
      + eapply IHrest; [eapply ID_inline_rest; eauto | exact Hu].
    - eapply IHrest; [eapply ID_spread_rest; eauto | exact Hu].
  Qed.

  Lemma body_entryok F fd u : find_frag frags F = Some fd -> In u (body_flat fd) -> EntryOk s d u.
  Proof.
    intros Hf Hu. apply find_frag_some in Hf as [Hin _].
    eapply flat_entryok; [apply ID_frag; exact Hin | exact Hu].
  Qed.

  Lemma exp_entryok p ss u : InDoc s d p ss -> Exp frags p ss u -> EntryOk s d u.
  Proof.
    intros Hin [Hu|[F [fd [_ [Hf Hu]]]]]; [eapply flat_entryok; eauto | eapply body_entryok; eauto].
  Qed.

  Lemma expf_entryok F u : ExpF F u -> EntryOk s d u.
  Proof. intros [G [gd [_ [Hf Hu]]]]. eapply body_entryok; eauto. Qed.

  Lemma expf_in_exp p t sp u : In sp (sprs t) -> ExpF sp u -> Exp frags p t u.
  Proof.
    intros Hs [G [gd [Hr [Hf Hu]]]]. right. exists G, gd. split; auto. eapply RS_Reach; eauto.
  Qed.

  Lemma expf_refl F fd u : find_frag frags F = Some fd -> In u (body_flat fd) -> ExpF F u.
  Proof. intros Hf Hu. exists F, fd. split; [apply RS_refl | auto]. Qed.

  Lemma expf_step F fd sp u : find_frag frags F = Some fd -> In sp (sprs (fr_body fd)) -> ExpF sp u -> ExpF F u.
  Proof.
    intros Hf Hs [G [gd [Hr [Hg Hu]]]]. exists G, gd. split; auto. eapply RS_step; eauto.
  Qed.

  Lemma Good_sym e u v : EntryOk s d u -> EntryOk s d v -> Good e u v -> Good e v u.
  Proof.
    intros Ou Ov H Hc.
    destruct (conf_sym_or_doc s d Hargs Hdocset e v u Hc Ov Ou) as [[Hs|Hd] _]; auto.
  Qed.

  (* pairs of the merged set of a justified pair are justified *)
  Lemma child_good e x y tx ty : EntryOk s d x -> EntryOk s d y -> ft s x = Some tx -> ft s y = Some ty ->
    Good e x y ->
    GoodSets (excl_of s e x y) (Exp frags (named tx) (e_sub x)) (Exp frags (named ty) (e_sub y)).
  Proof.
    intros Ox Oy Hx Hy Hg u v Hu Hv Hr Hc.
    destruct (direct s e x y tx ty) eqn:Hd; [apply Hg; eapply Conf_direct; eauto|].
    destruct (merged_total_complete d x y tx ty) as [l [Hm Hall]].
    assert (Iu : In u l) by (apply Hall; tauto). assert (Iv : In v l) by (apply Hall; tauto).
    pose proof (merged_entries s d x y tx ty l Ox Oy Hx Hy Hm) as Hl. rewrite Forall_forall in Hl.
    destruct (conf_sym_or_doc s d Hargs Hdocset _ u v Hc (Hl u Iu) (Hl v Iv)) as [Hsym Hself].
    destruct (before_tricho u v l Iu Iv) as [He|[Hb|Hb]].
    - apply Hself. exact He.
    - apply Hg. eapply Conf_nested; eauto.
    - destruct Hsym as [Hs|Hdoc]; [|exact Hdoc].
      apply Hg. eapply (Conf_nested s d e x y tx ty l v u); eauto.
      unfold same_rname in *. rewrite N.eqb_sym. exact Hr.
  Qed.

  (* all pairs of the expansion of a selection set of the document are justified *)
  Lemma within_good q t : In (q, t) (doc_sets s d) -> GoodSets false (Exp frags q t) (Exp frags q t).
  Proof.
    intros Hset u v Hu Hv Hr Hc.
    pose proof (doc_sets_indoc s d q t Hset) as Hin.
    destruct (collect_total_complete frags q t) as [stc [Ec Hcc]].
    destruct (conf_sym_or_doc s d Hargs Hdocset _ u v Hc (exp_entryok q t u Hin Hu) (exp_entryok q t v Hin Hv))
      as [Hsym Hself].
    destruct (before_tricho u v (snd stc) (Hcc u Hu) (Hcc v Hv)) as [He|[Hb|Hb]].
    - apply Hself. exact He.
    - exists q, t. split; auto. exists stc, u, v. auto.
    - destruct Hsym as [Hs|Hdoc]; [|exact Hdoc].
      exists q, t. split; auto. exists stc, v, u. repeat split; auto.
      unfold same_rname in *. rewrite N.eqb_sym. exact Hr.
  Qed.

  (* ---- what makes a call of the algorithm justified ---- *)
  Definition cjust (c : call) : Prop :=
    match c with
    | CFindConflict e x y => EntryOk s d x /\ EntryOk s d y /\ Good e x y
    | CBetweenSubs e p1 _ ss1 p2 _ ss2 =>
      InDoc s d p1 ss1 /\ InDoc s d p2 ss2 /\ GoodSets e (Exp frags p1 ss1) (Exp frags p2 ss2)
    | CFieldsFrag e _ fm F => (forall u, In u fm -> EntryOk s d u) /\ GoodSets e (fun u => In u fm) (ExpF F)
    | CFragFrag e F G => GoodSets e (ExpF F) (ExpF G)
    end.

  Definition rec_sound (rec : call -> memo -> result) : Prop :=
    forall c m m', cjust c -> rec c m = RConflict m' -> DocConf s d.

  Lemma exec_step_sound rec : rec_sound rec -> rec_sound (exec_step s frags rec).
  Proof.
    intros Hrec c m m' Hj H.
    destruct c as [pexcl a b|excl p1 id1 ss1 p2 id2 ss2|excl id fm frag|excl f1 f2];
      cbn [exec_step cjust] in *.
    - (* find_conflict *)
      destruct Hj as [Oa [Ob Hg]].
      destruct (Htyped a Oa) as [ta Hta]. destruct (Htyped b Ob) as [tb Htb].
      cbv zeta in H. fold (excl_of s pexcl a b) in H.
      assert (Hdir : direct s pexcl a b ta tb = true -> DocConf s d).
      { intro Hd. apply Hg. eapply Conf_direct; eauto. }
      unfold ft in Hta, Htb. rewrite Hta, Htb, do_types_conflict_shape in H.
      destruct (negb (excl_of s pexcl a b) && _) eqn:E1.
      { apply Hdir. unfold direct. rewrite E1. reflexivity. }
      destruct (shape_conflict s ta tb) eqn:E2.
      { apply Hdir. unfold direct. rewrite E2. apply orb_true_r. }
      destruct (has_sub (e_sub a) && has_sub (e_sub b)); [|discriminate].
      eapply Hrec; [|exact H]. cbn [cjust].
      destruct Oa as [ra Ha]. destruct Ob as [rb Hb].
      split; [eapply ID_field_sub; eauto|]. split; [eapply ID_field_sub; eauto|].
      apply child_good; auto; [exists ra; exact Ha | exists rb; exact Hb].
    - (* between two sub-selection sets *)
      destruct Hj as [I1 [I2 Hg]].
      assert (EF1 : fst (fields_and_spreads p1 ss1 ([], [])) = flat p1 ss1) by apply D_flat.
      assert (EF2 : fst (fields_and_spreads p2 ss2 ([], [])) = flat p2 ss2) by apply D_flat.
      pose proof (S_sprs p1 ss1) as ES1. pose proof (S_sprs p2 ss2) as ES2.
      destruct (fields_and_spreads p1 ss1 ([], [])) as [fm1 sp1].
      destruct (fields_and_spreads p2 ss2 ([], [])) as [fm2 sp2]. cbn [fst snd] in *. subst fm1 fm2.
      assert (X1 : forall u, In u (flat p1 ss1) -> Exp frags p1 ss1 u) by (intros; left; assumption).
      assert (X2 : forall u, In u (flat p2 ss2) -> Exp frags p2 ss2 u) by (intros; left; assumption).
      apply bind_conf_inv in H as [H|[m1 [_ H]]].
      { apply between_conf_inv in H as [x [y [m0 [Hx [Hy [Hr H]]]]]].
        eapply Hrec; [|exact H]. cbn [cjust]. split; [exact (flat_entryok ss1 p1 I1 x Hx)|].
        split; [exact (flat_entryok ss2 p2 I2 y Hy)|]. apply Hg; auto. }
      apply bind_conf_inv in H as [H|[m2 [_ H]]].
      { apply for_each_conf_inv in H as [sp [m0 [Hs H]]].
        eapply Hrec; [|exact H]. cbn [cjust]. split; [exact (flat_entryok ss1 p1 I1)|].
        intros u v Hu Hv Hr. apply Hg; auto. eapply expf_in_exp; [apply ES2; exact Hs | exact Hv]. }
      apply bind_conf_inv in H as [H|[m3 [_ H]]].
      { apply for_each_conf_inv in H as [sp [m0 [Hs H]]].
        eapply Hrec; [|exact H]. cbn [cjust]. split; [exact (flat_entryok ss2 p2 I2)|].
        intros u v Hu Hv Hr.
        apply Good_sym; [eapply expf_entryok; eauto | exact (flat_entryok ss2 p2 I2 u Hu)|].
        apply Hg; auto; [eapply expf_in_exp; [apply ES1; exact Hs | exact Hv]|].
        unfold same_rname in *. rewrite N.eqb_sym. exact Hr. }
      apply for_each_conf_inv in H as [s1 [m0 [Hs1 H]]].
      apply for_each_conf_inv in H as [s2 [m4 [Hs2 H]]].
      eapply Hrec; [|exact H]. cbn [cjust]. intros u v Hu Hv Hr. apply Hg; auto.
      + eapply expf_in_exp; [apply ES1; exact Hs1 | exact Hu].
      + eapply expf_in_exp; [apply ES2; exact Hs2 | exact Hv].
    - (* fields vs fragment *)
      destruct Hj as [Ofm Hg].
      destruct (ops_has (m_fp m) (setid_code id) (fkey frag) excl); [discriminate|]. cbv zeta in H.
      destruct (find_frag frags frag) as [fd|] eqn:Ef; [|discriminate].
      destruct (setid_code id =? setid_code (IdFrag frag)); [discriminate|].
      assert (EF : fst (fields_and_spreads (fr_type fd) (fr_body fd) ([], [])) = body_flat fd) by apply D_flat.
      pose proof (S_sprs (fr_type fd) (fr_body fd)) as ES.
      destruct (fields_and_spreads (fr_type fd) (fr_body fd) ([], [])) as [fm2 sp2]. cbn [fst snd] in *. subst fm2.
      apply bind_conf_inv in H as [H|[m1 [_ H]]].
      { apply between_conf_inv in H as [x [y [m0 [Hx [Hy [Hr H]]]]]].
        eapply Hrec; [|exact H]. cbn [cjust]. split; [exact (Ofm x Hx)|].
        split; [exact (body_entryok frag fd y Ef Hy)|].
        apply Hg; auto. exact (expf_refl frag fd y Ef Hy). }
      apply for_each_conf_inv in H as [sp [m0 [Hs H]]].
      eapply Hrec; [|exact H]. cbn [cjust]. split; auto.
      intros u v Hu Hv Hr. apply Hg; auto. eapply expf_step; [exact Ef | apply ES; exact Hs | exact Hv].
    - (* fragment vs fragment *)
      destruct (f1 =? f2); [discriminate|].
      destruct (ps_has (m_ff m) (fkey f1) (fkey f2) excl); [discriminate|]. cbv zeta in H.
      destruct (find_frag frags f1) as [d1|] eqn:Ef1; [|discriminate].
      destruct (find_frag frags f2) as [d2|] eqn:Ef2; [|discriminate].
      assert (ED1 : fst (fields_and_spreads (fr_type d1) (fr_body d1) ([], [])) = body_flat d1) by apply D_flat.
      assert (ED2 : fst (fields_and_spreads (fr_type d2) (fr_body d2) ([], [])) = body_flat d2) by apply D_flat.
      pose proof (S_sprs (fr_type d1) (fr_body d1)) as ES1. pose proof (S_sprs (fr_type d2) (fr_body d2)) as ES2.
      destruct (fields_and_spreads (fr_type d1) (fr_body d1) ([], [])) as [fm1 sp1].
      destruct (fields_and_spreads (fr_type d2) (fr_body d2) ([], [])) as [fm2 sp2]. cbn [fst snd] in *. subst fm1 fm2.
      apply bind_conf_inv in H as [H|[m1 [_ H]]].
      { apply between_conf_inv in H as [x [y [m0 [Hx [Hy [Hr H]]]]]].
        eapply Hrec; [|exact H]. cbn [cjust]. split; [exact (body_entryok f1 d1 x Ef1 Hx)|].
        split; [exact (body_entryok f2 d2 y Ef2 Hy)|].
        apply Hj; auto; [exact (expf_refl f1 d1 x Ef1 Hx) | exact (expf_refl f2 d2 y Ef2 Hy)]. }
      apply bind_conf_inv in H as [H|[m2 [_ H]]].
      { apply for_each_conf_inv in H as [sp [m0 [Hs H]]].
        eapply Hrec; [|exact H]. cbn [cjust]. intros u v Hu Hv Hr. apply Hj; auto.
        eapply expf_step; [exact Ef2 | apply ES2; exact Hs | exact Hv]. }
      apply for_each_conf_inv in H as [sp [m0 [Hs H]]].
      eapply Hrec; [|exact H]. cbn [cjust]. intros u v Hu Hv Hr. apply Hj; auto.
      eapply expf_step; [exact Ef1 | apply ES1; exact Hs | exact Hu].
  Qed.

  Lemma exec_sound fuel : rec_sound (exec s frags fuel).
  Proof.
    induction fuel as [|f IH]; cbn [exec].
    - intros c m m' _ H. discriminate.
    - apply exec_step_sound. exact IH.
  Qed.
End ExecSound.

(* ---------------------------------------------------------------- the whole run *)
Section RunSound.
  Variable s : schema.
  Variable d : document.
  Notation frags := (d_frags d).

  (* the document can be typed: composite root and fragment types, every field and type condition *)
  Hypothesis Hops_t : forall o, In o (d_ops d) -> is_composite s (fst o) = true /\ typed_sels s (fst o) (snd o).
  Hypothesis Hfr_t : forall fd, In fd frags -> is_composite s (fr_type fd) = true /\ typed_sels s (fr_type fd) (fr_body fd).
  Hypothesis Hargs_ops : forall o, In o (d_ops d) -> args_ok (snd o).
  Hypothesis Hargs_frags : forall fd, In fd frags -> args_ok (fr_body fd).

  Lemma indoc_typed p ss : InDoc s d p ss -> typed_sels s p ss.
  Proof.
    induction 1 as [o Ho|fd Hf|p f sub rest _ IH|p f sub rest t _ IH Ht|p i tc sub rest _ IH
                   |p i tc sub rest _ IH|p n rest _ IH]; cbn [typed_sels] in *.
    - apply Hops_t. exact Ho.
    - apply Hfr_t. exact Hf.
    - tauto.
    - destruct IH as [[t' [Ht' Hs]] _]. rewrite Ht in Ht'. inversion Ht'; subst. exact Hs.
    - tauto.
    - tauto.
    - exact IH.
  Qed.

  Lemma entry_typed x : EntryOk s d x -> exists t, ft s x = Some t.
  Proof.
    intros [rest Hr]. apply indoc_typed in Hr. cbn [typed_sels] in Hr.
    destruct Hr as [[t [Ht _]] _]. exists t. exact Ht.
  Qed.

  Lemma indoc_checked p ss : InDoc s d p ss -> incl (checked_sets s p ss) (doc_sets s d).
  Proof.
    induction 1 as [o Ho|fd Hf|p f sub rest Hd IH|p f sub rest t Hd IH Ht|p i tc sub rest Hd IH
                   |p i tc sub rest Hd IH|p n rest Hd IH]; intros z Hz.
    - unfold doc_sets. apply in_or_app. left. apply in_flat_map. exists o. split; auto.
      unfold root_sets. rewrite (proj1 (Hops_t o Ho)). right. exact Hz.
    - unfold doc_sets. apply in_or_app. right. apply in_flat_map. exists fd. split; auto.
      unfold root_sets. rewrite (proj1 (Hfr_t fd Hf)). right. exact Hz.
    - apply IH. cbn [checked_sets]. apply in_or_app. right. exact Hz.
    - apply IH. cbn [checked_sets]. rewrite Ht. apply in_or_app. left.
      destruct sub; [destruct Hz| | |]; right; exact Hz.
    - apply IH. cbn [checked_sets]. apply in_or_app. right. exact Hz.
    - apply IH. cbn [checked_sets]. apply in_or_app. left.
      pose proof (indoc_typed _ _ Hd) as Ht. cbn [typed_sels] in Ht. rewrite (proj1 Ht). right. exact Hz.
    - apply IH. exact Hz.
  Qed.

  Lemma entry_docset x t : EntryOk s d x -> ft s x = Some t -> has_sub (e_sub x) = true ->
    In (named t, e_sub x) (doc_sets s d).
  Proof.
    intros [rest Hr] Ht Hs. apply (indoc_checked _ _ Hr). cbn [checked_sets].
    unfold ft in Ht. rewrite Ht. apply in_or_app. left.
    destruct (e_sub x); [discriminate| | |]; left; reflexivity.
  Qed.

  Notation Hargs := (entry_args s d Hargs_ops Hargs_frags).

  Lemma within_group_conf_inv fuel : forall l m m', within_group s frags fuel l m = RConflict m' ->
    exists x y m0, In x l /\ In y l /\ exec s frags fuel (CFindConflict false x y) m0 = RConflict m'.
  Proof.
    induction l as [|x r IH]; intros m m' H; cbn [within_group] in H; [discriminate|].
    apply bind_conf_inv in H as [H|[m1 [_ H]]].
    - apply for_each_conf_inv in H as [y [m0 [Hy H]]]. exists x, y, m0. cbn. auto.
    - destruct (IH _ _ H) as [a [b [m0 [Ha [Hb Hf]]]]]. exists a, b, m0. cbn. auto.
  Qed.

  Lemma spreads_bc_conf_inv fuel id fm : forall sps m m',
    spreads_bc s frags fuel id fm sps m = RConflict m' ->
    (exists sp m0, In sp sps /\ exec s frags fuel (CFieldsFrag false id fm sp) m0 = RConflict m') \/
    (exists s1 s2 m0, In s1 sps /\ In s2 sps /\ exec s frags fuel (CFragFrag false s1 s2) m0 = RConflict m').
  Proof.
    induction sps as [|sp r IH]; intros m m' H; cbn [spreads_bc] in H; [discriminate|].
    apply bind_conf_inv in H as [H|[m1 [_ H]]].
    - left. exists sp, m. cbn. auto.
    - apply bind_conf_inv in H as [H|[m2 [_ H]]].
      + apply for_each_conf_inv in H as [o [m0 [Ho H]]]. right. exists sp, o, m0. cbn. auto.
      + destruct (IH _ _ H) as [[sp' [m0 [Hs Hf]]]|[s1 [s2 [m0 [H1 [H2 Hf]]]]]].
        * left. exists sp', m0. cbn. auto.
        * right. exists s1, s2, m0. cbn. auto.
  Qed.

  Lemma within_set_sound fuel q id t m m' : In (q, t) (doc_sets s d) ->
    within_set s frags fuel q id t m = RConflict m' -> DocConf s d.
  Proof.
    intros Hset H. unfold within_set in H.
    pose proof (doc_sets_indoc s d q t Hset) as Hin.
    pose proof (within_good s d Hargs entry_docset q t Hset) as Hg.
    assert (EF : fst (fields_and_spreads q t ([], [])) = flat q t) by apply D_flat.
    pose proof (S_sprs q t) as ES.
    destruct (fields_and_spreads q t ([], [])) as [fm sps]. cbn [fst snd] in *. subst fm.
    assert (X : forall u, In u (flat q t) -> Exp frags q t u) by (intros; left; assumption).
    apply bind_conf_inv in H as [H|[m1 [_ H]]].
    - apply for_each_conf_inv in H as [[k l] [m0 [Hgr H]]]. cbn [snd] in H.
      apply within_group_conf_inv in H as [x [y [m2 [Hx [Hy H]]]]].
      apply in_groups_iff in Hgr. subst l.
      apply filter_In in Hx as [Hx Hkx]. apply filter_In in Hy as [Hy Hky].
      eapply (exec_sound s d Hargs entry_docset entry_typed); [|exact H]. cbn [cjust].
      split; [exact (flat_entryok s d t q Hin x Hx)|]. split; [exact (flat_entryok s d t q Hin y Hy)|].
      apply Hg; auto. apply N.eqb_eq in Hkx. apply N.eqb_eq in Hky. unfold same_rname. fold (rn x) (rn y).
      rewrite Hkx, Hky. apply N.eqb_refl.
    - apply spreads_bc_conf_inv in H as [[sp [m0 [Hs H]]]|[s1 [s2 [m0 [H1 [H2 H]]]]]].
      + eapply (exec_sound s d Hargs entry_docset entry_typed); [|exact H]. cbn [cjust].
        split; [exact (flat_entryok s d t q Hin)|].
        intros u v Hu Hv Hr. apply Hg; auto. eapply expf_in_exp; [apply ES; exact Hs | exact Hv].
      + eapply (exec_sound s d Hargs entry_docset entry_typed); [|exact H]. cbn [cjust].
        intros u v Hu Hv Hr. apply Hg; auto.
        * eapply expf_in_exp; [apply ES; exact H1 | exact Hu].
        * eapply expf_in_exp; [apply ES; exact H2 | exact Hv].
  Qed.

  Lemma walk_opt_sound fuel : forall ss p m m', InDoc s d p ss ->
    walk_opt s frags fuel p ss m = RConflict m' -> DocConf s d.
  Proof.
    induction ss as [|f sub IHsub rest IHrest|iid tc sub IHsub rest IHrest|n rest IHrest];
      intros p m m' Hin H; cbn [walk_opt] in H.
    - discriminate.
    - pose proof (indoc_typed _ _ Hin) as Ht. cbn [typed_sels] in Ht. destruct Ht as [[t [Hft Hts]] _].
      rewrite Hft in H.
      apply bind_conf_inv in H as [H|[m1 [_ H]]].
      + assert (Hsub : InDoc s d (named t) sub) by (eapply ID_field_sub; eauto).
        assert (Hj : bind (within_set s frags fuel (named t) (IdField (f_id f)) sub m)
                          (walk_opt s frags fuel (named t) sub) = RConflict m' -> DocConf s d).
        { intro Hb. apply bind_conf_inv in Hb as [Hb|[m2 [_ Hb]]].
          - eapply within_set_sound; [|exact Hb]. apply (indoc_checked _ _ Hin). cbn [checked_sets].
            rewrite Hft. apply in_or_app. left. destruct sub; [discriminate| | |]; left; reflexivity.
          - eapply IHsub; eauto. }
        destruct sub; [discriminate| | |]; apply Hj; exact H.
      + eapply IHrest; [eapply ID_field_rest; eauto | exact H].
    - pose proof (indoc_typed _ _ Hin) as Ht. cbn [typed_sels] in Ht. destruct Ht as [Hc [Hts _]].
      apply bind_conf_inv in H as [H|[m1 [_ H]]].
      + apply bind_conf_inv in H as [H|[m2 [_ H]]].
        * eapply within_set_sound; [|exact H]. apply (indoc_checked _ _ Hin). cbn [checked_sets].
          rewrite Hc. apply in_or_app. left. left. reflexivity.
        * eapply IHsub; [eapply ID_inline_sub; eauto | exact H].
      + eapply IHrest; [eapply ID_inline_rest; eauto | exact H].
    - eapply IHrest; [eapply ID_spread_rest; eauto | exact H].
  Qed.

  Lemma visit_set_sound fuel p id ss m m' : InDoc s d p ss -> In (p, ss) (doc_sets s d) ->
    visit_set s frags fuel p id ss m = RConflict m' -> DocConf s d.
  Proof.
    intros Hin Hset H. unfold visit_set in H. apply bind_conf_inv in H as [H|[m1 [_ H]]].
    - eapply within_set_sound; eauto.
    - eapply walk_opt_sound; eauto.
  Qed.

  (* every conflict the memoised algorithm reports is a conflict of the specification's reading *)
  Theorem memo_sound_doc ord fuel m : opt_run s d ord fuel = RConflict m -> DocConf s d.
  Proof.
    unfold opt_run. intro H. apply for_each_conf_inv in H as [[isop i] [m0 [_ H]]]. cbn [fst snd] in H.
    destruct isop.
    - destruct (nth_error (d_ops d) i) as [o|] eqn:En; [|discriminate].
      pose proof (nth_error_In _ _ En) as Ho.
      eapply visit_set_sound; [apply ID_op; exact Ho| |exact H].
      unfold doc_sets. apply in_or_app. left. apply in_flat_map. exists o. split; auto.
      unfold root_sets. rewrite (proj1 (Hops_t o Ho)). left. reflexivity.
    - destruct (nth_error frags i) as [fd|] eqn:En; [|discriminate].
      pose proof (nth_error_In _ _ En) as Hf.
      eapply visit_set_sound; [apply ID_frag; exact Hf| |exact H].
      unfold doc_sets. apply in_or_app. right. apply in_flat_map. exists fd. split; auto.
      unfold root_sets. rewrite (proj1 (Hfr_t fd Hf)). left. reflexivity.
  Qed.
End RunSound.

(* ---------------------------------------------------------------- typable documents are never VUntyped *)
Lemma vjoin_untyped a b : vjoin a b = VUntyped -> a = VUntyped \/ b = VUntyped.
Proof. destruct a, b; cbn; intro H; try discriminate; auto. Qed.

Lemma row_untyped {A S} (f : S -> A -> verdict * S) l : forall st,
  fst (row f st l) = VUntyped -> exists y st', In y l /\ fst (f st' y) = VUntyped.
Proof.
  induction l as [|y r IH]; intros st H; cbn [row] in H.
  - discriminate.
  - destruct (f st y) as [v1 st1] eqn:E1. destruct (row f st1 r) as [v2 st2] eqn:E2.
    cbn [fst] in H. apply vjoin_untyped in H as [->| ->].
    + exists y, st. rewrite E1. cbn. auto.
    + destruct (IH st1) as [y' [st' [Hy Hf]]]; [rewrite E2; reflexivity|].
      exists y', st'. cbn. auto.
Qed.

Lemma pairs_untyped {A S} (f : S -> A -> A -> verdict * S) l : forall st,
  fst (pairs f st l) = VUntyped -> exists x y st', In x l /\ In y l /\ fst (f st' x y) = VUntyped.
Proof.
  induction l as [|x r IH]; intros st H; cbn [pairs] in H.
  - discriminate.
  - destruct (row (fun st y => f st x y) st r) as [v1 st1] eqn:E1.
    destruct (pairs f st1 r) as [v2 st2] eqn:E2.
    cbn [fst] in H. apply vjoin_untyped in H as [->| ->].
    + destruct (row_untyped (fun st y => f st x y) r st) as [y [st' [Hy Hf]]]; [rewrite E1; reflexivity|].
      exists x, y, st'. cbn. auto.
    + destruct (IH st1) as [x' [y' [st' [Hx [Hy Hf]]]]]; [rewrite E2; reflexivity|].
      exists x', y', st'. cbn. auto.
Qed.

Section Typed.
  Variable s : schema.
  Variable d : document.
  Notation frags := (d_frags d).
  Hypothesis Hops_t : forall o, In o (d_ops d) -> is_composite s (fst o) = true /\ typed_sels s (fst o) (snd o).
  Hypothesis Hfr_t : forall fd, In fd frags -> is_composite s (fr_type fd) = true /\ typed_sels s (fr_type fd) (fr_body fd).

  Lemma conf_not_untyped fuel : forall vis so a b, EntryOk s d a -> EntryOk s d b ->
    fst (conf s frags (length frags) fuel vis so a b) <> VUntyped.
  Proof.
    induction fuel as [|f IH]; intros vis so a b Oa Ob; cbn [conf]; [discriminate|].
    destruct (pkey_mem (f_id (e_fld a), f_id (e_fld b), so) vis) eqn:Em.
    { unfold conf_step. rewrite Em. discriminate. }
    destruct (entry_typed s d Hops_t Hfr_t a Oa) as [ta Ha]. destruct (entry_typed s d Hops_t Hfr_t b Ob) as [tb Hb].
    rewrite (conf_step_shape s d _ vis so a b ta tb Ha Hb Em). cbv zeta.
    destruct (direct s so a b ta tb); [discriminate|].
    destruct (merged d a b ta tb) as [l|] eqn:El; [|discriminate].
    pose proof (merged_entries s d a b ta tb l Oa Ob Ha Hb El) as Hl. rewrite Forall_forall in Hl.
    intro Hc. apply pairs_untyped in Hc as [x [y [v [Hx [Hy Hf]]]]].
    destruct (same_rname x y); [|discriminate].
    exact (IH v _ x y (Hl x Hx) (Hl y Hy) Hf).
  Qed.

  Lemma check_set_not_untyped p ss : InDoc s d p ss ->
    check_set s frags (collect_fuel d) (depth_fuel d) p ss <> VUntyped.
  Proof.
    intro Hin. unfold check_set, collect_fuel.
    destruct (collect frags (length frags) p ss ([], [])) as [st|] eqn:Ec; [|discriminate].
    assert (Hst : Forall (EntryOk s d) (snd st)).
    { eapply collect_entries; [exact Hin| |exact Ec]. constructor. }
    rewrite Forall_forall in Hst.
    intro Hc. apply pairs_untyped in Hc as [x [y [v [Hx [Hy Hf]]]]].
    destruct (same_rname x y); [|discriminate].
    exact (conf_not_untyped _ v false x y (Hst x Hx) (Hst y Hy) Hf).
  Qed.

  Lemma walk_not_untyped chk : (forall p ss, InDoc s d p ss -> chk p ss <> VUntyped) ->
    forall ss p, InDoc s d p ss -> walk s chk p ss <> VUntyped.
  Proof.
    intros Hchk.
    induction ss as [|f sub IHsub rest IHrest|iid tc sub IHsub rest IHrest|n rest IHrest];
      intros p Hin; cbn [walk].
    - discriminate.
    - pose proof (indoc_typed s d Hops_t Hfr_t _ _ Hin) as Ht. cbn [typed_sels] in Ht.
      destruct Ht as [[t [Hft _]] _]. rewrite Hft.
      assert (Hs : InDoc s d (named t) sub) by (eapply ID_field_sub; eauto).
      intro Hc. apply vjoin_untyped in Hc as [Hc|Hc].
      + assert (Hj : vjoin (chk (named t) sub) (walk s chk (named t) sub) <> VUntyped).
        { intro Hj. apply vjoin_untyped in Hj as [Hj|Hj]; [exact (Hchk _ _ Hs Hj) | exact (IHsub _ Hs Hj)]. }
        destruct sub; [discriminate| | |]; exact (Hj Hc).
      + revert Hc. apply IHrest. eapply ID_field_rest; eauto.
    - pose proof (indoc_typed s d Hops_t Hfr_t _ _ Hin) as Ht. cbn [typed_sels] in Ht.
      destruct Ht as [Hc0 _]. rewrite Hc0.
      assert (Hs : InDoc s d (match tc with Some t => t | None => p end) sub) by (eapply ID_inline_sub; eauto).
      intro Hc. apply vjoin_untyped in Hc as [Hc|Hc].
      + apply vjoin_untyped in Hc as [Hc|Hc]; [exact (Hchk _ _ Hs Hc) | exact (IHsub _ Hs Hc)].
      + revert Hc. apply IHrest. eapply ID_inline_rest; eauto.
    - apply IHrest. eapply ID_spread_rest; eauto.
  Qed.

  Lemma fold_not_untyped {A} (f : A -> verdict) l :
    (forall x, In x l -> f x <> VUntyped) -> fold_right (fun x acc => vjoin (f x) acc) VNo l <> VUntyped.
  Proof.
    induction l as [|a l IH]; cbn; intros H; [discriminate|].
    intro Hc. apply vjoin_untyped in Hc as [Hc|Hc]; [exact (H a (or_introl eq_refl) Hc)|].
    revert Hc. apply IH. intros x Hx. apply H. right. exact Hx.
  Qed.

  Theorem typed_not_untyped : spec_verdict s d <> VUntyped.
  Proof.
    unfold spec_verdict.
    set (chk := check_set s frags (collect_fuel d) (depth_fuel d)).
    assert (Hroot : forall p ss, InDoc s d p ss -> is_composite s p = true -> check_root s chk p ss <> VUntyped).
    { intros p ss Hin Hc. unfold check_root. rewrite Hc. intro H. apply vjoin_untyped in H as [H|H].
      - exact (check_set_not_untyped p ss Hin H).
      - revert H. apply walk_not_untyped; auto. intros; apply check_set_not_untyped; auto. }
    intro Hc. apply vjoin_untyped in Hc as [Hc|Hc]; revert Hc.
    - apply (fold_not_untyped (fun o => check_root s chk (fst o) (snd o))).
      intros o Ho. apply Hroot; [apply ID_op; exact Ho | apply Hops_t; exact Ho].
    - apply (fold_not_untyped (fun fd => check_root s chk (fr_type fd) (fr_body fd))).
      intros fd Hf. apply Hroot; [apply ID_frag; exact Hf | apply Hfr_t; exact Hf].
  Qed.
End Typed.

(* ---------------------------------------------------------------- soundness and equivalence *)
Section Equiv.
  Variable s : schema.
  Variable d : document.
  Hypothesis Hops_t : forall o, In o (d_ops d) -> is_composite s (fst o) = true /\ typed_sels s (fst o) (snd o).
  Hypothesis Hfr_t : forall fd, In fd (d_frags d) ->
    is_composite s (fr_type fd) = true /\ typed_sels s (fr_type fd) (fr_body fd).
  Hypothesis Hargs_ops : forall o, In o (d_ops d) -> args_ok (snd o).
  Hypothesis Hargs_frags : forall fd, In fd (d_frags d) -> args_ok (fr_body fd).
  Hypothesis Hfids : nodupb (doc_fids d) = true.

  (* a conflict reported by the memoised algorithm is a conflict of the specification function *)
  Theorem memo_sound ord fuel : opt_conflicts s d ord fuel = Some true -> spec_conflicts s d = true.
  Proof.
    unfold opt_conflicts. destruct (opt_run s d ord fuel) as [|m|m] eqn:Er; try discriminate. intros _.
    apply spec_complete.
    - apply unique_ids_identify. exact Hfids.
    - eapply memo_sound_doc; eauto.
    - apply typed_not_untyped; auto.
  Qed.

  Hypothesis Hids : nodupb (doc_all_ids d) = true.
  Hypothesis Hnames : NoDup (map fr_name (d_frags d)).

  (* the memoised algorithm and the specification function agree on every typable document *)
  Theorem memo_equiv ord fuel : covers_all d ord -> (opt_fuel d <= fuel)%nat ->
    opt_conflicts s d ord fuel = Some (spec_conflicts s d).
  Proof.
    intros Hcov Hfuel.
    destruct (spec_conflicts s d) eqn:Es.
    - apply memo_never_hides; auto.
    - pose proof (opt_terminates s d ord fuel Hfuel) as Ht.
      destruct (opt_conflicts s d ord fuel) as [[|]|] eqn:Eo; auto.
      + rewrite (memo_sound ord fuel Eo) in Es. discriminate.
      + unfold opt_conflicts in Eo. destruct (opt_run s d ord fuel); try discriminate. contradiction.
  Qed.
End Equiv.
